------------------------------ MODULE Deribit ------------------------------
(***************************************************************************)
(* Deribit option market of demeter/deribit/market.py (properties C15, C16; *)
(* the non-negativity / reject-intact clauses are shared with C03 / C04).   *)
(*                                                                         *)
(* Functional core: a state record st, a TOTAL Step(st, ev) returning       *)
(*   [st, out ("ok" | "reject"), cause, fills, fee, acts]                   *)
(* and the property operators Inv_* (state) / Act_* (st, ev, result).       *)
(*                                                                         *)
(* st = [wallet, cash, pos, book, info, px, t, hour, open, bar, n, ntr, nref, done, eqBar, *)
(*       ledger, settled, epochs, soldOut, setAt]                           *)
(*   pos[i]  = [amt, avgBuy, buyAmt, avgSell, sellAmt]  (amt = 0: not held) *)
(*   book[i] = [listed, live, asks, bids, mark, und]; a side is a sequence of*)
(*             levels [p, s] in book order (asks ascending, bids descending)*)
(*   info[i] = [kind ("C" | "P"), K, exp]   exp in minutes                  *)
(*   hour    = the bar is on the hour (settlement runs, code: _is_open())   *)
(*   open    = hour and a book row exists (trading allowed, code: is_open)  *)
(*   ledger / settled / epochs / soldOut / setAt are history variables      *)
(* All amounts are Num rationals.                                           *)
(***************************************************************************)
EXTENDS Num, FiniteSets

CONSTANTS
  DEV_SellUnheldKeepsCredit,       \* defect #13a: sell of an unheld instrument raises, cash credited / bids depleted stay
  DEV_OversellAccepted,            \* defect #13b: selling more than held is accepted (position deleted, cash kept)
  DEV_BuyDepletesBeforeCashCheck,  \* defect #13c: buy rejected for lack of cash leaves the asks depleted
  DEV_LimitRejected,               \* defect #14 : limit orders raise TypeError (float -= Decimal)
  DEV_UsdLimitRejected,            \* defect (fixed): a limit price given in USD raises TypeError (Decimal / float underlying)
  DEV_SettleStrictlyAfterExpiry    \* seeded (not in the code): ts > expiry instead of ts >= expiry

TradeFeeRate    == QOf(3, 10000)
DeliveryFeeRate == QOf(15, 100000)
MaxFeeRate      == QOf(1, 8)
FeeDec          == 6              \* ETH: min_fee_decimal = -6
TradeDec        == 0              \* ETH: min_trade_decimal = 0
MinAmount       == One            \* 1e0
LimitTol        == QOf(1, 1000)   \* _find_available_orders

R6(x)        == QRound(x, FeeDec, "HALF_UP")       \* helper.round_decimal(x, -6)
RoundStep(a) == QRound(a, TradeDec, "HALF_UP")     \* helper.round_decimal(a, 0)
TradeFee(amt, prem)   == R6(QMin(QMul(TradeFeeRate, amt), QMul(MaxFeeRate, prem)))
DeliverFee(amt, prem) == R6(QMin(QMul(DeliveryFeeRate, amt), QMul(MaxFeeRate, prem)))

ZeroPos == [amt |-> Zero, avgBuy |-> Zero, buyAmt |-> Zero, avgSell |-> Zero, sellAmt |-> Zero]
NoRow   == [listed |-> FALSE, live |-> FALSE, asks |-> <<>>, bids |-> <<>>, mark |-> Zero, und |-> Zero]
DustRel == QOf(1, 100000)          \* Asset.sub: |balance - amount| / balance < 1e-5 snaps the wallet balance to zero

-----------------------------------------------------------------------------
(* sequences of levels / fills *)
RECURSIVE SumSizes(_)
SumSizes(lv) == IF lv = <<>> THEN Zero ELSE QAdd(Head(lv).s, SumSizes(Tail(lv)))
RECURSIVE SumAmt(_)
SumAmt(fl) == IF fl = <<>> THEN Zero ELSE QAdd(Head(fl).a, SumAmt(Tail(fl)))
RECURSIVE Premium(_)
Premium(fl) == IF fl = <<>> THEN Zero ELSE QAdd(QMul(Head(fl).p, Head(fl).a), Premium(Tail(fl)))
AvgPrice(fl) == IF SumAmt(fl) = Zero THEN Zero ELSE QDiv(Premium(fl), SumAmt(fl))   \* Order.get_average_price

(* market order: best level outward, each level at most its displayed size (Appendix A.6) *)
RECURSIVE FillMkt(_, _)
FillMkt(lv, rem) ==
  IF rem = Zero \/ lv = <<>> THEN <<>>
  ELSE LET h == Head(lv) IN
       IF h.s = Zero THEN FillMkt(Tail(lv), rem)
       ELSE LET tk == QMin(h.s, rem) IN <<[p |-> h.p, a |-> tk]>> \o FillMkt(Tail(lv), QSub(rem, tk))

(* visible side after the fills: every fill is taken from the first level with its price *)
TakenAt(fl, p) == SumAmt(SelectSeq(fl, LAMBDA f : f.p = p))
FirstWithPrice(lv, k) == \A j \in 1 .. (k - 1) : lv[j].p # lv[k].p
Deplete(lv, fl) == [k \in DOMAIN lv |-> IF FirstWithPrice(lv, k) THEN [p |-> lv[k].p, s |-> QSub(lv[k].s, TakenAt(fl, lv[k].p))]
                                        ELSE lv[k]]

(* levels an order may touch.  ev.mode: "mkt" | "lim" (ev.px = price in the market's token) | "limusd" (ev.px = price in USD: the limit
   price is ev.px / underlying price of the instrument's row) | "cap" (ev.px = multiple k of mark) *)
IsLim(ev) == ev.mode \in {"lim", "limusd"}
LimTok(ev, und) == IF ev.mode = "limusd" /\ und # Zero THEN QDiv(ev.px, und) ELSE ev.px
InCap(isBuy, p, mark, k) == IF isBuy THEN QLt(p, QMul(k, mark)) ELSE QGt(p, QDiv(mark, k))
NearPrice(p, px) == QLt(QMul(QSub(One, LimitTol), px), p) /\ QLt(p, QMul(QAdd(One, LimitTol), px))
Eligible(lv, mark, und, ev, isBuy) ==
  CASE ev.mode = "mkt" -> lv
    [] ev.mode = "cap" -> SelectSeq(lv, LAMBDA l : InCap(isBuy, l.p, mark, ev.px))
    [] IsLim(ev) -> LET m == SelectSeq(lv, LAMBDA l : NearPrice(l.p, LimTok(ev, und))) IN IF m = <<>> THEN m ELSE <<m[1]>>

Fills(lv, mark, und, ev, isBuy, amt) ==
  LET el == Eligible(lv, mark, und, ev, isBuy) IN
  IF IsLim(ev) THEN <<[p |-> el[1].p, a |-> amt]>> ELSE FillMkt(el, amt)

-----------------------------------------------------------------------------
(* derived views *)
Held(st, i)   == st.pos[i].amt
Instrs(st)    == DOMAIN st.pos
PosValue(st)  == LET I == Instrs(st)
                     v(i) == IF st.book[i].listed THEN QMul(st.pos[i].amt, R6(st.book[i].mark)) ELSE Zero
                     RECURSIVE Sum(_)
                     Sum(S) == IF S = {} THEN Zero ELSE LET x == CHOOSE y \in S : TRUE IN QAdd(v(x), Sum(S \ {x}))
                 IN  Sum(I)
Equity(st)    == QAdd(st.cash, PosValue(st))          \* get_market_balance().net_value on an hour bar
(* account net value in the market's quote token (ETH): broker wallet + option account; times the ETH price = account quote *)
NV(st)        == QAdd(st.wallet, Equity(st))
NetValue(st, pxEth) == QMul(NV(st), pxEth)

-----------------------------------------------------------------------------
(* results *)
Res(st2, out, cause, fl, fee, acts) == [st |-> st2, out |-> out, cause |-> cause, fills |-> fl, fee |-> fee, acts |-> acts]
Tick(st)          == [st EXCEPT !.n = @ + 1]
TickEv(st, ev)    == IF ev.op \in {"buy", "sell"} THEN [Tick(st) EXCEPT !.ntr = @ + 1] ELSE Tick(st)
Reject(st, cause) == Res(Tick(st), "reject", cause, <<>>, Zero, <<>>)

(* deposit moves wallet -> option cash; the wallet side is Asset.sub (overdraft refused, 1e-5 relative dust snapped to zero) *)
WalletSnaps(w, amt) == w # Zero /\ QLt(QAbs(QDiv(QSub(w, amt), w)), DustRel)
Deposit(st, ev) ==
  LET w == st.wallet IN
  IF ~WalletSnaps(w, ev.amt) /\ QLt(w, ev.amt) THEN Reject(st, "wallet")
  ELSE Res([Tick(st) EXCEPT !.wallet = IF WalletSnaps(w, ev.amt) THEN Zero ELSE QSub(w, ev.amt),
                            !.cash = QAdd(@, ev.amt), !.ledger = QAdd(@, ev.amt)], "ok", "", <<>>, Zero, <<>>)

Withdraw(st, ev) ==
  IF QLt(st.cash, ev.amt) THEN Reject(st, "balance")
  ELSE Res([Tick(st) EXCEPT !.wallet = QAdd(@, ev.amt), !.cash = QSub(@, ev.amt), !.ledger = QSub(@, ev.amt)], "ok", "", <<>>, Zero, <<>>)

Buy(st, ev) ==
  LET i   == ev.i
      row == st.book[i]
      amt == RoundStep(ev.amt)
      el  == Eligible(row.asks, row.mark, row.und, ev, TRUE)
  IN
  IF ~st.open THEN Reject(st, "closed")
  ELSE IF ~row.listed THEN Reject(st, "unlisted")
  ELSE IF ~row.live THEN Reject(st, "inactive")
  ELSE IF QLt(ev.amt, MinAmount) THEN Reject(st, "min_amount")
  ELSE IF IsLim(ev) /\ el = <<>> THEN Reject(st, "no_level")
  ELSE IF QGt(amt, SumSizes(el)) THEN Reject(st, "depth")
  ELSE IF ev.mode = "lim" /\ DEV_LimitRejected THEN Reject(st, "DEV_type_error")
  ELSE IF ev.mode = "limusd" /\ DEV_UsdLimitRejected THEN Reject(st, "DEV_type_error")
  ELSE
    LET fl   == Fills(row.asks, row.mark, row.und, ev, TRUE, amt)
        prem == Premium(fl)
        fee  == TradeFee(amt, prem)
        cost == QAdd(prem, fee)
        bk2  == [st.book EXCEPT ![i].asks = Deplete(row.asks, fl)]
        p    == st.pos[i]
        avg  == AvgPrice(fl)
        p2   == IF p.amt = Zero
                THEN [amt |-> amt, avgBuy |-> avg, buyAmt |-> amt, avgSell |-> Zero, sellAmt |-> Zero]
                ELSE [p EXCEPT !.amt = QAdd(@, amt), !.buyAmt = QAdd(@, amt),
                               !.avgBuy = AvgPrice(<<[p |-> avg, a |-> amt], [p |-> p.avgBuy, a |-> p.buyAmt]>>)]
    IN
    IF QGt(cost, st.cash)
    THEN IF DEV_BuyDepletesBeforeCashCheck THEN Res([Tick(st) EXCEPT !.book = bk2], "reject", "cash", <<>>, Zero, <<>>)
         ELSE Reject(st, "cash")
    ELSE Res([Tick(st) EXCEPT !.cash = QSub(@, cost), !.ledger = QSub(@, cost), !.book = bk2, !.pos[i] = p2,
                              !.epochs[i] = IF p.amt = Zero THEN @ + 1 ELSE @],
             "ok", "", fl, fee, <<>>)

Sell(st, ev) ==
  LET i   == ev.i
      row == st.book[i]
      amt == RoundStep(ev.amt)
      el  == Eligible(row.bids, row.mark, row.und, ev, FALSE)
  IN
  IF ~st.open THEN Reject(st, "closed")
  ELSE IF ~row.listed THEN Reject(st, "unlisted")
  ELSE IF ~row.live THEN Reject(st, "inactive")
  ELSE IF QLt(ev.amt, MinAmount) THEN Reject(st, "min_amount")
  ELSE IF IsLim(ev) /\ el = <<>> THEN Reject(st, "no_level")
  ELSE IF QGt(amt, SumSizes(el)) THEN Reject(st, "depth")
  ELSE IF ev.mode = "lim" /\ DEV_LimitRejected THEN Reject(st, "DEV_type_error")
  ELSE IF ev.mode = "limusd" /\ DEV_UsdLimitRejected THEN Reject(st, "DEV_type_error")
  ELSE
    LET fl   == Fills(row.bids, row.mark, row.und, ev, FALSE, amt)
        prem == Premium(fl)
        fee  == TradeFee(amt, prem)
        gain == QSub(prem, fee)
        bk2  == [st.book EXCEPT ![i].bids = Deplete(row.bids, fl)]
        p    == st.pos[i]
        avg  == AvgPrice(fl)
        left == QSub(p.amt, amt)
        p2   == IF QLe(left, Zero) THEN ZeroPos
                ELSE [p EXCEPT !.amt = left, !.sellAmt = QAdd(@, amt),
                               !.avgSell = AvgPrice(<<[p |-> avg, a |-> amt], [p |-> p.avgSell, a |-> p.sellAmt]>>)]
        done == Res([Tick(st) EXCEPT !.cash = QAdd(@, gain), !.ledger = QAdd(@, gain), !.book = bk2, !.pos[i] = p2,
                                     !.soldOut[i] = IF QLe(left, Zero) THEN @ + 1 ELSE @],
                    "ok", "", fl, fee, <<>>)
    IN
    IF p.amt = Zero
    THEN IF DEV_SellUnheldKeepsCredit
         THEN Res([Tick(st) EXCEPT !.cash = QAdd(@, gain), !.book = bk2], "reject", "not_held", <<>>, Zero, <<>>)
         ELSE Reject(st, "not_held")
    ELSE IF QGt(amt, p.amt)
    THEN IF DEV_OversellAccepted THEN done ELSE Reject(st, "not_held")
    ELSE done

(* new bar within the C15 scenario: the visible book is reloaded, nothing else changes *)
Refresh(st, ev) ==
  Res([Tick(st) EXCEPT !.book = ev.book, !.open = ev.open, !.hour = ev.hour, !.nref = @ + 1], "ok", "", <<>>, Zero, <<>>)

-----------------------------------------------------------------------------
(* settlement (update phase of a bar), C16 *)
Expired(st, i) == IF DEV_SettleStrictlyAfterExpiry THEN st.t > st.info[i].exp ELSE st.t >= st.info[i].exp
Due(st, i)     == st.hour /\ st.pos[i].amt # Zero /\ Expired(st, i)

SettleUnd(st, i)  == IF st.book[i].listed THEN st.book[i].und ELSE st.px
SettleMark(st, i) == IF st.book[i].listed THEN R6(st.book[i].mark) ELSE Zero
InMoney(st, i)    == LET S == SettleUnd(st, i)  K == st.info[i].K IN
                     IF st.info[i].kind = "C" THEN QLt(K, S) ELSE QGt(K, S)
Payoff(st, i)     == LET S == SettleUnd(st, i)  K == st.info[i].K IN
                     R6(QDiv(QMul(st.pos[i].amt, QAbs(QSub(S, K))), S))
SettleFee(st, i)  == DeliverFee(st.pos[i].amt, QMul(st.pos[i].amt, SettleMark(st, i)))
Delivers(st, i)   == InMoney(st, i) /\ QGt(Payoff(st, i), SettleFee(st, i))
Income(st, i)     == IF Delivers(st, i) THEN QSub(Payoff(st, i), SettleFee(st, i)) ELSE Zero

SeqAny(S) == LET RECURSIVE F(_)
                 F(T) == IF T = {} THEN <<>> ELSE LET x == CHOOSE y \in T : TRUE IN <<x>> \o F(T \ {x})
             IN  F(S)
RECURSIVE SumIncome(_, _)
SumIncome(st, S) == IF S = {} THEN Zero ELSE LET x == CHOOSE y \in S : TRUE IN QAdd(Income(st, x), SumIncome(st, S \ {x}))

(* Update phase of the current bar, then the next bar's status is loaded (ev.next) or the run ends *)
Update(st) ==
  LET due  == {i \in Instrs(st) : Due(st, i)}
      inc  == SumIncome(st, due)
      dl   == SelectSeq(SeqAny(due), LAMBDA i : Delivers(st, i))
      acts == [k \in DOMAIN dl |-> [kind |-> "deliver", i |-> dl[k], amt |-> st.pos[dl[k]].amt, payoff |-> Payoff(st, dl[k]),
                                     fee |-> SettleFee(st, dl[k]), income |-> Income(st, dl[k])]]
              \o [k \in DOMAIN SeqAny(due) |-> [kind |-> "expired", i |-> SeqAny(due)[k], amt |-> st.pos[SeqAny(due)[k]].amt,
                                                   payoff |-> Zero, fee |-> Zero, income |-> Zero]]
      st2  == [st EXCEPT !.cash = QAdd(@, inc), !.ledger = QAdd(@, inc),
                         !.pos = [i \in Instrs(st) |-> IF i \in due THEN ZeroPos ELSE st.pos[i]],
                         !.settled = [i \in Instrs(st) |-> IF i \in due THEN @[i] + 1 ELSE @[i]],
                         !.setAt = [i \in Instrs(st) |-> IF i \in due THEN st.t ELSE @[i]]]
  IN  [st |-> st2, acts |-> acts]

EndBar(st, ev) ==
  LET u  == Update(st)
      s2 == u.st
      nx == ev.next
      s2b == [Tick(s2) EXCEPT !.eqBar = Equity(s2)]   \* option-account equity the bar's account row reports (x wallet, x price: NetValue)
      s3 == IF nx.last THEN [s2b EXCEPT !.done = TRUE]
            ELSE [s2b EXCEPT !.bar = @ + 1, !.t = nx.t, !.hour = nx.hour, !.open = nx.open, !.px = nx.px, !.book = nx.book]
  IN  Res(s3, "ok", "", <<>>, Zero, u.acts)

Step(st, ev) ==
  CASE ev.op = "deposit"  -> Deposit(st, ev)
    [] ev.op = "withdraw" -> Withdraw(st, ev)
    [] ev.op = "buy"      -> LET r == Buy(st, ev) IN [r EXCEPT !.st.ntr = @ + 1]
    [] ev.op = "sell"     -> LET r == Sell(st, ev) IN [r EXCEPT !.st.ntr = @ + 1]
    [] ev.op = "refresh"  -> Refresh(st, ev)
    [] ev.op = "endbar"   -> EndBar(st, ev)

-----------------------------------------------------------------------------
(* C15: state invariants *)
NonNegSide(lv) == \A k \in DOMAIN lv : QGe(lv[k].s, Zero)
Inv_C03_NonNeg(st) ==
  /\ QGe(st.cash, Zero) /\ QGe(st.wallet, Zero)
  /\ \A i \in Instrs(st) : /\ QGe(st.pos[i].amt, Zero) /\ QGe(st.pos[i].buyAmt, Zero) /\ QGe(st.pos[i].sellAmt, Zero)
                           /\ NonNegSide(st.book[i].asks) /\ NonNegSide(st.book[i].bids)
(* cash is exactly the sum of the accepted flows (deposits, withdrawals, premiums, fees, settlement income) *)
Inv_C15_CashLedger(st) == st.cash = st.ledger
(* a held position has been bought and never sold beyond what was bought *)
Inv_C15_PositionBalance(st) ==
  \A i \in Instrs(st) : st.pos[i].amt # Zero => st.pos[i].amt = QSub(st.pos[i].buyAmt, st.pos[i].sellAmt)

(* C15: action properties; r = Step(st, ev) *)
IsTrade(ev) == ev.op \in {"buy", "sell"}
SideOf(st, ev) == IF ev.op = "buy" THEN st.book[ev.i].asks ELSE st.book[ev.i].bids
NonZero(lv) == SelectSeq(lv, LAMBDA l : l.s # Zero)

(* market order: the fills are a prefix of the non-empty levels in book order, every level but the last one taken whole *)
Act_C15_BestFirst(st, ev, r) ==
  (IsTrade(ev) /\ r.out = "ok" /\ ev.mode \in {"mkt", "cap"}) =>
     LET nz == NonZero(Eligible(SideOf(st, ev), st.book[ev.i].mark, st.book[ev.i].und, ev, ev.op = "buy"))  fl == r.fills IN
     /\ Len(fl) <= Len(nz)
     /\ \A k \in DOMAIN fl : /\ fl[k].p = nz[k].p
                             /\ (k < Len(fl) => fl[k].a = nz[k].s)
Act_C15_WithinDisplayed(st, ev, r) ==
  (IsTrade(ev) /\ r.out = "ok") =>
     \A k \in DOMAIN r.fills : /\ QGt(r.fills[k].a, Zero)
                               /\ \E j \in DOMAIN SideOf(st, ev) : SideOf(st, ev)[j].p = r.fills[k].p /\ QLe(r.fills[k].a, SideOf(st, ev)[j].s)
Act_C15_FillsRequested(st, ev, r) ==
  (IsTrade(ev) /\ r.out = "ok") => /\ SumAmt(r.fills) = RoundStep(ev.amt) /\ QGe(ev.amt, MinAmount)
Act_C15_CostAndFee(st, ev, r) ==
  (IsTrade(ev) /\ r.out = "ok") =>
     LET prem == Premium(r.fills)  amt == RoundStep(ev.amt) IN
     /\ r.fee = R6(QMin(QMul(QOf(3, 10000), amt), QMul(QOf(1, 8), prem)))
     /\ r.st.cash = IF ev.op = "buy" THEN QSub(st.cash, QAdd(prem, r.fee)) ELSE QAdd(st.cash, QSub(prem, r.fee))
Act_C15_LimitOnlyThatLevel(st, ev, r) ==
  (IsTrade(ev) /\ IsLim(ev)) =>
     /\ r.out = "ok" => Len(r.fills) = 1 /\ NearPrice(r.fills[1].p, LimTok(ev, st.book[ev.i].und))
     /\ LET el == Eligible(SideOf(st, ev), st.book[ev.i].mark, st.book[ev.i].und, ev, ev.op = "buy")  amt == RoundStep(ev.amt) IN
        (  st.open /\ st.book[ev.i].listed /\ st.book[ev.i].live /\ QGe(ev.amt, MinAmount) /\ el # <<>> /\ QLe(amt, el[1].s)
         /\ (ev.op = "buy" => QLe(QAdd(QMul(el[1].p, amt), TradeFee(amt, QMul(el[1].p, amt))), st.cash))
         /\ (ev.op = "sell" => QLe(amt, Held(st, ev.i))) ) => r.out = "ok"
Act_C15_CapExcludesWorse(st, ev, r) ==
  (IsTrade(ev) /\ ev.mode = "cap" /\ r.out = "ok") =>
     \A k \in DOMAIN r.fills : InCap(ev.op = "buy", r.fills[k].p, st.book[ev.i].mark, ev.px)
Act_C15_BookShrinksByFills(st, ev, r) ==
  (IsTrade(ev) /\ r.out = "ok") =>
     LET b == st.book[ev.i]  b2 == r.st.book[ev.i]  fl == r.fills IN
     /\ \A j \in Instrs(st) \ {ev.i} : r.st.book[j] = st.book[j]
     /\ b2.mark = b.mark /\ b2.und = b.und /\ b2.listed = b.listed /\ b2.live = b.live
     /\ IF ev.op = "buy" THEN b2.bids = b.bids /\ b2.asks = Deplete(b.asks, fl) ELSE b2.asks = b.asks /\ b2.bids = Deplete(b.bids, fl)
     /\ SumSizes(SideOf(r.st, ev)) = QSub(SumSizes(SideOf(st, ev)), SumAmt(fl))
Act_C15_PositionExact(st, ev, r) ==
  (IsTrade(ev) /\ r.out = "ok") =>
     LET p == st.pos[ev.i]  q == r.st.pos[ev.i]  amt == RoundStep(ev.amt)  prem == Premium(r.fills) IN
     /\ \A j \in Instrs(st) \ {ev.i} : r.st.pos[j] = st.pos[j]
     /\ IF ev.op = "buy"
        THEN /\ q.amt = QAdd(p.amt, amt)
             /\ q.buyAmt = QAdd(IF p.amt = Zero THEN Zero ELSE p.buyAmt, amt)
             /\ QMul(q.avgBuy, q.buyAmt) = QAdd(IF p.amt = Zero THEN Zero ELSE QMul(p.avgBuy, p.buyAmt), prem)   \* size-weighted
        ELSE /\ q.amt = QSub(p.amt, amt)
             /\ q.amt # Zero => /\ q.sellAmt = QAdd(p.sellAmt, amt)
                                /\ QMul(q.avgSell, q.sellAmt) = QAdd(QMul(p.avgSell, p.sellAmt), prem)
                                /\ q.avgBuy = p.avgBuy /\ q.buyAmt = p.buyAmt
Act_C15_NoSellUnheld(st, ev, r) ==
  (ev.op = "sell" /\ r.out = "ok") => QLe(RoundStep(ev.amt), Held(st, ev.i)) /\ QGt(Held(st, ev.i), Zero)
Act_C15_EquityMove(st, ev, r) ==      \* a trade moves equity by the fee and the distance of the fills from mark only
  (IsTrade(ev) /\ r.out = "ok") =>
     LET m == R6(st.book[ev.i].mark)  prem == Premium(r.fills)  amt == SumAmt(r.fills) IN
     Equity(r.st) = IF ev.op = "buy" THEN QSub(QAdd(Equity(st), QMul(amt, m)), QAdd(prem, r.fee))
                    ELSE QSub(QAdd(Equity(st), QSub(prem, r.fee)), QMul(amt, m))
(* C03 (owned by C03, carried here): with the market data frozen no call raises the account value by more than the wallet
   dust of the balance it debits; books are sane (bids <= mark <= asks) in every universe *)
SaneSide(lv, m, isAsk) == \A k \in DOMAIN lv : IF isAsk THEN QGe(lv[k].p, m) ELSE QLe(lv[k].p, m)
SaneBooks(st) == \A i \in Instrs(st) : st.book[i].listed =>
                    SaneSide(st.book[i].asks, R6(st.book[i].mark), TRUE) /\ SaneSide(st.book[i].bids, R6(st.book[i].mark), FALSE)
Act_C03_NoValueCreation(st, ev, r) ==
  (ev.op \in {"deposit", "withdraw", "buy", "sell"} /\ SaneBooks(st)) =>
     LET dust == IF ev.op = "deposit" THEN QMul(DustRel, st.wallet) ELSE Zero IN
     /\ QLe(NV(r.st), QAdd(NV(st), dust))
     /\ (ev.op \in {"deposit", "withdraw"} /\ r.out = "ok" /\ ~(ev.op = "deposit" /\ WalletSnaps(st.wallet, ev.amt))) => NV(r.st) = NV(st)
     /\ r.out = "reject" => NV(r.st) = NV(st)
Act_C03_NoOverRedemption(st, ev, r) ==
  (ev.op = "sell" /\ r.out = "ok") => QLe(SumAmt(r.fills), Held(st, ev.i))
(* C04 (owned by C04, carried here): a rejected call changes nothing but the step counter *)
Act_C04_RejectIntact(st, ev, r) == r.out = "reject" => r.st = TickEv(st, ev) /\ r.fills = <<>> /\ r.acts = <<>>

-----------------------------------------------------------------------------
(* C16 *)
Act_C16_SettleExactlyWhenDue(st, ev, r) ==
  ev.op = "endbar" =>
     \A i \in Instrs(st) :
        LET due == st.hour /\ st.t >= st.info[i].exp /\ st.pos[i].amt # Zero IN
        /\ due => r.st.pos[i] = ZeroPos /\ r.st.settled[i] = st.settled[i] + 1
        /\ ~due => r.st.pos[i] = st.pos[i] /\ r.st.settled[i] = st.settled[i]
        /\ Cardinality({k \in DOMAIN r.acts : r.acts[k].kind = "expired" /\ r.acts[k].i = i}) = (IF due THEN 1 ELSE 0)
        /\ Cardinality({k \in DOMAIN r.acts : r.acts[k].kind = "deliver" /\ r.acts[k].i = i}) <= (IF due THEN 1 ELSE 0)
Act_C16_Payoff(st, ev, r) ==
  ev.op = "endbar" =>
     LET due == {i \in Instrs(st) : st.hour /\ st.t >= st.info[i].exp /\ st.pos[i].amt # Zero}
         pay(i) == LET S == SettleUnd(st, i)  K == st.info[i].K  a == st.pos[i].amt
                       itm == IF st.info[i].kind = "C" THEN QGt(S, K) ELSE QLt(S, K)
                       po  == R6(QDiv(QMul(a, QAbs(QSub(S, K))), S))
                       fee == R6(QMin(QMul(QOf(15, 100000), a), QMul(QOf(1, 8), QMul(a, SettleMark(st, i)))))
                   IN  IF itm /\ QGt(po, fee) THEN [d |-> TRUE, po |-> po, fee |-> fee] ELSE [d |-> FALSE, po |-> Zero, fee |-> Zero]
         RECURSIVE Tot(_)
         Tot(S) == IF S = {} THEN Zero ELSE LET x == CHOOSE y \in S : TRUE IN QAdd(QSub(pay(x).po, pay(x).fee), Tot(S \ {x}))
     IN  /\ r.st.cash = QAdd(st.cash, Tot(due))
         /\ \A i \in due : pay(i).d <=> \E k \in DOMAIN r.acts : /\ r.acts[k].kind = "deliver" /\ r.acts[k].i = i
                                                                 /\ r.acts[k].payoff = pay(i).po /\ r.acts[k].fee = pay(i).fee
                                                                 /\ r.acts[k].income = QSub(pay(i).po, pay(i).fee)
                                                                 /\ r.acts[k].amt = st.pos[i].amt
Act_C16_TradeOnlyWhenOpen(st, ev, r) == (IsTrade(ev) /\ r.out = "ok") => st.open /\ st.hour
Act_C16_OnlyEndBarSettles(st, ev, r) == ev.op # "endbar" => r.st.settled = st.settled /\ r.acts = <<>>
(* history invariants *)
Inv_C16_NoSettleBeforeExpiry(st) == \A i \in Instrs(st) : st.settled[i] > 0 => st.setAt[i] >= st.info[i].exp
Inv_C16_SettledOnce(st) == \A i \in Instrs(st) : /\ st.settled[i] <= st.epochs[i]
                                                 /\ st.settled[i] = st.epochs[i] - (IF st.pos[i].amt # Zero THEN 1 ELSE 0) - st.soldOut[i]
=============================================================================

-------------------------------- MODULE UniLp --------------------------------
(***************************************************************************)
(* Uniswap v3 liquidity provision as simulated by demeter/uniswap/market.py   *)
(* (UniLpMarket) and demeter/uniswap/core.py (V3CoreLib.update_fee).          *)
(*                                                                           *)
(* state st = [pool : [d0, d1, fee (rate, Q), sp (tick spacing), zq (token0   *)
(*                    is the quote token)],                                   *)
(*             w   : <<token0 balance, token1 balance>> (wallet, Q),          *)
(*             pos : [Ranges -> [on, liq (natural), p0, p1 (pending, Q),      *)
(*                    out (lent to another market: transfer_position_out)]],  *)
(*             prev: previous bar's close tick, row: index into Rows, k]      *)
(* Rows = table of bar rows [open, close (ticks), liq (pool liquidity,        *)
(*        natural), in0, in1 (bar volume in wei)]; endbar(next) chooses the   *)
(*        next bar's row; a bar's price is the previous bar's close tick.     *)
(* Events: add / remove / collect / buy / sell (in base/quote terms, as the   *)
(* API takes them), update (second status refresh + fee accrual of the bar:   *)
(* what follows in the bar runs in Strategy.after_bar, after the accrual) and *)
(* endbar (the update if it has not happened yet, then the next row).         *)
(***************************************************************************)
EXTENDS LiqMath, Wallet, FiniteSets

CONSTANTS Ranges,   \* set of <<lo, hi>> tick pairs (multiples of the spacing, lo < hi)
          Rows      \* sequence of bar rows

CONSTANTS DEV_LastTickOverwrittenByRefresh2,   \* #2  a write in the bar makes the fee path start at this bar's close
          DEV_ShareWithoutOwnLiquidity,        \* mutant: share = own / pool instead of own / (pool + own)
          DEV_LateWriteKeepsLastTick           \* mutation class: a write made AFTER the bar's update (in after_bar) leaves the market's
                                               \* "written" flag set into the next bar, whose first refresh then does not advance the
                                               \* start of the fee path (it stays two closes back)

AllAmt == <<2, <<>>, <<1>>>>      \* amount argument None
AllLiq == <<0 - 1>>               \* liquidity argument None (not a natural)

RECURSIVE QSumSet(_, _)
QSumSet(S, f) == IF S = {} THEN Zero ELSE LET x == CHOOSE y \in S : TRUE IN QAdd(f[x], QSumSet(S \ {x}, f))

-----------------------------------------------------------------------------
Row(st) == Rows[st.row]
PriceTick(st) == st.ptick
Price(st) == TickPrice(PriceTick(st), st.pool.d0, st.pool.d1, st.pool.zq)        \* base-unit price: quote per base
SqrtNow(st) == SqrtX96OfPrice(Price(st), st.pool.d0, st.pool.d1, st.pool.zq)

(* base/quote <-> token0/token1 *)
Pair(st, base, quote) == IF st.pool.zq THEN <<quote, base>> ELSE <<base, quote>>        \* -> <<token0, token1>>
BaseOf(st, x01) == IF st.pool.zq THEN x01[2] ELSE x01[1]
QuoteOf(st, x01) == IF st.pool.zq THEN x01[1] ELSE x01[2]

OnRanges(st) == {r \in Ranges : st.pos[r].on}
(* a position lent to another market (a Squeeth vault holds it as collateral) stays in the pool - it keeps its share of the pool's
   liquidity and earns its fees - but it is valued by the market that holds it, not by this one *)
HeldRanges(st) == {r \in OnRanges(st) : ~st.pos[r].out}
RECURSIVE NSum(_, _)
NSum(S, f) == IF S = {} THEN <<>> ELSE LET x == CHOOSE y \in S : TRUE IN NAdd(f[x], NSum(S \ {x}, f))
OwnLiq(st) == NSum(OnRanges(st), [r \in Ranges |-> st.pos[r].liq])

PosAmounts(st, r, liq) == Amounts(SqrtNow(st), SqrtRatioAtTick(r[1]), SqrtRatioAtTick(r[2]), liq, st.pool.d0, st.pool.d1)

(* value in quote token of a pair of token0/token1 amounts at the bar's pool price *)
ValueOf(st, x01) == QAdd(QMul(BaseOf(st, x01), Price(st)), QuoteOf(st, x01))
PositionValue(st) ==   \* liquidity plus uncollected fees of all positions
  QSumSet(HeldRanges(st), [r \in Ranges |-> IF st.pos[r].on
      THEN LET a == PosAmounts(st, r, st.pos[r].liq) IN ValueOf(st, <<QAdd(a[1], st.pos[r].p0), QAdd(a[2], st.pos[r].p1)>>)
      ELSE Zero])
WalletValue(st) == ValueOf(st, st.w)
NetValue(st) == QAdd(WalletValue(st), PositionValue(st))

-----------------------------------------------------------------------------
(* derived, user-visible figures (get_position_status, get_market_balance), defined from the positions and the bar's price *)
View(st) ==
  [pos |-> [r \in OnRanges(st) |->
              LET a == PosAmounts(st, r, st.pos[r].liq) IN
              [a0 |-> a[1], a1 |-> a[2], lv |-> ValueOf(st, a), pv |-> ValueOf(st, <<st.pos[r].p0, st.pos[r].p1>>),
               v |-> ValueOf(st, <<QAdd(a[1], st.pos[r].p0), QAdd(a[2], st.pos[r].p1)>>)]],
   net |-> PositionValue(st),
   base_unc  |-> QSumSet(HeldRanges(st), [r \in Ranges |-> BaseOf(st, <<st.pos[r].p0, st.pos[r].p1>>)]),
   quote_unc |-> QSumSet(HeldRanges(st), [r \in Ranges |-> QuoteOf(st, <<st.pos[r].p0, st.pos[r].p1>>)]),
   price |-> Price(st)]

(* estimate helpers (estimate_amount / estimate_liquidity), relationally: the token amounts are worth `value` at the pool price and
   are in the proportion the range needs, both to 0.1% *)
EstimateOK(st, r, value, a0, a1, liq) ==
  LET sA == SqrtRatioAtTick(r[1])  sB == SqrtRatioAtTick(r[2])
      L  == Liquidity(SqrtNow(st), sA, sB, Wei(a0, st.pool.d0), Wei(a1, st.pool.d1))
      u  == Amounts(SqrtNow(st), sA, sB, L, st.pool.d0, st.pool.d1)
      tol == QOf(1, 1000)
  IN /\ QWithin(ValueOf(st, <<a0, a1>>), value, tol, Zero)
     /\ QWithin(ValueOf(st, u), value, QOf(2, 1000), Zero)         \* what the position would actually hold
     /\ QWithin(QN(liq), QN(L), tol, Zero)

(* bar 0: the price is that of the row's open tick; the code's fee path of bar 0 starts at its own close (no previous bar) *)
InitSt(pool, w0, row0) == [pool |-> pool, w |-> w0,
                           pos |-> [r \in Ranges |-> [on |-> FALSE, liq |-> <<>>, p0 |-> Zero, p1 |-> Zero, out |-> FALSE]],
                           ptick |-> Rows[row0].open, prev |-> Rows[row0].close, row |-> row0, k |-> 0, wrote |-> FALSE, bar |-> 0,
                           upd |-> FALSE, late |-> FALSE,
                           lastTick |-> Rows[row0].close]     \* the market's own start of the fee path (= prev unless a DEV switch is on)

Ok(st2, acts, ret) == [st |-> st2, out |-> "ok", acts |-> acts, ret |-> ret]
Reject(st)         == [st |-> st, out |-> "reject", acts |-> <<>>, ret |-> <<>>]

(* add_liquidity_by_tick(lo, hi, base_max | None, quote_max | None) *)
Add(st, r, bmax, qmax) ==
  LET b    == IF bmax = AllAmt THEN BaseOf(st, st.w) ELSE bmax
      q    == IF qmax = AllAmt THEN QuoteOf(st, st.w) ELSE qmax
      off  == Pair(st, b, q)
      sA   == SqrtRatioAtTick(r[1])   sB == SqrtRatioAtTick(r[2])
      L    == Liquidity(SqrtNow(st), sA, sB, Wei(off[1], st.pool.d0), Wei(off[2], st.pool.d1))
      used == Amounts(SqrtNow(st), sA, sB, L, st.pool.d0, st.pool.d1)
      s0   == WSub(st.w[1], used[1])
      s1   == WSub(st.w[2], used[2])
  IN IF ~s0.ok \/ ~s1.ok THEN Reject(st)
     ELSE LET s2 == [st EXCEPT !.w = <<s0.bal, s1.bal>>, !.pos[r].on = TRUE, !.pos[r].liq = NAdd(@, L), !.wrote = TRUE, !.late = st.upd]
          IN Ok(s2, <<[type |-> "add", range |-> r, base |-> BaseOf(st, used), quote |-> QuoteOf(st, used), liq |-> L]>>,
                [base |-> BaseOf(st, used), quote |-> QuoteOf(st, used), liq |-> L])

(* a position that holds nothing any more is dropped by collect_fee(remove_dry_pool = TRUE) *)
Dry(p) == p.liq = <<>> /\ p.p0 = Zero /\ p.p1 = Zero
DropIfDry(st, r) == IF Dry(st.pos[r]) THEN [st EXCEPT !.pos[r].on = FALSE] ELSE st

(* collect_fee(position, max0 | None, max1 | None) *)
CollectCore(st, r, m0, m1) ==
  LET p  == st.pos[r]
      c0 == IF m0 # AllAmt /\ QLt(m0, p.p0) THEN m0 ELSE p.p0
      c1 == IF m1 # AllAmt /\ QLt(m1, p.p1) THEN m1 ELSE p.p1
      s2 == [st EXCEPT !.pos[r].p0 = QSub(@, c0), !.pos[r].p1 = QSub(@, c1), !.w = <<WAdd(st.w[1], c0), WAdd(st.w[2], c1)>>,
                       !.wrote = TRUE, !.late = st.upd]
  IN [st |-> DropIfDry(s2, r), got |-> <<c0, c1>>]
Collect(st, r, m0, m1) ==
  IF ~st.pos[r].on \/ (m0 # AllAmt /\ QLt(m0, Zero)) \/ (m1 # AllAmt /\ QLt(m1, Zero)) THEN Reject(st)
  ELSE LET c == CollectCore(st, r, m0, m1) IN
       Ok(c.st, <<[type |-> "collect", range |-> r, base |-> BaseOf(st, c.got), quote |-> QuoteOf(st, c.got)]>>,
          [base |-> BaseOf(st, c.got), quote |-> QuoteOf(st, c.got)])

(* remove_liquidity(position, liquidity | None, collect) *)
Remove(st, r, liq, collect) ==
  IF ~st.pos[r].on THEN Reject(st)
  ELSE LET p   == st.pos[r]
           d   == IF liq # AllLiq /\ NCmp(liq, p.liq) < 0 THEN liq ELSE p.liq         \* never more than is held
           got == IF d = <<>> THEN <<Zero, Zero>> ELSE PosAmounts(st, r, d)
           s1  == [st EXCEPT !.pos[r].liq = NSub(@, d), !.pos[r].p0 = QAdd(@, got[1]), !.pos[r].p1 = QAdd(@, got[2]), !.wrote = TRUE, !.late = st.upd]
           a1  == [type |-> "remove", range |-> r, base |-> BaseOf(st, got), quote |-> QuoteOf(st, got), liq |-> d]
       IN IF ~collect THEN Ok(s1, <<a1>>, [base |-> BaseOf(st, got), quote |-> QuoteOf(st, got)])
          ELSE LET c == CollectCore(s1, r, AllAmt, AllAmt) IN
               Ok(c.st, <<a1, [type |-> "collect", range |-> r, base |-> BaseOf(st, c.got), quote |-> QuoteOf(st, c.got)]>>,
                  [base |-> BaseOf(st, c.got), quote |-> QuoteOf(st, c.got)])

(* transfer_position_out / transfer_position_in: the position is lent to / returned by another market; no action record *)
Lend(st, r)   == IF ~st.pos[r].on \/ st.pos[r].out THEN Reject(st) ELSE Ok([st EXCEPT !.pos[r].out = TRUE], <<>>, <<>>)
Unlend(st, r) == IF ~st.pos[r].on \/ ~st.pos[r].out THEN Reject(st) ELSE Ok([st EXCEPT !.pos[r].out = FALSE], <<>>, <<>>)

(* buy(base amount) / sell(base amount) at the pool price; the fee is charged on the token paid in *)
SetBQ(st, b, q) == [st EXCEPT !.w = Pair(st, b, q)]
Buy(st, amt) ==
  IF amt = Zero THEN Ok(st, <<>>, [fee |-> Zero, quote |-> Zero, base |-> Zero])
  ELSE LET pay == QDiv(QMul(amt, Price(st)), QSub(One, st.pool.fee))
           fee == QMul(pay, st.pool.fee)
           got == QMul(QSub(pay, fee), QDiv(One, Price(st)))
           ws  == WSub(QuoteOf(st, st.w), pay)
       IN IF ~ws.ok THEN Reject(st)
          ELSE Ok(SetBQ(st, WAdd(BaseOf(st, st.w), got), ws.bal),
                  <<[type |-> "buy", base |-> got, quote |-> pay, fee |-> fee]>>, [fee |-> fee, quote |-> pay, base |-> got])
Sell(st, amt) ==
  IF amt = Zero THEN Ok(st, <<>>, [fee |-> Zero, quote |-> Zero, base |-> Zero])
  ELSE LET fee == QMul(amt, st.pool.fee)
           got == QMul(QSub(amt, fee), Price(st))
           ws  == WSub(BaseOf(st, st.w), amt)
       IN IF ~ws.ok THEN Reject(st)
          ELSE Ok(SetBQ(st, ws.bal, WAdd(QuoteOf(st, st.w), got)),
                  <<[type |-> "sell", base |-> amt, quote |-> got, fee |-> fee]>>, [fee |-> fee, quote |-> got, base |-> amt])

-----------------------------------------------------------------------------
(* Per-bar fee (property C08): fraction of the tick path [a, b] inside [lo, hi) *)
IMin(a, b) == IF a < b THEN a ELSE b
IMax(a, b) == IF a > b THEN a ELSE b
Frac(a, b, lo, hi) ==
  IF a = b THEN (IF lo <= b /\ b < hi THEN One ELSE Zero)
  ELSE LET mn == IMin(a, b)  mx == IMax(a, b)
           ov == IMax(0, IMin(mx, hi) - IMax(mn, lo))
       IN QOf(ov, mx - mn)

(* the class test of V3CoreLib.update_fee: both ends inside -> 1, both on the same side -> 0, otherwise the overlap *)
InCls(t, lo, hi) == IF t >= hi THEN 1 ELSE IF t < lo THEN -1 ELSE 0
FracCode(a, b, lo, hi) ==
  IF InCls(a, lo, hi) = InCls(b, lo, hi) THEN (IF InCls(b, lo, hi) = 0 THEN One ELSE Zero) ELSE Frac(a, b, lo, hi)

FeeOf(st, r, tok, start) ==
  LET row   == Row(st)
      vol   == QDiv(QN(IF tok = 0 THEN row.in0 ELSE row.in1), QN(NTen(IF tok = 0 THEN st.pool.d0 ELSE st.pool.d1)))
      denom == IF DEV_ShareWithoutOwnLiquidity THEN row.liq ELSE NAdd(row.liq, OwnLiq(st))
      share == QMk(1, st.pos[r].liq, denom)
  IN QMul(QMul(QMul(vol, st.pool.fee), FracCode(start, row.close, r[1], r[2])), share)

BarFees(st) ==
  LET start == IF DEV_LastTickOverwrittenByRefresh2 /\ st.wrote THEN Row(st).close ELSE st.lastTick IN
  [r \in Ranges |-> IF st.pos[r].on /\ st.pos[r].liq # <<>>
                    THEN <<FeeOf(st, r, 0, start), FeeOf(st, r, 1, start)>> ELSE <<Zero, Zero>>]
Accrue(st, fees) == [st EXCEPT !.pos = [r \in Ranges |-> [st.pos[r] EXCEPT !.p0 = QAdd(@, fees[r][1]), !.p1 = QAdd(@, fees[r][2])]]]

(* the bar's market update, once per bar; operations after it (Strategy.after_bar) see the accrued fees and do not take part in this
   bar's share any more *)
Update(st) ==
  IF st.upd THEN Reject(st)
  ELSE LET fees == BarFees(st) IN [st |-> [Accrue(st, fees) EXCEPT !.upd = TRUE], out |-> "ok", acts |-> <<>>, ret |-> fees]

EndBar(st, next) ==
  LET fees  == IF st.upd THEN [r \in Ranges |-> <<Zero, Zero>>] ELSE BarFees(st)
      s1    == Accrue(st, fees)
      s2    == [s1 EXCEPT !.prev = Row(st).close,
                          !.lastTick = IF DEV_LateWriteKeepsLastTick /\ st.late THEN st.lastTick ELSE Row(st).close,
                          !.ptick = Row(st).close, !.row = next, !.wrote = FALSE, !.bar = @ + 1, !.upd = FALSE, !.late = FALSE]
  IN [st |-> s2, out |-> "ok", acts |-> <<>>, ret |-> fees]

Step(st, ev) ==
  LET r == CASE ev.op = "add"     -> Add(st, ev.r, ev.b, ev.q)
             [] ev.op = "remove"  -> Remove(st, ev.r, ev.liq, ev.collect)
             [] ev.op = "collect" -> Collect(st, ev.r, ev.m0, ev.m1)
             [] ev.op = "buy"     -> Buy(st, ev.a)
             [] ev.op = "sell"    -> Sell(st, ev.a)
             [] ev.op = "lend"    -> Lend(st, ev.r)
             [] ev.op = "unlend"  -> Unlend(st, ev.r)
             [] ev.op = "update"  -> Update(st)
             [] ev.op = "endbar"  -> EndBar(st, ev.next)
  IN [r EXCEPT !.st.k = st.k + 1]

-----------------------------------------------------------------------------
(* C08: what a bar's fee must be, stated from the property (not from the code's class test) *)
Act_C08(st, ev, res) ==
  ((ev.op = "endbar" \/ ev.op = "update") /\ ~st.upd) =>
    \A r \in Ranges : st.pos[r].on /\ st.pos[r].liq # <<>> =>
      LET row == Row(st)
          f(tok) == QSub(IF tok = 0 THEN res.st.pos[r].p0 ELSE res.st.pos[r].p1, IF tok = 0 THEN st.pos[r].p0 ELSE st.pos[r].p1)
          vol(tok) == QDiv(QN(IF tok = 0 THEN row.in0 ELSE row.in1), QN(NTen(IF tok = 0 THEN st.pool.d0 ELSE st.pool.d1)))
          single(tok) == QMul(QMul(QMul(vol(tok), st.pool.fee), Frac(st.prev, row.close, r[1], r[2])),
                              QMk(1, st.pos[r].liq, NAdd(row.liq, st.pos[r].liq)))
      IN \A tok \in {0, 1} :
           /\ QGe(f(tok), Zero)                                                            \* never negative
           /\ (Frac(st.prev, row.close, r[1], r[2]) = Zero => f(tok) = Zero)               \* nothing when out of range all bar
           /\ QLe(f(tok), single(tok))                                                     \* never more than the single-position share
           /\ (Cardinality({x \in OnRanges(st) : st.pos[x].liq # <<>>}) = 1 => f(tok) = single(tok))

(* C03 (Uniswap leg): frozen market.  add/remove/collect conserve net value up to wallet dust and the liquidity floor; buy/sell lose
   exactly the fee; nothing negative *)
Inv_NonNeg(st) == QGe(st.w[1], Zero) /\ QGe(st.w[2], Zero) /\ \A r \in Ranges : QGe(st.pos[r].p0, Zero) /\ QGe(st.pos[r].p1, Zero)
Act_C03(st, ev, res) ==
  LET dv == QSub(NetValue(res.st), NetValue(st))
      dust == QMul(QOf(1, 50000), QAdd(One, WalletValue(st)))
  IN /\ (ev.op \in {"add", "remove", "collect"} => QLe(QAbs(dv), dust))
     /\ (ev.op = "buy" /\ res.out = "ok" /\ ev.a # Zero => QLe(QAbs(QAdd(dv, res.ret.fee)), dust))
     /\ (ev.op = "sell" /\ res.out = "ok" /\ ev.a # Zero => QLe(QAbs(QAdd(dv, QMul(res.ret.fee, Price(st)))), dust))
Act_C04(st, ev, res) == res.out = "reject" => res.st.w = st.w /\ res.st.pos = st.pos /\ res.acts = <<>>
=============================================================================

------------------------------- MODULE GmxV1 -------------------------------
(***************************************************************************)
(* GMX v1 (GLP) as simulated by demeter/gmx/market.py (GmxMarket).          *)
(*                                                                         *)
(* All numbers are exact rationals of Num.tla.  Pool quantities keep the    *)
(* on-chain scaling of the data rows: prices and aum are 10^30-scaled       *)
(* integers, glp supply / usdg amounts are 10^18-scaled integers, token      *)
(* amounts of the API are human units (1 = 10^decimals base units).         *)
(*                                                                         *)
(* Two descriptions of the arithmetic live here:                            *)
(*  - *Vault / *Contract operators: the GMX contracts (Vault, VaultUtils,   *)
(*    GlpManager) with EVERY integer round-down step;                       *)
(*  - *Sim operators: the simulator, which keeps the round-down steps of    *)
(*    aumInUsdg, the USDG amount, the USDG mint after fees and the GLP mint *)
(*    / USDG burn, but carries exact fractions through the fee rebate, the  *)
(*    fee collection and the redemption.                                    *)
(* TLC proves on the bounded universe that the two stay within the bounds   *)
(* property C17 allows (fee within one basis point, amounts within the      *)
(* value of the omitted floors) and that a round trip never profits.        *)
(***************************************************************************)
EXTENDS Num

CONSTANTS DEV_OverRedeem,        \* defect #15: sell_glp accepts more GLP than is held
          DEV_NoDecimalsAdjust,  \* defect: USDG amounts not converted between token decimals and USDG's 18
          DEV_MutateBeforeDebit  \* defect #15 (C04): buy_glp adds the GLP before the wallet debit can fail

Tokens == {"weth", "usdc", "wavax", "mim"}
Dec(t) == CASE t = "usdc" -> 6 [] OTHER -> 18
USDG_DEC == 18
GLP_DEC  == 18

E(k)  == QN(NTen(k))
BASE  == QI(25)       \* mint_burn_fee_basis_points
TAX   == QI(60)       \* tax_basis_points
BPS   == QI(10000)
MAXFEE == QI(85)
Tol30 == QDiv(One, E(30))

(* a pool row (one bar of market data):
   [glp, aum, usdg, interval, glpPrice : Q,
    price, tusdg : [Tokens -> Q],  weight : [Tokens -> Nat] ]                                  *)

TotalWeight(row) == row.weight["weth"] + row.weight["usdc"] + row.weight["wavax"] + row.weight["mim"]

-----------------------------------------------------------------------------
(* floors.  Near(x): the exact argument lies within 1e-30 (relative) below an integer, where a       *)
(* 35-digit Decimal division may round onto the integer (DESIGN 2.9: either result is accepted).      *)
Fl(x)   == QFloor(x)
Near(x) == ~QIsInt(x) /\ QLe(QSub(QCeil(x), x), QMul(QAbs(x), Tol30))

-----------------------------------------------------------------------------
(* Vault.getTargetUsdgAmount / VaultUtils.getFeeBasisPoints *)
TargetExact(row, t) == QDiv(QMul(QI(row.weight[t]), row.usdg), QI(TotalWeight(row)))
TargetVault(row, t) == Fl(TargetExact(row, t))

NextAmount(init, d, inc) == IF inc THEN QAdd(init, d) ELSE IF QGt(d, init) THEN Zero ELSE QSub(init, d)
Diff(a, b) == QAbs(QSub(a, b))

(* which branch of the rule fires: "target0" | "improve" | "worsen" | "worsen_capped" *)
FeeBranch(row, t, d, inc) ==
  LET init == row.tusdg[t]
      tgt  == TargetExact(row, t)
      id   == Diff(init, tgt)
      nd   == Diff(NextAmount(init, d, inc), tgt)
  IN  IF tgt = Zero THEN "target0"
      ELSE IF QLt(nd, id) THEN "improve"
      ELSE IF QGt(QDiv(QAdd(id, nd), QI(2)), tgt) THEN "worsen_capped" ELSE "worsen"

(* the contract: integer arithmetic throughout *)
FeeVault(row, t, d, inc) ==
  LET init == row.tusdg[t]
      tgt  == TargetVault(row, t)
      id   == Diff(init, tgt)
      nd   == Diff(NextAmount(init, d, inc), tgt)
  IN  IF tgt = Zero THEN BASE
      ELSE IF QLt(nd, id)
           THEN LET reb == Fl(QDiv(QMul(TAX, id), tgt)) IN IF QGt(reb, BASE) THEN Zero ELSE QSub(BASE, reb)
           ELSE LET a0  == Fl(QDiv(QAdd(id, nd), QI(2)))
                    avg == IF QGt(a0, tgt) THEN tgt ELSE a0
                IN  QAdd(BASE, Fl(QDiv(QMul(TAX, avg), tgt)))

(* the simulator: exact target, exact rebate, exact average, integer tax *)
FeeSim(row, t, d, inc) ==
  LET init == row.tusdg[t]
      tgt  == TargetExact(row, t)
      id   == Diff(init, tgt)
      nd   == Diff(NextAmount(init, d, inc), tgt)
  IN  IF tgt = Zero THEN BASE
      ELSE IF QLt(nd, id)
           THEN LET reb == QDiv(QMul(TAX, id), tgt) IN IF QGt(reb, BASE) THEN Zero ELSE QSub(BASE, reb)
           ELSE LET a0  == QDiv(QAdd(id, nd), QI(2))
                    avg == IF QGt(a0, tgt) THEN tgt ELSE a0
                IN  QAdd(BASE, Fl(QDiv(QMul(TAX, avg), tgt)))

(* both at once (shared sub-terms; this is what Step evaluates) *)
Fees(row, t, d, inc) ==
  LET init == row.tusdg[t]
      tx   == TargetExact(row, t)
      tv   == Fl(tx)
      nx   == NextAmount(init, d, inc)
      idx  == Diff(init, tx)
      ndx  == Diff(nx, tx)
      idv  == Diff(init, tv)
      ndv  == Diff(nx, tv)
      ax0  == QDiv(QAdd(idx, ndx), QI(2))
      av0  == Fl(QDiv(QAdd(idv, ndv), QI(2)))
  IN  [sim    |-> IF tx = Zero THEN BASE
                  ELSE IF QLt(ndx, idx)
                       THEN LET reb == QDiv(QMul(TAX, idx), tx) IN IF QGt(reb, BASE) THEN Zero ELSE QSub(BASE, reb)
                       ELSE QAdd(BASE, Fl(QDiv(QMul(TAX, IF QGt(ax0, tx) THEN tx ELSE ax0), tx))),
       vault  |-> IF tv = Zero THEN BASE
                  ELSE IF QLt(ndv, idv)
                       THEN LET reb == Fl(QDiv(QMul(TAX, idv), tv)) IN IF QGt(reb, BASE) THEN Zero ELSE QSub(BASE, reb)
                       ELSE QAdd(BASE, Fl(QDiv(QMul(TAX, IF QGt(av0, tv) THEN tv ELSE av0), tv))),
       branch |-> IF tx = Zero THEN "target0" ELSE IF QLt(ndx, idx) THEN "improve"
                  ELSE IF QGt(ax0, tx) THEN "worsen_capped" ELSE "worsen"]

-----------------------------------------------------------------------------
(* decimals: Vault.adjustForDecimals(amount, tokenDiv, tokenMul) = amount * 10^dec(mul) / 10^dec(div) *)
AdjUp(t)   == IF DEV_NoDecimalsAdjust THEN One ELSE E(USDG_DEC - Dec(t))       \* token units -> USDG units
AdjDown(t) == IF DEV_NoDecimalsAdjust THEN One ELSE QDiv(One, E(USDG_DEC - Dec(t)))

AumInUsdg(row) == Fl(QDiv(row.aum, E(12)))
Wei(t, amt)    == QMul(amt, E(Dec(t)))

(* USDG value (18 decimals) of tokenWei base units: floor(tokenWei * price / 10^30), then decimals *)
UsdgX(row, t, tokenWei) == QDiv(QMul(tokenWei, row.price[t]), E(30))
UsdgOf(row, t, tokenWei) == Fl(QMul(Fl(UsdgX(row, t, tokenWei)), AdjUp(t)))

(* GlpManager._addLiquidity + Vault.buyUSDG with the fee f (basis points), simulator floors *)
MintAtFee(row, t, amt, f) ==
  LET afterH == QMul(amt, QDiv(QSub(BPS, f), BPS))                 \* _collect_swap_fee: no floor
      usdg2  == UsdgOf(row, t, Wei(t, afterH))
      x      == QDiv(QMul(usdg2, row.glp), AumInUsdg(row))
  IN  [wei |-> Fl(x), band |-> Near(x) \/ Near(UsdgX(row, t, Wei(t, afterH)))]

MintSim(row, t, amt) ==
  LET usdg1 == UsdgOf(row, t, Wei(t, amt))
      fs    == Fees(row, t, usdg1, TRUE)
      m     == MintAtFee(row, t, amt, fs.sim)
  IN  [glp  |-> QDiv(m.wei, E(GLP_DEC)), wei |-> m.wei, fee |-> fs.sim, feeVault |-> fs.vault, usdg |-> usdg1,
       band |-> m.band \/ Near(UsdgX(row, t, Wei(t, amt))), branch |-> fs.branch]

(* the contract: floors in _collectSwapFees too *)
MintContractWei(row, t, amt) ==
  LET usdg1 == UsdgOf(row, t, Wei(t, amt))
      fv    == FeeVault(row, t, usdg1, TRUE)
      after == Fl(QDiv(QMul(Wei(t, amt), QSub(BPS, fv)), BPS))
  IN  Fl(QDiv(QMul(UsdgOf(row, t, after), row.glp), AumInUsdg(row)))

(* GlpManager._removeLiquidity + Vault.sellUSDG *)
BurnUsdgX(row, g) == QMul(QDiv(QMul(g, E(GLP_DEC)), row.glp), AumInUsdg(row))
BurnUsdg(row, g)  == Fl(BurnUsdgX(row, g))

RedeemAtFee(row, t, usdg, f) ==          \* human units of token t; the simulator has no floor here
  LET red == QMul(QDiv(QMul(usdg, E(30)), row.price[t]), AdjDown(t))       \* token base units (fractional)
  IN  QDiv(QMul(red, QDiv(QSub(BPS, f), BPS)), E(Dec(t)))

RedeemSim(row, t, g) ==
  LET usdg == BurnUsdg(row, g)
      fs   == Fees(row, t, usdg, FALSE)
  IN  [out |-> RedeemAtFee(row, t, usdg, fs.sim), fee |-> fs.sim, feeVault |-> fs.vault, usdg |-> usdg,
       band |-> Near(BurnUsdgX(row, g)), branch |-> fs.branch]

RedeemContract(row, t, g) ==            \* human units, every floor of the contract
  LET usdg == BurnUsdg(row, g)
      fv   == FeeVault(row, t, usdg, FALSE)
      red  == Fl(QMul(Fl(QDiv(QMul(usdg, E(30)), row.price[t])), AdjDown(t)))
  IN  QDiv(Fl(QDiv(QMul(red, QSub(BPS, fv)), BPS)), E(Dec(t)))

-----------------------------------------------------------------------------
(* the broker wallet: Asset.sub with its dust snap (demeter/broker/_typing.py) *)
Dust == QDiv(One, E(5))
WalletSub(bal, amt) ==
  LET base == IF bal # Zero THEN bal ELSE amt IN
  IF base = Zero THEN [ok |-> TRUE, bal |-> bal]
  ELSE IF QLt(QAbs(QDiv(QSub(bal, amt), base)), Dust) THEN [ok |-> TRUE, bal |-> Zero]
  ELSE IF QLt(QSub(bal, amt), Zero) THEN [ok |-> FALSE, bal |-> bal]
  ELSE [ok |-> TRUE, bal |-> QSub(bal, amt)]

-----------------------------------------------------------------------------
(* state: [row : row id (0 = no bar yet), w : [Tokens -> Q], glp, reward : Q, n : step counter]
   events: [op |-> "bar", row |-> id] | [op |-> "buy", tok, amt] | [op |-> "sell", tok, all, amt]  (all = TRUE: the whole holding, the API's default / falsy amount)
   RowOf(id) maps ids to pool rows (parameter of Step).                                                       *)
InitSt(w0) == [row |-> 0, w |-> w0, glp |-> Zero, reward |-> Zero, n |-> 0]

NetValue(st, row) == QAdd(QMul(st.glp, row.glpPrice), QDiv(QMul(st.reward, row.price["wavax"]), E(30)))

NoRes == [ret |-> Zero, fee |-> Zero, feeVault |-> Zero, usdg |-> Zero, band |-> FALSE, branch |-> "-", rt |-> Zero]

Step(st, ev, RowOf(_)) ==
  CASE ev.op = "bar" ->
         (* end of the current bar: GmxMarket.update() accrues interval*60*glp/supply; then the next row is set *)
         LET rw == IF st.row = 0 THEN Zero
                   ELSE LET r == RowOf(st.row) IN QDiv(QMul(QMul(r.interval, QI(60)), st.glp), r.glp)
         IN  [st |-> [st EXCEPT !.row = ev.row, !.reward = QAdd(@, rw), !.n = @ + 1], out |-> "ok",
              res |-> [NoRes EXCEPT !.ret = rw]]
    [] ev.op \in {"buy", "sell"} /\ ev.tok \notin Tokens ->       \* a token the pool data has no columns for: rejected
         [st |-> [st EXCEPT !.n = @ + 1], out |-> "reject", res |-> NoRes]
    [] ev.op = "buy" /\ ev.tok \in Tokens ->
         LET row == RowOf(st.row)
             m   == MintSim(row, ev.tok, ev.amt)
             ws  == WalletSub(st.w[ev.tok], ev.amt)
             res == [ret |-> m.glp, fee |-> m.fee, feeVault |-> m.feeVault, usdg |-> m.usdg, band |-> m.band, branch |-> m.branch,
                     rt |-> RedeemSim(row, ev.tok, m.glp).out]      \* what selling the minted GLP back at once would pay
         IN  IF ws.ok
             THEN [st |-> [st EXCEPT !.w[ev.tok] = ws.bal, !.glp = QAdd(@, m.glp), !.n = @ + 1], out |-> "ok", res |-> res]
             ELSE [st |-> [st EXCEPT !.glp = IF DEV_MutateBeforeDebit THEN QAdd(@, m.glp) ELSE @, !.n = @ + 1],
                   out |-> "reject", res |-> NoRes]
    [] ev.op = "sell" /\ ev.tok \in Tokens ->
         LET row == RowOf(st.row)
             g   == IF ev.all THEN st.glp ELSE ev.amt
         IN  IF QGt(g, st.glp) /\ ~DEV_OverRedeem
             THEN [st |-> [st EXCEPT !.n = @ + 1], out |-> "reject", res |-> NoRes]
             ELSE LET r == RedeemSim(row, ev.tok, g)
                  IN  [st |-> [st EXCEPT !.w[ev.tok] = QAdd(@, r.out), !.glp = QSub(@, g), !.n = @ + 1], out |-> "ok",
                       res |-> [ret |-> r.out, fee |-> r.fee, feeVault |-> r.feeVault, usdg |-> r.usdg, band |-> r.band, branch |-> r.branch,
                                rt |-> Zero]]

(* account views (C01 / C03): the wallet valued at the bar's USD prices plus the market's net value; the GMX markets quote in
   USD, an account quoted in another token (here weth) converts both legs by the USD price in that token                        *)
UsdPrice(row, t) == QDiv(row.price[t], E(30))
WalletValueUsd(st, row) == QAdd(QAdd(QMul(st.w["weth"], UsdPrice(row, "weth")), QMul(st.w["usdc"], UsdPrice(row, "usdc"))),
                                QAdd(QMul(st.w["wavax"], UsdPrice(row, "wavax")), QMul(st.w["mim"], UsdPrice(row, "mim"))))
AccountUsd(st, row) == QAdd(WalletValueUsd(st, row), NetValue(st, row))
AccountView(st, row) ==
  LET a  == WalletValueUsd(st, row)
      m  == NetValue(st, row)
      pw == UsdPrice(row, "weth")
  IN  [usd  |-> [asset |-> a, market |-> m, net |-> QAdd(a, m)],
       weth |-> [asset |-> QDiv(a, pw), market |-> QDiv(m, pw), net |-> QDiv(QAdd(a, m), pw)]]

(* C03: the wallet rounding dust a call may gain: 1e-5 of each wallet balance it debits *)
DustAllowUsd(st, ev, row) == IF ev.op = "buy" /\ ev.tok \in Tokens THEN QMul(Dust, QMul(st.w[ev.tok], UsdPrice(row, ev.tok))) ELSE Zero

(* action records (BuyGlpAction / SellGlpAction) of an accepted event, as functions of event and result:
     buy : [type |-> "gmx_buy_glp",  token |-> tok, token_amount |-> amt,        mint_amount |-> ret * 10^18]
     sell: [type |-> "gmx_sell_glp", token |-> tok, glp_amount   |-> g (amount), token_out   |-> ret]          *)

-----------------------------------------------------------------------------
(* Property C17, v1 clauses, as predicates over one pool row *)
FeeInBounds(f) == QGe(f, Zero) /\ QLe(f, MAXFEE)
FeeNearVault(f, fv) == QLe(QAbs(QSub(f, fv)), One)

(* buy with amt of t, immediately redeem the minted GLP for t in the same bar *)
RoundTripOut(row, t, amt) == RedeemSim(row, t, MintSim(row, t, amt).glp).out
RoundTripHolds(row, t, amt) == QLe(RoundTripOut(row, t, amt), amt)

(* minted value per share: mint * aumInUsdg / supply lies in [usd * (1 - 85bp) - slack, usd], usd in USDG units *)
MintValueHolds(row, t, amt) ==
  LET m   == MintSim(row, t, amt)
      usd == QMul(QDiv(QMul(Wei(t, amt), row.price[t]), E(30)), E(USDG_DEC - Dec(t)))     \* exact, 18 decimals
      val == QDiv(QMul(m.wei, AumInUsdg(row)), row.glp)
      slack == QAdd(QAdd(E(USDG_DEC - Dec(t)), E(USDG_DEC - Dec(t))), QAdd(QDiv(AumInUsdg(row), row.glp), One))
  IN  QLe(val, usd) /\ QGe(val, QSub(QMul(usd, QDiv(QSub(BPS, MAXFEE), BPS)), slack))

RedeemValueHolds(row, t, g) ==
  LET r   == RedeemSim(row, t, g)
      usd == QDiv(QMul(QMul(r.out, E(Dec(t))), row.price[t]), E(30 - (USDG_DEC - Dec(t))))   \* 18-decimals USD of the output
  IN  QLe(usd, r.usdg) /\ QGe(usd, QMul(r.usdg, QDiv(QSub(BPS, MAXFEE), BPS)))

(* the simulator stays within the value of the floors it omits *)
SimNearContractMint(row, t, amt) ==
  LET m == MintSim(row, t, amt)
      c == MintContractWei(row, t, amt)
      p == QAdd(QDiv(QMul(row.price[t], E(USDG_DEC - Dec(t))), E(30)), One)     \* USDG units per token base unit, + 1
      bound == QAdd(QMul(QAdd(p, E(USDG_DEC - Dec(t))), QDiv(row.glp, AumInUsdg(row))), One)
  IN  m.fee = m.feeVault => (QGe(m.wei, c) /\ QLe(QSub(m.wei, c), bound))

SimNearContractRedeem(row, t, g) ==
  LET r == RedeemSim(row, t, g)
      c == RedeemContract(row, t, g)
  IN  r.fee = r.feeVault => (QGe(r.out, c) /\ QLe(QSub(r.out, c), QDiv(QI(3), E(Dec(t)))))
=============================================================================

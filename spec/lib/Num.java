import java.math.BigInteger;
import tlc2.value.impl.BoolValue;
import tlc2.value.impl.IntValue;
import tlc2.value.impl.StringValue;
import tlc2.value.impl.TupleValue;
import tlc2.value.impl.Value;

/** TLC module override for spec/lib/Num.tla: same operators, computed with BigInteger. */
public class Num {
    private static final BigInteger B = BigInteger.valueOf(10000);
    private static final Value[] EMPTY = new Value[0];

    static BigInteger nat(Value v) {
        TupleValue t = (TupleValue) v.toTuple();
        Value[] e = t.elems;
        BigInteger r = BigInteger.ZERO;
        for (int i = e.length - 1; i >= 0; i--) {
            r = r.multiply(B).add(BigInteger.valueOf(((IntValue) e[i]).val));
        }
        return r;
    }

    static Value natV(BigInteger x) {
        if (x.signum() == 0) return new TupleValue(EMPTY);
        java.util.ArrayList<Value> l = new java.util.ArrayList<>();
        while (x.signum() > 0) {
            BigInteger[] qr = x.divideAndRemainder(B);
            l.add(IntValue.gen(qr[1].intValue()));
            x = qr[0];
        }
        return new TupleValue(l.toArray(new Value[0]));
    }

    /** rational as {num (signed), den} */
    static BigInteger[] rat(Value v) {
        Value[] e = ((TupleValue) v.toTuple()).elems;
        int s = ((IntValue) e[0]).val;
        BigInteger n = nat(e[1]);
        if (s < 0) n = n.negate();
        return new BigInteger[] {n, nat(e[2])};
    }

    static Value ratV(BigInteger n, BigInteger d) {
        if (d.signum() < 0) { n = n.negate(); d = d.negate(); }
        if (n.signum() == 0) return new TupleValue(new Value[] {IntValue.gen(0), natV(BigInteger.ZERO), natV(BigInteger.ONE)});
        BigInteger g = n.gcd(d);
        n = n.divide(g); d = d.divide(g);
        return new TupleValue(new Value[] {IntValue.gen(n.signum()), natV(n.abs()), natV(d)});
    }

    public static Value NOf(Value i) { return natV(BigInteger.valueOf(((IntValue) i).val)); }
    public static Value NAdd(Value a, Value b) { return natV(nat(a).add(nat(b))); }
    public static Value NSub(Value a, Value b) { return natV(nat(a).subtract(nat(b))); }
    public static Value NCmp(Value a, Value b) { return IntValue.gen(nat(a).compareTo(nat(b))); }
    public static Value NMulSmall(Value a, Value k) { return natV(nat(a).multiply(BigInteger.valueOf(((IntValue) k).val))); }
    public static Value NMul(Value a, Value b) { return natV(nat(a).multiply(nat(b))); }
    public static Value NDivMod(Value a, Value b) {
        BigInteger[] qr = nat(a).divideAndRemainder(nat(b));
        return new TupleValue(new Value[] {natV(qr[0]), natV(qr[1])});
    }
    public static Value NDiv(Value a, Value b) { return natV(nat(a).divide(nat(b))); }
    public static Value NMod(Value a, Value b) { return natV(nat(a).mod(nat(b))); }
    public static Value NGcd(Value a, Value b) { return natV(nat(a).gcd(nat(b))); }
    public static Value NPow(Value a, Value k) { return natV(nat(a).pow(((IntValue) k).val)); }
    public static Value NSqrt(Value a) { return natV(nat(a).sqrt()); }
    public static Value NTen(Value k) { return natV(BigInteger.TEN.pow(((IntValue) k).val)); }

    public static Value QMk(Value s, Value n, Value d) {
        int sg = ((IntValue) s).val;
        BigInteger nn = nat(n);
        if (sg == 0) nn = BigInteger.ZERO;
        if (sg < 0) nn = nn.negate();
        return ratV(nn, nat(d));
    }
    public static Value QOf(Value n, Value d) {
        return ratV(BigInteger.valueOf(((IntValue) n).val), BigInteger.valueOf(((IntValue) d).val));
    }
    public static Value QAdd(Value a, Value b) {
        BigInteger[] x = rat(a), y = rat(b);
        return ratV(x[0].multiply(y[1]).add(y[0].multiply(x[1])), x[1].multiply(y[1]));
    }
    public static Value QSub(Value a, Value b) {
        BigInteger[] x = rat(a), y = rat(b);
        return ratV(x[0].multiply(y[1]).subtract(y[0].multiply(x[1])), x[1].multiply(y[1]));
    }
    public static Value QMul(Value a, Value b) {
        BigInteger[] x = rat(a), y = rat(b);
        return ratV(x[0].multiply(y[0]), x[1].multiply(y[1]));
    }
    public static Value QDiv(Value a, Value b) {
        BigInteger[] x = rat(a), y = rat(b);
        return ratV(x[0].multiply(y[1]), x[1].multiply(y[0]));
    }
    public static Value QCmp(Value a, Value b) {
        BigInteger[] x = rat(a), y = rat(b);
        return IntValue.gen(x[0].multiply(y[1]).compareTo(y[0].multiply(x[1])));
    }
    private static int cmp(Value a, Value b) { return ((IntValue) QCmp(a, b)).val; }
    public static Value QLt(Value a, Value b) { return cmp(a, b) < 0 ? BoolValue.ValTrue : BoolValue.ValFalse; }
    public static Value QLe(Value a, Value b) { return cmp(a, b) <= 0 ? BoolValue.ValTrue : BoolValue.ValFalse; }
    public static Value QGt(Value a, Value b) { return cmp(a, b) > 0 ? BoolValue.ValTrue : BoolValue.ValFalse; }
    public static Value QGe(Value a, Value b) { return cmp(a, b) >= 0 ? BoolValue.ValTrue : BoolValue.ValFalse; }
    public static Value QMin(Value a, Value b) { return cmp(a, b) <= 0 ? a : b; }
    public static Value QMax(Value a, Value b) { return cmp(a, b) <= 0 ? b : a; }

    static BigInteger floor(BigInteger[] x) {
        BigInteger[] qr = x[0].divideAndRemainder(x[1]);
        return (x[0].signum() < 0 && qr[1].signum() != 0) ? qr[0].subtract(BigInteger.ONE) : qr[0];
    }
    public static Value QFloor(Value a) { return ratV(floor(rat(a)), BigInteger.ONE); }
    public static Value QCeil(Value a) {
        BigInteger[] x = rat(a);
        x[0] = x[0].negate();
        return ratV(floor(x).negate(), BigInteger.ONE);
    }
    public static Value QRound(Value a, Value k, Value mode) {
        BigInteger[] x = rat(a);
        String m = ((StringValue) mode).val.toString();
        BigInteger sc = BigInteger.TEN.pow(((IntValue) k).val);
        BigInteger num = x[0].abs().multiply(sc), den = x[1];
        BigInteger[] qr = num.divideAndRemainder(den);
        BigInteger fl = qr[0];
        int c = qr[1].shiftLeft(1).compareTo(den); // frac vs 1/2
        boolean up;
        switch (m) {
            case "DOWN": up = false; break;
            case "FLOOR": up = x[0].signum() < 0 && qr[1].signum() != 0; break;
            case "HALF_UP": up = c >= 0; break;
            case "HALF_EVEN": up = c > 0 || (c == 0 && fl.testBit(0)); break;
            default: throw new RuntimeException("QRound mode " + m);
        }
        if (up) fl = fl.add(BigInteger.ONE);
        if (x[0].signum() < 0) fl = fl.negate();
        return ratV(fl, sc);
    }
    public static Value QPow(Value a, Value k) {
        BigInteger[] x = rat(a);
        int e = ((IntValue) k).val;
        return ratV(x[0].pow(e), x[1].pow(e));
    }
    public static Value QWithin(Value xv, Value yv, Value relv, Value absv) {
        BigInteger[] x = rat(xv), y = rat(yv), rel = rat(relv), ab = rat(absv);
        // d = |x - y|
        BigInteger dn = x[0].multiply(y[1]).subtract(y[0].multiply(x[1])).abs(), dd = x[1].multiply(y[1]);
        if (dn.multiply(ab[1]).compareTo(ab[0].multiply(dd)) <= 0) return BoolValue.ValTrue;
        // max(|x|,|y|)
        BigInteger[] mx = x[0].abs().multiply(y[1]).compareTo(y[0].abs().multiply(x[1])) >= 0
            ? new BigInteger[] {x[0].abs(), x[1]} : new BigInteger[] {y[0].abs(), y[1]};
        BigInteger rn = rel[0].multiply(mx[0]), rd = rel[1].multiply(mx[1]);
        return dn.multiply(rd).compareTo(rn.multiply(dd)) <= 0 ? BoolValue.ValTrue : BoolValue.ValFalse;
    }
}

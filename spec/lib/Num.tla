-------------------------------- MODULE Num --------------------------------
(***************************************************************************)
(* Exact arithmetic for TLC (whose integers are 32-bit).                    *)
(*                                                                         *)
(*  N  : naturals as little-endian tuples of base-10^4 limbs, normalised    *)
(*       (no most-significant zero limb); zero is <<>>.                     *)
(*  Q  : rationals <<s, n, d>>, s \in {-1,0,1}, n, d \in N, gcd(n,d) = 1,  *)
(*       d >= 1, and s = 0 iff n = <<>> (then d = <<1>>).                   *)
(*                                                                         *)
(* The definitions below are pure TLA+ and normative.  spec/lib/Num.java    *)
(* overrides the same operators with java.math.BigInteger for speed; the    *)
(* module MC_NumSelf checks override = definition (it is run with and       *)
(* without the override on the class path).                                 *)
(***************************************************************************)
EXTENDS Integers, Sequences

B == 10000

-----------------------------------------------------------------------------
(* naturals *)
RECURSIVE NTrim(_)
NTrim(a) == IF a = <<>> THEN a ELSE IF a[Len(a)] = 0 THEN NTrim(SubSeq(a, 1, Len(a) - 1)) ELSE a

RECURSIVE NOf(_)
NOf(i) == IF i = 0 THEN <<>> ELSE <<i % B>> \o NOf(i \div B)

RECURSIVE NAddC(_, _, _)
NAddC(a, b, c) ==
  IF a = <<>> /\ b = <<>> THEN (IF c = 0 THEN <<>> ELSE <<c>>)
  ELSE LET x == IF a = <<>> THEN 0 ELSE a[1]
           y == IF b = <<>> THEN 0 ELSE b[1]
           s == x + y + c
       IN  <<s % B>> \o NAddC(IF a = <<>> THEN a ELSE Tail(a), IF b = <<>> THEN b ELSE Tail(b), s \div B)
NAdd(a, b) == NAddC(a, b, 0)

RECURSIVE NCmpFrom(_, _, _)
NCmpFrom(a, b, i) == IF i = 0 THEN 0 ELSE IF a[i] < b[i] THEN -1 ELSE IF a[i] > b[i] THEN 1 ELSE NCmpFrom(a, b, i - 1)
NCmp(a, b) == IF Len(a) < Len(b) THEN -1 ELSE IF Len(a) > Len(b) THEN 1 ELSE NCmpFrom(a, b, Len(a))

RECURSIVE NSubB(_, _, _)
NSubB(a, b, br) ==   \* a >= b assumed
  IF a = <<>> THEN <<>>
  ELSE LET y == IF b = <<>> THEN 0 ELSE b[1]
           s == a[1] - y - br
       IN  <<IF s < 0 THEN s + B ELSE s>> \o NSubB(Tail(a), IF b = <<>> THEN b ELSE Tail(b), IF s < 0 THEN 1 ELSE 0)
NSub(a, b) == NTrim(NSubB(a, b, 0))

RECURSIVE NMulSC(_, _, _)
NMulSC(a, k, c) == IF a = <<>> THEN (IF c = 0 THEN <<>> ELSE <<c>>)
                   ELSE LET p == a[1] * k + c IN <<p % B>> \o NMulSC(Tail(a), k, p \div B)
NMulSmall(a, k) == IF k = 0 THEN <<>> ELSE NMulSC(a, k, 0)      \* 0 <= k < B

RECURSIVE NMul(_, _)
NMul(a, b) == IF a = <<>> \/ b = <<>> THEN <<>>
              ELSE LET rest == NMul(a, Tail(b)) IN
                   NAdd(NMulSmall(a, b[1]), IF rest = <<>> THEN <<>> ELSE <<0>> \o rest)

(* largest q in lo..hi with b*q <= r  (b > 0, b*lo <= r) *)
RECURSIVE NDigit(_, _, _, _)
NDigit(r, b, lo, hi) == IF lo = hi THEN lo
                        ELSE LET mid == (lo + hi + 1) \div 2 IN
                             IF NCmp(NMulSmall(b, mid), r) <= 0 THEN NDigit(r, b, mid, hi) ELSE NDigit(r, b, lo, mid - 1)

(* long division, most significant limb first: returns <<quotient, remainder>> *)
RECURSIVE NDivModFrom(_, _, _, _, _)
NDivModFrom(a, b, i, q, r) ==
  IF i = 0 THEN <<NTrim(q), r>>
  ELSE LET r1 == NTrim(<<a[i]>> \o r)
           dg == NDigit(r1, b, 0, B - 1)
       IN  NDivModFrom(a, b, i - 1, <<dg>> \o q, NSub(r1, NMulSmall(b, dg)))
NDivMod(a, b) == NDivModFrom(a, b, Len(a), <<>>, <<>>)          \* b # <<>>
NDiv(a, b) == NDivMod(a, b)[1]
NMod(a, b) == NDivMod(a, b)[2]

RECURSIVE NGcd(_, _)
NGcd(a, b) == IF b = <<>> THEN a ELSE NGcd(b, NMod(a, b))

RECURSIVE NPow(_, _)
NPow(a, k) == IF k = 0 THEN <<1>> ELSE IF k % 2 = 0 THEN LET h == NPow(a, k \div 2) IN NMul(h, h) ELSE NMul(a, NPow(a, k - 1))

NOne == <<1>>
NTen(k) == NPow(<<10>>, k)

-----------------------------------------------------------------------------
(* rationals *)
Zero == <<0, <<>>, <<1>>>>
One  == <<1, <<1>>, <<1>>>>

QMk(s, n, d) ==      \* normalise sign s (-1/0/1), numerator n, denominator d (d # 0)
  IF n = <<>> \/ s = 0 THEN Zero
  ELSE LET g == NGcd(n, d) IN <<s, NDiv(n, g), NDiv(d, g)>>

Sgn(i) == IF i < 0 THEN -1 ELSE IF i > 0 THEN 1 ELSE 0
AbsI(i) == IF i < 0 THEN -i ELSE i
QOf(n, d) == QMk(Sgn(n) * Sgn(d), NOf(AbsI(n)), NOf(AbsI(d)))   \* from TLC integers, d # 0
QI(n) == QOf(n, 1)
QN(n) == IF n = <<>> THEN Zero ELSE <<1, n, <<1>>>>               \* from a natural

QNeg(a) == <<-a[1], a[2], a[3]>>
QAbs(a) == <<AbsI(a[1]), a[2], a[3]>>
QSign(a) == a[1]

QAdd(a, b) ==
  IF a[1] = 0 THEN b ELSE IF b[1] = 0 THEN a
  ELSE LET x == NMul(a[2], b[3])
           y == NMul(b[2], a[3])
           d == NMul(a[3], b[3])
       IN  IF a[1] = b[1] THEN QMk(a[1], NAdd(x, y), d)
           ELSE LET c == NCmp(x, y) IN
                IF c = 0 THEN Zero ELSE IF c > 0 THEN QMk(a[1], NSub(x, y), d) ELSE QMk(b[1], NSub(y, x), d)
QSub(a, b) == QAdd(a, QNeg(b))
QMul(a, b) == IF a[1] = 0 \/ b[1] = 0 THEN Zero ELSE QMk(a[1] * b[1], NMul(a[2], b[2]), NMul(a[3], b[3]))
QInv(a)    == <<a[1], a[3], a[2]>>                                 \* a # 0
QDiv(a, b) == QMul(a, QInv(b))                                     \* b # 0

QCmp(a, b) == QSub(a, b)[1]
QLt(a, b) == QCmp(a, b) < 0
QLe(a, b) == QCmp(a, b) <= 0
QGt(a, b) == QCmp(a, b) > 0
QGe(a, b) == QCmp(a, b) >= 0
QEq(a, b) == a = b                                                 \* normal forms are unique
QMin(a, b) == IF QLe(a, b) THEN a ELSE b
QMax(a, b) == IF QLe(a, b) THEN b ELSE a
QIsInt(a) == a[3] = <<1>>

(* floor(a) as a rational with denominator 1 *)
QFloor(a) ==
  IF a[1] = 0 THEN Zero
  ELSE LET dm == NDivMod(a[2], a[3]) IN
       IF a[1] > 0 THEN QN(dm[1])
       ELSE IF dm[2] = <<>> THEN QNeg(QN(dm[1])) ELSE QNeg(QN(NAdd(dm[1], NOne)))
QCeil(a)  == QNeg(QFloor(QNeg(a)))
QTrunc(a) == IF a[1] >= 0 THEN QFloor(a) ELSE QCeil(a)

(* round to k decimal places. modes: "DOWN" (toward zero), "FLOOR", "HALF_UP" (ties away from zero), "HALF_EVEN" *)
QRound(a, k, mode) ==
  LET sc   == QN(NTen(k))
      x    == QMul(QAbs(a), sc)
      fl   == QFloor(x)
      fr   == QSub(x, fl)
      half == QOf(1, 2)
      even == NMod(fl[2], <<2>>) = <<>>
      up   == CASE mode = "DOWN"      -> FALSE
                [] mode = "FLOOR"     -> a[1] < 0 /\ fr # Zero
                [] mode = "HALF_UP"   -> QGe(fr, half)
                [] mode = "HALF_EVEN" -> QGt(fr, half) \/ (fr = half /\ ~even)
      m    == IF up THEN QAdd(fl, One) ELSE fl
  IN  QDiv(IF a[1] < 0 THEN QNeg(m) ELSE m, sc)

RECURSIVE QPow(_, _)
QPow(a, k) == IF k = 0 THEN One ELSE QMul(a, QPow(a, k - 1))      \* k a small natural

(* |x - y| <= abs  or  |x - y| <= rel * max(|x|, |y|) *)
QWithin(x, y, rel, abs) ==
  LET d == QAbs(QSub(x, y)) IN QLe(d, abs) \/ QLe(d, QMul(rel, QMax(QAbs(x), QAbs(y))))

RECURSIVE QSumSeq(_)
QSumSeq(s) == IF s = <<>> THEN Zero ELSE QAdd(Head(s), QSumSeq(Tail(s)))

(* floor of the square root of a natural: Newton iteration from above (x0 = B^ceil(len/2) >= sqrt(a)) *)
RECURSIVE NSqrtIter(_, _)
NSqrtIter(a, x) == LET y == NDiv(NAdd(x, NDiv(a, x)), <<2>>) IN IF NCmp(y, x) >= 0 THEN x ELSE NSqrtIter(a, y)
NSqrt(a) == IF a = <<>> THEN <<>> ELSE NSqrtIter(a, [i \in 1 .. ((Len(a) + 1) \div 2 + 1) |-> IF i = (Len(a) + 1) \div 2 + 1 THEN 1 ELSE 0])
=============================================================================

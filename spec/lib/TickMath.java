import java.math.BigInteger;
import tlc2.value.impl.BoolValue;
import tlc2.value.impl.IntValue;
import tlc2.value.impl.Value;

/** TLC module override for spec/TickMath.tla (same operators, BigInteger; avoids limb conversion of huge powers). */
public class TickMath {
    static final BigInteger[] MAGIC = {
        new BigInteger("FFFCB933BD6FAD37AA2D162D1A594001", 16), new BigInteger("FFF97272373D413259A46990580E213A", 16),
        new BigInteger("FFF2E50F5F656932EF12357CF3C7FDCC", 16), new BigInteger("FFE5CACA7E10E4E61C3624EAA0941CD0", 16),
        new BigInteger("FFCB9843D60F6159C9DB58835C926644", 16), new BigInteger("FF973B41FA98C081472E6896DFB254C0", 16),
        new BigInteger("FF2EA16466C96A3843EC78B326B52861", 16), new BigInteger("FE5DEE046A99A2A811C461F1969C3053", 16),
        new BigInteger("FCBE86C7900A88AEDCFFC83B479AA3A4", 16), new BigInteger("F987A7253AC413176F2B074CF7815E54", 16),
        new BigInteger("F3392B0822B70005940C7A398E4B70F3", 16), new BigInteger("E7159475A2C29B7443B29C7FA6E889D9", 16),
        new BigInteger("D097F3BDFD2022B8845AD8F792AA5825", 16), new BigInteger("A9F746462D870FDF8A65DC1F90E061E5", 16),
        new BigInteger("70D869A156D2A1B890BB3DF62BAF32F7", 16), new BigInteger("31BE135F97D08FD981231505542FCFA6", 16),
        new BigInteger("9AA508B5B7A84E1C677DE54F3E99BC9", 16), new BigInteger("5D6AF8DEDB81196699C329225EE604", 16),
        new BigInteger("2216E584F5FA1EA926041BEDFE98", 16), new BigInteger("48A170391F7DC42444E8FA2", 16)};
    static final BigInteger MAXU256 = BigInteger.ONE.shiftLeft(256).subtract(BigInteger.ONE);

    static BigInteger sqrtRatio(int t) {
        int a = Math.abs(t);
        BigInteger r = (a & 1) != 0 ? MAGIC[0] : BigInteger.ONE.shiftLeft(128);
        for (int i = 1; i < 20; i++) if ((a & (1 << i)) != 0) r = r.multiply(MAGIC[i]).shiftRight(128);
        if (t > 0) r = MAXU256.divide(r);
        BigInteger q = r.shiftRight(32);
        return r.and(BigInteger.valueOf(0xFFFFFFFFL)).signum() == 0 ? q : q.add(BigInteger.ONE);
    }

    public static Value SqrtRatioAtTick(Value t) { return Num.natV(sqrtRatio(((IntValue) t).val)); }

    public static Value ClosedFormOK(Value tv, Value sv) {
        int t = ((IntValue) tv).val;
        BigInteger S = Num.nat(sv);
        int a = Math.abs(t);
        BigInteger p1 = BigInteger.valueOf(10001).pow(a), p0 = BigInteger.valueOf(10000).pow(a);
        BigInteger two192 = BigInteger.ONE.shiftLeft(192);
        boolean ok;
        if (t <= 0) {
            BigInteger mid = two192.multiply(p0);
            ok = S.subtract(BigInteger.ONE).pow(2).multiply(p1).compareTo(mid) < 0
              && mid.compareTo(S.add(BigInteger.ONE).pow(2).multiply(p1)) < 0;
        } else {
            BigInteger E = BigInteger.valueOf(8).multiply(S.pow(2)).shiftRight(224).add(BigInteger.TWO);
            BigInteger lo = S.compareTo(E) > 0 ? S.subtract(E) : BigInteger.ZERO;
            BigInteger mid = two192.multiply(p1);
            ok = lo.pow(2).multiply(p0).compareTo(mid) < 0 && mid.compareTo(S.add(E).pow(2).multiply(p0)) < 0;
        }
        return ok ? BoolValue.ValTrue : BoolValue.ValFalse;
    }
}

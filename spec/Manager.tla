------------------------------ MODULE Manager ------------------------------
(***************************************************************************)
(* BacktestManager.run of demeter/core/backtest.py (property C19).         *)
(*                                                                         *)
(* A configuration c = [mix, kinds, w] is one call                          *)
(*   BacktestManager(config, data, strategies, bk_config, threads = w).run()*)
(* with Len(c.kinds) strategies; strategy i is the i-th of the list.        *)
(*                                                                         *)
(* Processes: 0 is the caller.  The code takes the SEQUENTIAL path          *)
(* (threads = 1 or one strategy): process 0 runs _start for every strategy  *)
(* in list order.  Otherwise the FORKED path: Pool(processes = w) forks     *)
(* workers 1..w, each starting from a copy of the caller's objects as they  *)
(* are at pool creation; all tasks are submitted at once (apply_async in    *)
(* list order) and an idle worker takes the head of the task queue - which  *)
(* worker is NOT determined (the OS decides): non-deterministic here.       *)
(*                                                                         *)
(* Objects that can carry state from one run to the next:                   *)
(*   - the market objects, which BELONG TO THE CONFIGURATION               *)
(*     (StrategyConfig.markets); _start attaches them to a broker;          *)
(*   - the broker (wallet), created by a fresh Actuator in every _start.    *)
(* The state of such an object is abstracted to its HISTORY: the sequence   *)
(* of strategies that have run on it (Clean = <<>>).  What a strategy does  *)
(* is abstracted to a function of what it starts from:                      *)
(*      Run(s, env)    its result (account history and final positions)     *)
(*      Leaves(s, h)   the object's state after s ran on it                 *)
(* so C19 is: every finished strategy's result is Run(s, CleanEnv), the     *)
(* result of running it alone.  No assumption is made that two different    *)
(* start states give different results (idle after idle may coincide in the *)
(* real code); the invariant demands the sufficient condition the manager   *)
(* controls: every run starts from clean objects.                           *)
(*                                                                         *)
(* How the configuration reaches a worker: Pool.apply_async PICKLES the     *)
(* arguments (config, strategy, bk_config) per task, so a task in a worker  *)
(* sees a private copy of the caller's configuration taken at submission    *)
(* (ConfigInherited = FALSE, the code).  The DATA travel differently        *)
(* (module global inherited at fork); ConfigInherited = TRUE models the     *)
(* configuration travelling that way (one object per worker process).       *)
(***************************************************************************)
EXTENDS Integers, Sequences, FiniteSets

CONSTANTS
  MaxW,                     \* largest worker count of the universe (process ids 0 .. MaxW)
  DEV_SharedConfigMarkets,  \* defect #18: _start attaches the configuration's market objects as they are
  DEV_PerProcessMarkets,    \* mutation class: markets copied once per process (cached) instead of once per run
  DEV_SharedBroker,         \* mutation class: one broker (wallet) per process reused by its runs
  ConfigInherited           \* FALSE: task arguments pickled per task (the code); TRUE: config object inherited at fork

Clean    == <<>>
CleanEnv == [mk |-> Clean, br |-> Clean]
NoCfg    == [mix |-> 0, kinds |-> <<>>, w |-> 0]
Procs    == 0 .. MaxW

Run(s, env)  == [s |-> s, mk |-> env.mk, br |-> env.br]      \* result as a function of the start state
Leaves(s, h) == Append(h, s)                                 \* positions / debts / balances left behind
NoResult     == [s |-> 0, mk |-> Clean, br |-> Clean]

N(st)        == Len(st.c.kinds)
PathOf(c)    == IF Len(c.kinds) = 1 \/ c.w = 1 THEN "seq" ELSE "fork"     \* backtest.py: `len(strategies) == 1 or threads == 1`
Workers(st)  == IF st.path = "seq" THEN {0} ELSE 1 .. st.c.w

CleanObj == [cfg |-> Clean,       \* the configuration's market objects as this process sees them
             cache |-> Clean, cached |-> FALSE,   \* per-process copy of the markets (DEV_PerProcessMarkets only)
             br |-> Clean]        \* per-process broker (DEV_SharedBroker only)

Init == [ph |-> "new", c |-> NoCfg, path |-> "none", queue |-> <<>>,
         obj  |-> [p \in Procs |-> CleanObj],
         busy |-> [p \in Procs |-> 0],                 \* strategy running in p (0 = idle)
         env  |-> [p \in Procs |-> CleanEnv],          \* what the running strategy started from
         ord  |-> [p \in Procs |-> <<>>],              \* strategies started by p, in order (the schedule)
         fin  |-> {}, result |-> <<>>]

-----------------------------------------------------------------------------
(* The configuration object a _start in process p is handed, and the markets it attaches *)
ConfigSeen(st, p) ==
  IF st.path = "seq" THEN st.obj[0].cfg
  ELSE IF ConfigInherited THEN st.obj[p].cfg
  ELSE st.obj[0].cfg             \* unpickled private copy of the caller's configuration (the caller runs nothing)

MarketsAttached(st, p) ==
  IF DEV_SharedConfigMarkets THEN ConfigSeen(st, p)                          \* as they are
  ELSE IF DEV_PerProcessMarkets /\ st.obj[p].cached THEN st.obj[p].cache     \* this process' copy, made by an earlier run
  ELSE ConfigSeen(st, p)                                                      \* a fresh copy of them

BrokerUsed(st, p) == IF DEV_SharedBroker THEN st.obj[p].br ELSE Clean        \* Actuator() creates a new Broker

(* where the run's leftovers end up *)
AfterRun(st, p, s) ==
  LET e  == st.env[p]
      o  == st.obj[p]
      o1 == IF DEV_SharedConfigMarkets
            THEN (IF st.path = "seq" \/ ConfigInherited THEN [o EXCEPT !.cfg = Leaves(s, e.mk)] ELSE o)   \* private copy: dropped
            ELSE IF DEV_PerProcessMarkets THEN [o EXCEPT !.cache = Leaves(s, e.mk), !.cached = TRUE]
            ELSE o                                                                                        \* the run's own copy: dropped
  IN IF DEV_SharedBroker THEN [o1 EXCEPT !.br = Leaves(s, e.br)] ELSE o1

-----------------------------------------------------------------------------
Events(st, Configs) ==
  CASE st.ph = "new" -> {[op |-> "config", c |-> c, p |-> 0, s |-> 0] : c \in Configs}
    [] st.ph = "cfg" -> {[op |-> "run", c |-> st.c, p |-> 0, s |-> 0]}
    [] st.ph = "go"  ->
         {[op |-> "start", c |-> st.c, p |-> p, s |-> Head(st.queue)] : p \in {x \in Workers(st) : st.queue # <<>> /\ st.busy[x] = 0}}
         \cup {[op |-> "finish", c |-> st.c, p |-> p, s |-> st.busy[p]] : p \in {x \in Workers(st) : st.busy[x] # 0}}
    [] OTHER -> {}

Step(st, ev) ==
  CASE ev.op = "config" /\ st.ph = "new" ->
         [st |-> [st EXCEPT !.ph = "cfg", !.c = ev.c, !.result = [i \in 1 .. Len(ev.c.kinds) |-> NoResult]], out |-> "ok"]
    [] ev.op = "run" /\ st.ph = "cfg" ->
         \* sequential: nothing is copied.  forked: Pool() forks the workers (copies of the caller's objects), all tasks queued
         [st |-> [st EXCEPT !.ph = "go", !.path = PathOf(st.c), !.queue = [i \in 1 .. N(st) |-> i],
                            !.obj = [p \in Procs |-> st.obj[0]]], out |-> "ok"]
    [] ev.op = "start" /\ st.ph = "go" /\ st.queue # <<>> /\ ev.p \in Workers(st) /\ st.busy[ev.p] = 0 /\ ev.s = Head(st.queue) ->
         [st |-> [st EXCEPT !.queue = Tail(st.queue), !.busy[ev.p] = ev.s,
                            !.env[ev.p] = [mk |-> MarketsAttached(st, ev.p), br |-> BrokerUsed(st, ev.p)],
                            !.ord[ev.p] = Append(@, ev.s)], out |-> "ok"]
    [] ev.op = "finish" /\ st.ph = "go" /\ ev.p \in Workers(st) /\ st.busy[ev.p] # 0 /\ ev.s = st.busy[ev.p] ->
         LET fin2 == st.fin \cup {ev.s} IN
         [st |-> [st EXCEPT !.busy[ev.p] = 0, !.fin = fin2,
                            !.result[ev.s] = Run(ev.s, st.env[ev.p]),
                            !.obj[ev.p] = AfterRun(st, ev.p, ev.s),
                            !.env[ev.p] = CleanEnv,
                            !.ph = IF fin2 = 1 .. N(st) THEN "done" ELSE "go"], out |-> "ok"]
    [] OTHER -> [st |-> st, out |-> "reject"]

-----------------------------------------------------------------------------
(* C19 *)
Finished(st, s) == s \in st.fin
Inv_C19(st) == \A s \in DOMAIN st.result : Finished(st, s) => st.result[s] = Run(s, CleanEnv)

(* beyond the statement (info): the caller's configuration objects are never changed by a run *)
Inv_ConfigUntouched(st) == \A p \in Procs : st.obj[p].cfg = Clean

(* the schedule as the harness observes it: which strategies ran in the same process, in which order
   (process identities are not observable beyond "same / different") *)
Schedule(st) == {st.ord[p] : p \in {x \in Procs : st.ord[x] # <<>>}}
=============================================================================

------------------------------ MODULE BarLoop ------------------------------
(***************************************************************************)
(* The bar loop of demeter/core/actuator.py (Actuator.run) as a state      *)
(* machine with one action per phase the code has, property C05.           *)
(*                                                                         *)
(* Functional core (shared by spec/mc/MC_BarLoop.tla and                   *)
(* spec/trace/Trace_BarLoop.tla):                                          *)
(*    InitSt(c)        initial state for configuration c                   *)
(*    Step(c, st, ev)  TOTAL: [ok, why, st]; ok = the event ev is takeable  *)
(*                     as the next action; otherwise why names the clause  *)
(*                     ("PhaseOrder: ...", "NotifyOnce: ...", "info/...")   *)
(*    Inv_C05_* / Act_C05_*   the property clauses                         *)
(*                                                                         *)
(* Configuration c = [s, iv, len, mk, nt]:                                 *)
(*    minutely history of len minutes starting at minute s, bar interval   *)
(*    iv (1 = no resampling), markets mk = <<[h, cb], ...>> in broker      *)
(*    order (h: hourly data next to the minutely one, cb: the market has   *)
(*    an `open` callback), nt scripted triggers.                           *)
(* Events ev = [e, m, ts, f, k, a, r, n, px] (one per linearisation point  *)
(*    that a harness-side wrapper can observe):                            *)
(*    status(m, ts, f=is_open)   Market.set_market_status returned          *)
(*    init                       Strategy.initialize entered               *)
(*    bb / ob / ab (ts, n)       before_bar / on_bar / after_bar entered,  *)
(*                               n = rows of the account history so far    *)
(*    when(m=i, ts, f=fire), do(m=i, ts), out(m=i, ts, f=out of date)       *)
(*    mopen(m, ts)               market.open callback entered              *)
(*    op(m, k, f=accepted, a)    user operation returned/raised, a = the   *)
(*                               action records it appended <<id, stamp>>  *)
(*    upd(m, a)                  Market.update returned, a = records       *)
(*    rec(ts, px)                account status computed for the row       *)
(*    ntf(m=id, ts=stamp, n)     Strategy.notify entered                   *)
(*    fin(n), rowlist(r), rows(r), end(a)   finalize and the final outputs *)
(* Times are minutes (naturals); an action id is its 1-based position in   *)
(* Actuator.actions; prices are small integers, PriceAt(minute).           *)
(***************************************************************************)
EXTENDS Integers, Sequences, FiniteSets

CONSTANTS DEV_UpdateBeforeOnBar,     \* market.update() runs before strategy.on_bar
          DEV_PendingNotCleared,     \* the per-bar action buffer is not cleared after notify
          DEV_StampAfterBeforeBar,   \* the current timestamp is advanced after before_bar instead of before
          DEV_SkipNotifyWhenTwo,     \* notify is skipped when exactly two actions are pending
          DEV_RowTwice,              \* the account row is appended twice when after_bar produced an action
          DEV_PriceLast,             \* resampled prices take the last instead of the first minute of a bar
          DEV_RefreshAlways,         \* second status refresh for every market, written or not
          DEV_NotifyIteratesCopy     \* notifications run over a copy of the bar's action buffer: an operation issued inside
                                     \* notify() is recorded but never delivered

None == -1

-----------------------------------------------------------------------------
(* The (optionally resampled) time index and its data *)
Floor(t, iv)   == (t \div iv) * iv
Minutes(c)     == c.s .. (c.s + c.len - 1)
Labels(c)      == {Floor(t, c.iv) : t \in Minutes(c)}          \* denotation of the resampled index
FirstLabel(c)  == Floor(c.s, c.iv)
NBars(c)       == ((Floor(c.s + c.len - 1, c.iv) - FirstLabel(c)) \div c.iv) + 1
TimeOf(c, b)   == FirstLabel(c) + b * c.iv                     \* b = 0-based bar number
Bucket(c, b)   == {t \in Minutes(c) : Floor(t, c.iv) = TimeOf(c, b)}
SetMin(S)      == CHOOSE x \in S : \A y \in S : x <= y
SetMax(S)      == CHOOSE x \in S : \A y \in S : y <= x
PriceAt(t)     == 100 + ((t * 7) % 13)                         \* minutely token price (harness builds the same)
BarPrice(c, b) == PriceAt(SetMin(Bucket(c, b)))                \* that bar's price: first minute of the bar
CodePrice(c, b) == IF DEV_PriceLast THEN PriceAt(SetMax(Bucket(c, b))) ELSE BarPrice(c, b)

Markets(c)     == 1 .. Len(c.mk)
HourData(c)    == {t \in Minutes(c) : t % 60 = 0}              \* rows of an hourly market inside the window
(* a market whose data has no row at this timestamp is closed *)
IsOpen(c, m, ts) == IF c.mk[m].h THEN ts \in HourData(c) ELSE TRUE

-----------------------------------------------------------------------------
(* Events *)
Ev(e) == [e |-> e, m |-> 0, ts |-> None, f |-> FALSE, k |-> "", a |-> <<>>, r |-> <<>>, n |-> None, px |-> None]
(* compact form kept in the model checker's history variable (the event name first; for upd/op the market second) *)
Pack(ev) ==
  CASE ev.e \in {"status", "when", "out"} -> <<ev.e, ev.m, ev.ts, ev.f>>
    [] ev.e \in {"do", "mopen"}         -> <<ev.e, ev.m, ev.ts>>
    [] ev.e \in {"bb", "ob", "ab"}      -> <<ev.e, ev.ts, ev.n>>
    [] ev.e = "op"                      -> <<ev.e, ev.m, ev.k, ev.f, ev.a>>
    [] ev.e = "upd"                     -> <<ev.e, ev.m, ev.a>>
    [] ev.e = "rec"                     -> <<ev.e, ev.ts, ev.px>>
    [] ev.e = "ntf"                     -> <<ev.e, ev.m, ev.ts, ev.n>>
    [] ev.e = "fin"                     -> <<ev.e, ev.n>>
    [] ev.e \in {"rowlist", "rows"}     -> <<ev.e, ev.r>>
    [] ev.e = "end"                     -> <<ev.e, ev.a>>
    [] OTHER                            -> <<ev.e>>

HookPhases == {"Initialize", "BeforeBar", "Trigger", "MarketOpen", "OnBar", "AfterBar"}
OpKinds    == {"w", "n", "wx", "nx"}   \* write / non-write operation, x = with an argument the market rejects

-----------------------------------------------------------------------------
(* State *)
InitSt(c) ==
  [bar     |-> 0,            \* 0-based number of the bar in progress
   phase   |-> "Init0",
   cur     |-> None,         \* the actuator's current timestamp (what an action record is stamped with)
   sdone   |-> {},           \* markets whose status was set for this bar
   mo      |-> {},           \* markets whose open callback ran in this bar
   rf      |-> {},           \* markets that got the second refresh in this bar
   upd     |-> {},           \* markets updated in this bar
   alive   |-> [i \in 1 .. c.nt |-> i],   \* strategy.triggers (ids, list order)
   tq      |-> <<>>,         \* triggers still to evaluate in this bar
   rq      |-> <<>>,         \* triggers still to test for retirement in this bar
   keep    |-> <<>>,         \* triggers that survived the retirement test
   fired   |-> 0,            \* trigger whose `when` returned TRUE last
   inDo    |-> FALSE,        \* ... and whose `do` is running
   pending |-> <<>>,         \* ids of the per-bar action buffer
   nsub    |-> 0,            \* how many of them were delivered in this bar's Notify phase
   log     |-> <<>>,         \* action log: [id, bar, stamp, ph, m, k]
   deliv   |-> <<>>,         \* deliveries: [id, bar, n] (n = rows at delivery)
   rows    |-> <<>>,         \* account history: [ts, px]
   visited |-> <<>>,         \* timestamps the strategy saw in before_bar
   need    |-> [m \in Markets(c) |-> FALSE],   \* has_update
   open    |-> [m \in Markets(c) |-> TRUE],    \* is_open
   nextId  |-> 1,
   fz      |-> 0]            \* progress of the final outputs

OK(s)        == [ok |-> TRUE, why |-> "", st |-> s]
Fail(s, why) == [ok |-> FALSE, why |-> why, st |-> s]

AllMarkets(c, S) == S = Markets(c)
TrigDone(st)   == st.tq = <<>> /\ (st.fired = 0 \/ st.inDo)
RetireDone(st) == \/ st.phase = "BeforeBar" /\ st.alive = <<>>
                  \/ st.phase = "Retire" /\ st.rq = <<>>
                  \/ st.phase = "MarketOpen"
OpenCbDone(c, st) == \A m \in Markets(c) : (st.open[m] /\ c.mk[m].cb) => m \in st.mo
PreOnBar(c, st)   == RetireDone(st) /\ OpenCbDone(c, st)
Delivered(st)  == \/ st.nsub = Len(st.pending)
                  \/ DEV_SkipNotifyWhenTwo /\ Len(st.pending) = 2 /\ st.nsub = 0
BarEnd(st)     == st.phase \in {"Record", "Notify"}

OnBarOK(c, st) == IF DEV_UpdateBeforeOnBar THEN st.phase = "Update" /\ AllMarkets(c, st.upd) ELSE PreOnBar(c, st)
MktOK(c, st)   == IF DEV_UpdateBeforeOnBar THEN PreOnBar(c, st) \/ st.phase \in {"Refresh2", "Update"}
                  ELSE st.phase \in {"OnBar", "Refresh2", "Update"}
AfterOK(c, st) == IF DEV_UpdateBeforeOnBar THEN st.phase = "OnBar" ELSE st.phase = "Update" /\ AllMarkets(c, st.upd)

(* every event after before_bar runs with the current timestamp of its bar *)
Sync(c, st) == [st EXCEPT !.cur = TimeOf(c, st.bar)]

LogOf(st, id) == st.log[CHOOSE j \in DOMAIN st.log : st.log[j].id = id]
IdsFrom(first, n, stamp) == [x \in 1 .. n |-> <<first + x - 1, stamp>>]
AddActs(st, a, m, k) ==
  [st EXCEPT !.log = @ \o [x \in 1 .. Len(a) |-> [id |-> a[x][1], bar |-> st.bar, stamp |-> a[x][2],
                                                   ph |-> st.phase, m |-> m, k |-> k]],
             !.pending = @ \o [x \in 1 .. Len(a) |-> a[x][1]],
             !.nextId = @ + Len(a)]

-----------------------------------------------------------------------------
(* One step per event kind.  Guards are tested in order; the first failing one names the clause. *)
StatusStep(c, st, ev) ==
  LET m == ev.m
      setm(s) == [s EXCEPT !.open[m] = IsOpen(c, m, ev.ts), !.need[m] = FALSE]
      nb == IF st.phase = "Initialize" THEN 0 ELSE st.bar + 1
  IN
  IF m \notin Markets(c) THEN Fail(st, "info/SetStatus: unknown market")
  ELSE IF ev.f # IsOpen(c, m, ev.ts) THEN Fail(st, "info/IsOpen: is_open differs from 'the market has a row at this timestamp'")
  ELSE IF st.phase = "Init0" THEN
       IF ev.ts # TimeOf(c, 0) THEN Fail(st, "info/SetStatus: initial status is not that of the first bar")
       ELSE IF m \in st.sdone THEN Fail(st, "info/SetStatus: repeated initial status")
       ELSE OK([setm(st) EXCEPT !.sdone = @ \cup {m}])
  ELSE IF BarEnd(st) \/ st.phase = "Initialize" THEN               \* SetStatus(m) opens the next bar
       IF BarEnd(st) /\ ~Delivered(st) THEN Fail(st, "NotifyOnce: the bar ends with pending actions that were not delivered")
       ELSE IF nb >= NBars(c) THEN Fail(st, "BarsInOrder: a bar beyond the end of the index")
       ELSE IF ev.ts # TimeOf(c, nb) THEN Fail(st, "info/SetStatus: status of a timestamp that is not the next bar")
       ELSE OK([setm(st) EXCEPT !.bar = nb, !.phase = "SetStatus", !.sdone = {m}, !.mo = {}, !.rf = {}, !.upd = {},
                                !.nsub = 0,
                                !.pending = IF BarEnd(st) /\ ~DEV_PendingNotCleared THEN <<>> ELSE @])
  ELSE IF st.phase = "SetStatus" THEN
       IF ev.ts # TimeOf(c, st.bar) THEN Fail(st, "info/SetStatus: status of another timestamp")
       ELSE IF m \in st.sdone THEN Fail(st, "info/SetStatus: repeated status")
       ELSE OK([setm(st) EXCEPT !.sdone = @ \cup {m}])
  ELSE IF MktOK(c, st) THEN                                        \* Refresh2(m)
       IF ev.ts # TimeOf(c, st.bar) THEN Fail(st, "info/Refresh2: refresh with another timestamp")
       ELSE IF m \in st.upd \/ m \in st.rf THEN Fail(st, "info/Refresh2: refresh repeated or after the update")
       ELSE IF ~(st.need[m] \/ DEV_RefreshAlways) THEN Fail(st, "info/Refresh2: second refresh of a market that was not written")
       ELSE OK([setm(Sync(c, st)) EXCEPT !.phase = "Refresh2", !.rf = @ \cup {m}])
  ELSE Fail(st, "info/SetStatus: status refresh in phase " \o st.phase)

InitStep(c, st, ev) ==
  IF st.phase # "Init0" THEN Fail(st, "info/Lifecycle: initialize in phase " \o st.phase)
  ELSE IF ~AllMarkets(c, st.sdone) THEN Fail(st, "info/SetStatus: initialize before every market has a status")
  ELSE OK([st EXCEPT !.phase = "Initialize", !.cur = TimeOf(c, 0), !.sdone = {}])

BeforeBarStep(c, st, ev) ==
  IF st.phase # "SetStatus" THEN Fail(st, "PhaseOrder: before_bar in phase " \o st.phase)
  ELSE IF ~AllMarkets(c, st.sdone) THEN Fail(st, "info/SetStatus: before_bar before every market has its status")
  ELSE IF ev.ts # TimeOf(c, st.bar) THEN Fail(st, "BarsInOrder: before_bar sees a timestamp that is not the next one of the index")
  ELSE IF ev.n # Len(st.rows) THEN Fail(st, "RowPerBar: account history does not have one row per finished bar")
  ELSE OK([st EXCEPT !.phase = "BeforeBar", !.visited = Append(@, ev.ts),
                     !.cur = IF DEV_StampAfterBeforeBar THEN @ ELSE TimeOf(c, st.bar),
                     !.tq = st.alive, !.rq = st.alive, !.keep = <<>>, !.fired = 0, !.inDo = FALSE])

WhenStep(c, st, ev) ==
  IF st.phase \notin {"BeforeBar", "Trigger"} THEN Fail(st, "PhaseOrder: trigger evaluated in phase " \o st.phase)
  ELSE IF ev.ts # TimeOf(c, st.bar) THEN Fail(st, "BarsInOrder: trigger sees another timestamp")
  ELSE IF ~(st.fired = 0 \/ st.inDo) THEN Fail(st, "info/Trigger: when() returned TRUE but do() was not called")
  ELSE IF st.tq = <<>> \/ Head(st.tq) # ev.m THEN Fail(st, "info/Trigger: not the next trigger of the list")
  ELSE OK([Sync(c, st) EXCEPT !.phase = "Trigger", !.tq = Tail(@), !.fired = IF ev.f THEN ev.m ELSE 0, !.inDo = FALSE])

DoStep(c, st, ev) ==
  IF st.phase # "Trigger" THEN Fail(st, "PhaseOrder: trigger action in phase " \o st.phase)
  ELSE IF ev.ts # TimeOf(c, st.bar) THEN Fail(st, "BarsInOrder: trigger action sees another timestamp")
  ELSE IF st.fired = 0 \/ st.fired # ev.m \/ st.inDo THEN Fail(st, "info/Trigger: do() without when() = TRUE")
  ELSE OK([st EXCEPT !.inDo = TRUE])

OutStep(c, st, ev) ==
  IF st.phase \notin {"Trigger", "Retire"} THEN Fail(st, "info/Retire: retirement test in phase " \o st.phase)
  ELSE IF ~TrigDone(st) THEN Fail(st, "info/Retire: retirement test before all triggers were evaluated")
  ELSE IF ev.ts # TimeOf(c, st.bar) THEN Fail(st, "info/Retire: retirement test with another timestamp")
  ELSE IF st.rq = <<>> \/ Head(st.rq) # ev.m THEN Fail(st, "info/Retire: not the next trigger of the list")
  ELSE LET kp == IF ev.f THEN st.keep ELSE Append(st.keep, ev.m) IN
       OK([Sync(c, st) EXCEPT !.phase = "Retire", !.rq = Tail(@), !.keep = kp, !.alive = kp \o Tail(st.rq)])

MarketOpenStep(c, st, ev) ==
  IF st.phase \notin {"BeforeBar", "Trigger", "Retire", "MarketOpen"} THEN Fail(st, "info/MarketOpen: open callback in phase " \o st.phase)
  ELSE IF ~RetireDone(st) THEN Fail(st, "info/MarketOpen: open callback before triggers were evaluated and retired")
  ELSE IF ev.m \notin Markets(c) \/ ~c.mk[ev.m].cb THEN Fail(st, "info/MarketOpen: unknown callback")
  ELSE IF ~st.open[ev.m] THEN Fail(st, "info/MarketOpen: open callback of a closed market")
  ELSE IF ev.m \in st.mo THEN Fail(st, "info/MarketOpen: open callback repeated")
  ELSE IF ev.ts # TimeOf(c, st.bar) THEN Fail(st, "BarsInOrder: open callback sees another timestamp")
  ELSE OK([Sync(c, st) EXCEPT !.phase = "MarketOpen", !.mo = @ \cup {ev.m}])

OnBarStep(c, st, ev) ==
  IF st.phase \notin (IF DEV_UpdateBeforeOnBar THEN {"Update"} ELSE {"BeforeBar", "Trigger", "Retire", "MarketOpen"})
     THEN Fail(st, "PhaseOrder: on_bar in phase " \o st.phase)
  ELSE IF ~DEV_UpdateBeforeOnBar /\ ~TrigDone(st) THEN Fail(st, "PhaseOrder: on_bar before the triggers were evaluated")
  ELSE IF ~DEV_UpdateBeforeOnBar /\ ~RetireDone(st) THEN Fail(st, "info/Retire: on_bar before the retirement test")
  ELSE IF ~DEV_UpdateBeforeOnBar /\ ~OpenCbDone(c, st) THEN Fail(st, "info/MarketOpen: on_bar before the open callback of an open market")
  ELSE IF ~OnBarOK(c, st) THEN Fail(st, "PhaseOrder: on_bar out of order")
  ELSE IF ev.ts # TimeOf(c, st.bar) THEN Fail(st, "BarsInOrder: on_bar sees another timestamp than before_bar")
  ELSE IF ev.n # Len(st.rows) THEN Fail(st, "RowPerBar: row appended before the end of the bar")
  ELSE OK([Sync(c, st) EXCEPT !.phase = "OnBar"])

UpdateStep(c, st, ev) ==
  IF ~MktOK(c, st) THEN Fail(st, "PhaseOrder: market update in phase " \o st.phase)
  ELSE IF ev.m \notin Markets(c) THEN Fail(st, "info/Update: unknown market")
  ELSE IF ev.m \in st.upd THEN Fail(st, "PhaseOrder: market updated twice in one bar")
  ELSE IF \E x \in Markets(c) : st.need[x] /\ ~DEV_RefreshAlways THEN Fail(st, "info/Refresh2: a written market was not refreshed before the update")
  ELSE IF DEV_RefreshAlways /\ ~AllMarkets(c, st.rf) THEN Fail(st, "info/Refresh2: (deviation) refresh every market first")
  ELSE LET s1 == Sync(c, st) IN
       IF ev.a # IdsFrom(st.nextId, Len(ev.a), s1.cur)
         THEN Fail(st, "Stamp: a record produced by the market update is not stamped with the bar it ran in")
       ELSE OK([AddActs([s1 EXCEPT !.phase = "Update"], ev.a, ev.m, "u") EXCEPT !.upd = @ \cup {ev.m}])

AfterBarStep(c, st, ev) ==
  IF ~(IF DEV_UpdateBeforeOnBar THEN st.phase = "OnBar" ELSE st.phase = "Update")
     THEN Fail(st, "PhaseOrder: after_bar in phase " \o st.phase)
  ELSE IF ~AfterOK(c, st) THEN Fail(st, "PhaseOrder: after_bar before every market was updated")
  ELSE IF ev.ts # TimeOf(c, st.bar) THEN Fail(st, "BarsInOrder: after_bar sees another timestamp than before_bar")
  ELSE IF ev.n # Len(st.rows) THEN Fail(st, "RowPerBar: row appended before the end of the bar")
  ELSE OK([Sync(c, st) EXCEPT !.phase = "AfterBar"])

RecordStep(c, st, ev) ==
  LET row == [ts |-> ev.ts, px |-> ev.px]
      twice == DEV_RowTwice /\ \E j \in DOMAIN st.log : st.log[j].bar = st.bar /\ st.log[j].ph = "AfterBar"
  IN
  IF st.phase # "AfterBar" THEN Fail(st, "RowPerBar: account row computed in phase " \o st.phase)
  ELSE IF ev.ts # TimeOf(c, st.bar) THEN Fail(st, "RowPerBar: the row does not carry the bar's timestamp")
  ELSE IF ev.px # CodePrice(c, st.bar) THEN Fail(st, "RowPerBar: the row is not valued with the bar's token prices")
  ELSE OK([st EXCEPT !.phase = "Record", !.nsub = 0,
                     !.rows = IF twice THEN @ \o <<row, row>> ELSE Append(@, row)])

NotifyStep(c, st, ev) ==
  IF ~BarEnd(st) THEN Fail(st, "NotifyOnce: notification in phase " \o st.phase \o " (must be at the end of the bar, after the row)")
  ELSE IF DEV_SkipNotifyWhenTwo /\ Len(st.pending) = 2 THEN Fail(st, "NotifyOnce: (deviation) two pending actions are skipped")
  ELSE IF st.nsub >= Len(st.pending) \/ st.pending[st.nsub + 1] # ev.m
       THEN Fail(st, "NotifyOnce: the notified action is not the next undelivered action of this bar")
  ELSE IF ev.ts # LogOf(st, ev.m).stamp THEN Fail(st, "Stamp: the notified record carries another stamp than it was given")
  ELSE IF ev.n # Len(st.rows) THEN Fail(st, "RowPerBar: account history at notification does not have one row per bar")
  ELSE OK([st EXCEPT !.phase = "Notify", !.nsub = @ + 1,
                     !.deliv = Append(@, [id |-> ev.m, bar |-> st.bar, n |-> ev.n])])

FinalizeStep(c, st, ev) ==
  IF ~BarEnd(st) THEN Fail(st, "info/Lifecycle: finalize in phase " \o st.phase)
  ELSE IF ~Delivered(st) THEN Fail(st, "NotifyOnce: the run ends with pending actions that were not delivered")
  ELSE IF st.bar # NBars(c) - 1 THEN Fail(st, "BarsInOrder: the run ends before the last bar of the index")
  ELSE IF ev.n # Len(st.rows) THEN Fail(st, "RowPerBar: account history does not have one row per bar at the end")
  ELSE OK([st EXCEPT !.phase = "Finalize", !.fz = 0,
                     !.pending = IF DEV_PendingNotCleared THEN @ ELSE <<>>])

ExpRows(c) == [i \in 1 .. NBars(c) |-> <<TimeOf(c, i - 1), BarPrice(c, i - 1)>>]

FinalStep(c, st, ev) ==
  IF st.phase # "Finalize" THEN Fail(st, "info/Lifecycle: final outputs in phase " \o st.phase)
  ELSE IF ev.e = "rowlist" THEN
       IF st.fz # 0 THEN Fail(st, "info/Lifecycle: final outputs out of order")
       ELSE IF [i \in DOMAIN ev.r |-> ev.r[i][1]] # [i \in 1 .. NBars(c) |-> TimeOf(c, i - 1)]
            THEN Fail(st, "RowPerBar: Actuator.account_status is not one row per bar with that bar's timestamp")
       ELSE OK([st EXCEPT !.fz = 1])
  ELSE IF ev.e = "rows" THEN
       IF st.fz # 1 THEN Fail(st, "info/Lifecycle: final outputs out of order")
       ELSE IF [i \in DOMAIN ev.r |-> ev.r[i][1]] # [i \in 1 .. NBars(c) |-> TimeOf(c, i - 1)]
            THEN Fail(st, "RowPerBar: account_status_df.index is not one row per bar with that bar's timestamp")
       ELSE IF ev.r # ExpRows(c) THEN Fail(st, "RowPerBar: account_status_df price columns are not the bars' token prices")
       ELSE OK([st EXCEPT !.fz = 2])
  ELSE \* "end"
       IF st.fz # 2 THEN Fail(st, "info/Lifecycle: final outputs out of order")
       ELSE IF ev.a # [j \in DOMAIN st.log |-> <<st.log[j].id, st.log[j].stamp>>]
            THEN Fail(st, "Stamp: Actuator.actions differs from the records produced (count or timestamp)")
       ELSE OK([st EXCEPT !.phase = "Done", !.fz = 3])

Accepts(st, m, k) == k = "n" \/ (k = "w" /\ st.open[m])

OpStep(c, st, ev) ==
  LET inHook == \/ st.phase \in HookPhases /\ (st.phase = "Trigger" => st.inDo)
                \/ st.phase = "Notify"          \* inside the strategy's notify(): the record joins this bar's buffer and is
                                                \* delivered in the same Notify phase (the code iterates the live buffer)
      stampClause == IF st.phase = "Initialize" THEN "info/InitStamp" ELSE "Stamp"
  IN
  IF ~inHook THEN Fail(st, "info/Op: operation outside a strategy hook")
  ELSE IF ev.m \notin Markets(c) \/ ev.k \notin OpKinds THEN Fail(st, "info/Op: unknown operation")
  ELSE IF ev.f /\ ev.a # <<<<st.nextId, st.cur>>>>
       THEN Fail(st, stampClause \o ": an accepted operation must append exactly one action record stamped with the bar it ran in")
  ELSE IF ~ev.f /\ ev.a # <<>> THEN Fail(st, "info/RejectedNoRecord: a rejected operation appended a record")
  ELSE IF ev.f # Accepts(st, ev.m, ev.k) THEN Fail(st, "info/Outcome: accepted/rejected differs from the gate (closed market, bad argument)")
  ELSE LET s2 == AddActs(st, ev.a, ev.m, ev.k)
            s3 == IF DEV_NotifyIteratesCopy /\ st.phase = "Notify" THEN [s2 EXCEPT !.pending = st.pending] ELSE s2
       IN OK([s3 EXCEPT !.need[ev.m] = IF ev.f /\ ev.k = "w" THEN TRUE ELSE @])

Step(c, st, ev) ==
  CASE ev.e = "status" -> StatusStep(c, st, ev)
    [] ev.e = "init"   -> InitStep(c, st, ev)
    [] ev.e = "bb"     -> BeforeBarStep(c, st, ev)
    [] ev.e = "when"   -> WhenStep(c, st, ev)
    [] ev.e = "do"     -> DoStep(c, st, ev)
    [] ev.e = "out"    -> OutStep(c, st, ev)
    [] ev.e = "mopen"  -> MarketOpenStep(c, st, ev)
    [] ev.e = "ob"     -> OnBarStep(c, st, ev)
    [] ev.e = "upd"    -> UpdateStep(c, st, ev)
    [] ev.e = "ab"     -> AfterBarStep(c, st, ev)
    [] ev.e = "rec"    -> RecordStep(c, st, ev)
    [] ev.e = "ntf"    -> NotifyStep(c, st, ev)
    [] ev.e = "fin"    -> FinalizeStep(c, st, ev)
    [] ev.e \in {"rowlist", "rows", "end"} -> FinalStep(c, st, ev)
    [] ev.e = "op"     -> OpStep(c, st, ev)
    [] OTHER           -> Fail(st, "info/Lifecycle: unknown event " \o ev.e)

-----------------------------------------------------------------------------
(* What the machine itself does next (used by the model-checking spec to generate events): the events whose   *)
(* arguments are determined by the state.  Strategy choices (operations, trigger answers, records emitted by   *)
(* an update) are added by MC_BarLoop.                                                                         *)
RowsOf(st)  == [i \in DOMAIN st.rows |-> <<st.rows[i].ts, st.rows[i].px>>]
ActsOf(st)  == [j \in DOMAIN st.log |-> <<st.log[j].id, st.log[j].stamp>>]
NextBarNo(st) == IF st.phase \in {"Init0", "Initialize"} THEN 0 ELSE IF BarEnd(st) THEN st.bar + 1 ELSE st.bar

MachineEvents(c, st) ==
  LET tsn == TimeOf(c, NextBarNo(st)) IN
       {[Ev("status") EXCEPT !.m = m, !.ts = tsn, !.f = IsOpen(c, m, tsn)] : m \in Markets(c)}
  \cup {Ev("init")}
  \cup {[Ev(e) EXCEPT !.ts = TimeOf(c, st.bar), !.n = Len(st.rows)] : e \in {"bb", "ob", "ab"}}
  \cup {[Ev("do") EXCEPT !.m = st.fired, !.ts = TimeOf(c, st.bar)]}
  \cup {[Ev("mopen") EXCEPT !.m = m, !.ts = TimeOf(c, st.bar)] : m \in Markets(c)}
  \cup {[Ev("rec") EXCEPT !.ts = TimeOf(c, st.bar), !.px = CodePrice(c, st.bar)]}
  \cup (IF BarEnd(st) /\ st.nsub < Len(st.pending)
        THEN {[Ev("ntf") EXCEPT !.m = st.pending[st.nsub + 1], !.ts = LogOf(st, st.pending[st.nsub + 1]).stamp,
                                !.n = Len(st.rows)]}
        ELSE {})
  \cup {[Ev("fin") EXCEPT !.n = Len(st.rows)]}
  \cup {[Ev("rowlist") EXCEPT !.r = [i \in DOMAIN st.rows |-> <<st.rows[i].ts, None>>]],
        [Ev("rows") EXCEPT !.r = RowsOf(st)],
        [Ev("end") EXCEPT !.a = ActsOf(st)]}

-----------------------------------------------------------------------------
(* Property C05 *)

(* the bars the strategy saw are the (resampled) index: each once, increasing; all of them at the end *)
Inv_C05_BarsInOrder(c, st) ==
  /\ \A i \in DOMAIN st.visited : st.visited[i] \in Labels(c)
  /\ \A i, j \in DOMAIN st.visited : i < j => st.visited[i] < st.visited[j]
  /\ \A i \in DOMAIN st.visited : Cardinality({x \in Labels(c) : x < st.visited[i]}) = i - 1     \* none skipped
  /\ st.phase \in {"Finalize", "Done"} => {st.visited[i] : i \in DOMAIN st.visited} = Labels(c)

(* phase successor relation (DESIGN A.4); single-shot phases have no self loop, a user operation keeps the phase *)
Succ(ph) ==
  CASE ph = "Init0"      -> {"Init0", "Initialize"}
    [] ph = "Initialize" -> {"SetStatus"}
    [] ph = "SetStatus"  -> {"SetStatus", "BeforeBar"}
    [] ph = "BeforeBar"  -> {"Trigger", "Retire", "MarketOpen", "OnBar"}   \* no trigger alive: nothing to evaluate or retire
    [] ph = "Trigger"    -> {"Trigger", "Retire"}
    [] ph = "Retire"     -> {"Retire", "MarketOpen", "OnBar"}
    [] ph = "MarketOpen" -> {"MarketOpen", "OnBar"}
    [] ph = "OnBar"      -> {"Refresh2", "Update"}
    [] ph = "Refresh2"   -> {"Refresh2", "Update"}
    [] ph = "Update"     -> {"Update", "AfterBar"}
    [] ph = "AfterBar"   -> {"Record"}
    [] ph = "Record"     -> {"Notify", "SetStatus", "Finalize"}
    [] ph = "Notify"     -> {"Notify", "SetStatus", "Finalize"}
    [] ph = "Finalize"   -> {"Finalize", "Done"}
    [] OTHER             -> {}

Act_C05_PhaseOrder(st, st2, e) ==
  IF e = "op" THEN st2.phase = st.phase /\ st.phase \in HookPhases \cup {"Notify"}
  ELSE st2.phase \in Succ(st.phase)

(* the hooks of one bar as the strategy sees them: before_bar, triggers, on_bar, update of every market, after_bar. *)
(* h = sequence of event names with their market argument: <<e, m>> *)
HookRank(e) == CASE e = "bb" -> 1 [] e \in {"when", "do"} -> 2 [] e = "ob" -> 3 [] e = "upd" -> 4 [] e = "ab" -> 5 [] OTHER -> 0
Inv_C05_HookOrder(c, h) ==
  (* h = packed event history <<e, m, ...>>.  Every reachable state is a prefix of a longer history, so it is   *)
  (* enough to test the LAST hook event against its predecessor (and, for after_bar, against its own bar).      *)
  LET idx == {p \in DOMAIN h : HookRank(h[p][1]) > 0} IN
  idx # {} =>
    LET q   == SetMax(idx)
        prv == {p \in idx : p < q}
    IN
    /\ prv = {} => h[q][1] = "bb"
    /\ prv # {} =>
         LET p == SetMax(prv) IN
         /\ h[q][1] = "bb" => h[p][1] = "ab"
         /\ h[q][1] # "bb" => HookRank(h[p][1]) <= HookRank(h[q][1])
         /\ h[q][1] \in {"ob", "ab"} => h[p][1] # h[q][1]
    /\ h[q][1] = "ab" =>
         /\ \E b \in prv : h[b][1] = "bb"
         /\ LET b0  == SetMax({b \in prv : h[b][1] = "bb"})
                seg == {x \in prv : b0 < x}
            IN /\ Cardinality({x \in seg : h[x][1] = "ob"}) = 1
               /\ \A m \in Markets(c) : Cardinality({x \in seg : h[x][1] = "upd" /\ h[x][2] = m}) = 1

(* every record is stamped with the bar it was produced in; ids are positions *)
Inv_C05_Stamp(c, st) ==
  /\ \A j \in DOMAIN st.log : st.log[j].stamp = TimeOf(c, st.log[j].bar) /\ st.log[j].id = j
(* an accepted operation has exactly one record, a rejected one none (h = packed history, op = <<"op", m, k, f, a>>) *)
Inv_C05_OneRecordPerOp(h) ==
  h # <<>> => LET p == Len(h) IN h[p][1] = "op" => Len(h[p][5]) = (IF h[p][4] THEN 1 ELSE 0)

(* delivered exactly once, in the Notify phase of its own bar, after the row of that bar was recorded *)
Inv_C05_NotifyOnce(c, st) ==
  /\ \A d \in DOMAIN st.deliv :
        LET x == st.deliv[d] IN
        /\ \E j \in DOMAIN st.log : st.log[j].id = x.id /\ st.log[j].bar = x.bar
        /\ x.n = x.bar + 1
        /\ \A d2 \in DOMAIN st.deliv : st.deliv[d2].id = x.id => d2 = d
  /\ \A j \in DOMAIN st.log :
        (st.log[j].bar < st.bar \/ st.phase \in {"Finalize", "Done"})
           => \E d \in DOMAIN st.deliv : st.deliv[d].id = st.log[j].id
  /\ \A d, d2 \in DOMAIN st.deliv : d < d2 => st.deliv[d].id < st.deliv[d2].id     \* in production order

(* one row per bar with that bar's timestamp and that bar's token prices *)
Inv_C05_RowPerBar(c, st) ==
  /\ Len(st.rows) = (IF st.phase \in {"Init0", "Initialize"} THEN 0
                     ELSE IF st.phase \in {"Record", "Notify", "Finalize", "Done"} THEN st.bar + 1 ELSE st.bar)
  /\ \A i \in DOMAIN st.rows : st.rows[i] = [ts |-> TimeOf(c, i - 1), px |-> BarPrice(c, i - 1)]

(* the second refresh happens only for a market written since its last refresh *)
Act_C05_Refresh2OnlyWritten(st, st2) ==
  st2.bar = st.bar => \A m \in st2.rf \ st.rf : st.need[m]

(* sanity of the index arithmetic: TimeOf enumerates exactly the denotation *)
IndexSane(c) == {TimeOf(c, b) : b \in 0 .. NBars(c) - 1} = Labels(c)
=============================================================================

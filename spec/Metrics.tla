------------------------------- MODULE Metrics -------------------------------
(***************************************************************************)
(* Performance metrics of demeter/result/metrics (calculator.py, core.py)   *)
(* defined from scratch over exact rationals (Num.tla).                     *)
(*                                                                         *)
(* A net-value series v is a sequence of n >= 2 positive rationals sampled  *)
(* every im minutes; its duration is n * im minutes (first sample to one    *)
(* interval after the last one, as performance_metrics() counts it).        *)
(*                                                                         *)
(* Quantities that are rational functions of the series are exact.          *)
(* Quantities that need a root are defined RELATIONALLY:                    *)
(*   annualised return r :  (1 + r)^q = G^p  with G = v[n]/v[1] and          *)
(*                          365 / duration_in_days = p / q (lowest terms);  *)
(*   volatility s        :  s >= 0 /\ s^2 = Var_ddof1(returns) * 365/interval*)
(* and come with a constructive witness: a certified enclosure               *)
(* [lo, lo + ulp] obtained by integer bisection.  The Rel_* operators      *)
(* state the relation; MC_Metrics checks it on every enumerated case, so    *)
(* the exported decimals are proved, not trusted.                           *)
(***************************************************************************)
EXTENDS Num

CONSTANT DEV_MddAbsoluteDecline   \* defect #19: largest ABSOLUTE decline is located, its relative size reported

K    == 18                         \* significant digits (K or K-1; at most K decimals) of the certified enclosures
PMax == 1000                       \* largest exponent numerator for which G^p is evaluated exactly
MinPerYear == 525600               \* 365 * 1440

-----------------------------------------------------------------------------
(* folds over sequences of rationals *)
RECURSIVE QMaxSeq(_)
QMaxSeq(s) == IF Len(s) = 1 THEN s[1] ELSE QMax(s[1], QMaxSeq(Tail(s)))
RECURSIVE QProdSeq(_)
QProdSeq(s) == IF s = <<>> THEN One ELSE QMul(Head(s), QProdSeq(Tail(s)))
Scaled(v, c) == [i \in DOMAIN v |-> QMul(c, v[i])]
NeverFalling(v) == \A i \in 1 .. (Len(v) - 1) : QLe(v[i], v[i + 1])
Positive(v) == \A i \in DOMAIN v : v[i][1] = 1

RECURSIVE IGcd(_, _)
IGcd(a, b) == IF b = 0 THEN a ELSE IGcd(b, a % b)

-----------------------------------------------------------------------------
(* Maximum drawdown                                                        *)
(* Definition: the largest relative decline (v[i] - v[j]) / v[i] over all   *)
(* i <= j (i = j contributes 0, so the result is never negative).           *)
Decline(v, i, j) == QDiv(QSub(v[i], v[j]), v[i])
MddDef(v) == QMaxSeq([j \in DOMAIN v |-> QMaxSeq([i \in 1 .. j |-> Decline(v, i, j)])])

(* One pass with a running peak: what a correct implementation computes.   *)
RECURSIVE MddRun(_, _, _, _)
MddRun(v, i, peak, best) ==
  IF i > Len(v) THEN best
  ELSE LET pk == QMax(peak, v[i]) IN MddRun(v, i + 1, pk, QMax(best, QDiv(QSub(pk, v[i]), pk)))

(* The deviation (calculator.py before the fix): the pair (running peak,    *)
(* later value) with the largest ABSOLUTE decline is located (first maximum *)
(* kept, -inf start) and its relative size reported.                        *)
RECURSIVE AbsRun(_, _, _, _, _)
AbsRun(v, i, ih, gh, gl) ==      \* gh = 0: nothing recorded yet
  IF i > Len(v) THEN Decline(v, gh, gl)
  ELSE LET h  == IF QLt(v[ih], v[i - 1]) THEN i - 1 ELSE ih
           dp == QSub(v[h], v[i])
       IN  IF gh = 0 \/ QGt(dp, QSub(v[gh], v[gl])) THEN AbsRun(v, i + 1, h, h, i) ELSE AbsRun(v, i + 1, h, gh, gl)

Mdd(v) == IF DEV_MddAbsoluteDecline THEN AbsRun(v, 2, 1, 0, 0) ELSE MddRun(v, 1, v[1], Zero)

-----------------------------------------------------------------------------
(* Returns *)
Growth(v)      == QDiv(v[Len(v)], v[1])
TotalReturn(v) == QSub(Growth(v), One)
ReturnValue(v) == QSub(v[Len(v)], v[1])
Rets(v)  == [i \in DOMAIN v |-> IF i = 1 THEN Zero ELSE QDiv(QSub(v[i], v[i - 1]), v[i - 1])]   \* return_rate_series
Mults(v) == [i \in DOMAIN v |-> IF i = 1 THEN One  ELSE QDiv(v[i], v[i - 1])]                   \* return_multiple
PeriodRets(v) == Tail(Rets(v))                                                                  \* the n-1 real returns

(* duration and annualisation exponent, from integer minutes *)
DurationDays(n, im) == QOf(n * im, 1440)
IntervalDays(im)    == QOf(im, 1440)
AnnExp(n, im) == LET g == IGcd(MinPerYear, n * im) IN [p |-> MinPerYear \div g, q |-> (n * im) \div g]

AnnSingle(G, n, im) == QDiv(QSub(G, One), QDiv(DurationDays(n, im), QI(365)))

-----------------------------------------------------------------------------
(* certified roots: the largest m with m^q <= a, by bisection (lo^q <= a < hi^q throughout) *)
RECURSIVE NBisect(_, _, _, _)
NBisect(a, q, lo, hi) ==
  IF NAdd(lo, NOne) = hi THEN lo
  ELSE LET mid == NDiv(NAdd(lo, hi), <<2>>) IN
       IF NCmp(NPow(mid, q), a) <= 0 THEN NBisect(a, q, mid, hi) ELSE NBisect(a, q, lo, mid)
NRootFloor(a, q, hi) == IF q = 1 \/ a = <<>> THEN a ELSE NBisect(a, q, <<>>, hi)      \* hi^q > a

(* Enclosure of x^(1/q) for a rational x >= 0 with K or K-1 significant digits (at most K decimals):
   [lo, ulp] with lo <= x^(1/q) < lo + ulp, ulp = 10^-s, s = K - ceil(decimal digits of floor(x) / q),
   so that 10^s * x^(1/q) < 10^K.                                                                      *)
Pow10(s) == IF s >= 0 THEN <<1, NTen(s), <<1>>>> ELSE <<1, <<1>>, NTen(-s)>>
NDigits(a) == IF a = <<>> THEN 0
              ELSE LET t == a[Len(a)] IN 4 * (Len(a) - 1) + (IF t < 10 THEN 1 ELSE IF t < 100 THEN 2 ELSE IF t < 1000 THEN 3 ELSE 4)
QRoot(x, q) ==
  LET d == NDigits(QFloor(x)[2])
      s == K - ((d + q - 1) \div q)
      a == QFloor(QMul(x, Pow10(s * q)))[2]
  IN  [lo |-> QMul(QN(NRootFloor(a, q, NTen(K))), Pow10(-s)), ulp |-> Pow10(-s)]

(* the relation an enclosure must satisfy *)
Rel_Root(r, x, q) == /\ r.lo[1] >= 0
                     /\ QLe(QPow(r.lo, q), x)
                     /\ QLt(x, QPow(QAdd(r.lo, r.ulp), q))

(* annualised compound return of growth factor G over n samples every im minutes:
   [st |-> "ok" | "big_exponent" | "overflow", lo, ulp |-> lo <= true value < lo + ulp] *)
AnnCompound(G, n, im) ==
  LET e == AnnExp(n, im) IN
  IF e.p > PMax THEN [st |-> "big_exponent", lo |-> Zero, ulp |-> Zero, p |-> e.p, q |-> e.q]
  ELSE LET T == QPow(G, e.p) IN
       IF NDigits(QFloor(T)[2]) > 300 * e.q                                    \* growth factor may exceed 1e300: beyond IEEE doubles
       THEN [st |-> "overflow", lo |-> Zero, ulp |-> Zero, p |-> e.p, q |-> e.q]
       ELSE LET r == QRoot(T, e.q) IN [st |-> "ok", lo |-> QSub(r.lo, One), ulp |-> r.ulp, p |-> e.p, q |-> e.q]
Rel_Ann(a, G) == a.st = "ok" => Rel_Root([lo |-> QAdd(a.lo, One), ulp |-> a.ulp], QPow(G, a.p), a.q)

-----------------------------------------------------------------------------
(* sample statistics (ddof = 1) *)
Mean(s) == QDiv(QSumSeq(s), QI(Len(s)))
SampleCov(x, y) ==      \* Len(x) = Len(y) >= 2
  LET mx == Mean(x)
      my == Mean(y)
  IN  QDiv(QSumSeq([i \in DOMAIN x |-> QMul(QSub(x[i], mx), QSub(y[i], my))]), QI(Len(x) - 1))
SampleVar(x) == SampleCov(x, x)
MaxAbs(s) == QMaxSeq([i \in DOMAIN s |-> QAbs(s[i])])

(* volatility^2 = Var(returns) * 365 / interval_in_days *)
AnnFactor(im) == QOf(MinPerYear, im)
Vol2(v, im)   == QMul(SampleVar(PeriodRets(v)), AnnFactor(im))

-----------------------------------------------------------------------------
(* Everything a caller can observe, for series v (n >= 2 positive rationals), interval im minutes,
   benchmark b (<<>> = none, else same length), risk-free rates rfs, scale factors cs. *)
View(v, im, b, rfs, cs) ==
  LET n    == Len(v)
      G    == Growth(v)
      ann  == AnnCompound(G, n, im)
      hasV == n >= 3
      v2   == IF hasV THEN Vol2(v, im) ELSE Zero
      volr == QRoot(v2, 2)
      vol  == volr.lo
      rp   == PeriodRets(v)
      hasB == b # <<>>
      rb   == IF hasB THEN PeriodRets(b) ELSE <<>>
      Gb   == IF hasB THEN Growth(b) ELSE One
      annB == IF hasB THEN AnnCompound(Gb, n, im) ELSE [st |-> "none", lo |-> Zero, ulp |-> Zero, p |-> 0, q |-> 1]
      varB == IF hasB /\ hasV THEN SampleVar(rb) ELSE Zero
      bdef == hasB /\ hasV /\ varB # Zero
      beta == IF bdef THEN QDiv(SampleCov(rp, rb), varB) ELSE Zero
  IN [n       |-> n,
      v       |-> v,
      b       |-> b,
      im      |-> im,
      days    |-> DurationDays(n, im),
      ivdays  |-> IntervalDays(im),
      mdd     |-> Mdd(v),
      scales  |-> cs,
      total   |-> TotalReturn(v),
      retval  |-> ReturnValue(v),
      rets    |-> Rets(v),
      mults   |-> Mults(v),
      annS    |-> AnnSingle(G, n, im),
      ann     |-> ann,
      annT    |-> IF ann.st = "ok" /\ ann.p <= 100 THEN QPow(G, ann.p) ELSE Zero,   \* exported when small (exact check outside TLC)
      hasVol  |-> hasV,
      vol2    |-> v2,
      vol     |-> vol,
      volUlp  |-> volr.ulp,
      volAbs2 |-> IF hasV THEN LET m == QMul(QOf(1, 1000000), QMul(QOf(1, 1000000), QMax(One, MaxAbs(rp))))     \* (1e-12 * max(1, |returns|))^2 * 365/interval:
                               IN  QMul(QMul(m, m), AnnFactor(im)) ELSE Zero,                                  \* double-rounding floor for a vanishing variance
      sharpe  |-> [i \in DOMAIN rfs |->
                    IF hasV /\ v2 # Zero /\ ann.st = "ok"
                    THEN [def |-> TRUE, rf |-> rfs[i], val |-> QRound(QDiv(QSub(ann.lo, rfs[i]), vol), 30, "HALF_EVEN"),
                          scale |-> QRound(QDiv(QMax(QAbs(ann.lo), rfs[i]), vol), 30, "HALF_EVEN")]
                    ELSE [def |-> FALSE, rf |-> rfs[i], val |-> Zero, scale |-> Zero]],
      hasB    |-> hasB,
      bTotal  |-> IF hasB THEN TotalReturn(b) ELSE Zero,
      bAnn    |-> annB,
      betaDef |-> bdef,
      beta    |-> beta,
      alphaDef |-> bdef /\ ann.st = "ok" /\ annB.st = "ok",
      alpha   |-> IF bdef /\ ann.st = "ok" /\ annB.st = "ok" THEN QSub(ann.lo, QMul(beta, annB.lo)) ELSE Zero,
      betaScale2 |-> IF bdef THEN QDiv(SampleVar(rp), varB) ELSE Zero]     \* beta^2 <= Var(rp)/Var(rb): the natural scale of beta (conditioning)

-----------------------------------------------------------------------------
(* Property C20, spec side: clauses over a series and its view *)
Inv_C20_MddRange(v, x)      == QGe(x.mdd, Zero) /\ QLt(x.mdd, One)                  \* within [0,1] (strictly below 1: positive series)
Inv_C20_MddZeroIff(v, x)    == (x.mdd = Zero) <=> NeverFalling(v)
Inv_C20_MddDefinition(v, x) == x.mdd = MddDef(v)                                     \* one-pass value = definition
Inv_C20_MddScale(v, x)      == \A i \in DOMAIN x.scales : Mdd(Scaled(v, x.scales[i])) = x.mdd
Inv_C20_ReturnForms(v, x)   == /\ QProdSeq(x.mults) = Growth(v)                      \* net-value-series form
                               /\ QProdSeq([i \in DOMAIN x.rets |-> QAdd(One, x.rets[i])]) = Growth(v)   \* return-series form
                               /\ x.total = QSub(Growth(v), One)                     \* end-point form
                               /\ \A i \in 2 .. Len(v) : QMul(QAdd(One, x.rets[i]), v[i - 1]) = v[i]
                               /\ x.rets[1] = Zero /\ x.mults[1] = One
                               /\ \A i \in DOMAIN x.scales : Rets(Scaled(v, x.scales[i])) = x.rets
Inv_C20_AnnRelation(v, x)   == /\ Rel_Ann(x.ann, Growth(v))
                               /\ x.days = QI(365) => /\ x.ann.st = "ok" /\ x.annS = x.total
                                                       /\ QLe(x.ann.lo, x.total) /\ QLt(x.total, QAdd(x.ann.lo, x.ann.ulp))
                               /\ (x.total = Zero) => (x.annS = Zero /\ (x.ann.st = "ok" => x.ann.lo = Zero))
Inv_C20_VolRelation(v, x)   == x.hasVol => /\ Rel_Root([lo |-> x.vol, ulp |-> x.volUlp], x.vol2, 2)
                                           /\ (x.vol2 = Zero <=> \A i \in 3 .. Len(v) : x.rets[i] = x.rets[2])
Inv_C20_Benchmark(v, b, x)  == x.hasB =>
                               /\ Rel_Ann(x.bAnn, Growth(b))
                               /\ (x.betaDef /\ \E c \in {QOf(1, 2), One, QI(3)} : b = Scaled(v, c)) => x.beta = One
                               /\ (x.alphaDef /\ b = v) => x.alpha = Zero
=============================================================================

------------------------------ MODULE MC_LiqMath ------------------------------
(* The case lattice of property C07, enumerated by TLC and instantiated by the harness with concrete ticks, prices and amounts. *)
EXTENDS Integers, TLC
CONSTANT Level
Regions == {"below", "at_lower", "inside", "at_upper", "above"}
Ranges  == {"narrow", "wide", "touch_min", "touch_max", "single_spacing", "zero_bound"}
Decs    == IF Level > 1 THEN {6, 8, 18} ELSE {6, 18}
Classes == {"zero", "one_wei", "typical", "huge"}      \* 0, 1 wei, ~1..1e4 tokens, 1e12 tokens
Cases == [region : Regions, range : Ranges, d0 : Decs, d1 : Decs, c0 : Classes, c1 : Classes]
VARIABLE c
Init == c \in Cases
Next == FALSE /\ c' = c
=============================================================================

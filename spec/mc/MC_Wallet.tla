------------------------------ MODULE MC_Wallet ------------------------------
(***************************************************************************)
(* The broker wallet alone (Wallet.tla): debits and credits whose amounts   *)
(* are chosen RELATIVE to the balance they touch, on both sides of the dust *)
(* tolerance of Asset.sub (1e-5): the boundary that properties C03 ("no     *)
(* operation raises net value by more than 1e-5 of a balance it touches")   *)
(* and C04 (a rejected debit leaves the balance) talk about.  Every market  *)
(* debits the wallet through this operation.                                *)
(***************************************************************************)
EXTENDS Wallet, TLC, Sequences

CONSTANTS MaxSteps,
          DEV_DustTenfold        \* the snap tolerance is 1e-4 instead of 1e-5 (mutation class)

VARIABLES st, last
vars == <<st, last>>

Tokens == {"usdc", "eth"}
Start  == {[usdc |-> QI(1000), eth |-> QI(10)], [usdc |-> Zero, eth |-> QOf(3, 8)]}

(* relative excess of a debit over the balance: exact, and on both sides of 1e-5 / of the float literal's neighbourhood *)
Excess == {QOf(-1, 2), QOf(-1, 50000), QOf(-9, 1000000), QOf(-1, 1000000), Zero, QOf(1, 1000000), QOf(9, 1000000),
           QOf(11, 1000000), QOf(1, 50000), QOf(1, 20000), QOf(1, 10000), QOf(1, 1000), One}
AbsAmts == {Zero, QOf(1, 1000000), QI(7)}

SubAmts(bal) == {QMul(bal, QAdd(One, e)) : e \in Excess} \cup AbsAmts
Events(s) == UNION {{[op |-> "sub", t |-> t, a |-> a] : a \in SubAmts(s.w[t])} \cup {[op |-> "add", t |-> t, a |-> a] : a \in AbsAmts}
                    : t \in Tokens}

Tol == IF DEV_DustTenfold THEN QOf(1, 10000) ELSE DustRatio
SubDev(bal, a) ==      \* WSub with the tolerance as a parameter (the DEV switch)
  LET base == IF bal # Zero THEN bal ELSE a IN
  IF base = Zero THEN [ok |-> TRUE, bal |-> bal]
  ELSE IF QLt(QAbs(QDiv(QSub(bal, a), base)), Tol) THEN [ok |-> TRUE, bal |-> Zero]
  ELSE IF QLt(QSub(bal, a), Zero) THEN [ok |-> FALSE, bal |-> bal]
  ELSE [ok |-> TRUE, bal |-> QSub(bal, a)]

Step(s, ev) ==
  IF ev.op = "add" THEN [st |-> [s EXCEPT !.w[ev.t] = WAdd(@, ev.a), !.k = @ + 1], out |-> "ok"]
  ELSE LET r == SubDev(s.w[ev.t], ev.a) IN
       [st |-> [s EXCEPT !.w[ev.t] = r.bal, !.k = @ + 1], out |-> IF r.ok THEN "ok" ELSE "reject"]

Init == /\ \E w0 \in Start : st = [w |-> w0, k |-> 0]
        /\ last = [ev |-> [op |-> "init", t |-> "", a |-> Zero], out |-> "ok", pre |-> Zero]
Next == /\ st.k < MaxSteps
        /\ \E ev \in Events(st) : LET r == Step(st, ev) IN st' = r.st /\ last' = [ev |-> ev, out |-> r.out, pre |-> st.w[ev.t]]
Spec == Init /\ [][Next]_vars

(* C03: no balance is ever negative *)
Inv_C03_NonNeg == \A t \in Tokens : QGe(st.w[t], Zero)
(* C03: what a debit takes out of the wallet is never less than the amount handed to the market minus 1e-5 of the balance it touches,
   i.e. the value the pair (wallet, market) gains is bounded by the dust *)
Inv_C03_Dust ==
  (last.ev.op = "sub" /\ last.out = "ok") =>
     LET taken == QSub(last.pre, st.w[last.ev.t]) IN
     QLe(QSub(last.ev.a, taken), QMul(QOf(1001, 100000000), last.pre))
(* C04: a rejected debit leaves the balance as it was *)
Inv_C04_RejectIntact == last.out = "reject" => st.w[last.ev.t] = last.pre
(* an overdraft beyond the dust is rejected *)
Inv_C03_OverdraftRejected ==
  (last.ev.op = "sub" /\ QGt(last.ev.a, QMul(last.pre, QAdd(One, QOf(11, 1000000)))) /\ last.ev.a # Zero /\ last.pre # Zero) => last.out = "reject"
=============================================================================

CONSTANTS
  DEV_SharedConfigMarkets = TRUE
  DEV_PerProcessMarkets = FALSE
  DEV_SharedBroker = FALSE
  ConfigInherited = TRUE
  NMax = 2
  MaxW = 2
  Mixes = {1}
  Level = 1
  PathSel = "fork"
INIT MCInit
NEXT MCNext
INVARIANT C19
INVARIANT EnabledAccepted
CHECK_DEADLOCK FALSE

CONSTANTS
  DEV_SharedConfigMarkets = FALSE
  DEV_PerProcessMarkets = FALSE
  DEV_SharedBroker = FALSE
  ConfigInherited = FALSE
  NMax = 3
  MaxW = 3
  Mixes = {1, 2, 3}
  Level = 2
  PathSel = "all"
INIT MCInit
NEXT MCNext
INVARIANT C19
INVARIANT ConfigUntouched
INVARIANT EnabledAccepted
CHECK_DEADLOCK FALSE

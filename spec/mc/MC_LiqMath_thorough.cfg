CONSTANT Level = 2
INIT Init
NEXT Next
CHECK_DEADLOCK FALSE

CONSTANTS
  DEV_SharedConfigMarkets = TRUE
  DEV_PerProcessMarkets = FALSE
  DEV_SharedBroker = FALSE
  ConfigInherited = FALSE
  NMax = 2
  MaxW = 1
  Mixes = {1}
  Level = 1
  PathSel = "seq"
INIT MCInit
NEXT MCNext
INVARIANT C19
INVARIANT EnabledAccepted
CHECK_DEADLOCK FALSE

CONSTANTS
  DEV_OverWithdraw = FALSE
  DEV_NoImpactCap = FALSE
  DEV_MutateBeforeCheck = FALSE
  Level = 2
  Depth = 9
  Cross = TRUE
INIT Init
NEXT Next
CONSTRAINT Bound
INVARIANT Inv_C17_NonNegShares
INVARIANT Inv_C17_RoundTrip
INVARIANT Inv_C17_ImpactCap
INVARIANT Inv_C17_MintValue
INVARIANT Inv_C17_WithdrawValue
CHECK_DEADLOCK FALSE

CONSTANTS
  Rows <- RowsDef
  LPTab <- LPTabDef
  Live = FALSE
  TwapBars = 7
  Level = 1
  MaxSteps = 3
  MaxVaults = 2
  NK = 2
  BarMode = FALSE
  NBars = 1
  MaxOps = 0
  Cross = TRUE
  DEV_OdmMutatesFirst = FALSE
  DEV_DepositCreditsFirst = FALSE
  DEV_WithdrawMutatesFirst = FALSE
  DEV_LpWithdrawMutatesFirst = FALSE
  DEV_BurnKeptOnReject = FALSE
  DEV_RedeemSwapsTokens = FALSE
  DEV_BountyUncapped = FALSE
  DEV_LentLpAtIndex = FALSE
SPECIFICATION Spec
INVARIANT Inv_NonNeg
INVARIANT Inv_Twap
INVARIANT Inv_View
PROPERTY P_AcceptedSafe
PROPERTY P_SafeStaysSafe
PROPERTY P_Movement
PROPERTY P_LiqIff
PROPERTY P_LiqAmounts
PROPERTY P_C04_Intact
PROPERTY P_C03_NoValueCreation
PROPERTY P_C03_PayoutBounded
INVARIANT Inv_C01_Once
CHECK_DEADLOCK FALSE

CONSTANTS
  DEV_SharedConfigMarkets = FALSE
  DEV_PerProcessMarkets = FALSE
  DEV_SharedBroker = TRUE
  ConfigInherited = FALSE
  NMax = 2
  MaxW = 2
  Mixes = {1}
  Level = 1
  PathSel = "all"
INIT MCInit
NEXT MCNext
INVARIANT C19
INVARIANT EnabledAccepted
CHECK_DEADLOCK FALSE

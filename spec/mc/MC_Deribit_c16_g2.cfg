CONSTANTS
  DEV_SellUnheldKeepsCredit = FALSE
  DEV_OversellAccepted = FALSE
  DEV_BuyDepletesBeforeCashCheck = FALSE
  DEV_LimitRejected = FALSE
  DEV_UsdLimitRejected = FALSE
  DEV_SettleStrictlyAfterExpiry = FALSE
  Scen = 2
  Level = 1
  MaxOps = 40
  MaxRefresh = 1
  MaxTrades = 2
  ContinueAfterReject = TRUE
  Grid = 2
  NH = 4
INIT Init
NEXT Next
INVARIANT Inv_C03_NonNeg_
INVARIANT Inv_C15_CashLedger_
INVARIANT Inv_C15_PositionBalance_
INVARIANT Inv_C16_NoSettleBeforeExpiry_
INVARIANT Inv_C16_SettledOnce_
PROPERTY Act_C15_BestFirst_
PROPERTY Act_C15_WithinDisplayed_
PROPERTY Act_C15_FillsRequested_
PROPERTY Act_C15_CostAndFee_
PROPERTY Act_C15_LimitOnlyThatLevel_
PROPERTY Act_C15_CapExcludesWorse_
PROPERTY Act_C15_BookShrinksByFills_
PROPERTY Act_C15_PositionExact_
PROPERTY Act_C15_NoSellUnheld_
PROPERTY Act_C15_EquityMove_
PROPERTY Act_C04_RejectIntact_
PROPERTY Act_C03_NoValueCreation_
PROPERTY Act_C03_NoOverRedemption_
PROPERTY Act_C16_SettleExactlyWhenDue_
PROPERTY Act_C16_Payoff_
PROPERTY Act_C16_TradeOnlyWhenOpen_
PROPERTY Act_C16_OnlyEndBarSettles_
CHECK_DEADLOCK FALSE

----------------------------- MODULE MC_GmxV2 -----------------------------
(* Bounded universe for GmxV2: balanced / nearly balanced / long-heavy / short-heavy / recorded pools,       *)
(* impact pool {0, small, large}, virtual inventory {absent, equal to the pool, more skewed}; deposits on     *)
(* either / both sides {tiny, unit, large, 3 x wallet}, withdrawals {ALL, 0.5, 1000, 3 x held, negative}.     *)
EXTENDS GmxV2, TLC

CONSTANTS Level,   \* 1 = quick (10 pool rows), 2 = thorough (45 pool rows)
          Depth,
          Cross    \* TRUE: states carry the account views the cross-market legs (C01/C03/C04) compare

VARIABLES st, last
vars == <<st, last>>

D2(a, b, kb, k) == QDiv(QAdd(QMul(QI(a), E(kb)), QI(b)), E(k))     \* (a * 10^kb + b) / 10^k

LP == D(3384585, 3)
(* kind: 1 balanced, 2 short-heavy by $3000 (a unit long deposit crosses over), 3 long-heavy, 4 short-heavy, 5 recorded row *)
Base(k) ==
  CASE k = 1 -> [la |-> QI(9000),  sa |-> QI(30461265), lp |-> LP, sp |-> One, pv |-> QI(63604493), sup |-> D(363749662, 1),
                 ipS |-> D(1, 3), vl |-> QI(9100), vs |-> QI(30461265)]
    [] k = 2 -> [la |-> QI(9000),  sa |-> QI(30464265), lp |-> LP, sp |-> One, pv |-> QI(63604493), sup |-> D(363749662, 1),
                 ipS |-> D(1, 7), vl |-> QI(9000), vs |-> QI(31464265)]
    [] k = 3 -> [la |-> QI(12000), sa |-> QI(30000000), lp |-> LP, sp |-> D(99996, 5), pv |-> QI(71000000), sup |-> QI(40000000),
                 ipS |-> D(1, 1), vl |-> QI(14000), vs |-> QI(30000000)]
    [] k = 4 -> [la |-> QI(6000),  sa |-> D(327543765, 1), lp |-> LP, sp |-> D(99996, 5), pv |-> QI(45000000), sup |-> QI(50000000),
                 ipS |-> QI(50), vl |-> QI(6000), vs |-> QI(40754376)]
    [] k = 5 -> [la |-> D2(915691510, 13039, 6, 11), sa |-> D2(327543765, 1923, 5, 6), lp |-> D2(338458542, 47282027, 8, 13),
                 sp |-> D2(999960532, 9412204, 7, 16), pv |-> D2(636044927, 87754506, 8, 9), sup |-> D2(363749662, 183361, 7, 8),
                 ipS |-> D(5, 2), vl |-> D2(104746151, 46280868, 8, 12), vs |-> D2(373553905, 93254, 5, 6)]

RowDef(i) ==
  LET k  == ((i - 1) \div 9) + 1
      ip == ((i - 1) \div 3) % 3           \* 0: empty impact pool, 1: small, 2: large
      v  == (i - 1) % 3                    \* 0: no virtual inventory (NaN in the data), 1: equal to the pool / recorded, 2: more skewed
      b  == Base(k)
  IN  [la |-> b.la, sa |-> b.sa, lp |-> b.lp, sp |-> b.sp, pv |-> b.pv, sup |-> b.sup,
       ip |-> CASE ip = 0 -> Zero [] ip = 1 -> b.ipS [] ip = 2 -> D2(742788794, 7216316, 7, 13),
       hasV |-> v > 0,
       vl |-> IF v = 2 \/ (v = 1 /\ k = 5) THEN b.vl ELSE b.la,
       vs |-> IF v = 2 \/ (v = 1 /\ k = 5) THEN b.vs ELSE b.sa]

RowIds == IF Level = 1 THEN {7, 11, 16, 20, 24, 25, 29, 33, 34, 44} ELSE 1 .. 45
RowTbl == [i \in RowIds |-> RowDef(i)]
Row(i) == RowTbl[i]
MinOf(S) == CHOOSE x \in S : \A y \in S : x <= y
Succ(r) == LET up == {x \in RowIds : x > r} IN IF up = {} THEN MinOf(RowIds) ELSE MinOf(up)

WL0 == QI(1000)
WS0 == QI(3000000)

DepAlpha == {[la |-> D(1, 2), sa |-> Zero], [la |-> One, sa |-> Zero], [la |-> QI(100), sa |-> Zero],
             [la |-> Zero, sa |-> QI(20)], [la |-> Zero, sa |-> D(3384585, 3)], [la |-> Zero, sa |-> QI(200000)],
             [la |-> One, sa |-> QI(3384)], [la |-> QI(100), sa |-> QI(20)], [la |-> Zero, sa |-> Zero]}
WdAlpha == {D(5, 1), QI(1000), QI(-5)}

Events(s) ==
  IF s.row = 0 THEN {[op |-> "bar", row |-> r] : r \in RowIds}
  ELSE {[op |-> "bar", row |-> Succ(s.row)]}
       \cup {[op |-> "dep", la |-> d.la, sa |-> d.sa] : d \in DepAlpha}
       \cup (IF s.wl = Zero THEN {} ELSE {[op |-> "dep", la |-> QMul(QI(3), s.wl), sa |-> Zero]})
       \cup (IF s.ws = Zero THEN {} ELSE {[op |-> "dep", la |-> One, sa |-> QMul(QI(3), s.ws)]})
       \cup {[op |-> "wd", all |-> FALSE, amt |-> a] : a \in WdAlpha}
       \cup {[op |-> "wd", all |-> TRUE, amt |-> Zero]}
       \cup (IF s.gm = Zero THEN {} ELSE {[op |-> "wd", all |-> FALSE, amt |-> QMul(QI(3), s.gm)]})

NoBal == [net |-> Zero, gm |-> Zero, long |-> Zero, short |-> Zero]
Init == /\ st = InitSt(WL0, WS0)
        /\ last = [ev |-> [op |-> "init"], out |-> "ok", res |-> NoRes, band |-> FALSE, bal |-> NoBal, acct |-> <<>>, rowdata |-> <<>>]

Next == \E ev \in Events(st) :
          LET r == Step(st, ev, Row) IN
          /\ st' = r.st
          /\ last' = [ev |-> ev, out |-> r.out, res |-> r.res, band |-> r.band, bal |-> Balance(r.st, Row(r.st.row)),
                      acct |-> IF Cross THEN AccountView(r.st, Row(r.st.row)) ELSE <<>>,
                      rowdata |-> IF ev.op = "bar" THEN Row(ev.row) ELSE <<>>]

Spec == Init /\ [][Next]_vars
Bound == st.n <= Depth

IsDep == last.ev.op = "dep"
Inv_C17_NonNegShares == QGe(st.gm, Zero) /\ QGe(st.wl, Zero) /\ QGe(st.ws, Zero)
Inv_C17_RoundTrip    == IsDep => RoundTripHolds(Row(st.row), last.ev.la, last.ev.sa)
Inv_C17_ImpactCap    == IsDep => ImpactCapHolds(Row(st.row), last.ev.la, last.ev.sa)
Inv_C17_MintValue    == IsDep => MintValueHolds(Row(st.row), last.ev.la, last.ev.sa)
(* withdrawals pay pool value per share less the withdrawal fee factor *)
Inv_C17_WithdrawValue == (last.ev.op = "wd" /\ last.out = "ok") =>
                            last.res.total_usd = QMul(last.res.gm_usd, QSub(One, WithdrawFeeNeg))

Prop_RejectLeavesState == [][last'.out = "reject" => (st'.wl = st.wl /\ st'.ws = st.ws /\ st'.gm = st.gm)]_vars

(* C03 (frozen market): within a bar no call, accepted or rejected, raises wallet x prices + GM value by more than the wallet
   dust of the balances it debits plus what the impact pool credits to a balancing deposit                                 *)
Prop_C03_NoValueCreation ==
  [][(st.row # 0 /\ last'.ev.op # "bar") =>
        QLe(AccountUsd(st', Row(st.row)),
            QAdd(AccountUsd(st, Row(st.row)), QAdd(DustAllowUsd(st, last'.ev, Row(st.row)), last'.res.credit)))]_vars
=============================================================================

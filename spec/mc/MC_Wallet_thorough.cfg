CONSTANTS
  MaxSteps = 4
  DEV_DustTenfold = FALSE
SPECIFICATION Spec
INVARIANT Inv_C03_NonNeg
INVARIANT Inv_C03_Dust
INVARIANT Inv_C04_RejectIntact
INVARIANT Inv_C03_OverdraftRejected
CHECK_DEADLOCK FALSE

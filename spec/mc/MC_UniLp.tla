------------------------------ MODULE MC_UniLp ------------------------------
(* Bounded exploration of UniLp.tla in both token orientations at once (self-composition for property C09): the mirror  *)
(* instance has token0/token1 swapped, ticks negated, ranges mirrored and per-token volumes swapped.                    *)
EXTENDS UniLp, TLC

CONSTANTS Level, MaxSteps, Focus,   \* Focus 0: operations, 1: fee paths (few operations, many bars)
          LateOps                    \* TRUE: the bar's update is an event of its own, so operations can follow it (after_bar)

VARIABLES st, stm, last, touched
vars == <<st, stm, last, touched>>

D(n, d) == QOf(n, d)
C == 200310                                   \* 1 ETH ~ 2000 USDC with token0 = USDC (6), token1 = ETH (18)
PoolA == [d0 |-> 6,  d1 |-> 18, fee |-> D(5, 10000), sp |-> 10, zq |-> TRUE]
PoolB == [d0 |-> 18, d1 |-> 6,  fee |-> D(5, 10000), sp |-> 10, zq |-> FALSE]

RangesDef == {<<C - 50, C + 50>>, <<C + 50, C + 150>>} \cup (IF Level > 1 THEN {<<C - 5000, C + 5000>>} ELSE {})
Mir(r) == <<0 - r[2], 0 - r[1]>>
AllRanges == RangesDef \cup {Mir(r) : r \in RangesDef}

PoolLiq(i) == CASE i = 0 -> <<>> [] i = 1 -> <<0, 0, 0, 0, 5>> [] OTHER -> <<0, 0, 0, 0, 5000>>     \* 0, 5e16, 5e19
CloseAlpha == {C - 60, C - 50, C - 10, C + 40, C + 50, C + 60} \cup (IF Level > 1 THEN {C - 51, C + 49, C + 160, C} ELSE {})
(* row table: every close tick with a pool liquidity / volume variant determined by the tick (keeps the table small) *)
RowOf(t, v) == [open |-> t, close |-> t, liq |-> PoolLiq(v), in0 |-> <<0, 0, 30>>, in1 |-> <<0, 0, 0, 0, 2>>]   \* 3000 USDC, 0.2 ETH
RowSeq == LET ts == CloseAlpha IN
          [i \in 1 .. (2 * Cardinality(ts)) |->
             LET t == CHOOSE x \in ts : Cardinality({y \in ts : y < x}) = (i - 1) % Cardinality(ts) IN
             RowOf(t, IF i <= Cardinality(ts) THEN 1 + (t % 2) ELSE 0)]
MirRow(r) == [open |-> 0 - r.open, close |-> 0 - r.close, liq |-> r.liq, in0 |-> r.in1, in1 |-> r.in0]
RowsA == RowSeq
RowsB == [i \in DOMAIN RowSeq |-> MirRow(RowSeq[i])]

W0 == <<D(20000, 1), D(10, 1)>>               \* 20000 USDC, 10 ETH  (token0, token1 of pool A)

U == INSTANCE UniLp WITH Ranges <- RangesDef, Rows <- RowsA
M == INSTANCE UniLp WITH Ranges <- {Mir(r) : r \in RangesDef}, Rows <- RowsB

BaseAmts  == {D(1, 1), AllAmt, D(0, 1), D(200, 1)}                     \* 200 ETH: twenty times the wallet (oversized: the other token binds)
QuoteAmts == {D(2000, 1), AllAmt, D(0, 1), D(100000, 1)}              \* 100000 USDC: five times the wallet
LiqAmts   == {AllLiq, <<0, 0, 0, 1>>} \cup (IF Level > 1 THEN {<<>>, <<0, 0, 0, 0, 0, 0, 1>>} ELSE {})

OpEvents ==
       {[op |-> "add", r |-> r, b |-> b, q |-> q] : r \in RangesDef, b \in BaseAmts, q \in QuoteAmts}
  \cup {[op |-> "remove", r |-> r, liq |-> l, collect |-> c] : r \in RangesDef, l \in LiqAmts, c \in BOOLEAN}
  \cup {[op |-> "collect", r |-> r, m0 |-> m, m1 |-> n] : r \in RangesDef, m \in {AllAmt, D(1, 100)}, n \in {AllAmt, D(1, 10000000)}}   \* caps on either token
  \cup {[op |-> "buy", a |-> a] : a \in {D(1, 2), D(0, 1), D(100, 1)}}
  \cup {[op |-> "sell", a |-> a] : a \in {D(1, 2), D(11, 1)}}
  \cup {[op |-> o, r |-> r] : o \in {"lend", "unlend"}, r \in RangesDef}          \* transfer_position_out / _in (a vault borrows the position)
FeeEvents ==
       {[op |-> "add", r |-> r, b |-> D(1, 1), q |-> D(2000, 1)] : r \in RangesDef}
  \cup {[op |-> "collect", r |-> <<C + 50, C + 150>>, m0 |-> AllAmt, m1 |-> AllAmt], [op |-> "buy", a |-> D(1, 2)],
        [op |-> "remove", r |-> <<C - 50, C + 50>>, liq |-> <<0, 0, 0, 1>>, collect |-> FALSE],
        [op |-> "lend", r |-> <<C - 50, C + 50>>], [op |-> "unlend", r |-> <<C - 50, C + 50>>]}
(* the owner does not operate on a position while it is lent (on chain the NFT belongs to the borrower) *)
OnLent(s, ev) == ev.op \in {"add", "remove", "collect"} /\ s.pos[ev.r].out
Events(s) == {ev \in (IF Focus = 1 THEN FeeEvents ELSE OpEvents) : ~OnLent(s, ev)}
             \cup {[op |-> "endbar", next |-> n] : n \in DOMAIN RowSeq}
             \cup (IF LateOps /\ ~s.upd THEN {[op |-> "update"]} ELSE {})       \* what follows in the bar runs in after_bar

MirEv(ev) == CASE ev.op \in {"add", "remove", "lend", "unlend"} -> [ev EXCEPT !.r = Mir(@)]
               [] ev.op = "collect" -> [ev EXCEPT !.r = Mir(@), !.m0 = ev.m1, !.m1 = ev.m0]
               [] OTHER -> ev

Scenarios == {<<>>, <<[op |-> "add", r |-> <<C - 50, C + 50>>, b |-> D(1, 1), q |-> D(2000, 1)]>>}
             \cup (IF Focus = 1 THEN {<<[op |-> "add", r |-> <<C - 50, C + 50>>, b |-> D(1, 1), q |-> D(2000, 1)],
                                        [op |-> "add", r |-> <<C + 50, C + 150>>, b |-> D(2, 1), q |-> D(0, 1)]>>} ELSE {})
RECURSIVE ApplyU(_, _)
ApplyU(s, evs) == IF evs = <<>> THEN s ELSE ApplyU(U!Step(s, Head(evs)).st, Tail(evs))
RECURSIVE ApplyM(_, _)
ApplyM(s, evs) == IF evs = <<>> THEN s ELSE ApplyM(M!Step(s, MirEv(Head(evs))).st, Tail(evs))

(* the in-range test is half-open ([lo, hi)): a fee path with an endpoint exactly on a range bound is not mirror symmetric
   (the bound belongs to the range in one orientation and not in the other), so fees are compared on the other paths only *)
Bounds == UNION {{r[1], r[2]} : r \in RangesDef}

Init == \E sc \in Scenarios, r0 \in {1, 4} :
          /\ st  = [ApplyU(U!InitSt(PoolA, W0, r0), sc) EXCEPT !.k = 0]
          /\ stm = [ApplyM(M!InitSt(PoolB, <<W0[2], W0[1]>>, r0), sc) EXCEPT !.k = 0]
          /\ touched = FALSE
          /\ last = [ev |-> [op |-> "init", scn |-> sc, row0 |-> r0], out |-> "ok", acts |-> <<>>, ret |-> <<>>, outm |-> "ok", retm |-> <<>>,
                     view |-> U!View(st), viewm |-> M!View(stm)]

Next == /\ st.k < MaxSteps
        /\ \E ev \in Events(st) :
             LET a == U!Step(st, ev)  b == M!Step(stm, MirEv(ev)) IN
             /\ st' = a.st /\ stm' = b.st
             /\ last' = [ev |-> ev, out |-> a.out, acts |-> a.acts, ret |-> a.ret, outm |-> b.out, retm |-> b.ret,
                          \* what the strategy sees in after_bar: this bar's fees accrued, still this bar's price
                          view  |-> U!View(IF ev.op = "endbar" THEN [a.st EXCEPT !.ptick = st.ptick, !.row = st.row] ELSE a.st),
                          viewm |-> M!View(IF ev.op = "endbar" THEN [b.st EXCEPT !.ptick = stm.ptick, !.row = stm.row] ELSE b.st)]
             /\ touched' = (touched \/ (ev.op = "endbar" /\ (st.prev \in Bounds \/ RowsA[st.row].close \in Bounds)))
Spec == Init /\ [][Next]_vars

ASSUME PrintT(<<"universe", [poolA |-> PoolA, poolB |-> PoolB, rowsA |-> RowsA, rowsB |-> RowsB, w0 |-> W0]>>)

R == [st |-> st', out |-> last'.out, acts |-> last'.acts, ret |-> last'.ret]
P_C08 == [][U!Act_C08(st, last'.ev, R)]_vars
P_C03 == [][U!Act_C03(st, last'.ev, R)]_vars
P_C04 == [][U!Act_C04(st, last'.ev, R)]_vars
Inv_C03_NonNeg == U!Inv_NonNeg(st) /\ M!Inv_NonNeg(stm)

(* C09: both orientations agree economically: outcome, wallet in base/quote terms, pending fees and liquidity per (mirrored) range *)
Rel12 == QMk(1, <<1>>, NTen(12))
Same(x, y) == QWithin(x, y, Rel12, QMk(1, <<1>>, NTen(24)))
Inv_C09 ==
  ~touched =>       \* once a boundary path has paid different fees, collected fees flow into the wallet and everything downstream
    /\ last.out = last.outm
    /\ Same(U!BaseOf(st, st.w), M!BaseOf(stm, stm.w)) /\ Same(U!QuoteOf(st, st.w), M!QuoteOf(stm, stm.w))
    /\ \A r \in RangesDef :
         /\ st.pos[r].on = stm.pos[Mir(r)].on
         /\ Same(QN(st.pos[r].liq), QN(stm.pos[Mir(r)].liq))
         /\ Same(st.pos[r].p0, stm.pos[Mir(r)].p1) /\ Same(st.pos[r].p1, stm.pos[Mir(r)].p0)
    /\ Same(U!NetValue(st), M!NetValue(stm))
=============================================================================

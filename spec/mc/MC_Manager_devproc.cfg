CONSTANTS
  DEV_SharedConfigMarkets = FALSE
  DEV_PerProcessMarkets = TRUE
  DEV_SharedBroker = FALSE
  ConfigInherited = FALSE
  NMax = 3
  MaxW = 2
  Mixes = {1}
  Level = 1
  PathSel = "fork"
INIT MCInit
NEXT MCNext
INVARIANT C19
INVARIANT EnabledAccepted
CHECK_DEADLOCK FALSE

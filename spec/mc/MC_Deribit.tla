--------------------------- MODULE MC_Deribit ---------------------------
(***************************************************************************)
(* Bounded configurations of Deribit.tla.                                   *)
(*  Scen = 1 (C15): orders of all three pricing modes against small books   *)
(*           within one bar and across a book refresh.                      *)
(*  Scen = 2 (C16): a bar grid around the expiries, settlement in the       *)
(*           update phase of every bar, trades on open and closed bars.     *)
(* `last` keeps the event and its outcome so that a dumped graph / a        *)
(* simulated behaviour can be replayed into the real market.                *)
(***************************************************************************)
EXTENDS Deribit, TLC

CONSTANTS Scen, Level, MaxOps, MaxRefresh, MaxTrades, ContinueAfterReject,
          Grid,      \* Scen 2: 1 = every hour (option market alone, interval 1h); 2 = sparse minutes (minutely co-market);
                     \*         3 = only the hours that have a book row (option market alone, default interval)
          NH         \* Scen 2: number of hours on the grid

VARIABLES c, st, last
vars == <<c, st, last>>

I2 == {"C", "P"}
P4(n) == QOf(n, 10000)
Lv(p, s) == [p |-> P4(p), s |-> QOf(s, 2)]          \* price in 1e-4, size in halves (exact in binary floating point)
Mark7 == QOf(497604, 10000000)                      \* 0.0497604 -> Quantize6 = 0.049760

-----------------------------------------------------------------------------
(* Scen 1 universe *)
BookC(b) ==
  CASE b = 1 -> [listed |-> TRUE, live |-> TRUE, asks |-> <<Lv(500, 4), Lv(505, 5), Lv(510, 0), Lv(520, 10)>>, bids |-> <<Lv(490, 4), Lv(485, 5)>>,
                 mark |-> Mark7, und |-> QI(2000)]
    [] b = 2 -> [listed |-> TRUE, live |-> TRUE, asks |-> <<>>, bids |-> <<Lv(490, 2)>>, mark |-> P4(495), und |-> QI(2000)]
    [] b = 3 -> [listed |-> TRUE, live |-> TRUE, asks |-> <<Lv(500, 0), Lv(505, 2)>>, bids |-> <<Lv(490, 0)>>, mark |-> P4(495), und |-> QI(2000)]
    [] b = 4 -> [listed |-> TRUE, live |-> TRUE, asks |-> <<Lv(500, 1), Lv(505, 1), Lv(510, 3)>>, bids |-> <<Lv(495, 1), Lv(490, 5), Lv(485, 2)>>,
                 mark |-> Mark7, und |-> QI(2000)]
    [] b = 5 -> [listed |-> TRUE, live |-> TRUE, asks |-> <<Lv(500, 3), Lv(501, 3), Lv(502, 3), Lv(503, 40)>>, bids |-> <<Lv(499, 3), Lv(498, 3), Lv(497, 3), Lv(496, 3)>>,
                 mark |-> QOf(4995, 100000), und |-> QI(2000)]
    \* a deep in-the-money premium: one price tick (0.0005) is less than the 0.1 % tolerance of a limit price, so TWO levels match a limit
    \* price and only the first of them may be filled
    [] b = 6 -> [listed |-> TRUE, live |-> TRUE, asks |-> <<Lv(8000, 2), Lv(8005, 4), Lv(8100, 2)>>, bids |-> <<Lv(7995, 2), Lv(7990, 4)>>,
                 mark |-> P4(7998), und |-> QI(2000)]
BookP == [listed |-> TRUE, live |-> TRUE, asks |-> <<Lv(610, 5), Lv(620, 2)>>, bids |-> <<Lv(590, 10)>>, mark |-> P4(600), und |-> QI(2000)]
BookIds == IF Level > 1 THEN 1 .. 6 ELSE {1, 2, 3, 4, 6}
Books(b) == [i \in I2 |-> IF i = "C" THEN BookC(b) ELSE BookP]
BooksPGone == [i \in I2 |-> IF i = "C" THEN BookC(1) ELSE NoRow]                      \* P not in the order book of the new bar
BooksPHalt == [i \in I2 |-> IF i = "C" THEN BookC(1) ELSE [BookP EXCEPT !.live = FALSE]]   \* P listed with state "closed"
PxEth == QI(1900)                                    \* ETH in the account quote token (C01: market quote token # account quote)
Wallet0 == QOf(1000005, 1000000)                     \* depositing 1 leaves 5e-6 (< 1e-5 relative): snapped to zero by Asset.sub
CashAlpha == {QI(5), QOf(12, 100)}

Info1 == [i \in I2 |-> [kind |-> i, K |-> QI(2000), exp |-> 100000]]

AmtAlpha(lv) ==
  LET nz == NonZero(lv)  depth == SumSizes(lv) IN
  {QOf(4, 10), One, depth, QAdd(depth, One), QI(-1)} \cup (IF nz # <<>> THEN {nz[1].s, QAdd(nz[1].s, One)} ELSE {})
LimAmt(lv)  == LET nz == NonZero(lv) IN {One} \cup (IF nz # <<>> THEN {nz[1].s, QAdd(nz[1].s, One)} ELSE {})
LimPx(lv)   == {P4(700)} \cup (IF Len(lv) >= 1 THEN {lv[1].p} ELSE {})
                         \cup (IF Len(lv) >= 2 THEN {QMul(lv[2].p, QOf(10005, 10000))} ELSE {})
                         \cup (IF Level > 1 /\ Len(lv) >= 3 THEN {QMul(lv[3].p, QOf(9995, 10000))} ELSE {})
CapK        == {QOf(1015, 1000), QOf(102, 100), QOf(105, 100)}     \* 1.02: on book 4 the cap keeps two levels and excludes the third
CapAmt(lv)  == {One, SumSizes(lv)} \cup (IF Level > 1 THEN {QOf(2, 1)} ELSE {})

Tr(op, i, amt, mode, px) == [op |-> op, i |-> i, amt |-> amt, mode |-> mode, px |-> px]
TradesC(s) ==
  UNION {LET lv == IF op = "buy" THEN s.book["C"].asks ELSE s.book["C"].bids IN
              {Tr(op, "C", a, "mkt", Zero) : a \in AmtAlpha(lv)}
         \cup {Tr(op, "C", a, "lim", px) : a \in LimAmt(lv), px \in LimPx(lv)}
         \cup {Tr(op, "C", a, "cap", k) : a \in CapAmt(lv), k \in CapK}
         \* a limit price quoted in USD (price_in_usd): the first level's price x the underlying, and a price no level has
         \cup (IF Len(lv) >= 1 THEN {Tr(op, "C", One, "limusd", QMul(lv[1].p, s.book["C"].und))} ELSE {})
         \cup {Tr(op, "C", One, "limusd", QOf(7, 5))}
         : op \in {"buy", "sell"}}
TradesP(s) == {Tr(op, "P", a, "mkt", Zero) : op \in {"buy", "sell"}, a \in {One, QI(20)}}
               \cup {Tr("sell", "P", QI(5), "lim", P4(590))}
Events1(s) ==
  TradesC(s) \cup TradesP(s)
  \cup {[op |-> "deposit", amt |-> One], [op |-> "withdraw", amt |-> QOf(5, 100)], [op |-> "withdraw", amt |-> QI(10)],
        [op |-> "deposit", amt |-> QOf(100001, 100000)],     \* 1.00001: overdraft of the wallet within the 1e-5 dust -> snapped
        [op |-> "deposit", amt |-> QOf(10005, 10000)]}       \* 1.0005 : overdraft beyond the dust -> refused
  \cup (IF s.nref < MaxRefresh THEN {[op |-> "refresh", open |-> TRUE, hour |-> TRUE, book |-> Books(b)] : b \in BookIds}
                                    \cup {[op |-> "refresh", open |-> FALSE, hour |-> TRUE, book |-> Books(1)],     \* hour without book row
                                          [op |-> "refresh", open |-> FALSE, hour |-> FALSE, book |-> s.book],      \* off-hour bar: same row
                                          [op |-> "refresh", open |-> TRUE, hour |-> TRUE, book |-> BooksPGone],
                                          [op |-> "refresh", open |-> TRUE, hour |-> TRUE, book |-> BooksPHalt]}
        ELSE {})

St0 == [wallet |-> Wallet0, eqBar |-> Zero, cash |-> Zero, pos |-> [i \in I2 |-> ZeroPos], book |-> Books(1), info |-> Info1, px |-> QI(2000), t |-> 0, hour |-> TRUE,
        open |-> TRUE, bar |-> 0, n |-> 0, ntr |-> 0, nref |-> 0, done |-> FALSE, ledger |-> Zero,
        settled |-> [i \in I2 |-> 0], epochs |-> [i \in I2 |-> 0], soldOut |-> [i \in I2 |-> 0], setAt |-> [i \in I2 |-> 0]]

(* a configuration with pre = TRUE starts with a forced prefix (not counted against MaxOps): buy 3 calls, sell 2 - a position that
   was partially sold, so that "amount held" (1) and "amount ever bought" (3) differ when the explored orders follow *)
PreEv == <<Tr("buy", "C", QI(3), "mkt", Zero), Tr("sell", "C", QI(2), "mkt", Zero)>>
Init1 == /\ c \in {[b |-> b, cash |-> ca, hour0 |-> TRUE, pre |-> FALSE] : b \in BookIds, ca \in CashAlpha}
                  \cup {[b |-> 1, cash |-> QI(5), hour0 |-> FALSE, pre |-> FALSE]}          \* the run starts on an off-hour bar
                  \cup {[b |-> 1, cash |-> QI(5), hour0 |-> TRUE, pre |-> TRUE]}
         /\ st = [St0 EXCEPT !.cash = c.cash, !.ledger = c.cash, !.book = Books(c.b), !.hour = c.hour0, !.open = c.hour0,
                              !.n = IF c.pre THEN -Len(PreEv) ELSE 0]

-----------------------------------------------------------------------------
(* Scen 2 universe *)
UAlpha == {QI(1800), QI(2000), QOf(8001, 4), QI(2200)} \cup (IF Level > 1 THEN {QOf(7999, 4)} ELSE {})
ExpAlpha == {-60, 60, 90, 120, 6000}
Hours == 0 .. (NH - 1)
MissAlpha == {{}, {2}} \cup (IF Level > 1 THEN {{1, 2}, {1}} ELSE {})     \* hours without a book row
MarkAlpha == {Mark7, P4(4)}
(* Grid 5 (bars two hours apart): only odd hours are ever without a row - what a two-hour bar shows when its own hour has no row is
   a matter of the resampling rule, not of this property *)
MissFor == IF Grid = 5 THEN {{}, {1}} \cup (IF Level > 1 THEN {{1, 3}} ELSE {}) ELSE MissAlpha
Configs2 == {[exp |-> e, miss |-> ms, delist |-> dl, mark |-> m] : e \in ExpAlpha, ms \in MissFor, dl \in BOOLEAN, m \in MarkAlpha}
RowsOf(cf) == Hours \ cf.miss

SeqOfSet(S) == LET RECURSIVE F(_)
                   F(T) == IF T = {} THEN <<>> ELSE LET x == CHOOSE y \in T : \A z \in T : y <= z IN <<x>> \o F(T \ {x})
               IN  F(S)
Info2(cf) == [i \in I2 |-> [kind |-> i, K |-> QI(2000), exp |-> IF i = "C" THEN cf.exp ELSE 120]]

BarTimes(cf) ==
  CASE Grid = 1 -> [j \in 1 .. NH |-> 60 * (j - 1)]
    [] Grid = 3 -> SeqOfSet({60 * h : h \in RowsOf(cf)})
    [] Grid = 2 -> SeqOfSet(UNION {{60 * h, 60 * h + 1, 60 * h + 30, 60 * h + 59} : h \in Hours} \ {60 * (NH - 1) + 30, 60 * (NH - 1) + 59})
    [] Grid = 4 -> SeqOfSet(UNION {{60 * h, 60 * h + 15, 60 * h + 30, 60 * h + 45} : h \in Hours} \ {60 * (NH - 1) + 30, 60 * (NH - 1) + 45})
                   \* a minutely co-market RESAMPLED to 15-minute bars: the hourly book must not be up-sampled into the off-hour bars
    [] Grid = 5 -> [j \in 1 .. (NH \div 2) |-> 120 * (j - 1)]
                   \* the option market alone on a TWO-hour grid (interval "2h"): a bar shows the book of its own hour - the hours in
                   \* between exist in the data (with other books and prices) and are never visible

ListedAt(cf, i, t) == ~(cf.delist /\ t >= Info2(cf)[i].exp)
Row2(cf, i, h, u) ==
  IF h \in RowsOf(cf) /\ ListedAt(cf, i, 60 * h)
  THEN [listed |-> TRUE, live |-> TRUE, asks |-> <<Lv(500, 20)>>, bids |-> <<Lv(490, 20)>>, mark |-> cf.mark, und |-> u]
  ELSE NoRow
BarData(cf, t, u) ==      \* status loaded at bar time t when the hour's underlying is u
  LET h == t \div 60 IN
  [last |-> FALSE, t |-> t, hour |-> (t % 60 = 0), open |-> (t % 60 = 0) /\ h \in RowsOf(cf), px |-> u,
   book |-> [i \in I2 |-> Row2(cf, i, h, u)]]

Trades2 == {Tr("buy", "C", One, "mkt", Zero), Tr("buy", "C", QI(3), "mkt", Zero), Tr("buy", "P", QI(2), "mkt", Zero), Tr("sell", "C", One, "mkt", Zero)}
           \cup (IF Level > 1 THEN {Tr("sell", "P", QI(2), "mkt", Zero), Tr("buy", "P", One, "lim", P4(500))} ELSE {})

Events2(s) ==
  IF s.done THEN {}
  ELSE LET bt == BarTimes(c) IN
       (IF s.ntr < MaxTrades THEN Trades2 ELSE {})
       \cup (IF s.bar + 1 = Len(bt) THEN {[op |-> "endbar", next |-> [last |-> TRUE]]}
             ELSE LET t2 == bt[s.bar + 2] IN
                  IF t2 % 60 = 0 THEN {[op |-> "endbar", next |-> BarData(c, t2, u)] : u \in UAlpha}
                  ELSE {[op |-> "endbar", next |-> BarData(c, t2, s.px)]})

Init2 == /\ c \in Configs2
         /\ \E u \in UAlpha :
              LET b0 == BarData(c, BarTimes(c)[1], u) IN
              st = [St0 EXCEPT !.wallet = QI(990), !.cash = QI(10), !.ledger = QI(10), !.info = Info2(c), !.t = b0.t, !.hour = b0.hour, !.open = b0.open,
                               !.px = u, !.book = b0.book]

-----------------------------------------------------------------------------
Events(s) == IF Scen = 1 THEN Events1(s) ELSE Events2(s)

Init == /\ IF Scen = 1 THEN Init1 ELSE Init2
        /\ last = [ev |-> [op |-> "init"], out |-> "ok", cause |-> "", fills |-> <<>>, fee |-> Zero, acts |-> <<>>, eq |-> Equity(st), nv |-> NetValue(st, PxEth)]

Next == /\ st.n < MaxOps
        /\ (ContinueAfterReject \/ last.out = "ok")
        /\ \E ev \in (IF st.n < 0 THEN {PreEv[Len(PreEv) + st.n + 1]} ELSE Events(st)) :
             LET r == Step(st, ev) IN
             /\ st' = r.st
             /\ last' = [ev |-> ev, out |-> r.out, cause |-> r.cause, fills |-> r.fills, fee |-> r.fee, acts |-> r.acts, eq |-> Equity(r.st), nv |-> NetValue(r.st, PxEth)]
        /\ c' = c

Spec == Init /\ [][Next]_vars

-----------------------------------------------------------------------------
(* state invariants *)
Inv_C03_NonNeg_             == Inv_C03_NonNeg(st)
Inv_C15_CashLedger_         == Inv_C15_CashLedger(st)
Inv_C15_PositionBalance_    == Inv_C15_PositionBalance(st)
Inv_C16_NoSettleBeforeExpiry_ == Inv_C16_NoSettleBeforeExpiry(st)
Inv_C16_SettledOnce_        == Inv_C16_SettledOnce(st)
(* settlement is not late: after the update phase of an hour bar at/after expiry nothing expired is still held.
   (st.t is already the NEXT bar's time after endbar, so the clause is stated on the action below.) *)

(* action properties: R is the result of the step just taken *)
R == [st |-> st', out |-> last'.out, fills |-> last'.fills, fee |-> last'.fee, acts |-> last'.acts]
E == last'.ev
Act_C15_BestFirst_          == [][Act_C15_BestFirst(st, E, R)]_vars
Act_C15_WithinDisplayed_    == [][Act_C15_WithinDisplayed(st, E, R)]_vars
Act_C15_FillsRequested_     == [][Act_C15_FillsRequested(st, E, R)]_vars
Act_C15_CostAndFee_         == [][Act_C15_CostAndFee(st, E, R)]_vars
Act_C15_LimitOnlyThatLevel_ == [][Act_C15_LimitOnlyThatLevel(st, E, R)]_vars
Act_C15_CapExcludesWorse_   == [][Act_C15_CapExcludesWorse(st, E, R)]_vars
Act_C15_BookShrinksByFills_ == [][Act_C15_BookShrinksByFills(st, E, R)]_vars
Act_C15_PositionExact_      == [][Act_C15_PositionExact(st, E, R)]_vars
Act_C15_NoSellUnheld_       == [][Act_C15_NoSellUnheld(st, E, R)]_vars
Act_C15_EquityMove_         == [][Act_C15_EquityMove(st, E, R)]_vars
Act_C04_RejectIntact_       == [][Act_C04_RejectIntact(st, E, R)]_vars
Act_C03_NoValueCreation_    == [][Act_C03_NoValueCreation(st, E, R)]_vars
Act_C03_NoOverRedemption_   == [][Act_C03_NoOverRedemption(st, E, R)]_vars
Act_C16_SettleExactlyWhenDue_ == [][Act_C16_SettleExactlyWhenDue(st, E, R)]_vars
Act_C16_Payoff_             == [][Act_C16_Payoff(st, E, R)]_vars
Act_C16_TradeOnlyWhenOpen_  == [][Act_C16_TradeOnlyWhenOpen(st, E, R)]_vars
Act_C16_OnlyEndBarSettles_  == [][Act_C16_OnlyEndBarSettles(st, E, R)]_vars
=============================================================================

CONSTANTS
  Level = 1
  MaxSteps = 4
  Focus = 1
  Ranges <- AllRanges
  Rows <- RowsA
  DEV_LastTickOverwrittenByRefresh2 = TRUE
  DEV_LateWriteKeepsLastTick = FALSE
  LateOps = FALSE
  DEV_ShareWithoutOwnLiquidity = FALSE
SPECIFICATION Spec
INVARIANT Inv_C03_NonNeg
INVARIANT Inv_C09
PROPERTY P_C08
PROPERTY P_C03
PROPERTY P_C04
CHECK_DEADLOCK FALSE

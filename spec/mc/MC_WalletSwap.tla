---------------------------- MODULE MC_WalletSwap ----------------------------
(***************************************************************************)
(* Broker.swap_by_from / swap_by_to (Wallet!BSwapFrom / BSwapTo) together   *)
(* with plain credits and debits: the swap amounts are sized RELATIVE to    *)
(* the balance they debit (both sides of the 1e-5 dust tolerance), under    *)
(* two price vectors and fee rates {0, 0.003 (the default), 1/2, 1 (not a   *)
(* legal rate: rejected)}.  Clauses of C03 (a swap at the bar's prices      *)
(* loses exactly the reported fee, apart from the dust the debit forgives;  *)
(* nothing negative) and C04 (a rejected swap leaves the wallet).           *)
(***************************************************************************)
EXTENDS Wallet, TLC, Sequences

CONSTANTS MaxSteps,
          DEV_CreditBeforeDebit,   \* the "to" token is credited before the debit raises (mutation class: rejected swap keeps the credit)
          DEV_FeeOnBothSides       \* by_to charges the fee twice: from = a * px[t] / (1 - fee)^2 / px[f]  (mutation class)

VARIABLES st, last
vars == <<st, last>>

Tokens == {"usdc", "eth"}
Other(t) == IF t = "usdc" THEN "eth" ELSE "usdc"
Start  == {[usdc |-> QI(1000), eth |-> QI(10)], [usdc |-> Zero, eth |-> QOf(3, 8)]}
Px     == <<[usdc |-> One, eth |-> QI(2000)], [usdc |-> QOf(19, 20), eth |-> QI(1600)]>>
(* (price vector, fee) combinations *)
Combos == {<<1, QOf(3, 1000)>>, <<2, QOf(3, 1000)>>, <<1, QOf(1, 2)>>, <<1, One>>, <<2, Zero>>}

Excess == {QOf(-1, 2), Zero, QOf(9, 1000000), QOf(1, 50000), One}
AbsAmts == {Zero, QI(7)}

FromAmts(bal) == {QMul(bal, QAdd(One, e)) : e \in Excess} \cup AbsAmts
(* the "to" amount whose cost is exactly x of the "from" token *)
ToFor(x, f, t, px, fee) == IF QLt(fee, One) THEN QDiv(QMul(QMul(x, px[f]), QSub(One, fee)), px[t]) ELSE x
Events(s) ==
  UNION {
    {[op |-> "swapf", t |-> f, to |-> Other(f), a |-> a, px |-> c[1], fee |-> c[2]] : a \in FromAmts(s.w[f])} \cup
    {[op |-> "swapt", t |-> f, to |-> Other(f), a |-> ToFor(x, f, Other(f), Px[c[1]], c[2]), px |-> c[1], fee |-> c[2]] : x \in FromAmts(s.w[f])}
    : f \in Tokens, c \in Combos}
  \cup {[op |-> "swapf", t |-> "eth", to |-> "eth", a |-> QOf(1, 4), px |-> 1, fee |-> QOf(3, 1000)]}    \* a token into itself: only the fee leaves
  \cup {[op |-> "add", t |-> t, to |-> t, a |-> QI(7), px |-> 1, fee |-> Zero] : t \in Tokens}
  \cup {[op |-> "sub", t |-> t, to |-> t, a |-> QMul(s.w[t], QOf(1, 2)), px |-> 1, fee |-> Zero] : t \in Tokens}

ByTo(w, f, t, a, px, fee) ==
  IF DEV_FeeOnBothSides /\ FeeOk(fee)
  THEN BSwapMove(w, f, t, QDiv(QDiv(QDiv(QMul(a, px[t]), QSub(One, fee)), QSub(One, fee)), px[f]), a, fee)
  ELSE BSwapTo(w, f, t, a, px, fee)
Swap(w, ev) ==
  LET r == IF ev.op = "swapf" THEN BSwapFrom(w, ev.t, ev.to, ev.a, Px[ev.px], ev.fee) ELSE ByTo(w, ev.t, ev.to, ev.a, Px[ev.px], ev.fee) IN
  IF DEV_CreditBeforeDebit /\ ~r.ok /\ FeeOk(ev.fee) THEN [r EXCEPT !.w = [w EXCEPT ![ev.to] = WAdd(@, r.to)]] ELSE r

Step(s, ev) ==
  IF ev.op = "add" THEN [st |-> [s EXCEPT !.w[ev.t] = WAdd(@, ev.a), !.k = @ + 1], out |-> "ok", r |-> <<>>]
  ELSE IF ev.op = "sub" THEN LET r == WSub(s.w[ev.t], ev.a) IN
       [st |-> [s EXCEPT !.w[ev.t] = r.bal, !.k = @ + 1], out |-> IF r.ok THEN "ok" ELSE "reject", r |-> <<>>]
  ELSE LET r == Swap(s.w, ev) IN
       [st |-> [s EXCEPT !.w = r.w, !.k = @ + 1], out |-> IF r.ok THEN "ok" ELSE "reject", r |-> <<r.from, r.to, r.fee>>]

Init == /\ \E w0 \in Start : st = [w |-> w0, k |-> 0]
        /\ last = [ev |-> [op |-> "init", t |-> "", to |-> "", a |-> Zero, px |-> 1, fee |-> Zero], out |-> "ok", prew |-> [usdc |-> Zero, eth |-> Zero], r |-> <<>>]
Next == /\ st.k < MaxSteps
        /\ \E ev \in Events(st) : LET r == Step(st, ev) IN st' = r.st /\ last' = [ev |-> ev, out |-> r.out, prew |-> st.w, r |-> r.r]
Spec == Init /\ [][Next]_vars

Value(w, px) == QAdd(QMul(w.usdc, px.usdc), QMul(w.eth, px.eth))
IsSwap == last.ev.op \in {"swapf", "swapt"}

Inv_C03_NonNeg == \A t \in Tokens : QGe(st.w[t], Zero)
(* C03: an accepted swap at the bar's prices loses the reported fee (valued at the bar's price of the token it is reported in); the
   only other difference is what the dust snap of the debit forgives, at most 1.001e-5 of the balance debited *)
Inv_C03_SwapLosesFee ==
  (IsSwap /\ last.out = "ok") =>
     LET px   == Px[last.ev.px]
         loss == QSub(Value(last.prew, px), Value(st.w, px))
         fee  == QMul(last.r[3], px[last.ev.t])
     IN  /\ QLe(loss, fee)
         /\ QLe(QSub(fee, loss), QMul(QMul(QOf(1001, 100000000), last.prew[last.ev.t]), px[last.ev.t]))
(* C04: a rejected swap leaves every balance *)
Inv_C04_RejectIntact == last.out = "reject" => st.w = last.prew
(* the two forms agree: what by_from hands out for x costs x in by_to (spec-level sanity of ToFor) *)
Inv_Info_FormsAgree ==
  (last.ev.op = "swapt" /\ last.out = "ok" /\ QLt(last.ev.fee, One)) =>
     BSwapFrom(last.prew, last.ev.t, last.ev.to, last.r[1], Px[last.ev.px], last.ev.fee).to = last.r[2]
=============================================================================

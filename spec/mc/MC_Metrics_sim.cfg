CONSTANTS
  DEV_MddAbsoluteDecline = FALSE
  Mode = 2
  MaxLen = 0
  MaxLenB = 0
  MaxLenFam = 0
  TopCombos = 8
  Level = 2
  SimMinLen = 6
  SimMaxLen = 200
  Part1 = 0
  Part2 = 0
INIT Init
NEXT Next
INVARIANT Inv_MddRange
INVARIANT Inv_MddZeroIff
INVARIANT Inv_MddDefinition
INVARIANT Inv_MddScale
INVARIANT Inv_ReturnForms
INVARIANT Inv_AnnRelation
INVARIANT Inv_VolRelation
INVARIANT Inv_Benchmark
CHECK_DEADLOCK FALSE

CONSTANTS
  DEV_PeriodsStopAtFirstMatch = FALSE
  Intervals = {1, 2, 5}
  Starts = {600}
  NBars = 14
  MaxTrig = 1
  Level = 1
INIT Init
NEXT Next
INVARIANT Inv_FiredExactly
INVARIANT Inv_RetiredOnlyWhenDead
CHECK_DEADLOCK FALSE

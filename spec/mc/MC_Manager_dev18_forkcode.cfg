CONSTANTS
  DEV_SharedConfigMarkets = TRUE
  DEV_PerProcessMarkets = FALSE
  DEV_SharedBroker = FALSE
  ConfigInherited = FALSE
  NMax = 3
  MaxW = 3
  Mixes = {1}
  Level = 1
  PathSel = "fork"
INIT MCInit
NEXT MCNext
INVARIANT C19
INVARIANT EnabledAccepted
CHECK_DEADLOCK FALSE

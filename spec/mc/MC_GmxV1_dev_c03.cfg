CONSTANTS
  DEV_OverRedeem = FALSE
  DEV_NoDecimalsAdjust = TRUE
  DEV_MutateBeforeDebit = FALSE
  Level = 3
  Depth = 2
INIT Init
NEXT Next
CONSTRAINT Bound
PROPERTY Prop_C03_NoValueCreation
CHECK_DEADLOCK FALSE

CONSTANTS
  DEV_PeriodsStopAtFirstMatch = FALSE
  Intervals = {1, 2, 5}
  Starts = {600, 1430}
  NBars = 26
  MaxTrig = 1
  Level = 2
INIT Init
NEXT Next
INVARIANT Inv_FiredExactly
INVARIANT Inv_RetiredOnlyWhenDead
CHECK_DEADLOCK FALSE

CONSTANTS
  Level = 2
  MaxSteps = 22
  Focus = 0
  Tokens <- TokensDef
  Risk <- RiskDef
  Rows <- RowsDef
  DEV_SupplyDebitsBeforeFlagCheck = FALSE
  DEV_WithdrawKeepsTrial = FALSE
  DEV_LiqUsesDebtIndex = FALSE
  DEV_BorrowLimitUsesLT = FALSE
SPECIFICATION Spec
INVARIANT Inv_C03_NonNeg
INVARIANT TypeOK
CHECK_DEADLOCK FALSE

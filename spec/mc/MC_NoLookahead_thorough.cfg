CONSTANTS
  DEV_PriceFromNextBar = FALSE
  DEV_TwapWindowEndsNext = FALSE
  DEV_StatusRowNext = FALSE
  DEV_AccountPriceNext = FALSE
  DEV_StatusWrittenBack = FALSE
  DEV_BookSharedWithData = FALSE
  DEV_HourRounded = FALSE
  NBars = 6
  Syms = 3
  Factors = {1, 5}
  Scripts = {1, 2, 3}
  Pairs = TRUE
INIT Init
NEXT Next
INVARIANT Inv_Prefix
INVARIANT Inv_InputsIntact
INVARIANT Inv_Rerun
INVARIANT Inv_ReadsOnlyPast
INVARIANT Inv_Export
CHECK_DEADLOCK FALSE

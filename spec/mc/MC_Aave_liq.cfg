CONSTANTS
  Level = 1
  MaxSteps = 4
  Focus = 1
  Tokens <- TokensDef
  Risk <- RiskDef
  Rows <- RowsDef
  DEV_SupplyDebitsBeforeFlagCheck = FALSE
  DEV_WithdrawKeepsTrial = FALSE
  DEV_LiqUsesDebtIndex = FALSE
  DEV_BorrowLimitUsesLT = FALSE
SPECIFICATION Spec
INVARIANT Inv_C03_NonNeg
INVARIANT TypeOK
PROPERTY P_C04
PROPERTY P_C03
PROPERTY P_C10
PROPERTY P_C10_Accrue
PROPERTY P_C11
PROPERTY P_C12
CHECK_DEADLOCK FALSE

---------------------------- MODULE MC_BarLoop ----------------------------
(***************************************************************************)
(* Bounded exploration of BarLoop: every configuration (grid, market mix,  *)
(* triggers) of the level and every scripted strategy within the budget.   *)
(* A behaviour ends in phase "Done"; its `hist` is the complete event      *)
(* sequence the real Actuator.run must produce for that script.  Terminal  *)
(* states are collected in TLC register 1 (run with -workers 1) and        *)
(* written as ndjson by the POSTCONDITION (file from env C05_EXPORT).      *)
(***************************************************************************)
EXTENDS BarLoop, TLC, Json, IOUtils

CONSTANTS Level,          \* 1 quick universe, 2 thorough universe, 3 deep (simulation) universe
          MaxChoice,      \* budget of non-default strategy choices in one run (op, trigger fires, retires, update emits); Level 1 fixes it per configuration
          MaxOpsPerHook,  \* user operations in one hook invocation
          MaxEmit         \* records one market update may emit

VARIABLES c, st, hist, nch, hops
vars == <<c, st, hist, nch, hops>>

A(cb) == [h |-> FALSE, cb |-> cb]      \* minutely market
H(cb) == [h |-> TRUE, cb |-> cb]       \* hourly market

Cfg(s, iv, len, mk, nt, bud) == [s |-> s, iv |-> iv, len |-> len, mk |-> mk, nt |-> nt, bud |-> bud]

(* grids: [s, iv, len]; every grid contains an hour stamp so that an hourly market has data *)
Configs ==
  IF Level = 1 THEN
    { Cfg(59, 1, 3, <<A(TRUE), H(FALSE)>>, 1, 1),    \* 59 60 61: hourly market open in the middle bar only
      Cfg(53, 5, 9, <<H(TRUE), A(FALSE)>>, 0, 1),    \* 53..61 -> 50 55 60, start not aligned, hourly first (default market)
      Cfg(58, 60, 4, <<A(FALSE), H(TRUE)>>, 1, 1),   \* 58..61 -> 0 60
      Cfg(0, 1, 2, <<A(FALSE)>>, 0, 3),              \* small: all triples of choices
      Cfg(60, 1, 2, <<H(FALSE), A(TRUE)>>, 0, 2) }   \* all pairs of choices on a mixed configuration
  ELSE IF Level = 2 THEN
    { Cfg(59, 1, 3, <<A(TRUE), H(FALSE)>>, 1, 2),   \* all pairs of choices on each grid kind / mix
      Cfg(53, 5, 9, <<H(TRUE), A(FALSE)>>, 0, 2),
      Cfg(58, 60, 4, <<A(FALSE), H(TRUE)>>, 1, 2),
      Cfg(0, 1, 3, <<A(TRUE)>>, 1, 2),
      Cfg(50, 5, 15, <<A(FALSE), A(TRUE)>>, 0, 2),
      Cfg(0, 60, 121, <<A(TRUE), H(FALSE)>>, 0, 2),
      Cfg(59, 1, 2, <<H(TRUE), A(TRUE)>>, 2, 2),     \* two triggers
      Cfg(0, 1, 2, <<A(TRUE)>>, 0, 3),               \* all triples
      Cfg(0, 1, 6, <<A(FALSE)>>, 0, 1) }             \* six bars
  ELSE
    { Cfg(g[1], g[2], g[3], mk, nt, MaxChoice) :
        g \in {<<58, 1, 6>>, <<0, 1, 5>>, <<119, 1, 4>>, <<47, 5, 27>>, <<55, 5, 30>>, <<58, 60, 130>>, <<0, 60, 300>>, <<1, 60, 60>>},
        mk \in {<<A(TRUE)>>, <<A(TRUE), H(TRUE)>>, <<H(TRUE), A(TRUE)>>, <<A(FALSE), A(TRUE)>>, <<A(TRUE), H(FALSE), A(FALSE)>>},
        nt \in {0, 1, 2} }

NoCfg == Cfg(0, 1, 1, <<A(FALSE)>>, 0, 0)

Init == /\ c = NoCfg
        /\ st = [InitSt(NoCfg) EXCEPT !.phase = "Pick"]
        /\ hist = <<>> /\ nch = 0 /\ hops = 0

(* the configuration is chosen by the first step (keeps the number of initial states at one) *)
Pick == /\ st.phase = "Pick"
        /\ \E cc \in Configs : c' = cc /\ st' = InitSt(cc)
        /\ UNCHANGED <<hist, nch, hops>>

Take(ev, cost, isop) ==
  LET r == Step(c, st, ev) IN
  /\ nch + cost <= c.bud
  /\ r.ok
  /\ st' = r.st
  /\ hist' = Append(hist, Pack(ev))
  /\ nch' = nch + cost
  /\ hops' = IF isop THEN hops + 1 ELSE 0
  /\ c' = c

(* among the takeable market-indexed machine events the code serves markets in broker order *)
Canon(ev) ==
  ev.e \in {"status", "mopen"} =>
     \A ev2 \in MachineEvents(c, st) : (ev2.e = ev.e /\ Step(c, st, ev2).ok) => ev.m <= ev2.m

Machine == /\ st.phase # "Pick"
           /\ \E ev \in MachineEvents(c, st) : Canon(ev) /\ Take(ev, 0, FALSE)

(* strategy / data choices *)
UserOp == /\ st.phase \in HookPhases \cup {"Notify"}
          /\ hops < MaxOpsPerHook
          /\ \E m \in Markets(c), k \in {"w", "n", "wx"} :
               LET acc == Accepts(st, m, k) IN
               Take([Ev("op") EXCEPT !.m = m, !.k = k, !.f = acc,
                                     !.a = IF acc THEN <<<<st.nextId, st.cur>>>> ELSE <<>>], 1, TRUE)

TriggerWhen == /\ st.phase \in {"BeforeBar", "Trigger"} /\ st.tq # <<>>
               /\ \E f \in BOOLEAN :
                    Take([Ev("when") EXCEPT !.m = Head(st.tq), !.ts = TimeOf(c, st.bar), !.f = f], IF f THEN 1 ELSE 0, FALSE)

TriggerOut == /\ st.phase \in {"Trigger", "Retire"} /\ st.rq # <<>>
              /\ \E f \in BOOLEAN :
                   Take([Ev("out") EXCEPT !.m = Head(st.rq), !.ts = TimeOf(c, st.bar), !.f = f], IF f THEN 1 ELSE 0, FALSE)

Update == /\ st.phase \notin {"Pick", "Done"}
          /\ Markets(c) \ st.upd # {}
          /\ LET m == SetMin(Markets(c) \ st.upd) IN
             \E j \in 0 .. MaxEmit :
               Take([Ev("upd") EXCEPT !.m = m, !.a = IdsFrom(st.nextId, j, TimeOf(c, st.bar))], IF j > 0 THEN 1 ELSE 0, FALSE)

Stop == st.phase = "Done" /\ UNCHANGED vars          \* so that TLC's deadlock check finds a loop that is stuck mid-run
NextSim == Pick \/ Machine \/ UserOp \/ TriggerWhen \/ TriggerOut \/ Update
Next == NextSim \/ Stop
Spec == Init /\ [][Next]_vars

-----------------------------------------------------------------------------
Running == st.phase # "Pick"
Inv_BarsInOrder     == Running => Inv_C05_BarsInOrder(c, st) /\ IndexSane(c)
Inv_HookOrder       == Running => Inv_C05_HookOrder(c, hist)
Inv_Stamp           == Running => Inv_C05_Stamp(c, st)
Inv_OneRecordPerOp  == Inv_C05_OneRecordPerOp(hist)
Inv_NotifyOnce      == Running => Inv_C05_NotifyOnce(c, st)
Inv_RowPerBar       == Running => Inv_C05_RowPerBar(c, st)
Prop_PhaseOrder     == [][hist' # hist => Act_C05_PhaseOrder(st, st', hist'[Len(hist')][1])]_vars
Prop_Refresh2       == [][hist' # hist => Act_C05_Refresh2OnlyWritten(st, st')]_vars

-----------------------------------------------------------------------------
(* export of the terminal states (configuration + complete expected event sequence) *)
ASSUME TLCSet(1, <<>>)
Inv_Export == st.phase = "Done" => TLCSet(1, Append(TLCGet(1), [c |-> c, hist |-> hist, nch |-> nch]))
Post_Export == /\ PrintT(<<"@exported", Len(TLCGet(1))>>)
               /\ IF "C05_EXPORT" \in DOMAIN IOEnv THEN ndJsonSerialize(IOEnv.C05_EXPORT, TLCGet(1)) ELSE TRUE
=============================================================================

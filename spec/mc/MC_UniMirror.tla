---------------------------- MODULE MC_UniMirror ----------------------------
(* The case lattice of the helper leg of C09 (UniMirror.tla), enumerated by TLC; the harness instantiates every case on a *)
(* token0-is-quote pool and on its mirror.  The relation's self-checks are evaluated here.                                *)
EXTENDS UniMirror, TLC
ASSUME SelfOK
VARIABLE c
Init == c \in {x \in Cases : Applicable(x)}
Next == FALSE /\ c' = c
=============================================================================

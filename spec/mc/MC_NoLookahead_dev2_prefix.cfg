CONSTANTS
  DEV_PriceFromNextBar = FALSE
  DEV_TwapWindowEndsNext = TRUE
  DEV_StatusRowNext = FALSE
  DEV_AccountPriceNext = FALSE
  DEV_StatusWrittenBack = FALSE
  DEV_BookSharedWithData = FALSE
  DEV_HourRounded = FALSE
  NBars = 4
  Syms = 2
  Factors = {1, 5}
  Scripts = {1, 2, 3}
  Pairs = TRUE
INIT Init
NEXT Next
INVARIANT Inv_Prefix
CHECK_DEADLOCK FALSE

-------------------------- MODULE MC_TickMathSelf --------------------------
EXTENDS TickMath, TLC
ASSUME SqrtRatioAtTick(MinTick) = MinSqrtRatio
ASSUME SqrtRatioAtTick(MaxTick) = MaxSqrtRatio
ASSUME SqrtRatioAtTick(0) = Two96
ASSUME \A t \in {-887272, -500000, -2048, -5, -1, 0, 1, 4, 887, 2047, 50000, 887272} : ClosedFormOK(t, SqrtRatioAtTick(t))
ASSUME \A t \in (-3000) .. 3000 : NCmp(SqrtRatioAtTick(t), SqrtRatioAtTick(t + 1)) < 0
ASSUME IsTickAtSqrtRatio(NAdd(SqrtRatioAtTick(-5), <<7>>), -5) /\ ~IsTickAtSqrtRatio(NAdd(SqrtRatioAtTick(-5), <<7>>), -4)
ASSUME IsNearestUsable(7, 10, 10) /\ IsNearestUsable(-7, 10, -10) /\ ~IsNearestUsable(7, 10, 0) /\ IsNearestUsable(5, 10, 0) /\ IsNearestUsable(5, 10, 10)
ASSUME PrintT(<<"tick0price", TickPrice(0, 6, 18, TRUE), SqrtX96OfPrice(TickPrice(200000, 6, 18, TRUE), 6, 18, TRUE) = SqrtRatioAtTick(200000)>>)
VARIABLE x
Init == x = 0
Next == FALSE /\ x' = x
=============================================================================

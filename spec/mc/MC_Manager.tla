---------------------------- MODULE MC_Manager ----------------------------
(* Bounded universe for spec/Manager.tla (property C19): every configuration [mix, kinds, w] with up to NMax strategies
   drawn from the family of the harness (harness/mgr_drv.py), w in 1..MaxW, market mixes 1 = {UniLpMarket},
   2 = {UniLpMarket, AaveV3Market}, 3 = {UniLpMarket, DeribitOptionMarket}; every schedule of the task queue over the workers.  The configuration is chosen by
   the first action, so the dumped graph has one root; `last` labels every edge with the event. *)
EXTENDS Manager, TLC

CONSTANTS NMax,      \* strategies per configuration: 1 .. NMax
          Mixes,     \* subset of {1, 2}
          Level,     \* 1: the kinds of a configuration are pairwise different; 2: repetitions allowed
          PathSel    \* "all" | "seq" | "fork": restrict the configurations to one execution path

VARIABLES st, last
vars == <<st, last>>

KindsOf(m) == CASE m = 1 -> {"idle", "lp", "late", "swap"}
                [] m = 2 -> {"idle", "lp", "late", "swap", "aave"}
                [] m = 3 -> {"idle", "opt", "opt2"}        \* minutely pool + hourly option market: two takers of the same book level
KindSeqs(m) == UNION {[1 .. n -> KindsOf(m)] : n \in 1 .. NMax}
Distinct(f) == \A i, j \in DOMAIN f : i # j => f[i] # f[j]

Configs == UNION {{c \in {[mix |-> m, kinds |-> ks, w |-> w] : ks \in KindSeqs(m), w \in 1 .. MaxW} :
                      /\ (Level > 1 \/ Distinct(c.kinds))
                      /\ (PathSel = "all" \/ PathOf(c) = PathSel)} : m \in Mixes}

MCInit == /\ st = Init
          /\ last = [ev |-> [op |-> "init", c |-> NoCfg, p |-> 0, s |-> 0], out |-> "ok"]

MCNext == \E ev \in Events(st, Configs) :
            LET r == Step(st, ev) IN st' = r.st /\ last' = [ev |-> ev, out |-> r.out]

Spec == MCInit /\ [][MCNext]_vars

C19             == Inv_C19(st)
ConfigUntouched == Inv_ConfigUntouched(st)
(* every enabled event is accepted by the total step function (the enumeration and the step agree) *)
EnabledAccepted == last.out = "ok"
=============================================================================

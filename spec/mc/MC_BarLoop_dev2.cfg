CONSTANTS
  DEV_UpdateBeforeOnBar = FALSE
  DEV_PendingNotCleared = TRUE
  DEV_StampAfterBeforeBar = FALSE
  DEV_SkipNotifyWhenTwo = FALSE
  DEV_RowTwice = FALSE
  DEV_PriceLast = FALSE
  DEV_RefreshAlways = FALSE
  DEV_NotifyIteratesCopy = FALSE
  Level = 1
  MaxChoice = 2
  MaxOpsPerHook = 2
  MaxEmit = 1
INIT Init
NEXT Next
INVARIANT Inv_BarsInOrder
INVARIANT Inv_HookOrder
INVARIANT Inv_Stamp
INVARIANT Inv_OneRecordPerOp
INVARIANT Inv_NotifyOnce
INVARIANT Inv_RowPerBar
PROPERTY Prop_PhaseOrder
PROPERTY Prop_Refresh2
CHECK_DEADLOCK TRUE

----------------------------- MODULE MC_GmxV1 -----------------------------
(* Bounded universe for GmxV1: pool rows that make every branch of the fee rule fire, per-token amount      *)
(* alphabets {tiny, unit, large, 3 x wallet} / {ALL, tiny, 1, 100, 3 x held}, buy/sell/next-bar sequences.  *)
EXTENDS GmxV1, TLC

CONSTANTS Level,   \* 1 = quick (6 rows, two active tokens per row), 2 = thorough (10 rows, all tokens)
          Depth    \* states with st.n > Depth are not expanded

VARIABLES st, last
vars == <<st, last>>

Big(m, k) == QMul(QI(m), E(k))                    \* m * 10^k
Dc(m, k)  == QDiv(QI(m), E(k))                    \* m / 10^k
Big2(a, b, kb, k) == QMul(QAdd(QMul(QI(a), E(kb)), QI(b)), E(k))    \* (a * 10^kb + b) * 10^k
Dc2(a, b, kb, k)  == QDiv(QAdd(QMul(QI(a), E(kb)), QI(b)), E(k))    \* (a * 10^kb + b) / 10^k

TF(a, b, c, d) == [weth |-> a, usdc |-> b, wavax |-> c, mim |-> d]
W1 == TF(20000, 46000, 10000, 0)
W2 == TF(20000, 50000, 10000, 0)
W3 == TF(25000, 40000, 8000, 1)
P1 == TF(Big(2629059, 27), E(30), Big(2907, 28), Big(998, 27))
P2 == TF(Big(1823594465, 24), Big(9998, 26), Big(41235, 27), E(30))
Iv1 == Big2(789480314, 626619, 6, 0)
Gp1 == Dc2(944038984, 5893614, 7, 16)
U18(m) == Big(m, 18)                               \* m USDG / GLP in 18-decimals units

MkRow(glp, aum, usdg, w, p, tu, iv, gp) ==
  [glp |-> glp, aum |-> aum, usdg |-> usdg, weight |-> w, price |-> p, tusdg |-> tu, interval |-> iv, glpPrice |-> gp]

RowDef(i) ==
  CASE i = 1 -> MkRow(U18(2224000), Big(21, 35), U18(2000000), W1, P1, TF(U18(157894), U18(1500000), U18(50), U18(1000)), Iv1, Gp1)
    [] i = 2 -> MkRow(U18(2224000), Big(21, 35), U18(2000000), W1, P1, TF(U18(500000), U18(1100000), U18(263000), Zero), Iv1, Gp1)
    [] i = 3 -> MkRow(U18(2224000), Big(21, 35), U18(2000000), W2, P1, TF(U18(500000), U18(1250000), U18(100000), U18(137)), Iv1, Gp1)
    [] i = 4 -> MkRow(U18(2224000), Big(21, 35), U18(2000000), W1, P1, TF(U18(684210), U18(700000), U18(300000), U18(5)), Iv1, Gp1)
    [] i = 5 -> MkRow(U18(2224000), Big(21, 35), U18(2000000), W1, P1, TF(U18(1315789), U18(20), U18(600000), Zero), Iv1, Gp1)
    [] i = 6 -> MkRow(U18(2224000), Big2(304711827, 123456789, 28, 0), QAdd(U18(2000000), QI(777)), W1, P2,
                      TF(QAdd(U18(400000), QI(12345)), U18(1210526), U18(263157), U18(1)), Big(12, 14), Dc(13701, 4))
    (* thorough: a pool of the size of the recorded avalanche data, GLP worth more / less than 1, odd weights *)
    [] i = 7 -> MkRow(Big2(232187738, 717111871, 9, 8), Big2(219194277, 92602252, 8, 21), Big2(215903782, 405158220, 9, 8), W3, P1,
                      TF(Big2(225139088, 954405110, 9, 7), Big2(704586894, 775088424, 9, 7), Big2(143651961, 791363328, 9, 7), Big(2242, 18)), Iv1, Gp1)
    [] i = 8 -> MkRow(U18(1000000), Big(3, 36), U18(2500000), W2, P2, TF(U18(625000), U18(1562499), U18(312501), Zero), Big(5, 14), Dc(3, 0))
    [] i = 9 -> MkRow(U18(5000000), Big(1, 36), U18(900000), W3, P1, TF(U18(10), U18(899000), Zero, U18(990)), Big(1, 12), Dc(2, 1))
    [] i = 10 -> MkRow(Big2(222400000, 1, 9, 7), Big2(210000000, 999999999, 9, 19), U18(2000000), W1, P2,
                       TF(U18(526315), U18(1210527), U18(263157), Zero), Iv1, Gp1)

(* Level 3 (cross-market legs C01/C03/C04): rows whose glp_price column equals aumInUsdg / supply exactly (recorded data has
   this; only then is "frozen market: no value creation" a property of the code and not of the data): rows 11-15 are rows 1-5
   with supply 2 000 000 GLP, aum 1.9e36 and glp_price 0.95; rows 8 and 9 already are consistent (3 and 0.2).             *)
RowIds == IF Level = 1 THEN 1 .. 6 ELSE IF Level = 2 THEN 1 .. 10 ELSE {8, 9, 11, 12, 13, 14, 15}
RowTbl == [i \in RowIds |-> IF i <= 10 THEN RowDef(i)
                            ELSE [RowDef(i - 10) EXCEPT !.glp = U18(2000000), !.aum = Big(19, 35), !.glpPrice = Dc(95, 2)]]
Row(i) == RowTbl[i]          \* RowTbl is constant: evaluated once by TLC
MinOf(S) == CHOOSE x \in S : \A y \in S : x <= y
Succ(r) == LET up == {x \in RowIds : x > r} IN IF up = {} THEN MinOf(RowIds) ELSE MinOf(up)

Active(i) == IF Level = 2 THEN Tokens
             ELSE CASE i \in {1, 11, 9} -> {"weth", "wavax"} [] i \in {3, 13} -> {"weth", "mim"} [] OTHER -> {"weth", "usdc"}

W0 == TF(QI(1000), QI(1000000), QI(20000), IF Level = 3 THEN Zero ELSE QI(500))   \* Level 3: no mim in the wallet at all

BuyAlpha(t) == CASE t = "weth"  -> {Dc2(455889485, 162217, 9, 18), QI(1), QI(100)}
                 [] t = "usdc"  -> {Dc(1, 2), QI(1000), QI(250000)}
                 [] t = "wavax" -> {Dc(1, 3), QI(10), QI(9000)}
                 [] t = "mim"   -> {Dc(5, 1), QI(100), QI(400)}
SellAlpha == {Dc(1, 6), QI(1), QI(100)}

Events(s) ==
  IF s.row = 0 THEN {[op |-> "bar", row |-> r] : r \in RowIds}
  ELSE {[op |-> "bar", row |-> Succ(s.row)]}
       \cup UNION {{[op |-> "buy", tok |-> t, amt |-> a] : a \in BuyAlpha(t)} : t \in Active(s.row)}
       \cup {[op |-> "buy", tok |-> t, amt |-> QMul(QI(3), s.w[t])] : t \in {u \in Active(s.row) : s.w[u] # Zero}}
       \cup {[op |-> "sell", tok |-> t, all |-> FALSE, amt |-> a] : t \in Active(s.row), a \in SellAlpha}
       \cup {[op |-> "sell", tok |-> t, all |-> TRUE, amt |-> Zero] : t \in Active(s.row)}
       \cup (IF s.glp = Zero THEN {} ELSE {[op |-> "sell", tok |-> t, all |-> FALSE, amt |-> QMul(QI(3), s.glp)] : t \in Active(s.row)})
       \cup (IF Level = 3 THEN {[op |-> "buy", tok |-> "dai", amt |-> QI(1)], [op |-> "sell", tok |-> "dai", all |-> TRUE, amt |-> Zero]}
             ELSE {})          \* a token without pool data

Init == /\ st = InitSt(W0)
        /\ last = [ev |-> [op |-> "init"], out |-> "ok", res |-> NoRes, net |-> Zero, acct |-> <<>>, rowdata |-> <<>>]

Next == \E ev \in Events(st) :
          LET r == Step(st, ev, Row) IN
          /\ st' = r.st
          /\ last' = [ev |-> ev, out |-> r.out, res |-> r.res, net |-> NetValue(r.st, Row(r.st.row)),
                      acct |-> IF Level = 3 THEN AccountView(r.st, Row(r.st.row)) ELSE <<>>,
                      rowdata |-> IF ev.op = "bar" THEN Row(ev.row) ELSE <<>>]

Spec == Init /\ [][Next]_vars
Bound == st.n <= Depth

Known == last.ev.op \in {"buy", "sell"} /\ last.ev.tok \in Tokens
Traded == Known /\ last.out = "ok"

Inv_C17_FeeBounds     == Traded => (FeeInBounds(last.res.fee) /\ FeeInBounds(last.res.feeVault))
Inv_C17_FeeNearVault  == Traded => FeeNearVault(last.res.fee, last.res.feeVault)
Inv_C17_NonNegShares  == QGe(st.glp, Zero) /\ \A t \in Tokens : QGe(st.w[t], Zero)
Inv_C17_RoundTrip     == (Known /\ last.ev.op = "buy") => RoundTripHolds(Row(st.row), last.ev.tok, last.ev.amt)
Inv_C17_MintValue     == (Known /\ last.ev.op = "buy") => MintValueHolds(Row(st.row), last.ev.tok, last.ev.amt)
Inv_C17_RedeemValue   == (Known /\ last.ev.op = "sell" /\ ~last.ev.all) => RedeemValueHolds(Row(st.row), last.ev.tok, last.ev.amt)
Inv_C17_SimNearContract ==
     /\ (Known /\ last.ev.op = "buy") => SimNearContractMint(Row(st.row), last.ev.tok, last.ev.amt)
     /\ (Known /\ last.ev.op = "sell" /\ ~last.ev.all) => SimNearContractRedeem(Row(st.row), last.ev.tok, last.ev.amt)
(* an accepted sale never exceeded the holding: with glp' = glp - g this is Inv_C17_NonNegShares *)

(* C04 flavour (owned by C04, checked here for the DEV_MutateBeforeDebit switch) *)
Prop_RejectLeavesState == [][last'.out = "reject" => (st'.w = st.w /\ st'.glp = st.glp /\ st'.reward = st.reward)]_vars

(* C03 (frozen market): within a bar no call, accepted or rejected, raises wallet x prices + market value by more than the
   wallet dust of the balance it debits (meaningful on the Level 3 rows, whose glp_price equals aumInUsdg / supply)          *)
Prop_C03_NoValueCreation ==
  [][(st.row # 0 /\ last'.ev.op # "bar") =>
        QLe(AccountUsd(st', Row(st.row)), QAdd(AccountUsd(st, Row(st.row)), DustAllowUsd(st, last'.ev, Row(st.row))))]_vars
=============================================================================

CONSTANTS
  DEV_OverWithdraw = FALSE
  DEV_NoImpactCap = FALSE
  DEV_MutateBeforeCheck = TRUE
  Level = 1
  Depth = 2
  Cross = FALSE
INIT Init
NEXT Next
CONSTRAINT Bound
PROPERTY Prop_C03_NoValueCreation
CHECK_DEADLOCK FALSE

CONSTANT Level = 1
INIT Init
NEXT Next
CHECK_DEADLOCK FALSE

------------------------------ MODULE MC_Aave ------------------------------
EXTENDS Aave

CONSTANTS Level,      \* 1 = quick universe, 2 = thorough
          MaxSteps,   \* depth bound
          Focus       \* 0 = whole operation alphabet, 1 = liquidation-centred alphabet (bars, update, a few operations)

VARIABLES st, last, view, scn
vars == <<st, last, view, scn>>

D(n, d) == QOf(n, d)
TokensDef == IF Level > 1 THEN {"WETH", "USDT", "DAI", "XTK"} ELSE {"WETH", "USDT", "XTK"}

RiskDef == [t \in TokensDef |->
  CASE t = "WETH" -> [canColl |-> TRUE,  canBorrow |-> TRUE,  ltv |-> D(4, 5),     lt |-> D(33, 40),   bonus |-> D(1, 20)]
    [] t = "USDT" -> [canColl |-> TRUE,  canBorrow |-> TRUE,  ltv |-> D(3, 4),     lt |-> D(4, 5),     bonus |-> D(9, 200)]
    [] t = "DAI"  -> [canColl |-> TRUE,  canBorrow |-> TRUE,  ltv |-> D(19, 25),   lt |-> D(81, 100),  bonus |-> D(1, 25)]
    [] t = "XTK"  -> [canColl |-> FALSE, canBorrow |-> FALSE, ltv |-> Zero,        lt |-> Zero,        bonus |-> Zero]]

Fn(w, u, d, x) == [t \in TokensDef |-> CASE t = "WETH" -> w [] t = "USDT" -> u [] t = "DAI" -> d [] t = "XTK" -> x]

(* rows: indices never decrease; WETH price falls so that health factors cross 1 and 0.95 *)
(* rows on the edges of the liquidation rule (liquidation-focused configurations only): with 2 WETH as collateral (threshold 0.825)
   against 1500 USDT the health factor is 0.0011 x the WETH price - just below / above 1 and just above / below 0.95 *)
EdgeRow(p) == [px |-> Fn(p, One, One, D(2, 1)), li |-> Fn(One, One, One, One), bi |-> Fn(One, One, One, One)]
EdgeRows == << EdgeRow(D(9090910, 10000)),      \* HF 1.0000001   : no liquidation
               EdgeRow(D(9090907, 10000)),      \* HF 0.99999977  : liquidated, close factor 1/2
               EdgeRow(D(8636365, 10000)),      \* HF 0.95000015  : close factor 1/2
               EdgeRow(D(8636363, 10000)) >>    \* HF 0.94999993  : close factor 1
EdgeIdx == 2 .. (1 + Len(EdgeRows))             \* the row table is the same in every configuration; only the liquidation-focused
                                                \* configurations (Focus = 1) move to an edge row
RowsDef ==
  << [px |-> Fn(D(1000, 1), One, One, D(2, 1)),       li |-> Fn(One, One, One, One),                  bi |-> Fn(One, One, One, One)] >>
  \o EdgeRows \o
  << [px |-> Fn(D(1000, 1), One, One, D(2, 1)),       li |-> Fn(D(5, 4), One, D(5, 4), One),          bi |-> Fn(D(2, 1), D(5, 4), One, One)],
     [px |-> Fn(D(600, 1),  One, D(101, 100), D(2, 1)), li |-> Fn(D(5, 4), D(5, 4), D(5, 4), D(2, 1)), bi |-> Fn(D(2, 1), D(5, 2), D(5, 4), One)],
     [px |-> Fn(D(300, 1),  One, One, D(3, 1)),       li |-> Fn(D(2, 1), D(5, 4), D(5, 2), D(2, 1)),  bi |-> Fn(D(5, 2), D(5, 2), D(2, 1), One)] >>
  \o (IF Level > 1 THEN
     << [px |-> Fn(D(450, 1), One, D(99, 100), D(3, 1)), li |-> Fn(D(3, 1), D(3, 2), D(5, 2), D(2, 1)), bi |-> Fn(D(7, 2), D(11, 4), D(2, 1), One)] >>
     ELSE <<>>)

W0 == Fn(D(10, 1), D(5000, 1), D(5000, 1), D(100, 1))

SupplyAmts(t) == CASE t = "WETH" -> {D(2, 1), D(1, 2), D(11, 1)} \cup (IF Level > 1 THEN {D(10, 1), D(100001, 10000)} ELSE {})
                   [] t = "USDT" -> {D(1000, 1), D(2500, 1)}
                   [] t = "DAI"  -> {D(800, 1)}
                   [] t = "XTK"  -> {D(10, 1)}
WithdrawAmts(t) == CASE t = "WETH" -> {D(1, 2), AllAmt, D(5, 1)} \cup (IF Level > 1 THEN {D(3, 2)} ELSE {})
                     [] t = "USDT" -> {D(500, 1), AllAmt}
                     [] t = "DAI"  -> {AllAmt, D(300, 1)}
                     [] t = "XTK"  -> {AllAmt}
BorrowAmts(t) == CASE t = "WETH" -> {D(1, 2), AllAmt}
                   [] t = "USDT" -> {D(400, 1), D(1500, 1), AllAmt, D(5000, 1)} \cup (IF Level > 1 THEN {D(1200, 1), D(1600, 1)} ELSE {})
                   [] t = "DAI"  -> {D(600, 1)}
                   [] t = "XTK"  -> {D(1, 1)}
RepayAmts(t) == CASE t = "WETH" -> {D(1, 4), AllAmt}
                  [] t = "USDT" -> {D(300, 1), AllAmt, D(9000, 1)}
                  [] t = "DAI"  -> {AllAmt}
                  [] t = "XTK"  -> {AllAmt}

FocusEvents(s) ==
       {[op |-> "update"]}
  \cup {[op |-> "nextbar", row |-> r] : r \in (s.row + 1) .. Len(RowsDef)}
  \cup {[op |-> "supply", t |-> "WETH", a |-> D(1, 2), c |-> TRUE], [op |-> "supply", t |-> "USDT", a |-> D(1000, 1), c |-> TRUE],
        [op |-> "borrow", t |-> "USDT", a |-> D(400, 1)], [op |-> "borrow", t |-> "WETH", a |-> D(1, 2)],
        [op |-> "borrow", t |-> "USDT", a |-> AllAmt],
        [op |-> "repay", t |-> "USDT", a |-> D(300, 1), with |-> "cash"], [op |-> "setcoll", t |-> "USDT", c |-> FALSE],
        [op |-> "withdraw", t |-> "WETH", a |-> D(1, 2)]}
  \cup (IF Level > 1 THEN {[op |-> "supply", t |-> "DAI", a |-> D(800, 1), c |-> TRUE], [op |-> "borrow", t |-> "DAI", a |-> D(600, 1)]} ELSE {})

AllEvents(s) ==
       UNION {{[op |-> "supply", t |-> t, a |-> a, c |-> c] : a \in SupplyAmts(t), c \in BOOLEAN} : t \in TokensDef}
  \cup UNION {{[op |-> "withdraw", t |-> t, a |-> a] : a \in WithdrawAmts(t)} : t \in TokensDef}
  \* a hair (4e-7: less than half the smallest unit of a 6-decimals token) more than is supplied: "moves exactly the stated amounts"
  \* leaves no room for paying it out
  \cup {[op |-> "withdraw", t |-> t, a |-> QAdd(SupAmt(s, t), D(4, 10000000)), rel |-> TRUE] : t \in {x \in TokensDef : HasSup(s, x)}}
  \cup UNION {{[op |-> "borrow", t |-> t, a |-> a] : a \in BorrowAmts(t)} : t \in TokensDef}
  \cup UNION {{[op |-> "repay", t |-> t, a |-> a, with |-> w] : a \in RepayAmts(t), w \in {"cash", "WETH", "USDT"}} : t \in TokensDef \ {"XTK"}}
  \cup {[op |-> "setcoll", t |-> t, c |-> c] : t \in TokensDef \ {"XTK"}, c \in BOOLEAN}
  \cup {[op |-> "update"]}
  \cup {[op |-> "read", v |-> i] : i \in 0 .. 2}
  \cup {[op |-> "nextbar", row |-> r] : r \in ((s.row + 1) .. Len(RowsDef)) \ EdgeIdx}

(* initial scenarios: event prefixes applied to the empty account (the harness applies the same prefix to the code) *)
Sup(t, a, c) == [op |-> "supply", t |-> t, a |-> a, c |-> c]
Bor(t, a)    == [op |-> "borrow", t |-> t, a |-> a]
Scenarios ==
  { <<>>,
    <<Sup("WETH", D(2, 1), TRUE), Bor("USDT", D(1500, 1))>>,
    <<Sup("WETH", D(2, 1), TRUE), Sup("USDT", D(1000, 1), TRUE), Bor("USDT", D(1500, 1)), Bor("WETH", D(1, 2))>>,
    <<Sup("WETH", D(1, 2), TRUE), Sup("USDT", D(2500, 1), FALSE), Bor("WETH", D(1, 4)), Bor("USDT", D(100, 1))>> }
  \cup (IF Level > 1 THEN
    { <<Sup("WETH", D(2, 1), TRUE), Sup("DAI", D(800, 1), TRUE), Bor("USDT", D(1200, 1)), Bor("DAI", D(600, 1)), Bor("WETH", D(1, 4))>>,
      <<Sup("USDT", D(2500, 1), TRUE), Sup("XTK", D(10, 1), FALSE), Bor("WETH", D(3, 2))>> }
    ELSE {})

RECURSIVE Apply(_, _)
Apply(s, evs) == IF evs = <<>> THEN s ELSE Apply(Step(s, Head(evs)).st, Tail(evs))

Events(s) == IF Focus = 1 THEN FocusEvents(s) ELSE AllEvents(s)

(* a coarse label of what an update did: one letter per liquidation step, h = close factor one half (health factor above 0.95 before
   the step), f = the whole debt.  It is derived from the action records (no new behaviour); the replay uses it to stratify its sample
   of paths, so that e.g. a run whose first step lifts the health factor across 0.95 ("fh") is always walked *)
RECURSIVE KindStr(_)
KindStr(a) == IF a = <<>> THEN "" ELSE (IF QGt(a[1].hf_before, QOf(95, 100)) THEN "h" ELSE "f") \o KindStr(Tail(a))
KindOf(ev, acts) == IF ev.op = "update" THEN KindStr(acts) ELSE ""

Init == /\ scn \in Scenarios
        /\ st = [Apply(InitSt(W0), scn) EXCEPT !.k = 0]
        /\ last = [ev |-> [op |-> "init"], out |-> "ok", acts |-> <<>>, kind |-> ""]
        /\ view = View(st)

Next == /\ st.k < MaxSteps
        /\ \E ev \in Events(st) :
             LET r == Step(st, ev) IN
             /\ st' = r.st
             /\ last' = [ev |-> ev, out |-> r.out, acts |-> r.acts, kind |-> KindOf(ev, r.acts)]
             /\ view' = View(r.st)
        /\ scn' = scn

Spec == Init /\ [][Next]_vars

(* state invariants *)
Inv_C03_NonNeg == Inv_NonNeg(st)
TypeOK == st.row \in DOMAIN RowsDef

(* action properties, evaluated on every transition (the transition's event and result are in last') *)
(* the universe, for the harness *)
ASSUME PrintT(<<"universe", [tokens |-> TokensDef, risk |-> RiskDef, rows |-> RowsDef, w0 |-> W0]>>)

R == [st |-> st', out |-> last'.out, acts |-> last'.acts]
P_C04 == [][Act_C04(st, last'.ev, R)]_vars
P_C03 == [][Act_C03(st, last'.ev, R)]_vars
P_C10 == [][Act_C10(st, last'.ev, R)]_vars
P_C10_Accrue == [][Act_C10_Accrue(st, last'.ev, R)]_vars
P_C11 == [][Act_C11(st, last'.ev, R)]_vars
P_C12 == [][Act_C12(st, last'.ev, R)]_vars
=============================================================================

---------------------------- MODULE MC_Metrics ----------------------------
(***************************************************************************)
(* TLC enumerates net-value series as behaviours: Push appends one symbol   *)
(* of the alphabet, Close* fixes the sampling interval / value family /     *)
(* benchmark, Evaluate computes Metrics!View into exp.  Every state with    *)
(* ph = "done" is one case: the invariants are the spec-level clauses of    *)
(* C20, exp is what the harness replays into the real functions.            *)
(*   Mode 1 (BFS): every series of length 2..MaxLen over Alpha.             *)
(*   Mode 2 (-simulate): Start(n) draws a target length, then n random      *)
(*   symbols of SimAlpha (and possibly n more for a benchmark).             *)
(***************************************************************************)
EXTENDS Metrics, TLC

CONSTANTS Mode, MaxLen, MaxLenB, MaxLenFam, TopCombos, Level, SimMinLen, SimMaxLen,
          Part1, Part2     \* BFS partition: index (1..5) of the first / second symbol, 0 = any (the harness runs the parts concurrently)

VARIABLES st, exp
vars == <<st, exp>>

AlphaSeq == <<1, 2, 3, 5, 8>>
Alpha    == {AlphaSeq[i] : i \in DOMAIN AlphaSeq}
InPart(s) == /\ (Part1 # 0 /\ Len(s) >= 1) => s[1] = AlphaSeq[Part1]
             /\ (Part2 # 0 /\ Len(s) >= 2) => s[2] = AlphaSeq[Part2]
BAlpha   == {1, 2, 5}
SimAlpha == 50 .. 150

(* value families: symbol x -> net value *)
Val(f, x) == CASE f = 1 -> QI(x)
               [] f = 2 -> QI(1000 * x)
               [] f = 3 -> QOf(x, 8)
               [] f = 4 -> QI(10000 + 100 * x)
Series(f, s) == [i \in DOMAIN s |-> Val(f, s[i])]

(* combos: sampling interval in minutes x family *)
Combo(c) == CASE c = 1 -> [im |-> 1440,   f |-> 1]     \* daily
              [] c = 2 -> [im |-> 105120, f |-> 3]     \* 73 days
              [] c = 3 -> [im |-> 720,    f |-> 4]     \* 12 hours, values near one another
              [] c = 4 -> [im |-> 1,      f |-> 4]     \* minutely (annualisation exponent beyond PMax: all clauses but the annualised value)
              [] c = 5 -> [im |-> 1440,   f |-> 2]
              [] c = 6 -> [im |-> 10080,  f |-> 1]     \* weekly: 365/(7n) never an integer
              [] c = 7 -> [im |-> 60,     f |-> 4]     \* hourly (exponent 8760/n: evaluated for n >= 9 only)
              [] c = 8 -> [im |-> 43200,  f |-> 3]     \* 30 days
Combos == IF Mode = 2 THEN 1 .. 8 ELSE IF Level > 1 THEN 1 .. 8 ELSE 1 .. 4

(* benchmark families *)
Cyc(p, i) == p[((i - 1) % Len(p)) + 1]
BenchFam(j, s) == CASE j = 1 -> [i \in DOMAIN s |-> Cyc(<<1, 2, 3, 5, 8>>, i)]
                    [] j = 2 -> [i \in DOMAIN s |-> Cyc(<<5, 3, 8, 2, 5, 1>>, i)]
                    [] j = 3 -> [i \in DOMAIN s |-> s[Len(s) + 1 - i]]
                    [] j = 4 -> s
                    [] j = 5 -> Tail(s) \o <<s[1]>>
BenchPairs == {<<1, 1>>, <<1, 2>>, <<1, 3>>, <<1, 4>>, <<1, 5>>, <<3, 2>>, <<2, 3>>}
              \cup (IF Level > 1 \/ Mode = 2 THEN {<<6, 2>>, <<7, 5>>, <<8, 1>>, <<5, 3>>} ELSE {})
EnumCombos == IF Level > 1 THEN {1, 3} ELSE {1}
(* series of the full length MaxLen are evaluated under combos 1 .. TopCombos only (keeps the quick tier small) *)
CombosFor(n) == IF Mode = 1 /\ n = MaxLen THEN {c \in Combos : c <= TopCombos} ELSE Combos

Rfs    == <<QOf(3, 100), Zero, QOf(1, 20)>>
Scales == <<QI(1000), QOf(1, 8), QI(3)>>

Eval(s, b, c) == LET k == Combo(c) IN
                 View(Series(k.f, s), k.im, IF b = <<>> THEN <<>> ELSE Series(k.f, b), Rfs, Scales)

Init == /\ st = [ph |-> "v", v |-> <<>>, b |-> <<>>, c |-> 0, tgt |-> 0]
        /\ exp = <<>>

Start(n) == /\ Mode = 2 /\ st.ph = "v" /\ st.tgt = 0
            /\ st' = [st EXCEPT !.tgt = n]
            /\ exp' = exp

Push(x) == /\ st.ph = "v"
           /\ IF Mode = 1 THEN Len(st.v) < MaxLen ELSE Len(st.v) < st.tgt
           /\ Mode = 1 => InPart(Append(st.v, x))
           /\ st' = [st EXCEPT !.v = Append(@, x)]
           /\ exp' = exp

Closable == st.ph = "v" /\ (IF Mode = 1 THEN Len(st.v) >= 2 ELSE st.tgt > 0 /\ Len(st.v) = st.tgt)

CloseNoB(c) == /\ Closable
               /\ st' = [st EXCEPT !.ph = "ready", !.c = c]
               /\ exp' = exp

CloseFam(c, j) == /\ Closable
                  /\ Mode = 2 \/ Len(st.v) <= MaxLenFam
                  /\ st' = [st EXCEPT !.ph = "ready", !.c = c, !.b = BenchFam(j, st.v)]
                  /\ exp' = exp

CloseEnum(c) == /\ Closable
                /\ Mode = 2 \/ Len(st.v) <= MaxLenB
                /\ st' = [st EXCEPT !.ph = "b", !.c = c]
                /\ exp' = exp

PushB(y) == /\ st.ph = "b"
            /\ st' = [st EXCEPT !.b = Append(@, y), !.ph = IF Len(st.b) + 1 = Len(st.v) THEN "ready" ELSE "b"]
            /\ exp' = exp

(* one case: the view is computed, kept in the state for the invariants and printed for the harness *)
Evaluate == /\ st.ph = "ready"
            /\ st' = [st EXCEPT !.ph = "done"]
            /\ exp' = Eval(st.v, st.b, st.c)
            /\ PrintT(ToString([c20case |-> st', exp |-> exp']))

Next == \/ \E n \in SimMinLen .. SimMaxLen : Start(n)
        \/ \E x \in (IF Mode = 1 THEN Alpha ELSE SimAlpha) : Push(x)
        \/ \E c \in CombosFor(Len(st.v)) : CloseNoB(c)
        \/ \E p \in BenchPairs : CloseFam(p[1], p[2])
        \/ \E c \in (IF Mode = 2 THEN Combos ELSE EnumCombos) : CloseEnum(c)
        \/ \E y \in (IF Mode = 1 THEN BAlpha ELSE SimAlpha) : PushB(y)
        \/ Evaluate
Spec == Init /\ [][Next]_vars

Done == st.ph = "done"
CurV == Series(Combo(st.c).f, st.v)
CurB == IF st.b = <<>> THEN <<>> ELSE Series(Combo(st.c).f, st.b)

Inv_MddRange      == Done => Inv_C20_MddRange(CurV, exp)
Inv_MddZeroIff    == Done => Inv_C20_MddZeroIff(CurV, exp)
Inv_MddDefinition == Done => Inv_C20_MddDefinition(CurV, exp)
Inv_MddScale      == Done => Inv_C20_MddScale(CurV, exp)
Inv_ReturnForms   == Done => Inv_C20_ReturnForms(CurV, exp)
Inv_AnnRelation   == Done => Inv_C20_AnnRelation(CurV, exp)
Inv_VolRelation   == Done => Inv_C20_VolRelation(CurV, exp)
Inv_Benchmark     == Done => Inv_C20_Benchmark(CurV, CurB, exp)
=============================================================================

CONSTANTS
  DEV_OverRedeem = FALSE
  DEV_NoDecimalsAdjust = FALSE
  DEV_MutateBeforeDebit = FALSE
  Level = 3
  Depth = 3
INIT Init
NEXT Next
CONSTRAINT Bound
INVARIANT Inv_C17_FeeBounds
INVARIANT Inv_C17_FeeNearVault
INVARIANT Inv_C17_NonNegShares
INVARIANT Inv_C17_RoundTrip
INVARIANT Inv_C17_MintValue
INVARIANT Inv_C17_RedeemValue
INVARIANT Inv_C17_SimNearContract
PROPERTY Prop_RejectLeavesState
PROPERTY Prop_C03_NoValueCreation
CHECK_DEADLOCK FALSE

CONSTANTS
  DEV_OverWithdraw = FALSE
  DEV_NoImpactCap = FALSE
  DEV_MutateBeforeCheck = FALSE
  Level = 1
  Depth = 4
  Cross = TRUE
INIT Init
NEXT Next
CONSTRAINT Bound
INVARIANT Inv_C17_NonNegShares
INVARIANT Inv_C17_RoundTrip
INVARIANT Inv_C17_ImpactCap
INVARIANT Inv_C17_MintValue
INVARIANT Inv_C17_WithdrawValue
PROPERTY Prop_RejectLeavesState
PROPERTY Prop_C03_NoValueCreation
CHECK_DEADLOCK FALSE

--------------------------- MODULE MC_NoLookahead ---------------------------
(***************************************************************************)
(* Self-composition of NoLookahead!Run: two histories A = p \o a and       *)
(* B = p \o b over the bar-symbol alphabet 1 .. Syms that share the prefix *)
(* p and differ (from their first symbol on) afterwards.  TLC enumerates   *)
(* every configuration (market kind x resampling factor x script), every   *)
(* common prefix p (|p| >= 1 once the runs diverge), every pair of         *)
(* suffixes up to NBars bars; the runs ra, rb are kept in the state.       *)
(* States with a = b = <<>> form the TREE of histories; its leaves         *)
(* (|p| = NBars) are printed as <<"@h", kind, F, script, p>> - the family  *)
(* the harness executes against the real code (every pair of leaves with   *)
(* a common prefix is a pair of TLC states of this model).                 *)
(* Pairs = FALSE explores the tree only (export for longer histories).     *)
(***************************************************************************)
EXTENDS NoLookahead, TLC

CONSTANTS NBars,      \* bars per history
          Syms,       \* size of the bar-symbol alphabet
          Factors,    \* resampling factors of the minutely markets (the hourly option market uses 1 and 2)
          Scripts,    \* script ids
          Pairs       \* TRUE: self-composition, FALSE: tree of single histories only

VARIABLES c, p, a, b, ra, rb
vars == <<c, p, a, b, ra, rb>>

FactorOf(kind, f) == IF kind = "mix" THEN 1 ELSE IF f = 1 THEN 1 ELSE IF kind = "deribit" THEN 2 ELSE f
Cfgs  == {[kind |-> k, F |-> FactorOf(k, f), script |-> s] : k \in Kinds, f \in Factors, s \in Scripts}
NoCfg == [kind |-> "none", F |-> 1, script |-> 0]
NoRun == [obs |-> <<>>, frame |-> <<>>]

Init == c = NoCfg /\ p = <<>> /\ a = <<>> /\ b = <<>> /\ ra = NoRun /\ rb = NoRun

(* the configuration is chosen by the first step (one initial state) *)
Pick == /\ c = NoCfg
        /\ \E cc \in Cfgs : c' = cc
        /\ UNCHANGED <<p, a, b, ra, rb>>

Common == /\ c # NoCfg /\ a = <<>> /\ Len(p) < NBars
          /\ \E s \in 1 .. Syms :
               /\ p' = Append(p, s)
               /\ ra' = Run(c, FrameOf(c, p'))
               /\ rb' = ra'
          /\ UNCHANGED <<c, a, b>>

Diverge == /\ Pairs /\ c # NoCfg /\ Len(p) >= 1 /\ Len(p) + Len(a) < NBars
           /\ \E s1, s2 \in 1 .. Syms :
                /\ a = <<>> => s1 < s2                   \* the first symbols after the prefix differ (A/B symmetric)
                /\ a' = Append(a, s1) /\ b' = Append(b, s2)
                /\ ra' = Run(c, FrameOf(c, p \o a'))
                /\ rb' = Run(c, FrameOf(c, p \o b'))
           /\ UNCHANGED <<c, p>>

Next == Pick \/ Common \/ Diverge
Spec == Init /\ [][Next]_vars

-----------------------------------------------------------------------------
Inv_Prefix        == Inv_C02_Prefix(Len(p), ra, rb)
Inv_InputsIntact  == (c # NoCfg) => (Inv_C02_InputsIntact(c, FrameOf(c, p \o a), ra) /\ Inv_C02_InputsIntact(c, FrameOf(c, p \o b), rb))
Inv_Rerun         == (c # NoCfg /\ a = <<>>) => Inv_C02_Rerun(c, ra)
Inv_ReadsOnlyPast == (c # NoCfg) => Inv_C02_ReadsOnlyPast(c, NBars)

(* export of the history family: the leaves of the tree *)
Inv_Export == (a = <<>> /\ Len(p) = NBars) => PrintT(<<"@h", c.kind, c.F, c.script, p>>)
=============================================================================

---------------------------- MODULE MC_NumSelf ----------------------------
(* Self-test of Num: evaluated once with the pure TLA+ definitions and once with the Java override;   *)
(* the harness requires both runs to print identical results, and both to satisfy the ASSUMEd laws.   *)
EXTENDS Num, TLC, FiniteSets

RECURSIVE Lcg(_, _)
Lcg(x, k) == IF k = 0 THEN <<>> ELSE LET y == (x * 1103 + 12345) % 65536 IN <<y % B>> \o Lcg(y, k - 1)
Rnd(seed, limbs) == NTrim(Lcg(seed, limbs))

Nats == {<<>>, <<1>>, <<9999>>, <<0, 1>>, <<9999, 9999>>, <<0, 0, 0, 1>>, NOf(2147483647)}
        \cup {Rnd(s, l) : s \in {1, 42, 1234}, l \in {1, 3, 6, 10}}
Pos == Nats \ {<<>>}
Qs == {Zero, One, QOf(-1, 3), QOf(5, 4), QOf(-7, 2), QOf(1, 1000000), QOf(123456789, 1000), QOf(-15, 10), QOf(25, 10), QOf(35, 10)}
      \cup {QMk(s, n, d) : s \in {-1, 1}, n \in {Rnd(3, 4), Rnd(5, 9)}, d \in {Rnd(11, 2)}}

Results ==
  <<[a \in Nats, b \in Nats |-> <<NAdd(a, b), NMul(a, b), NCmp(a, b), IF NCmp(a, b) >= 0 THEN NSub(a, b) ELSE <<>> >>],
    [a \in Nats, b \in Pos  |-> <<NDivMod(a, b), NGcd(a, b)>>],
    [a \in Qs, b \in Qs |-> <<QAdd(a, b), QSub(a, b), QMul(a, b), QCmp(a, b), IF b # Zero THEN QDiv(a, b) ELSE Zero, QMin(a, b)>>],
    [a \in Qs |-> <<QFloor(a), QCeil(a), QRound(a, 0, "HALF_UP"), QRound(a, 0, "HALF_EVEN"), QRound(a, 6, "HALF_UP"),
                    QRound(a, 4, "HALF_EVEN"), QRound(a, 2, "DOWN"), QRound(a, 0, "FLOOR"), QPow(a, 3)>>],
    [a \in Nats |-> NSqrt(a)],
    NPow(<<2>>, 256), NTen(30), QWithin(QOf(1000001, 1000000), One, QOf(1, 100000), Zero)>>

ASSUME \A a \in Nats, b \in Pos : LET dm == NDivMod(a, b) IN NAdd(NMul(dm[1], b), dm[2]) = a /\ NCmp(dm[2], b) < 0
ASSUME \A a \in Nats, b \in Nats : NSub(NAdd(a, b), b) = a /\ NMul(a, b) = NMul(b, a)
ASSUME \A a \in Qs, b \in Qs : QSub(QAdd(a, b), b) = a /\ (b # Zero => QMul(QDiv(a, b), b) = a)
ASSUME \A a \in Qs : QLe(QFloor(a), a) /\ QLt(a, QAdd(QFloor(a), One)) /\ QIsInt(QFloor(a))
ASSUME QRound(QOf(25, 10), 0, "HALF_EVEN") = QI(2) /\ QRound(QOf(35, 10), 0, "HALF_EVEN") = QI(4)
       /\ QRound(QOf(25, 10), 0, "HALF_UP") = QI(3) /\ QRound(QOf(-25, 10), 0, "HALF_UP") = QI(-3)
       /\ QRound(QOf(-15, 10), 0, "FLOOR") = QI(-2) /\ QRound(QOf(-15, 10), 0, "DOWN") = QI(-1)
ASSUME \A a \in Nats : LET r == NSqrt(a) IN NCmp(NMul(r, r), a) <= 0 /\ NCmp(NMul(NAdd(r, <<1>>), NAdd(r, <<1>>)), a) > 0
ASSUME NPow(<<2>>, 32) = <<7296, 9496, 42>>
ASSUME PrintT(<<"numself", Results>>)

VARIABLE x
Init == x = 0
Next == x' = x /\ FALSE
=============================================================================

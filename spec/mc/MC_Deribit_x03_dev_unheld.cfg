CONSTANTS
  DEV_SellUnheldKeepsCredit = TRUE
  DEV_OversellAccepted = FALSE
  DEV_BuyDepletesBeforeCashCheck = FALSE
  DEV_LimitRejected = FALSE
  DEV_UsdLimitRejected = FALSE
  DEV_SettleStrictlyAfterExpiry = FALSE
  Scen = 1
  Level = 1
  MaxOps = 2
  MaxRefresh = 1
  MaxTrades = 9
  ContinueAfterReject = FALSE
  Grid = 1
  NH = 3
INIT Init
NEXT Next
INVARIANT Inv_C03_NonNeg_
PROPERTY Act_C03_NoValueCreation_
PROPERTY Act_C03_NoOverRedemption_
CHECK_DEADLOCK FALSE

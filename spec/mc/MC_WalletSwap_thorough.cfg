CONSTANTS
  MaxSteps = 3
  DEV_CreditBeforeDebit = FALSE
  DEV_FeeOnBothSides = FALSE
SPECIFICATION Spec
INVARIANT Inv_C03_NonNeg
INVARIANT Inv_C03_SwapLosesFee
INVARIANT Inv_C04_RejectIntact
INVARIANT Inv_Info_FormsAgree
CHECK_DEADLOCK FALSE

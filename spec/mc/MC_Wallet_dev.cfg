CONSTANTS
  MaxSteps = 2
  DEV_DustTenfold = TRUE
SPECIFICATION Spec
INVARIANT Inv_C03_NonNeg
INVARIANT Inv_C03_Dust
INVARIANT Inv_C04_RejectIntact
INVARIANT Inv_C03_OverdraftRejected
CHECK_DEADLOCK FALSE

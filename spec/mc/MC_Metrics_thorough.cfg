CONSTANTS
  DEV_MddAbsoluteDecline = FALSE
  Mode = 1
  MaxLen = 6
  MaxLenB = 4
  MaxLenFam = 5
  TopCombos = 4
  Level = 2
  SimMinLen = 1
  SimMaxLen = 0
  Part1 = 0
  Part2 = 0
INIT Init
NEXT Next
INVARIANT Inv_MddRange
INVARIANT Inv_MddZeroIff
INVARIANT Inv_MddDefinition
INVARIANT Inv_MddScale
INVARIANT Inv_ReturnForms
INVARIANT Inv_AnnRelation
INVARIANT Inv_VolRelation
INVARIANT Inv_Benchmark
CHECK_DEADLOCK FALSE

--------------------------- MODULE MC_Triggers ---------------------------
EXTENDS Triggers, TLC

CONSTANTS Intervals, Starts, NBars, MaxTrig, Level   \* universe; Level 1 = quick alphabets, 2 = thorough

VARIABLES c, bar, st
vars == <<c, bar, st>>

Grids == {[s |-> s0, iv |-> iv, n |-> NBars] : s0 \in Starts, iv \in Intervals}

(* time alphabet of a grid: before the window, on the grid (first, inner, last), after the window, off the grid *)
TimeAlpha(g) == {g.s - g.iv, g.s, g.s + 2 * g.iv, g.s + 5 * g.iv, g.s + (g.n - 1) * g.iv, g.s + g.n * g.iv}
                \cup (IF g.iv > 1 THEN {g.s + 2 * g.iv + 1} ELSE {})
                \cup (IF Level > 1 THEN {g.s + g.iv, g.s + 9 * g.iv, g.s + (g.n + 3) * g.iv} ELSE {})
SmallSets(S) == {{a} : a \in S} \cup {{a, b} : a, b \in S} \cup (IF Level > 1 THEN {{a, b, d} : a, b, d \in S} ELSE {})
RangeAlpha(g) == {[a |-> a, b |-> b] : a, b \in TimeAlpha(g)}
PickRanges(g) == {[a |-> g.s - g.iv, b |-> g.s + 2 * g.iv], [a |-> g.s + 2 * g.iv, b |-> g.s + 5 * g.iv],
                  [a |-> g.s + 5 * g.iv, b |-> g.s + 5 * g.iv], [a |-> g.s + 4 * g.iv, b |-> g.s + g.n * g.iv],
                  [a |-> g.s + 5 * g.iv, b |-> g.s + 7 * g.iv], [a |-> g.s + (g.n - 1) * g.iv, b |-> g.s + (g.n + 5) * g.iv]}
PeriodAlpha == IF Level > 1 THEN {1, 2, 3, 4, 5, 6} ELSE {1, 2, 3, 4, 6}
PendAlpha   == IF Level > 1 THEN {0, 1, 2, 7} ELSE {0, 1, 2}
PeriodSeqs  == {<<a, b>> : a, b \in {2, 3, 4, 6}} \cup {<<2, 3, 4>>, <<6, 3, 2>>}
               \cup (IF Level > 1 THEN {<<a, b, d>> : a, b, d \in {2, 3, 4}} ELSE {})

TriggersOf(g) ==
        {[k |-> "at", t |-> t] : t \in TimeAlpha(g)}
   \cup {[k |-> "ats", ts |-> T] : T \in SmallSets(TimeAlpha(g))}
   \cup {[k |-> "range", a |-> r.a, b |-> r.b] : r \in RangeAlpha(g)}
   \cup {[k |-> "ranges", rs |-> <<r1, r2>>] : r1, r2 \in PickRanges(g)}
   \cup {[k |-> "period", d |-> d * g.iv, p |-> p * g.iv, imm |-> im] : d \in PeriodAlpha, p \in PendAlpha, im \in BOOLEAN}
   \cup {[k |-> "periods", ds |-> [i \in DOMAIN D |-> D[i] * g.iv], p |-> p * g.iv, imm |-> im] :
            D \in PeriodSeqs, p \in PendAlpha, im \in BOOLEAN}

Configs == UNION {{[g |-> g, trs |-> <<t>>] : t \in TriggersOf(g)} : g \in Grids}

Init == /\ c \in Configs
        /\ bar = 0
        /\ st = InitSt(c.trs)

Bar == /\ bar < c.g.n
       /\ st' = BarStep(c.trs, st, TimeOf(c.g, bar))
       /\ bar' = bar + 1
       /\ c' = c

(* a strategy may register several triggers (an action, so that -simulate need not enumerate all pairs up front) *)
AddTrigger == /\ bar = 0 /\ Len(c.trs) < MaxTrig
              /\ \E t \in TriggersOf(c.g) : c' = [c EXCEPT !.trs = Append(@, t)]
              /\ st' = InitSt(c'.trs)
              /\ bar' = bar

Next == Bar \/ AddTrigger
Spec == Init /\ [][Next]_vars

Inv_FiredExactly        == FiredExactly(c.trs, c.g, st, bar)
Inv_RetiredOnlyWhenDead == RetiredOnlyWhenDead(c.trs, c.g, st, bar)
(* a trigger that can never fire again and has an out-of-date rule IS retired by the end (no leak) -- info only *)
=============================================================================

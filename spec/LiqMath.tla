------------------------------- MODULE LiqMath -------------------------------
(***************************************************************************)
(* Uniswap v3 LiquidityAmounts / position amounts as used by                 *)
(* demeter/uniswap/liquitidy_math.py (get_liquidity, get_amounts) and         *)
(* demeter/uniswap/core.py (V3CoreLib.new_position / close_position).         *)
(* Exact naturals / rationals (Num.tla); sqrt prices are Q96 naturals.        *)
(* Property C07.                                                             *)
(***************************************************************************)
EXTENDS TickMath

Wei(amount, dec) == QFloor(QMul(amount, QN(NTen(dec))))[2]          \* to_wei: int(amount * 10^dec), amount >= 0

(* protocol formulas with their integer rounding (mulDiv = floor) *)
LiqForAmount0(sA, sB, a0) == NDiv(NMul(a0, NDiv(NMul(sA, sB), Two96)), NSub(sB, sA))        \* sA < sB
LiqForAmount1(sA, sB, a1) == NDiv(NMul(a1, Two96), NSub(sB, sA))

NMin(a, b) == IF NCmp(a, b) <= 0 THEN a ELSE b

Region(s, sA, sB) == IF NCmp(s, sA) <= 0 THEN "below" ELSE IF NCmp(s, sB) < 0 THEN "inside" ELSE "above"

Liquidity(s, sA, sB, a0, a1) ==            \* sA < sB; a0, a1 in wei
  CASE Region(s, sA, sB) = "below"  -> LiqForAmount0(sA, sB, a0)
    [] Region(s, sA, sB) = "inside" -> NMin(LiqForAmount0(s, sB, a0), LiqForAmount1(sA, s, a1))
    [] OTHER                        -> LiqForAmount1(sA, sB, a1)

(* closed-form position amounts in token units (rationals) *)
Amt0(sA, sB, L, d0) == QDiv(QMk(1, NMul(NMul(L, Two96), NSub(sB, sA)), NMul(sB, sA)), QN(NTen(d0)))
Amt1(sA, sB, L, d1) == QDiv(QMk(1, NMul(L, NSub(sB, sA)), Two96), QN(NTen(d1)))

Amounts(s, sA, sB, L, d0, d1) ==
  CASE Region(s, sA, sB) = "below"  -> <<Amt0(sA, sB, L, d0), Zero>>
    [] Region(s, sA, sB) = "inside" -> <<Amt0(s, sB, L, d0), Amt1(sA, s, L, d1)>>
    [] OTHER                        -> <<Zero, Amt1(sA, sB, L, d1)>>

(* the real-valued maximum of liquidity for offered wei amounts, and the rounding allowance of property C07:
   L >= realMax - 1 - a0 / (sB' - sA')  where [sA', sB'] is the part of the range token0 covers *)
RealMax0(sA, sB, a0) == QDiv(QN(NMul(a0, NMul(sA, sB))), QN(NMul(Two96, NSub(sB, sA))))
RealMax1(sA, sB, a1) == QDiv(QN(NMul(a1, Two96)), QN(NSub(sB, sA)))
RealMax(s, sA, sB, a0, a1) ==
  CASE Region(s, sA, sB) = "below"  -> RealMax0(sA, sB, a0)
    [] Region(s, sA, sB) = "inside" -> QMin(RealMax0(s, sB, a0), RealMax1(sA, s, a1))
    [] OTHER                        -> RealMax1(sA, sB, a1)
Allowance(s, sA, sB, a0) ==
  CASE Region(s, sA, sB) = "below"  -> QAdd(One, QDiv(QN(a0), QN(NSub(sB, sA))))
    [] Region(s, sA, sB) = "inside" -> QAdd(One, QDiv(QN(a0), QN(NSub(sB, s))))
    [] OTHER                        -> One

(* --- clauses of C07 for one concrete instance; L, used are the values under test ------------------------------ *)
(* the code rounds the closed form three times at 35 significant digits: 1e-30 relative slack *)
Slack == QAdd(One, QMk(1, <<1>>, NTen(30)))
NoOverspend(used, off0, off1) == QLe(used[1], QMul(off0, Slack)) /\ QLe(used[2], QMul(off1, Slack))
Maximal(s, sA, sB, a0, a1, L) == QGe(QN(L), QSub(RealMax(s, sA, sB, a0, a1), Allowance(s, sA, sB, a0)))
NotAboveMax(s, sA, sB, a0, a1, L) == QLe(QN(L), RealMax(s, sA, sB, a0, a1))
OneSided(s, sA, sB, amts, L) ==
  CASE Region(s, sA, sB) = "below"  -> amts[2] = Zero /\ (L # <<>> => QGt(amts[1], Zero))
    [] Region(s, sA, sB) = "inside" -> L # <<>> => QGt(amts[1], Zero) /\ QGt(amts[2], Zero)
    [] OTHER                        -> amts[1] = Zero /\ (L # <<>> => QGt(amts[2], Zero))
NonNeg(amts) == QGe(amts[1], Zero) /\ QGe(amts[2], Zero)
Tol30 == QMk(1, <<1>>, NTen(30))
ClosedForm(s, sA, sB, L, d0, d1, amts) ==
  LET c == Amounts(s, sA, sB, L, d0, d1) IN QWithin(amts[1], c[1], Tol30, Zero) /\ QWithin(amts[2], c[2], Tol30, Zero)
(* s1 <= s2: token0 non-increasing, token1 non-decreasing in price *)
Monotone(amtsLow, amtsHigh) == QGe(amtsLow[1], amtsHigh[1]) /\ QLe(amtsLow[2], amtsHigh[2])
Proportional(amts, amtsK, k) == QWithin(amtsK[1], QMul(QI(k), amts[1]), Tol30, Zero) /\ QWithin(amtsK[2], QMul(QI(k), amts[2]), Tol30, Zero)

(* the specification's own functions satisfy the clauses (checked by TLC on every recorded instance) *)
SpecOK(s, sA, sB, amt0, amt1, d0, d1) ==
  LET a0 == Wei(amt0, d0)  a1 == Wei(amt1, d1)
      L == Liquidity(s, sA, sB, a0, a1)
      u == Amounts(s, sA, sB, L, d0, d1)
  IN NoOverspend(u, amt0, amt1) /\ Maximal(s, sA, sB, a0, a1, L) /\ NotAboveMax(s, sA, sB, a0, a1, L)
     /\ OneSided(s, sA, sB, u, L) /\ NonNeg(u)
=============================================================================

------------------------------ MODULE Account ------------------------------
(***************************************************************************)
(* The account as a composition of markets under one wallet (property C01, *)
(* Broker.get_account_status):                                              *)
(*   net value  =  sum over wallet tokens  balance x price                  *)
(*               + sum over markets  market value x (price of the market's  *)
(*                 quote token in the account's quote token; 1 if equal)    *)
(* every wallet balance and every market counted exactly once.  The value   *)
(* of each market is what its own specification says (the market legs of    *)
(* C01); here it is the composition that is specified.                      *)
(* A record (one bar of a run with several markets):                        *)
(*   quote    account quote token                                           *)
(*   wallet   sequence of <<token, balance, price>>                         *)
(*   markets  sequence of <<name, quote token, market net value, price of   *)
(*            that quote token>>                                            *)
(*   asset, net   the reported wallet value and net value                   *)
(***************************************************************************)
EXTENDS Num, Sequences, FiniteSets

RECURSIVE SumW(_)
SumW(w) == IF w = <<>> THEN Zero ELSE QAdd(QMul(Head(w)[2], Head(w)[3]), SumW(Tail(w)))
RECURSIVE SumM(_, _)
SumM(ms, quote) == IF ms = <<>> THEN Zero
                   ELSE LET m == Head(ms) IN QAdd(QMul(m[3], IF m[2] = quote THEN One ELSE m[4]), SumM(Tail(ms), quote))

AssetValue(r) == SumW(r.wallet)
NetValue(r)   == QAdd(AssetValue(r), SumM(r.markets, r.quote))

Tol == QDiv(One, QN(NTen(25)))          \* 1e-25 relative: sums and products of 35-digit Decimals

AccountBad(r) ==
  IF Cardinality({r.wallet[i][1] : i \in DOMAIN r.wallet}) # Len(r.wallet) THEN "a wallet token listed twice"
  ELSE IF Cardinality({r.markets[i][1] : i \in DOMAIN r.markets}) # Len(r.markets) THEN "a market listed twice"
  ELSE IF ~QWithin(r.asset, AssetValue(r), Tol, Zero) THEN "asset_value"
  ELSE IF ~QWithin(r.net, NetValue(r), Tol, Zero) THEN "net_value"
  ELSE ""

(* self-checks *)
R1 == [quote |-> "USD", wallet |-> <<<<"ETH", QI(2), QI(1000)>>, <<"USDC", QI(10), QOf(98, 100)>>>>,
       markets |-> <<<<"uni", "USDC", QI(100), QOf(98, 100)>>, <<"aave", "USD", QI(5), One>>, <<"opt", "ETH", QOf(1, 2), QI(1000)>>>>,
       asset |-> QOf(20098, 10), net |-> QOf(26128, 10)]
SelfOK == /\ AccountBad(R1) = ""
          /\ AccountBad([R1 EXCEPT !.net = QOf(26148, 10)]) = "net_value"            \* the USDC market added without conversion
          /\ AccountBad([R1 EXCEPT !.asset = QI(2010)]) = "asset_value"
=============================================================================

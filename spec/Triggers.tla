----------------------------- MODULE Triggers -----------------------------
(***************************************************************************)
(* Time triggers of demeter/strategy/trigger.py evaluated by the bar loop  *)
(* of demeter/core/actuator.py (lines "if trigger.when: trigger.do" and    *)
(* the retirement filter with is_out_date).                                *)
(*                                                                         *)
(* Two descriptions live here and TLC proves them equal on the bounded     *)
(* universe:                                                               *)
(*  - the DENOTATION  FireSet(tr, g): the set of grid times a trigger's     *)
(*    specification denotes (property C18);                                *)
(*  - the OPERATIONAL model: per-trigger internal state, When / OutDate     *)
(*    evaluated bar by bar the way the code does it.                       *)
(* Times are minutes (naturals).  A grid is [s, iv, n]: bars at s + j*iv.  *)
(***************************************************************************)
EXTENDS Integers, Sequences, FiniteSets

CONSTANT DEV_PeriodsStopAtFirstMatch  \* defect #17 (coinciding periods lose later firings)

None == -1

Bars(g)      == 0 .. (g.n - 1)
TimeOf(g, j) == g.s + j * g.iv
GridTimes(g) == {TimeOf(g, j) : j \in Bars(g)}
SetMax(S)    == CHOOSE m \in S : \A y \in S : y <= m

(* trigger records
   [k |-> "at",      t  |-> time]
   [k |-> "ats",     ts |-> non-empty set of times]
   [k |-> "range",   a  |-> start, b |-> end]             end exclusive
   [k |-> "ranges",  rs |-> non-empty sequence of [a, b]]
   [k |-> "period",  d  |-> period, p |-> pending delay, imm |-> BOOLEAN]
   [k |-> "periods", ds |-> non-empty sequence of periods, p, imm]            *)

-----------------------------------------------------------------------------
(* Denotation *)
PeriodTimes(g, d, p) == {x \in GridTimes(g) : \E k \in 1 .. g.n : x = g.s + p + k * d}

FireSet(tr, g) ==
  CASE tr.k = "at"      -> {x \in GridTimes(g) : x = tr.t}
    [] tr.k = "ats"     -> GridTimes(g) \cap tr.ts
    [] tr.k = "range"   -> {x \in GridTimes(g) : tr.a <= x /\ x < tr.b}
    [] tr.k = "ranges"  -> {x \in GridTimes(g) : \E i \in DOMAIN tr.rs : tr.rs[i].a <= x /\ x < tr.rs[i].b}
    [] tr.k = "period"  -> (IF tr.imm THEN {g.s} ELSE {}) \cup PeriodTimes(g, tr.d, tr.p)
    [] tr.k = "periods" -> (IF tr.imm THEN {g.s} ELSE {})
                           \cup UNION {PeriodTimes(g, tr.ds[i], tr.p) : i \in DOMAIN tr.ds}

CanFireAfter(tr, g, t) == \E x \in FireSet(tr, g) : x > t

-----------------------------------------------------------------------------
(* Operational model: internal state x of a trigger, evaluation at time ts *)
InitX(tr) == CASE tr.k = "period"  -> <<None>>
               [] tr.k = "periods" -> [i \in DOMAIN tr.ds |-> None]
               [] OTHER            -> <<>>

When(tr, ts, x) ==
  CASE tr.k = "at"     -> [fire |-> ts = tr.t, x |-> x]
    [] tr.k = "ats"    -> [fire |-> ts \in tr.ts, x |-> x]
    [] tr.k = "range"  -> [fire |-> tr.a <= ts /\ ts < tr.b, x |-> x]
    [] tr.k = "ranges" -> [fire |-> \E i \in DOMAIN tr.rs : tr.rs[i].a <= ts /\ ts < tr.rs[i].b, x |-> x]
    [] tr.k = "period" ->
         IF x[1] = None THEN [fire |-> tr.imm, x |-> <<ts + tr.d + tr.p>>]
         ELSE IF x[1] = ts THEN [fire |-> TRUE, x |-> <<x[1] + tr.d>>]
         ELSE [fire |-> FALSE, x |-> x]
    [] tr.k = "periods" ->
         IF x[1] = None THEN [fire |-> tr.imm, x |-> [i \in DOMAIN tr.ds |-> ts + tr.ds[i] + tr.p]]
         ELSE LET hit == {i \in DOMAIN x : x[i] = ts}
                  adv == IF DEV_PeriodsStopAtFirstMatch /\ hit # {}
                         THEN {CHOOSE i \in hit : \A j \in hit : i <= j} ELSE hit
              IN  [fire |-> hit # {}, x |-> [i \in DOMAIN x |-> IF i \in adv THEN x[i] + tr.ds[i] ELSE x[i]]]

OutDate(tr, ts) ==
  CASE tr.k = "at"     -> ts >= tr.t
    [] tr.k = "ats"    -> ts >= SetMax(tr.ts)
    [] tr.k = "range"  -> ts >= tr.b
    [] tr.k = "ranges" -> ts >= SetMax({tr.rs[i].b : i \in DOMAIN tr.rs})
    [] OTHER           -> FALSE

(* One bar of the loop for a list of triggers: st = [x, alive, fired, retired] (sequences indexed like trs). *)
InitSt(trs) == [x       |-> [i \in DOMAIN trs |-> InitX(trs[i])],
                alive   |-> [i \in DOMAIN trs |-> TRUE],
                fired   |-> [i \in DOMAIN trs |-> {}],
                retired |-> [i \in DOMAIN trs |-> None]]

BarStep(trs, st, ts) ==
  LET w(i) == When(trs[i], ts, st.x[i]) IN
  [x       |-> [i \in DOMAIN trs |-> IF st.alive[i] THEN w(i).x ELSE st.x[i]],
   fired   |-> [i \in DOMAIN trs |-> IF st.alive[i] /\ w(i).fire THEN st.fired[i] \cup {ts} ELSE st.fired[i]],
   alive   |-> [i \in DOMAIN trs |-> st.alive[i] /\ ~OutDate(trs[i], ts)],
   retired |-> [i \in DOMAIN trs |-> IF st.alive[i] /\ OutDate(trs[i], ts) THEN ts ELSE st.retired[i]]]

-----------------------------------------------------------------------------
(* Properties of C18 over a run that has processed bars 0 .. bar-1 of grid g *)
FiredExactly(trs, g, st, bar) ==
  \A i \in DOMAIN trs : st.fired[i] = {x \in FireSet(trs[i], g) : x < TimeOf(g, bar)}

RetiredOnlyWhenDead(trs, g, st, bar) ==
  \A i \in DOMAIN trs : ~st.alive[i] => ~CanFireAfter(trs[i], g, TimeOf(g, bar) - g.iv)
=============================================================================

------------------------------ MODULE Squeeth ------------------------------
(***************************************************************************)
(* Squeeth short vaults as simulated by demeter/squeeth/market.py           *)
(* (SqueethMarket) on top of the oSQTH/WETH Uniswap pool (UniLpMarket).     *)
(*                                                                         *)
(* One action per public call: open_deposit_mint (= open / mint / deposit   *)
(* through the combined entry point), open_deposit_mint_by_collat_rate,     *)
(* deposit, burn_and_withdraw (= burn / withdraw), deposit_uni_position,    *)
(* withdraw_uni_position, the bar-end update() (liquidation of every vault  *)
(* below 1.5x: ReduceDebt, then Liquidate half | all) and the move to the   *)
(* next bar (a new row [norm factor, ETH price, oSQTH price]).              *)
(*                                                                         *)
(* The spec is normative: a rejected call leaves the state intact (checks   *)
(* come before mutations).  The DEV_ switches re-create the defects found   *)
(* in the code; registered configurations set them FALSE.                  *)
(*                                                                         *)
(* state st = [path  : symbols (indices into Rows) of bars 0 .. now,        *)
(*             te,ts : TWAP of the ETH / oSQTH price for the window ending   *)
(*                     at the current bar (relational, see TwapOk),         *)
(*             vaults: sequence of [coll, short : Q, lp : 0 | LP kind],      *)
(*             weth, sqth : wallet,                                         *)
(*             lps   : LP kind -> "own" (in the pool, held by the user)      *)
(*                     | "vault" (lent to a vault) | "gone" (redeemed),     *)
(*             ix    : some amount in the state went through a rounded       *)
(*                     Decimal operation (widens the decision band),        *)
(*             k, ops: step counters (model checking bounds only)]          *)
(*                                                                         *)
(* The amounts (WETH, oSQTH) of an LP position at a pool price involve      *)
(* square roots; they are NOT re-derived here: LPTab holds, per LP kind and *)
(* price symbol, the pair read from the pool's own valuation helper         *)
(* (UniLpMarket.get_position_amount).  The vault logic is specified on top. *)
(***************************************************************************)
EXTENDS Wallet, SqueethTwap, FiniteSets, TLC

CONSTANTS Rows,       \* sequence of price symbols [nf, eth, sq : Q]
          LPTab,      \* sequence (LP kind) of sequences (symbol) of <<WETH amount, oSQTH amount>>
          Live,       \* TRUE: TWAP over the trailing window; FALSE: market status without timestamp (TWAP = row price)
          TwapBars    \* bars in the TWAP window (7: bars i-6 .. i)

CONSTANTS DEV_OdmMutatesFirst,        \* open_deposit_mint mints / deposits before the 1.5x check
          DEV_DepositCreditsFirst,    \* deposit credits the vault before debiting the wallet            (C04)
          DEV_WithdrawMutatesFirst,   \* _withdraw_collateral pays out before the 1.5x check
          DEV_LpWithdrawMutatesFirst, \* withdraw_uni_position hands the LP back before the 1.5x check
          DEV_BurnKeptOnReject,       \* burn_and_withdraw keeps the burn when the final check rejects    (C04)
          DEV_RedeemSwapsTokens,      \* _redeem_uni_token reads (base, quote) = (oSQTH, WETH) as (WETH, oSQTH)
          DEV_BountyUncapped,         \* reduce-debt bounty larger than the vault's ETH: collateral goes negative
          DEV_LentLpAtIndex           \* net value: oSQTH leg of an LP lent to a vault valued at index x TWAP instead of the bar's price (C01/C03)

-----------------------------------------------------------------------------
Two    == QI(2)
Three  == QI(3)
HalfQ  == QOf(1, 2)                        \* MIN_DEPOSIT_AMOUNT 0.5 ETH
E4     == QI(10000)                        \* INDEX_SCALE
LiqMul == QOf(11, 10)                      \* 1 + LIQUIDATION_BOUNTY
RdBnty == QOf(1, 50)                       \* REDUCE_DEBT_BOUNTY 0.02
EpsFloat == QDiv(QOf(11, 10), QN(NTen(9))) \* float TWAP: 1e-9 relative on each leg (+ witness error)
EpsDec   == QDiv(One, QN(NTen(25)))        \* Decimal paths with a rounded operation
EpsWit   == QDiv(One, QN(NTen(15)))        \* accuracy demanded of the spec's own TWAP witness

EmptyVault == [coll |-> Zero, short |-> Zero, lp |-> 0]

-----------------------------------------------------------------------------
(* TWAP: relational definition TwapOk and the witness GeoWit live in SqueethTwap.tla *)
WindowOf(path) == LET n == Len(path) IN SubSeq(path, IF n > TwapBars THEN n - TwapBars + 1 ELSE 1, n)
PricesOf(w, f) == [i \in DOMAIN w |-> Rows[w[i]][f]]
TwapWit(path, f) == IF Live THEN GeoWit(PricesOf(WindowOf(path), f)) ELSE Rows[path[Len(path)]][f]

-----------------------------------------------------------------------------
(* environment of a step: current row + TWAPs *)
Cur(st) == st.path[Len(st.path)]
Env(st) == [nf |-> Rows[Cur(st)].nf, te |-> st.te, ts |-> st.ts, sym |-> Cur(st)]

Idx(e)        == QDiv(QMul(e.nf, e.te), E4)                         \* ETH of debt per oSQTH (index price)
DebtOf(e, v)  == QDiv(QMul(QMul(v.short, e.nf), e.te), E4)
LpAmt(e, k)   == LPTab[k][e.sym]                                    \* <<WETH, oSQTH>> of LP kind k at the current pool price
LpVal(e, k)   == QAdd(LpAmt(e, k)[1], QMul(LpAmt(e, k)[2], Idx(e)))  \* oSQTH leg at the INDEX price
CollOf(e, v)  == IF v.lp = 0 THEN v.coll ELSE QAdd(v.coll, LpVal(e, v.lp))

AboveWater(e, v) == v.short = Zero \/ QGe(QMul(CollOf(e, v), Two), QMul(DebtOf(e, v), Three))
Dust(e, v)       == v.short # Zero /\ QLt(CollOf(e, v), HalfQ)
Safe(e, v)       == AboveWater(e, v) /\ ~Dust(e, v)

(* tolerance band around the two limits (either outcome allowed inside) *)
EpsOf(st, v) == IF Live THEN EpsFloat ELSE IF v.lp # 0 \/ st.ix THEN EpsDec ELSE Zero
Near(a, b, eps) == eps # Zero /\ QLe(QAbs(QSub(a, b)), QMul(eps, QAdd(QAbs(a), QAbs(b))))
NearWater(e, v, eps) == v.short # Zero /\ Near(QMul(CollOf(e, v), Two), QMul(DebtOf(e, v), Three), eps)
NearDust(e, v, eps)  == v.short # Zero /\ Near(CollOf(e, v), HalfQ, eps)
NearSafe(e, v, eps)  == NearWater(e, v, eps) \/ NearDust(e, v, eps)
SafeTol(e, v, eps)   == Safe(e, v) \/ NearSafe(e, v, eps)

-----------------------------------------------------------------------------
InitSt(s0, w0, q0, nk) ==
  [path |-> <<s0>>, te |-> TwapWit(<<s0>>, "eth"), ts |-> TwapWit(<<s0>>, "sq"),
   vaults |-> <<>>, weth |-> w0, sqth |-> q0, lps |-> [k \in 1 .. nk |-> "own"], ix |-> FALSE, k |-> 0, ops |-> 0]

Res(st, out, why, acts, band, ret) == [st |-> st, out |-> out, why |-> why, acts |-> acts, band |-> band, ret |-> ret]
Rej(st, why) == Res(st, "reject", why, <<>>, FALSE, <<>>)
Why(e, v) == IF ~AboveWater(e, v) THEN "unsafe" ELSE "dust"

KnownVault(st, vk) == vk \in DOMAIN st.vaults
LpFree(st, lp)     == lp \in DOMAIN st.lps /\ st.lps[lp] = "own"

(* open_deposit_mint(deposit, mint, vault | None (vk = 0), uni position | None (lp = 0)) *)
Odm(st, vk, dep, mint, lp, inexact) ==
  LET e == Env(st) IN
  IF vk # 0 /\ ~KnownVault(st, vk) THEN Rej(st, "novault")
  ELSE
    LET v0  == IF vk = 0 THEN EmptyVault ELSE st.vaults[vk]
        vid == IF vk = 0 THEN Len(st.vaults) + 1 ELSE vk
    IN
    IF lp # 0 /\ (~LpFree(st, lp) \/ v0.lp # 0) THEN Rej(st, "lp")
    ELSE
      LET v1  == [coll |-> QAdd(v0.coll, dep), short |-> QAdd(v0.short, mint), lp |-> IF lp # 0 THEN lp ELSE v0.lp]
          ws  == WSub(st.weth, dep)
          eps == IF inexact THEN QMax(EpsOf(st, v1), EpsDec) ELSE EpsOf(st, v1)
          st1 == [st EXCEPT !.vaults = IF vk = 0 THEN Append(@, v1) ELSE [@ EXCEPT ![vk] = v1],
                            !.weth = ws.bal, !.sqth = QAdd(@, mint),
                            !.lps = IF lp # 0 THEN [@ EXCEPT ![lp] = "vault"] ELSE @,
                            !.ix = @ \/ inexact]
          acts == (IF vk = 0 THEN <<[t |-> "add_vault", v |-> vid]>> ELSE <<>>)
               \o (IF mint # Zero THEN <<[t |-> "short", v |-> vid, a |-> mint, after |-> v1.short]>> ELSE <<>>)
               \o (IF dep # Zero THEN <<[t |-> "coll", v |-> vid, a |-> dep, after |-> v1.coll]>> ELSE <<>>)
               \o (IF lp # 0 THEN <<[t |-> "lpdep", v |-> vid, lp |-> lp]>> ELSE <<>>)
      IN
      IF ~ws.ok THEN Rej(st, "wallet")
      ELSE IF Safe(e, v1) THEN Res(st1, "ok", "", acts, NearSafe(e, v1, eps), <<vid, mint>>)
      ELSE Res(IF DEV_OdmMutatesFirst THEN st1 ELSE st, "reject", Why(e, v1), <<>>, NearSafe(e, v1, eps), <<>>)

(* open_deposit_mint_by_collat_rate: mint = deposit / rate * 10^4 / nf / TWAP(ETH) *)
RateMint(e, dep, rate) == QDiv(QDiv(QMul(QDiv(dep, rate), E4), e.nf), e.te)

Deposit(st, vk, a) ==
  IF ~KnownVault(st, vk) THEN Rej(st, "novault")
  ELSE LET ws == WSub(st.weth, a)
           v1 == [st.vaults[vk] EXCEPT !.coll = QAdd(@, a)]
       IN  IF ~ws.ok THEN Rej(IF DEV_DepositCreditsFirst THEN [st EXCEPT !.vaults[vk] = v1] ELSE st, "wallet")
           ELSE Res([st EXCEPT !.vaults[vk] = v1, !.weth = ws.bal], "ok", "",
                    <<[t |-> "coll", v |-> vk, a |-> a, after |-> v1.coll]>>, FALSE, <<>>)

(* burn_and_withdraw(vault, burn, withdraw): both amounts are clamped to what the vault has *)
BurnWithdraw(st, vk, b, w) ==
  LET e == Env(st) IN
  IF ~KnownVault(st, vk) THEN Rej(st, "novault")
  ELSE
    LET v0  == st.vaults[vk]
        rem == IF b # Zero THEN QMin(b, v0.short) ELSE Zero
        amt == IF w # Zero THEN QMin(w, v0.coll) ELSE Zero
        qs  == WSub(st.sqth, rem)
        vb  == [v0 EXCEPT !.short = QSub(@, rem)]
        v1  == [vb EXCEPT !.coll = QSub(@, amt)]
        eps == EpsOf(st, v1)
        stb == [st EXCEPT !.vaults[vk] = vb, !.sqth = qs.bal]
        st1 == [stb EXCEPT !.vaults[vk] = v1, !.weth = QAdd(@, amt)]
        acts == (IF b # Zero THEN <<[t |-> "short", v |-> vk, a |-> QNeg(rem), after |-> v1.short]>> ELSE <<>>)
             \o (IF w # Zero THEN <<[t |-> "coll", v |-> vk, a |-> QNeg(amt), after |-> v1.coll]>> ELSE <<>>)
    IN
    IF ~qs.ok THEN Rej(st, "wallet")
    ELSE IF Safe(e, v1) THEN Res(st1, "ok", "", acts, NearSafe(e, v1, eps), <<>>)
    ELSE Res(IF DEV_WithdrawMutatesFirst /\ w # Zero THEN st1
             ELSE IF DEV_BurnKeptOnReject /\ b # Zero THEN stb ELSE st,
             "reject", Why(e, v1), <<>>, NearSafe(e, v1, eps), <<>>)

LpDeposit(st, vk, lp) ==
  IF ~KnownVault(st, vk) THEN Rej(st, "novault")
  ELSE IF ~LpFree(st, lp) \/ st.vaults[vk].lp # 0 THEN Rej(st, "lp")
  ELSE Res([st EXCEPT !.vaults[vk].lp = lp, !.lps[lp] = "vault"], "ok", "",
           <<[t |-> "lpdep", v |-> vk, lp |-> lp]>>, FALSE, <<>>)

LpWithdraw(st, vk, lp) ==
  LET e == Env(st) IN
  IF ~KnownVault(st, vk) THEN Rej(st, "novault")
  ELSE IF lp = 0 \/ st.vaults[vk].lp # lp THEN Rej(st, "lp")
  ELSE LET v1  == [st.vaults[vk] EXCEPT !.lp = 0]
           eps == EpsOf(st, st.vaults[vk])
           st1 == [st EXCEPT !.vaults[vk] = v1, !.lps[lp] = "own"]
       IN  IF Safe(e, v1) THEN Res(st1, "ok", "", <<[t |-> "lpwd", v |-> vk, lp |-> lp]>>, NearSafe(e, v1, eps), <<>>)
           ELSE Res(IF DEV_LpWithdrawMutatesFirst THEN st1 ELSE st, "reject", Why(e, v1), <<>>, NearSafe(e, v1, eps), <<>>)

-----------------------------------------------------------------------------
(* bar end: update() liquidates every vault that is below 1.5x (the dust line alone does not trigger it) *)
LiqVault(st, e, i) ==
  LET v   == st.vaults[i]
      eps == EpsOf(st, v)
  IN
  IF AboveWater(e, v) THEN [st |-> st, acts |-> <<>>, band |-> NearWater(e, v, eps)]
  ELSE
    LET hasLp == v.lp # 0
        a     == IF hasLp THEN LpAmt(e, v.lp) ELSE <<Zero, Zero>>
        ethW  == IF DEV_RedeemSwapsTokens THEN a[2] ELSE a[1]
        sqW   == IF DEV_RedeemSwapsTokens THEN a[1] ELSE a[2]
        rawB  == QMul(QAdd(QMul(sqW, e.ts), ethW), RdBnty)
        bnty  == IF ~hasLp THEN Zero ELSE IF DEV_BountyUncapped THEN rawB ELSE QMin(rawB, QAdd(v.coll, ethW))
        burn  == QMin(sqW, v.short)
        exc   == QSub(sqW, burn)
        v2    == [coll |-> QSub(QAdd(v.coll, ethW), bnty), short |-> QSub(v.short, burn), lp |-> 0]
        st2   == [st EXCEPT !.vaults[i] = v2, !.sqth = QAdd(@, exc),
                            !.lps = IF hasLp THEN [@ EXCEPT ![v.lp] = "gone"] ELSE @, !.ix = @ \/ hasLp]
        eps2  == EpsOf(st2, v2)
        rdAct == IF hasLp THEN <<[t |-> "reduce_debt", v |-> i, lp |-> v.lp, eth |-> ethW, sq |-> sqW, burn |-> burn,
                                  excess |-> exc, bounty |-> bnty, short_after |-> v2.short, coll_after |-> v2.coll]>>
                 ELSE <<>>
        nearB == hasLp /\ Near(rawB, QAdd(v.coll, ethW), eps2)
    IN
    IF AboveWater(e, v2)
    THEN [st |-> st2, acts |-> rdAct, band |-> NearWater(e, v, eps) \/ NearWater(e, v2, eps2) \/ nearB]
    ELSE
      LET c     == QAdd(v2.coll, bnty)                                  \* bounty handed back: the liquidation bounty replaces it
          half  == QDiv(v2.short, Two)
          payH  == QMul(QMul(half, e.ts), LiqMul)
          full  == QLt(QSub(c, payH), HalfQ)                            \* would be left with under 0.5 ETH
          amt1  == IF full THEN v2.short ELSE half
          pay1  == IF full THEN QMul(QMul(v2.short, e.ts), LiqMul) ELSE payH
          cap   == QGt(pay1, c)
          amt   == IF cap THEN v2.short ELSE amt1
          pay   == IF cap THEN c ELSE pay1
          v3    == [coll |-> QSub(c, pay), short |-> QSub(v2.short, amt), lp |-> 0]
          nearL == Near(QSub(c, payH), HalfQ, eps2) \/ Near(pay1, c, eps2) \/ Near(payH, c, eps2)
          lAct  == <<[t |-> "liquidation", v |-> i, amt |-> amt, short_after |-> v3.short, pay |-> pay, coll_after |-> v3.coll]>>
      IN [st |-> [st2 EXCEPT !.vaults[i] = v3], acts |-> rdAct \o lAct,
          band |-> NearWater(e, v, eps) \/ NearWater(e, v2, eps2) \/ nearB \/ nearL]

RECURSIVE UpdFrom(_, _, _)
UpdFrom(st, e, i) ==
  IF i > Len(st.vaults) THEN [st |-> st, acts |-> <<>>, band |-> FALSE]
  ELSE LET r    == LiqVault(st, e, i)
           rest == UpdFrom(r.st, e, i + 1)
       IN  [st |-> rest.st, acts |-> r.acts \o rest.acts, band |-> r.band \/ rest.band]

Update(st) == LET r == UpdFrom(st, Env(st), 1) IN Res(r.st, "ok", "", r.acts, r.band, <<>>)

(* the public liquidate(vault): rejected for an unknown or a safe vault, otherwise the liquidation of that one vault *)
LiqOne(st, vk) ==
  LET e == Env(st) IN
  IF ~KnownVault(st, vk) THEN Rej(st, "novault")
  ELSE IF AboveWater(e, st.vaults[vk])
       THEN Res(st, "reject", "safe", <<>>, NearWater(e, st.vaults[vk], EpsOf(st, st.vaults[vk])), <<>>)
       ELSE LET r == LiqVault(st, e, vk) IN Res(r.st, "ok", "", r.acts, r.band, <<>>)

(* a wallet operation: oSQTH leaves the wallet (Broker.subtract_from_balance); lets a burn meet an empty wallet *)
Spend(st, a) ==
  LET qs == WSub(st.sqth, a) IN
  IF qs.ok THEN Res([st EXCEPT !.sqth = qs.bal], "ok", "", <<>>, FALSE, <<>>) ELSE Rej(st, "wallet")

(* the long side: buy_squeeth / sell_squeeth(osqth_amount) swap WETH <-> oSQTH through the oSQTH/WETH pool at the bar's pool price
   (UniLpMarket.buy / sell: the fee is taken from what is paid in) *)
PoolFee == QOf(3, 1000)
PoolPx(st) == Rows[Cur(st)].sq
LongBuy(st, a) ==
  IF a = Zero THEN Res(st, "ok", "", <<>>, FALSE, <<>>)
  ELSE LET pay == QDiv(QMul(a, PoolPx(st)), QSub(One, PoolFee))
           ws  == WSub(st.weth, pay)
       IN  IF ~ws.ok THEN Rej(st, "wallet")
           ELSE Res([st EXCEPT !.weth = ws.bal, !.sqth = QAdd(@, a)], "ok", "", <<>>, FALSE, <<>>)
LongSell(st, a) ==
  IF a = Zero THEN Res(st, "ok", "", <<>>, FALSE, <<>>)
  ELSE LET got == QMul(QMul(a, QSub(One, PoolFee)), PoolPx(st))
           ws  == WSub(st.sqth, a)
       IN  IF ~ws.ok THEN Rej(st, "wallet")
           ELSE Res([st EXCEPT !.sqth = ws.bal, !.weth = QAdd(@, got)], "ok", "", <<>>, FALSE, <<>>)

NextBar(st, sym) ==
  LET p == IF Live THEN Append(st.path, sym) ELSE <<sym>> IN
  Res([st EXCEPT !.path = p, !.te = TwapWit(p, "eth"), !.ts = TwapWit(p, "sq")], "ok", "", <<>>, FALSE, <<>>)

-----------------------------------------------------------------------------
(* TOTAL step function *)
Step(st, ev) ==
  CASE ev.op = "odm"     -> Odm(st, ev.vk, ev.dep, ev.mint, ev.lp, FALSE)
    [] ev.op = "rate"    -> Odm(st, ev.vk, ev.dep, RateMint(Env(st), ev.dep, ev.rate), ev.lp, TRUE)
    [] ev.op = "deposit" -> Deposit(st, ev.vk, ev.a)
    [] ev.op = "bw"      -> BurnWithdraw(st, ev.vk, ev.b, ev.w)
    [] ev.op = "lpdep"   -> LpDeposit(st, ev.vk, ev.lp)
    [] ev.op = "lpwd"    -> LpWithdraw(st, ev.vk, ev.lp)
    [] ev.op = "update"  -> Update(st)
    [] ev.op = "liq"     -> LiqOne(st, ev.vk)
    [] ev.op = "spend"   -> Spend(st, ev.a)
    [] ev.op = "lbuy"    -> LongBuy(st, ev.a)
    [] ev.op = "lsell"   -> LongSell(st, ev.a)
    [] ev.op = "next"    -> NextBar(st, ev.sym)
    [] ev.op = "bar"     -> LET u == Update(st)                      \* bar end through the Actuator: update, then the next row
                                n == NextBar(u.st, ev.sym)
                            IN  Res(n.st, "ok", "", u.acts, u.band, <<>>)

UserOp(ev) == ev.op \in {"odm", "rate", "deposit", "bw", "lpdep", "lpwd"}
BarEnd(ev) == ev.op \in {"update", "bar"}

-----------------------------------------------------------------------------
(* Net value (C01/C03): defined from wallet and positions only, under the CURRENT row's prices.  The account quote  *)
(* token is a USD stable coin; the pool's quote token is WETH (converted with the ETH price), Squeeth reports USD.   *)
(* An LP position is worth its WETH + oSQTH at the bar's oSQTH price whoever holds it: in the pool's value while     *)
(* "own", in the vault's collateral while "vault", nowhere once "gone" (its tokens went to vault and wallet).        *)
PxEth(st) == Rows[Cur(st)].eth
PxSq(st)  == Rows[Cur(st)].sq                                           \* ETH per oSQTH
LpMark(st, k) == QAdd(LpAmt(Env(st), k)[1], QMul(LpAmt(Env(st), k)[2], PxSq(st)))

RECURSIVE SumSeq(_, _, _)
SumSeq(f(_), n, i) == IF i > n THEN Zero ELSE QAdd(f(i), SumSeq(f, n, i + 1))

UniValue(st) == LET f(k) == IF st.lps[k] = "own" THEN LpMark(st, k) ELSE Zero IN SumSeq(f, Len(st.lps), 1)     \* WETH
VaultWorth(st, v) == QAdd(v.coll, IF v.lp = 0 THEN Zero
                                  ELSE IF DEV_LentLpAtIndex THEN LpVal(Env(st), v.lp) ELSE LpMark(st, v.lp))     \* ETH
SqValue(st) ==                                                                                                   \* USD
  LET c(i) == VaultWorth(st, st.vaults[i])
      d(i) == st.vaults[i].short
  IN  QSub(QMul(SumSeq(c, Len(st.vaults), 1), PxEth(st)),
           QMul(QMul(SumSeq(d, Len(st.vaults), 1), PxSq(st)), PxEth(st)))
AssetValue(st) == QAdd(QMul(st.weth, PxEth(st)), QMul(QMul(st.sqth, PxSq(st)), PxEth(st)))
NetValue(st)   == QAdd(AssetValue(st), QAdd(QMul(UniValue(st), PxEth(st)), SqValue(st)))

(* every derived, user-visible quantity *)
View(st) == LET e == Env(st) IN
  [v |-> [i \in DOMAIN st.vaults |-> [coll |-> CollOf(e, st.vaults[i]), debt |-> DebtOf(e, st.vaults[i]),
                                      safe |-> Safe(e, st.vaults[i]), water |-> AboveWater(e, st.vaults[i])]],
   nv |-> [net |-> NetValue(st), asset |-> AssetValue(st), uni |-> UniValue(st), sq |-> SqValue(st)]]

Core(st) == [vaults |-> st.vaults, weth |-> st.weth, sqth |-> st.sqth, lps |-> st.lps, path |-> st.path]

-----------------------------------------------------------------------------
(* Properties of C14.  r = [st, out, why, acts, band, ret] is the result of event ev in state st. *)
Inv_C14_NonNeg(st) ==
  /\ \A i \in DOMAIN st.vaults : QGe(st.vaults[i].coll, Zero) /\ QGe(st.vaults[i].short, Zero)
  /\ QGe(st.weth, Zero) /\ QGe(st.sqth, Zero)

(* the TWAPs carried in the state are geometric means of the trailing window *)
Inv_C14_Twap(st) ==
  LET w == WindowOf(st.path) IN
  IF Live THEN TwapOk(st.te, PricesOf(w, "eth"), EpsWit) /\ TwapOk(st.ts, PricesOf(w, "sq"), EpsWit) /\ Len(w) <= TwapBars
          ELSE st.te = Rows[Cur(st)].eth /\ st.ts = Rows[Cur(st)].sq

Target(st, ev) == IF ev.op \in {"odm", "rate"} /\ ev.vk = 0 THEN Len(st.vaults) + 1 ELSE ev.vk
MintsOrWithdraws(ev) ==
  \/ ev.op = "odm" /\ ev.mint # Zero
  \/ ev.op = "rate"
  \/ ev.op = "bw" /\ ev.w # Zero
  \/ ev.op = "lpwd"

(* an accepted mint / collateral withdrawal / LP withdrawal ends with the vault safe (1.5x and 0.5 ETH) *)
Act_C14_AcceptedSafe(st, ev, r) ==
  (UserOp(ev) /\ MintsOrWithdraws(ev) /\ r.out = "ok") =>
     LET v == r.st.vaults[Target(st, ev)] IN SafeTol(Env(r.st), v, QMax(EpsOf(r.st, v), IF ev.op = "rate" THEN EpsDec ELSE Zero))

(* no user call, accepted or raised, turns a safe vault unsafe (a vault that did not exist counts as safe) *)
Act_C14_SafeStaysSafe(st, ev, r) ==
  UserOp(ev) =>
    /\ Len(r.st.vaults) >= Len(st.vaults)
    /\ \A i \in DOMAIN r.st.vaults :
         LET v == r.st.vaults[i]
             eps == QMax(EpsOf(r.st, v), IF ev.op = "rate" THEN EpsDec ELSE Zero) IN
         (i \in DOMAIN st.vaults => (Safe(Env(st), st.vaults[i]) => SafeTol(Env(r.st), v, eps)))
         /\ (i \notin DOMAIN st.vaults => SafeTol(Env(r.st), v, eps))

(* accepted calls move exactly the stated oSQTH and ETH between wallet and vault *)
Act_C14_Movement(st, ev, r) ==
  (UserOp(ev) /\ r.out = "ok") =>
    LET t  == Target(st, ev)
        v0 == IF t \in DOMAIN st.vaults THEN st.vaults[t] ELSE EmptyVault
        v1 == r.st.vaults[t]
        others == \A i \in DOMAIN st.vaults : i # t => r.st.vaults[i] = st.vaults[i]
    IN
    /\ others
    /\ Len(r.st.vaults) = IF t \in DOMAIN st.vaults THEN Len(st.vaults) ELSE Len(st.vaults) + 1
    /\ CASE ev.op \in {"odm", "rate"} ->
              LET m == r.ret[2] IN
              /\ r.ret[1] = t
              /\ ev.op = "odm" => m = ev.mint
              /\ v1.short = QAdd(v0.short, m) /\ v1.coll = QAdd(v0.coll, ev.dep)
              /\ r.st.sqth = QAdd(st.sqth, m) /\ r.st.weth = WSub(st.weth, ev.dep).bal
         [] ev.op = "deposit" ->
              /\ v1.coll = QAdd(v0.coll, ev.a) /\ v1.short = v0.short
              /\ r.st.weth = WSub(st.weth, ev.a).bal /\ r.st.sqth = st.sqth
         [] ev.op = "bw" ->
              LET burned == QSub(v0.short, v1.short)
                  taken  == QSub(v0.coll, v1.coll) IN
              /\ burned = (IF ev.b = Zero THEN Zero ELSE QMin(ev.b, v0.short))
              /\ taken = (IF ev.w = Zero THEN Zero ELSE QMin(ev.w, v0.coll))
              /\ r.st.sqth = WSub(st.sqth, burned).bal /\ r.st.weth = QAdd(st.weth, taken)
         [] OTHER ->
              /\ v1.coll = v0.coll /\ v1.short = v0.short
              /\ r.st.weth = st.weth /\ r.st.sqth = st.sqth

(* bar end: a vault is touched iff it is below 1.5x *)
Act_C14_LiqIff(st, ev, r) ==
  BarEnd(ev) =>
    /\ Len(r.st.vaults) = Len(st.vaults)
    /\ \A i \in DOMAIN st.vaults : (r.st.vaults[i] # st.vaults[i]) <=> ~AboveWater(Env(st), st.vaults[i])

(* bar end: the amounts of the statement, stated on (vault before, vault after) *)
LiqRelation(e, v, w) ==
  LET hasLp == v.lp # 0
      a     == IF hasLp THEN LpAmt(e, v.lp) ELSE <<Zero, Zero>>
      burn  == QMin(a[2], v.short)
      s1    == QSub(v.short, burn)
      c1    == QAdd(v.coll, a[1])                                      \* ETH after the LP is redeemed
      bnty  == QMin(QMul(QAdd(QMul(a[2], e.ts), a[1]), RdBnty), c1)
      rescued == [coll |-> QSub(c1, bnty), short |-> s1, lp |-> 0]
  IN
  /\ w.lp = 0
  /\ IF hasLp /\ AboveWater(e, rescued) THEN w = rescued
     ELSE LET burned == QSub(s1, w.short)
              paid   == QSub(c1, w.coll)
              half   == QDiv(s1, Two)
              price  == QMul(e.ts, LiqMul)
              dusty  == QLt(QSub(c1, QMul(half, price)), HalfQ)
          IN  /\ burned = (IF dusty THEN s1 ELSE half)
              /\ paid = QMin(QMul(burned, price), c1)
              /\ (paid # QMul(burned, price)) => w.short = Zero          \* capped: all the debt goes

Act_C14_LiqAmounts(st, ev, r) ==
  /\ (ev.op = "liq" /\ r.out = "ok") =>
        /\ ~AboveWater(Env(st), st.vaults[ev.vk])
        /\ LiqRelation(Env(st), st.vaults[ev.vk], r.st.vaults[ev.vk])
        /\ \A i \in DOMAIN st.vaults : i # ev.vk => r.st.vaults[i] = st.vaults[i]
  /\ BarEnd(ev) =>
    /\ \A i \in DOMAIN st.vaults :
         ~AboveWater(Env(st), st.vaults[i]) => LiqRelation(Env(st), st.vaults[i], r.st.vaults[i])
    /\ r.st.weth = st.weth
    /\ QGe(r.st.sqth, st.sqth)

(* C04 (owned elsewhere, carried here so that the DEV switches of C04-only defects are non-vacuous) *)
Act_C04_Intact(st, ev, r) == r.out = "reject" => Core(r.st) = Core(st)

(* C01: every LP position is counted exactly once: by the pool while "own", by exactly one vault while "vault", by nobody once "gone" *)
Inv_C01_CountedOnce(st) ==
  \A k \in DOMAIN st.lps :
    LET holders == {i \in DOMAIN st.vaults : st.vaults[i].lp = k} IN
    IF st.lps[k] = "vault" THEN Cardinality(holders) = 1 ELSE holders = {}

(* C03: while the row stays the same no call, accepted or rejected, and no bar-end liquidation raises the net value by more than
   wallet rounding dust (Asset.sub snaps a difference below 1e-5 of the balance to zero); amounts stay non-negative (Inv_C14_NonNeg);
   a withdrawal / burn never takes more than the vault holds *)
(* bar-end / public liquidation is not covered: liquidating an insolvent vault (collateral worth less than its debt) cancels the
   bad debt against the collateral that is left, which raises the owner's net value by design (limited liability) *)
Frozen(ev) == UserOp(ev) \/ ev.op = "spend"
Act_C03_NoValueCreation(st, ev, r) ==
  Frozen(ev) => QLe(NetValue(r.st), QAdd(NetValue(st), QMul(DustRatio, AssetValue(st))))
Act_C03_PayoutBounded(st, ev, r) ==
  (ev.op = "bw" /\ r.out = "ok") =>
     /\ QLe(QSub(r.st.weth, st.weth), st.vaults[ev.vk].coll)
     /\ QLe(QSub(st.sqth, r.st.sqth), st.vaults[ev.vk].short)
=============================================================================

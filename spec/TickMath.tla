------------------------------ MODULE TickMath ------------------------------
(***************************************************************************)
(* Uniswap v3 TickMath (demeter/uniswap/liquitidy_math.py                   *)
(* get_sqrt_ratio_at_tick, demeter/uniswap/helper.py tick/price helpers),   *)
(* over the exact naturals / rationals of Num.tla.  Property C06.           *)
(***************************************************************************)
EXTENDS Num

MinTick == 0 - 887272
MaxTick == 887272
MinSqrtRatio == <<8739, 9512, 42>>
MaxSqrtRatio == <<342, 2397, 3787, 8822, 398, 522, 7273, 328, 2101, 3485, 4670, 4614, 1>>
Two32  == <<7296, 9496, 42>>
Two96  == <<336, 4395, 5935, 4337, 1426, 1625, 9228, 7>>
Two128 == <<1456, 6821, 4317, 4607, 6337, 4634, 938, 6692, 2823, 340>>
Two192 == <<2896, 3451, 4640, 5444, 235, 4161, 7666, 2320, 7894, 3835, 8076, 3866, 1735, 7710, 62>>
MaxU256 == <<9935, 2963, 9131, 4007, 5758, 394, 564, 6564, 9846, 3269, 785, 6879, 5008, 7098, 4235, 6195, 3731, 892, 5792, 11>>

(* the protocol's twenty Q128 constants: Magic[i+1] = sqrt(1.0001)^(-2^i) * 2^128 *)
Magic ==
  << <<9313, 7514, 320, 6517, 5781, 9635, 8544, 5407, 2653, 340>>,
     <<2778, 8678, 8142, 6174, 8432, 7904, 6729, 4208, 2483, 340>>,
     <<1260, 1518, 7160, 982, 5192, 3240, 4664, 2065, 2143, 340>>,
     <<4304, 7968, 1018, 1512, 3117, 3236, 5602, 8799, 1462, 340>>,
     <<1444, 5946, 6791, 3991, 2359, 1468, 8231, 6348, 102, 340>>,
     <<2016, 7550, 1043, 7401, 9715, 4036, 345, 7764, 7383, 339>>,
     <<7025, 4399, 4545, 4227, 703, 5557, 3219, 5800, 1952, 339>>,
     <<5971, 1488, 9884, 5679, 5680, 8346, 601, 2210, 1116, 338>>,
     <<7700, 7897, 7897, 9805, 2358, 2230, 4790, 2499, 9547, 335>>,
     <<7300, 5981, 785, 2139, 2717, 2471, 8379, 2113, 6821, 331>>,
     <<8739, 6061, 2681, 1250, 8821, 232, 4853, 3668, 2992, 323>>,
     <<3929, 8, 9426, 7243, 4869, 9899, 7032, 1637, 1637, 307>>,
     <<5045, 8759, 2160, 9269, 6299, 2201, 6896, 362, 2684, 277>>,
     <<1333, 8539, 1274, 6027, 4712, 6219, 442, 5394, 9234, 225>>,
     <<5943, 3820, 825, 242, 2733, 9977, 4966, 1408, 9972, 149>>,
     <<7926, 6651, 6084, 6233, 2271, 7756, 6024, 113, 1191, 66>>,
     <<8313, 7813, 1904, 974, 3029, 2975, 1809, 7606, 8473, 12>>,
     <<4020, 2997, 6840, 6253, 7274, 661, 817, 5326, 4850>>,
     <<4168, 421, 4353, 653, 2157, 9065, 5978, 9141, 6>>,
     <<642, 9618, 9558, 9654, 8267, 8804, 1404>> >>

Pow2(i) == 2 ^ i
Bit(n, i) == (n \div Pow2(i)) % 2

RECURSIVE RatioFrom(_, _, _)
RatioFrom(a, i, r) == IF i > 19 THEN r
                      ELSE RatioFrom(a, i + 1, IF Bit(a, i) = 1 THEN NDiv(NMul(r, Magic[i + 1]), Two128) ELSE r)

(* TickMath.getSqrtRatioAtTick: Q128 product of the constants selected by the bits of |tick|, reciprocal for tick > 0,
   rounded UP to Q96 *)
SqrtRatioAtTick(t) ==
  LET a  == IF t < 0 THEN 0 - t ELSE t
      r0 == IF Bit(a, 0) = 1 THEN Magic[1] ELSE Two128
      r1 == RatioFrom(a, 1, r0)
      r  == IF t > 0 THEN NDiv(MaxU256, r1) ELSE r1
      dm == NDivMod(r, Two32)
  IN IF dm[2] = <<>> THEN dm[1] ELSE NAdd(dm[1], <<1>>)

(* TickMath.getTickAtSqrtRatio as a relation: t is the greatest tick whose sqrt ratio does not exceed p *)
IsTickAtSqrtRatio(p, t) ==
  /\ t >= MinTick /\ t <= MaxTick
  /\ NCmp(SqrtRatioAtTick(t), p) <= 0
  /\ (t < MaxTick => NCmp(p, SqrtRatioAtTick(t + 1)) < 0)

(* closed form sqrt(1.0001^t) * 2^96 with the protocol's error bound, integers only.
   t <= 0:  (S-1)^2 * 10001^|t| < 2^192 * 10000^|t| < (S+1)^2 * 10001^|t|          (less than one unit)
   t >  0:  |S - X| < 1 + X * 8 * 1.0001^(t/2) / 2^128 with X = sqrt(1.0001^t) 2^96; squared and bounded:
            (S - 1 - E)^2 * 10000^t < 2^192 * 10001^t < (S + 1 + E)^2 * 10000^t  with  E = ceil(8 S^2 / 2^224) + 1   *)
ClosedFormOK(t, S) ==
  LET a == IF t < 0 THEN 0 - t ELSE t
      p1 == NPow(<<1, 1>>, a)
      p0 == NPow(<<0, 1>>, a)
      sq(x) == NMul(x, x)
  IN IF t <= 0
     THEN /\ NCmp(NMul(sq(NSub(S, <<1>>)), p1), NMul(Two192, p0)) < 0
          /\ NCmp(NMul(Two192, p0), NMul(sq(NAdd(S, <<1>>)), p1)) < 0
     ELSE LET E == NAdd(NDiv(NMul(<<8>>, sq(S)), NPow(<<2>>, 224)), <<2>>)
              lo == IF NCmp(S, E) > 0 THEN NSub(S, E) ELSE <<>>
          IN /\ NCmp(NMul(sq(lo), p0), NMul(Two192, p1)) < 0
             /\ NCmp(NMul(Two192, p1), NMul(sq(NAdd(S, E)), p0)) < 0

(* base-unit price of a tick as a rational: (S/2^96)^2 * 10^(d0-d1), inverted when token0 is the quote token *)
PoolPriceOfSqrt(S, d0, d1, zeroIsQuote) ==
  LET sc == IF d0 >= d1 THEN QN(NTen(d0 - d1)) ELSE QInv(QN(NTen(d1 - d0)))
      pp == QMul(QMk(1, NMul(S, S), Two192), sc)
  IN IF zeroIsQuote THEN QInv(pp) ELSE pp
TickPrice(t, d0, d1, zeroIsQuote) == PoolPriceOfSqrt(SqrtRatioAtTick(t), d0, d1, zeroIsQuote)

(* sqrt price X96 of a base-unit price: floor(sqrt(atomic price) * 2^96); the code computes the root with 35 significant
   digits, so its result may differ from this floor by a unit (harness tolerance) *)
SqrtX96OfPrice(price, d0, d1, zeroIsQuote) ==
  LET p  == IF zeroIsQuote THEN QInv(price) ELSE price
      sc == IF d0 >= d1 THEN QInv(QN(NTen(d0 - d1))) ELSE QN(NTen(d1 - d0))
      ap == QMul(p, sc)                                         \* atomic-unit price token1/token0
  IN NSqrt(NDiv(NMul(ap[2], Two192), ap[3]))

(* nearest_usable_tick: r is a multiple of the spacing inside the valid range that is nearest to t among such multiples *)
IsNearestUsable(t, sp, r) ==
  /\ r % sp = 0 /\ r >= MinTick /\ r <= MaxTick
  /\ \A k \in {(t \div sp) - 1, t \div sp, (t \div sp) + 1} :
        (k * sp >= MinTick /\ k * sp <= MaxTick) =>
          (IF r >= t THEN r - t ELSE t - r) <= (IF k * sp >= t THEN k * sp - t ELSE t - k * sp)
=============================================================================

----------------------------- MODULE NoLookahead -----------------------------
(***************************************************************************)
(* Property C02: no look-ahead, inputs intact, rerun reproduces.           *)
(*                                                                         *)
(* An abstract bar loop with DATA-DEPENDENT operations, written so that it *)
(* can be composed with itself: Run(c, frame) is a pure function of the    *)
(* configuration c = [kind, F, script] and of the supplied data frame.     *)
(*                                                                         *)
(* Data.  A history is a sequence of BAR symbols.  A run with resampling   *)
(* factor F aggregates F RAW rows into one bar; bar symbol s stands for    *)
(* the F raw rows Pattern(s, F).  A frame is the sequence of raw cells     *)
(* <<symbol, dirt>>; dirt counts in-place writes (0 in a supplied frame).  *)
(*                                                                         *)
(* What is modelled is WHICH raw rows each observable of bar i reads       *)
(* (demeter: uniswap/helper.py price = close.shift(1); uniswap/data.py     *)
(* resample rules last/first/sum; squeeth/market.py get_twap_price window  *)
(* [now - 6 min, now]; aave / gmx / squeeth / deribit resample(...).first();*)
(* core/actuator.py token_prices.loc[timestamp]).  The value computed from *)
(* the rows read is left uninterpreted (the free, "Herbrand" reading: an   *)
(* observation IS the tuple of cells it was computed from plus the history *)
(* of the operations executed so far, each with the cells it saw).  Every  *)
(* real computation is a function of that tuple, so equality of abstract   *)
(* observations implies equality of the real ones.                         *)
(*                                                                         *)
(* Obs(i) = (snapshots handed to before_bar / on_bar / after_bar at bar i, *)
(*           account row i, actions stamped i).                            *)
(*                                                                         *)
(* DEV_ switches re-create look-ahead / input-mutation defects (none of    *)
(* them is present in the code; the companions prove the invariants are    *)
(* not vacuous and are the spec images of the seeded code mutants).        *)
(***************************************************************************)
EXTENDS Integers, Sequences, FiniteSets

CONSTANTS DEV_PriceFromNextBar,     \* uniswap: price(r) = close(r + 1)  (shift(-1) instead of shift(1))
          DEV_TwapWindowEndsNext,   \* squeeth: TWAP window [now - 5 min, now + 1 min]
          DEV_StatusRowNext,        \* aave: the status of bar i is the row after bar i's
          DEV_AccountPriceNext,     \* actuator: every third account row is valued at the next bar's prices
          DEV_StatusWrittenBack,    \* uniswap: the status row (+ own liquidity) is stored into market.data
          DEV_BookSharedWithData,   \* deribit: a fill edits the order lists that market.data still refers to
          DEV_HourRounded           \* mix: the hourly book of a bar is that of the NEAREST hour (round) instead of the last one (floor)

Kinds == {"uni", "aave", "squeeth", "deribit", "gmx1", "gmx2", "mix"}
(* "mix": a minutely pool next to the hourly option market in one run on the 1-minute grid.  A bar symbol stands for a BLOCK of
   20 one-minute bars whose rows are equal (no resampling: the block is the unit of this model, F = 1); an hour is 3 blocks; the
   option book every bar of an hour sees is the row of the hour's first block. *)
BlocksPerHour == 3
Hooks == <<"bb", "ob", "ab">>
TwapSpan == 6                      \* TWAP_PERIOD - 1 minutes back from the current bar

-----------------------------------------------------------------------------
(* histories, raw rows, frames *)
Pattern(s, F) ==
  [j \in 1 .. F |->
     IF F = 1 THEN s
     ELSE CASE s = 2 -> (IF j = 1 THEN 2 ELSE 1)                 \* the first raw row of the bar differs
            [] s = 3 -> (IF j = F THEN 3 ELSE 1)                 \* the last raw row differs
            [] s = 4 -> (IF j = (F + 1) \div 2 THEN 2 ELSE 1)    \* a middle raw row differs
            [] OTHER -> 1]

FrameOf(c, h) == [r \in 1 .. (Len(h) * c.F) |-> <<Pattern(h[((r - 1) \div c.F) + 1], c.F)[((r - 1) % c.F) + 1], 0>>]

Absent == <<0, 0>>                 \* a row outside the frame (NaN / shorter slice)
Cell(frame, r) == IF r \in 1 .. Len(frame) THEN frame[r] ELSE Absent
NBarsOf(c, frame) == Len(frame) \div c.F

BarRows(c, i)  == (c.F * i + 1) .. (c.F * i + c.F)      \* raw rows of bar i (bars count from 0, raw rows from 1)
FirstRow(c, i) == c.F * i + 1
LastRow(c, i)  == c.F * i + c.F

-----------------------------------------------------------------------------
(* which raw rows the observables of bar i are computed from *)

(* the uniswap `price` column of raw row r is the close of raw row r - 1 (the first row: its own open tick);
   a resampled bar takes the `price` of its first raw row *)
UniPriceRows(c, i) ==
  IF DEV_PriceFromNextBar THEN {FirstRow(c, i) + 1}
  ELSE IF i = 0 THEN {1} ELSE {FirstRow(c, i) - 1}

StatusRows(c, i) ==
  CASE c.kind = "uni"     -> BarRows(c, i) \cup UniPriceRows(c, i)       \* close / liquidity: last, volumes: sum, price: first
    [] c.kind = "aave"    -> {FirstRow(c, IF DEV_StatusRowNext THEN i + 1 ELSE i)}
    [] c.kind = "squeeth" -> BarRows(c, i)                                \* squeeth row: first; its uniswap pool row: last / sum / first
    [] c.kind = "mix"     -> BarRows(c, i) \cup (IF i = 0 THEN {1} ELSE {FirstRow(c, i) - 1})      \* the pool's rows of the block, its price
                             \cup {FirstRow(c, IF DEV_HourRounded /\ i % BlocksPerHour # 0
                                                THEN (i \div BlocksPerHour) * BlocksPerHour + BlocksPerHour   \* minutes 31..59 round up
                                                ELSE (i \div BlocksPerHour) * BlocksPerHour)}                 \* the hour's book
    [] OTHER              -> {FirstRow(c, i)}                             \* deribit book of the hour, gmx pool row

(* squeeth TWAP: resampled bars j whose stamp lies in [now - 6 min, now] (minutes: c.F * j) *)
TwapRows(c, i) ==
  IF c.kind # "squeeth" THEN {}
  ELSE LET d == IF DEV_TwapWindowEndsNext THEN 1 ELSE 0
       IN  {FirstRow(c, j) : j \in {x \in 0 .. (i + 1) : c.F * i - TwapSpan + d <= c.F * x /\ c.F * x <= c.F * i + d}}

(* token price frame, resampled with first(); for uniswap it is derived from the pool's `price` column *)
PriceRows(c, i) == IF c.kind = "uni" THEN UniPriceRows(c, i)
                   ELSE IF c.kind = "mix" THEN BarRows(c, i) \cup (IF i = 0 THEN {1} ELSE {FirstRow(c, i) - 1})
                   ELSE {FirstRow(c, i)}

AcctPriceRows(c, i) == IF DEV_AccountPriceNext /\ i % 3 = 2 THEN PriceRows(c, i + 1) ELSE PriceRows(c, i)

AllRows(c, i) == StatusRows(c, i) \cup TwapRows(c, i) \cup PriceRows(c, i) \cup AcctPriceRows(c, i)

Look(frame, rows) == [r \in rows |-> Cell(frame, r)]
View(c, frame, i) == [status |-> Look(frame, StatusRows(c, i)), twap |-> Look(frame, TwapRows(c, i)),
                      price |-> Look(frame, PriceRows(c, i))]

-----------------------------------------------------------------------------
(* scripted strategies: the operations run at bar i, as <<hook, operation>>; every operation is data dependent *)
Script(s, i, nb) ==
  CASE s = 1 -> IF i = 0 THEN <<<<"ob", "open">>>> ELSE <<>>
    [] s = 2 -> IF i = 0 THEN <<<<"ob", "open">>>> ELSE <<<<"ob", "adjust">>>>
    [] s = 3 -> (IF i = 1 THEN <<<<"bb", "open">>>> ELSE <<>>)
                \o (IF i = 2 THEN <<<<"ab", "adjust">>>> ELSE <<>>)
                \o (IF i = nb - 1 /\ i >= 2 THEN <<<<"ob", "close">>>> ELSE <<>>)

OpsAt(c, i, nb, h) == LET IsH(x) == x[1] = h IN SelectSeq(Script(c.script, i, nb), IsH)

-----------------------------------------------------------------------------
(* in-place writes into the supplied frame (only the DEV_ variants have any) *)
Dirty(frame, r) == IF r \in 1 .. Len(frame) THEN [frame EXCEPT ![r] = <<@[1], @[2] + 1>>] ELSE frame

(* setting the market status of bar i while a position exists stores the row back (only without resampling: a
   resampled frame is a copy of the supplied one) *)
AfterStatus(c, frame, pos, i) ==
  IF DEV_StatusWrittenBack /\ c.kind = "uni" /\ c.F = 1 /\ pos # <<>> THEN Dirty(frame, LastRow(c, i)) ELSE frame

(* a fill edits the book lists of the current hour; resampling copies the frame but not the list objects in its cells *)
AfterOp(c, frame, i) ==
  IF DEV_BookSharedWithData /\ c.kind = "deribit" THEN Dirty(frame, FirstRow(c, i)) ELSE frame

-----------------------------------------------------------------------------
(* one hook: the snapshot handed to the strategy, then the operations of the script at this hook *)
RECURSIVE ApplyOps(_, _, _, _)
ApplyOps(c, st, i, ops) ==
  IF ops = <<>> THEN st
  ELSE LET v  == View(c, st.frame, i)
           o  == <<i, Head(ops)[1], Head(ops)[2], v>>              \* the operation with the cells it can see
       IN  ApplyOps(c, [st EXCEPT !.pos = Append(@, o), !.acts = Append(@, o), !.frame = AfterOp(c, @, i)], i, Tail(ops))

HookStep(c, st, i, nb, h) ==
  LET snap == [hook |-> h, view |-> View(c, st.frame, i), pos |-> st.pos]
      s1   == [st EXCEPT !.snaps = Append(@, snap)]
  IN  ApplyOps(c, s1, i, OpsAt(c, i, nb, h))

BarStep(c, st, i, nb) ==
  LET s0 == [st EXCEPT !.frame = AfterStatus(c, @, st.pos, i), !.snaps = <<>>, !.acts = <<>>]
      s1 == HookStep(c, s0, i, nb, "bb")
      s2 == HookStep(c, s1, i, nb, "ob")
      s3 == [s2 EXCEPT !.frame = AfterStatus(c, @, s2.pos, i)]    \* second refresh + update (fee, liquidation, settlement)
      s4 == HookStep(c, s3, i, nb, "ab")
      acct == [pos |-> s4.pos, view |-> View(c, s4.frame, i), price |-> Look(s4.frame, AcctPriceRows(c, i))]
  IN  [s4 EXCEPT !.obs = Append(@, [snaps |-> s4.snaps, acct |-> acct, acts |-> s4.acts])]

RECURSIVE RunFrom(_, _, _, _)
RunFrom(c, st, i, nb) == IF i >= nb THEN st ELSE RunFrom(c, BarStep(c, st, i, nb), i + 1, nb)

(* a backtest with a FRESH account on the given frame: observations per bar and the frame as the run leaves it *)
Run(c, frame) ==
  LET r == RunFrom(c, [pos |-> <<>>, frame |-> frame, obs |-> <<>>, snaps |-> <<>>, acts |-> <<>>], 0, NBarsOf(c, frame))
  IN  [obs |-> r.obs, frame |-> r.frame]

-----------------------------------------------------------------------------
(* property clauses *)

(* two runs on histories that agree on bars 0 .. k-1 (k bars) agree on the observations of those bars *)
Inv_C02_Prefix(k, ra, rb) == \A i \in 1 .. k : ra.obs[i] = rb.obs[i]

(* the supplied frame is unchanged by the run *)
Inv_C02_InputsIntact(c, frame, r) == r.frame = frame

(* the same inputs (the frame object as the first run left it), a fresh account: the same observations *)
Inv_C02_Rerun(c, r) == Run(c, r.frame).obs = r.obs

(* the reason: no observable of bar i is computed from a raw row after bar i *)
Inv_C02_ReadsOnlyPast(c, nb) == \A i \in 0 .. (nb - 1) : \A r \in AllRows(c, i) : r <= LastRow(c, i)
=============================================================================

------------------------------ MODULE TwapObs ------------------------------
(* SAMPLE of the module generated per run (in scratch) by harness/props/c14.py twap_obs_module for Trace_SqueethTwap.tla:
   get_twap_price values recorded from the real code, with the prices of the window the spec denotes. *)
EXTENDS Num
Obs == <<
  [g |-> <<1, <<1861, 1594, 3450, 7217, 107>>, <<0, 0, 0, 500>>>>, ps |-> <<<<1, <<2000>>, <<1>>>>, <<1, <<2000>>, <<1>>>>, <<1, <<2500>>, <<1>>>>>>]
>>
=============================================================================

------------------------- MODULE Trace_BarLoopCore -------------------------
(***************************************************************************)
(* Second pass of the C05 trace validation, for traces that the stepwise   *)
(* Trace_BarLoop rejected with a clause beyond the statement (info/...):   *)
(* the demanded clauses are evaluated on the WHOLE recorded trace, without *)
(* the events the statement does not mention (status refreshes, is_open,   *)
(* trigger retirement, open callbacks), so that a violation of the         *)
(* statement is not hidden behind an earlier deviation the statement       *)
(* tolerates.  Same input format as Trace_BarLoop (env C05_TRACES).        *)
(*                                                                         *)
(*  BarsInOrder  the before_bar timestamps are exactly TimeOf(c, 0..NBars-1)*)
(*  PhaseOrder   per bar: bb, (when/do)*, ob, upd of every market once, ab, *)
(*               rec, ntf*; nothing of another bar in between               *)
(*  RowPerBar    one rec per bar with the bar's timestamp and price; the    *)
(*               final rowlist / rows equal ExpRows(c)                      *)
(*  Stamp        every record appended by an op / upd carries the timestamp *)
(*               of the bar it ran in; `end` lists exactly those records    *)
(*  NotifyOnce   every record of bar i is notified exactly once, after the  *)
(*               rec of bar i and before the bb of bar i + 1 (or fin)       *)
(***************************************************************************)
EXTENDS BarLoop, Json, IOUtils, TLC

Traces == ndJsonDeserialize(IOEnv.C05_TRACES)

Idx(ev, names) == {i \in DOMAIN ev : ev[i].e \in names}
RECURSIVE SeqOfSet(_)
SeqOfSet(S) == IF S = {} THEN <<>> ELSE LET m == CHOOSE x \in S : \A y \in S : x <= y IN <<m>> \o SeqOfSet(S \ {m})

CoreBad(c, ev) ==
  LET n    == NBars(c)
      bbI  == SeqOfSet(Idx(ev, {"bb"}))
      finI == Idx(ev, {"fin"})
      endOfBar(k) == IF k < Len(bbI) THEN bbI[k + 1] ELSE IF finI # {} THEN CHOOSE x \in finI : TRUE ELSE Len(ev) + 1
      seg(k) == {i \in DOMAIN ev : bbI[k] <= i /\ i < endOfBar(k)}          \* events of bar k (1-based)
      one(k, name) == {i \in seg(k) : ev[i].e = name}
      recsOf(i) == [j \in DOMAIN ev[i].a |-> ev[i].a[j]]                     \* records <<id, stamp>> appended by event i
      \* records appended before the first bar (operations in initialize) belong to the first bar's buffer
      prodI(k) == {i \in DOMAIN ev : (i \in seg(k) \/ (k = 1 /\ i < bbI[1])) /\ ev[i].e \in {"op", "upd"} /\ Len(ev[i].a) > 0}
      ids(k) == UNION {{ev[i].a[j][1] : j \in DOMAIN ev[i].a} : i \in prodI(k)}
      badBar(k) ==
        LET ob == one(k, "ob")  ab == one(k, "ab")  rc == one(k, "rec")
        IN IF Cardinality(ob) # 1 \/ Cardinality(ab) # 1 THEN "PhaseOrder: a bar without exactly one on_bar and one after_bar"
           ELSE LET o == CHOOSE x \in ob : TRUE  a == CHOOSE x \in ab : TRUE IN
                IF ~(bbI[k] < o /\ o < a) THEN "PhaseOrder: before_bar, on_bar, after_bar out of order"
                ELSE IF \E i \in seg(k) : ev[i].e \in {"when", "do"} /\ ~(bbI[k] < i /\ i < o) THEN "PhaseOrder: trigger outside before_bar .. on_bar"
                ELSE IF \E m \in Markets(c) : Cardinality({i \in one(k, "upd") : ev[i].m = m /\ o < i /\ i < a}) # 1
                     THEN "PhaseOrder: not every market updated exactly once between on_bar and after_bar"
                ELSE IF Cardinality(rc) # 1 THEN "RowPerBar: not exactly one account row per bar"
                ELSE LET r == CHOOSE x \in rc : TRUE IN
                     IF r < a THEN "RowPerBar: account row computed before after_bar"
                     ELSE IF ev[r].ts # TimeOf(c, k - 1) THEN "RowPerBar: the row does not carry the bar's timestamp"
                     ELSE IF ev[r].px # BarPrice(c, k - 1) THEN "RowPerBar: the row is not valued with the bar's token prices"
                     ELSE IF \E i \in seg(k) : ev[i].e \in {"bb", "ob", "ab"} /\ (ev[i].ts # TimeOf(c, k - 1) \/ ev[i].n # k - 1)
                          THEN "BarsInOrder: a hook of the bar sees another timestamp / row count"
                     ELSE IF \E i \in prodI(k) : \E j \in DOMAIN ev[i].a : ev[i].a[j][2] # TimeOf(c, k - 1)
                          THEN "Stamp: a record is not stamped with the bar it was produced in"
                     ELSE IF \E i \in one(k, "ntf") : i < r THEN "NotifyOnce: notification before the bar's row"
                     ELSE IF \E x \in ids(k) : Cardinality({i \in one(k, "ntf") : ev[i].m = x}) # 1
                          THEN "NotifyOnce: a record of the bar is not notified exactly once at the end of that bar"
                     ELSE IF \E i \in one(k, "ntf") : ev[i].m \notin ids(k) THEN "NotifyOnce: a notification for a record of another bar"
                     ELSE ""
      bars == {k \in 1 .. Len(bbI) : badBar(k) # ""}
      rl == Idx(ev, {"rowlist"})  rw == Idx(ev, {"rows"})  en == Idx(ev, {"end"})
      allRecs == UNION {{<<ev[i].a[j][1], ev[i].a[j][2]>> : j \in DOMAIN ev[i].a} : i \in Idx(ev, {"op", "upd"})}
  IN IF [k \in DOMAIN bbI |-> ev[bbI[k]].ts] # [k \in 1 .. n |-> TimeOf(c, k - 1)]
        THEN "BarsInOrder: the bars the strategy saw are not the (resampled) index, each once, in order"
     ELSE IF bars # {} THEN badBar(CHOOSE k \in bars : \A k2 \in bars : k <= k2)
     ELSE IF finI = {} \/ rl = {} \/ rw = {} \/ en = {} THEN "BarsInOrder: the run did not reach its end"
     ELSE IF [i \in DOMAIN ev[CHOOSE x \in rl : TRUE].r |-> ev[CHOOSE x \in rl : TRUE].r[i][1]] # [i \in 1 .. n |-> TimeOf(c, i - 1)]
          THEN "RowPerBar: Actuator.account_status is not one row per bar with that bar's timestamp"
     ELSE IF ev[CHOOSE x \in rw : TRUE].r # ExpRows(c) THEN "RowPerBar: account_status_df is not one row per bar with the bar's timestamp and prices"
     ELSE IF {<<ev[CHOOSE x \in en : TRUE].a[j][1], ev[CHOOSE x \in en : TRUE].a[j][2]>> : j \in DOMAIN ev[CHOOSE x \in en : TRUE].a}
               # {r \in allRecs : TRUE}
          THEN "Stamp: Actuator.actions differs from the records produced"
     ELSE ""

ASSUME PrintT(<<"core_verdicts", [i \in DOMAIN Traces |-> <<Traces[i].tid, CoreBad(Traces[i].c, Traces[i].ev)>>]>>)
VARIABLE x
Init == x = 0
Next == FALSE /\ x' = x
=============================================================================

-------------------------- MODULE Trace_AaveProbe --------------------------
(* Oracle / trace-validation leg for Aave: the harness records (abstract state, event) pairs taken from the real   *)
(* code (helper results such as get_max_withdraw_amount with the code's exact Decimal value, and recorded          *)
(* liquidation steps); TLC evaluates the specification on each and prints its verdicts.                           *)
EXTENDS MC_Aave, Json, IOUtils

Probes == ndJsonDeserialize(IOEnv.VERIF_PROBES)

(* expected behaviour of a recorded path: scenario prefix, then one record per event *)
RECURSIVE PathFrom(_, _)
PathFrom(s, evs) ==
  IF evs = <<>> THEN <<>>
  ELSE LET r == Step(s, Head(evs)) IN
       <<[ev |-> Head(evs), out |-> r.out, acts |-> r.acts, st |-> r.st, view |-> View(r.st)]>> \o PathFrom(r.st, Tail(evs))

(* JSON has no sets: the empty-debt-entry set arrives as a sequence *)
FixSt(s) == [s EXCEPT !.bz = {s.bz[i] : i \in DOMAIN s.bz}]

(* verdict for one probe *)
Verdict(p) ==
  CASE p.kind = "step"   -> Step(FixSt(p.st), p.ev).out
    [] p.kind = "liqstep" ->   \* one recorded liquidation step: state before, state after, action record
         IF LiqStepOK(FixSt(p.st), FixSt(p.st2), p.act) THEN "ok" ELSE "bad"
    [] p.kind = "liqrun" -> IF LiqRunOK(FixSt(p.st), FixSt(p.st2), p.acts) THEN "ok" ELSE "bad"
    [] p.kind = "path" -> PathFrom([Apply(InitSt(W0), p.scn) EXCEPT !.k = 0], p.events)
    [] OTHER -> "unknown"

ASSUME PrintT(<<"probe_results", [i \in DOMAIN Probes |-> Verdict(Probes[i])]>>)

TInit == st = 0 /\ last = 0 /\ view = 0 /\ scn = 0
TNext == FALSE /\ UNCHANGED vars
=============================================================================

CONSTANTS
  Level = 1
  MaxSteps = 1
  Focus = 0
  Tokens <- TokensDef
  Risk <- RiskDef
  Rows <- RowsDef
  DEV_SupplyDebitsBeforeFlagCheck = FALSE
  DEV_WithdrawKeepsTrial = FALSE
  DEV_LiqUsesDebtIndex = FALSE
  DEV_BorrowLimitUsesLT = FALSE
INIT TInit
NEXT TNext
CHECK_DEADLOCK FALSE

CONSTANTS
  DEV_UpdateBeforeOnBar = FALSE
  DEV_PendingNotCleared = FALSE
  DEV_StampAfterBeforeBar = FALSE
  DEV_SkipNotifyWhenTwo = FALSE
  DEV_RowTwice = FALSE
  DEV_PriceLast = FALSE
  DEV_RefreshAlways = FALSE
  DEV_NotifyIteratesCopy = FALSE
INIT Init
NEXT Next
CHECK_DEADLOCK FALSE

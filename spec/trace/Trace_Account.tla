--------------------------- MODULE Trace_Account ---------------------------
(* Validates account rows recorded from real runs with several markets under one Broker against Account!NetValue (C01). *)
EXTENDS Account, Json, IOUtils, TLC
ASSUME SelfOK
T == ndJsonDeserialize(IOEnv.VERIF_TRACE)
Failures == {<<T[i].id, AccountBad(T[i])>> : i \in {j \in DOMAIN T : AccountBad(T[j]) # ""}}
ASSUME PrintT(<<"account_verdict", Len(T), Failures>>)
VARIABLE x
Init == x = 0
Next == FALSE /\ x' = x
=============================================================================

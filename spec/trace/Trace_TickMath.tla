--------------------------- MODULE Trace_TickMath ---------------------------
(* Validates recorded calls of the real tick / price helpers against TickMath.tla (property C06).      *)
(* Events (ndjson):                                                                                  *)
(*  {"k":"s",  "t":tick, "v":N}                      get_sqrt_ratio_at_tick(t) = v                     *)
(*  {"k":"f",  "p":N, "t":tick}                      sqrt_price_x96_to_tick(p) = t                     *)
(*  {"k":"pt", "t":tick, "d0":..,"d1":..,"zq":bool, "price":Q, "back":tick}  tick->price->tick          *)
(*  {"k":"n",  "t":tick, "sp":spacing, "r":tick}     nearest_usable_tick(t, sp) = r                    *)
(*  {"k":"mono","a":tick,"b":tick}                   (spec-only) strict monotonicity on a..b           *)
(*  {"k":"cf", "t":tick}                             (spec-only) closed-form bracket for tick t        *)
EXTENDS TickMath, Json, IOUtils, TLC

T == ndJsonDeserialize(IOEnv.VERIF_TRACE)

(* C06 demands of the price helpers only that they are mutually inverse to within one tick; the price itself is held to
   1e-9 relative (the code scales by the float 10 ** (d0 - d1), exact only for d0 >= d1: 2e-17 relative otherwise) *)
Tol9 == QMk(1, <<1>>, NTen(9))

Bad(e) ==
  CASE e.k = "s"  -> IF e.v = SqrtRatioAtTick(e.t) THEN "" ELSE "sqrt_ratio_equals_protocol"
    [] e.k = "f"  -> IF IsTickAtSqrtRatio(e.p, e.t) THEN "" ELSE "tick_is_floor"
    [] e.k = "pt" -> IF ~QWithin(e.price, TickPrice(e.t, e.d0, e.d1, e.zq), Tol9, Zero) THEN "tick_to_price"
                     ELSE IF e.back - e.t > 1 \/ e.t - e.back > 1 THEN "price_tick_inverse" ELSE ""
    [] e.k = "n"  -> IF IsNearestUsable(e.t, e.sp, e.r) THEN "" ELSE "nearest_usable"
    [] e.k = "mono" -> IF \A t \in e.a .. (e.b - 1) : NCmp(SqrtRatioAtTick(t), SqrtRatioAtTick(t + 1)) < 0 THEN "" ELSE "strictly_increasing"
    [] e.k = "cf" -> IF ClosedFormOK(e.t, SqrtRatioAtTick(e.t)) THEN "" ELSE "closed_form"
    [] OTHER -> "unknown_event"

Failures == {<<i, Bad(T[i])>> : i \in {j \in DOMAIN T : Bad(T[j]) # ""}}
ASSUME PrintT(<<"tickmath_verdict", Len(T), Failures>>)

VARIABLE x
Init == x = 0
Next == FALSE /\ x' = x
=============================================================================

--------------------------- MODULE Trace_BarLoop ---------------------------
(***************************************************************************)
(* Trace validation (code -> spec) for property C05.                       *)
(*                                                                         *)
(* Input: an ndjson file (env C05_TRACES), one recorded run per line:      *)
(*   {"tid": .., "c": {s, iv, len, mk:[{h, cb}], nt}, "ev": [event, ...]}  *)
(* where the events were logged by harness-side wrappers around the real   *)
(* Actuator.run (see harness/props/c05.py) in the record shape of          *)
(* BarLoop!Ev.  Every logged event must be takeable as the next action of  *)
(* BarLoop with matching arguments: Step(c, st, ev).ok.                     *)
(*                                                                         *)
(* Steps are total: an event that is not takeable does not deadlock the    *)
(* run, it ends the trace with the name of the failing clause in `verdict` *)
(* (l = number of events accepted, so event l+1 is the offending one).     *)
(* One TLC invocation validates all traces of the file (tid chosen in      *)
(* Init).  Per finished trace one line is printed and one record is        *)
(* appended to TLC register 2 (-workers 1); the POSTCONDITION writes the   *)
(* records (env C05_VERDICTS) and demands that every trace was consumed to *)
(* its last line and ended in phase Done.                                  *)
(***************************************************************************)
EXTENDS BarLoop, TLC, Json, IOUtils

Traces == ndJsonDeserialize(IOEnv.C05_TRACES)
N      == Len(Traces)

VARIABLES tid, l, st, verdict
vars == <<tid, l, st, verdict>>

ASSUME TLCSet(1, 0) /\ TLCSet(2, <<>>)

Init == /\ tid \in 1 .. N
        /\ l = 0
        /\ st = InitSt(Traces[tid].c)
        /\ verdict = "run"

Report(t, n, v) ==
  v # "run" => /\ TLCSet(1, TLCGet(1) + 1)
               /\ TLCSet(2, Append(TLCGet(2), [tid |-> Traces[t].tid, l |-> n, len |-> Len(Traces[t].ev), verdict |-> v]))
               /\ PrintT(<<"@trace", Traces[t].tid, n, Len(Traces[t].ev), v = "ok">>)   \* the clause text goes to the file

Consume ==
  /\ verdict = "run"
  /\ l < Len(Traces[tid].ev)
  /\ LET T  == Traces[tid]
         ev == T.ev[l + 1]
         r  == Step(T.c, st, ev)
     IN IF r.ok
        THEN /\ st' = r.st
             /\ l' = l + 1
             /\ verdict' = IF l + 1 < Len(T.ev) THEN "run"
                           ELSE IF r.st.phase = "Done" THEN "ok"
                           ELSE "BarsInOrder: the run did not reach its end, the trace stops in phase " \o r.st.phase
        ELSE /\ verdict' = r.why
             /\ UNCHANGED <<st, l>>
  /\ tid' = tid
  /\ Report(tid, l', verdict')

Next == Consume
Spec == Init /\ [][Next]_vars

(* every accepted prefix satisfies the state clauses of C05 as well (the trace spec shares BarLoop's invariants) *)
Inv_State == LET c == Traces[tid].c IN
             /\ Inv_C05_BarsInOrder(c, st) /\ Inv_C05_Stamp(c, st) /\ Inv_C05_NotifyOnce(c, st) /\ Inv_C05_RowPerBar(c, st)

Post_AllConsumed ==
  LET V == TLCGet(2) IN
  /\ IF "C05_VERDICTS" \in DOMAIN IOEnv THEN ndJsonSerialize(IOEnv.C05_VERDICTS, V) ELSE TRUE
  /\ PrintT(<<"@finished", TLCGet(1), N>>)
  /\ TLCGet(1) = N                                                  \* no trace was left unfinished (e.g. empty)
  /\ \A i \in DOMAIN V : V[i].verdict = "ok" /\ V[i].l = V[i].len   \* all lines of all traces consumed
=============================================================================

--------------------------- MODULE Trace_LiqMath ---------------------------
(* Validates recorded calls of get_liquidity / get_amounts / V3CoreLib.new_position / close_position and of           *)
(* UniLpMarket.add_liquidity_by_tick / remove_liquidity against LiqMath.tla (property C07).                           *)
(* One event = one instance:                                                                                         *)
(*  s (Q96 natural), tA, tB (ticks, tA < tB), d0, d1, amt0, amt1 (offered, Q), L (natural), used (pair of Q),          *)
(*  closed (pair of Q: close_position at the same price), s2 (a price >= s) with amts2 = get_amounts at s2,            *)
(*  k (small multiplier) with amtsK = get_amounts(k*L).                                                               *)
EXTENDS LiqMath, Json, IOUtils, TLC, FiniteSets

T == ndJsonDeserialize(IOEnv.VERIF_TRACE)

Bad(e) ==
  LET sA == SqrtRatioAtTick(e.tA)  sB == SqrtRatioAtTick(e.tB)
      a0 == Wei(e.amt0, e.d0)  a1 == Wei(e.amt1, e.d1)
  IN  IF ~SpecOK(e.s, sA, sB, e.amt0, e.amt1, e.d0, e.d1) THEN "spec_selfcheck"
      ELSE IF ~NoOverspend(e.used, e.amt0, e.amt1) THEN "no_overspend"
      ELSE IF ~Maximal(e.s, sA, sB, a0, a1, e.L) THEN "maximal_up_to_rounding"
      ELSE IF ~NotAboveMax(e.s, sA, sB, a0, a1, e.L) THEN "not_above_real_maximum"
      ELSE IF ~OneSided(e.s, sA, sB, e.used, e.L) THEN "one_sided_by_region"
      ELSE IF ~NonNeg(e.used) \/ ~NonNeg(e.amts2) THEN "non_negative"
      ELSE IF ~ClosedForm(e.s, sA, sB, e.L, e.d0, e.d1, e.used) THEN "closed_form_1e-30"
      ELSE IF ~ClosedForm(e.s2, sA, sB, e.L, e.d0, e.d1, e.amts2) THEN "closed_form_1e-30(second price)"
      ELSE IF ~Monotone(e.used, e.amts2) THEN "monotone_in_price"
      ELSE IF ~Proportional(e.used, e.amtsK, e.k) THEN "proportional_to_liquidity"
      ELSE IF e.closed # e.used THEN "round_trip_exact"
      ELSE ""

Failures == {<<i, Bad(T[i])>> : i \in {j \in DOMAIN T : Bad(T[j]) # ""}}
Info == Cardinality({j \in DOMAIN T : T[j].L = Liquidity(T[j].s, SqrtRatioAtTick(T[j].tA), SqrtRatioAtTick(T[j].tB), Wei(T[j].amt0, T[j].d0), Wei(T[j].amt1, T[j].d1))})
ASSUME PrintT(<<"liqmath_verdict", Len(T), Failures, Info>>)

VARIABLE x
Init == x = 0
Next == FALSE /\ x' = x
=============================================================================

------------------------- MODULE Trace_NoLookahead -------------------------
(***************************************************************************)
(* Validation of recorded runs of the real bar loop against property C02  *)
(* (spec/NoLookahead.tla).                                                 *)
(*                                                                         *)
(* One line of the ndjson file = one GROUP: a configuration                *)
(*   c = [kind, F, script]                                                 *)
(* and the records of the real runs of a family of histories under c:      *)
(*   h     the history (sequence of bar symbols)                            *)
(*   rp    rp[k] = id of (digest of) the RAW inputs restricted to bars 1..k *)
(*   obs   obs[i][j] = id of component j of the observation of bar i        *)
(*         (components: snapshots handed to before_bar / on_bar / after_bar,*)
(*         notifications, account row, account_status_df row, actions)      *)
(*   obs2  the same for the rerun on the same input objects, fresh account  *)
(*   din, dout, dout2   id of the supplied frames before / after the run /  *)
(*         after the rerun;  lin, lout  the same for the live market frames *)
(*   err, err2          0 = Actuator.run returned, else id of the exception  *)
(* Ids are interned digests: equal id <=> equal canonical value.           *)
(*                                                                         *)
(* Clauses (names as reported):                                            *)
(*   machinery/family   tree mode: the records are exactly the histories of *)
(*                      length N over 1..Syms in lexicographic order        *)
(*   machinery/inputs   rp agrees with the symbolic histories: same symbol  *)
(*                      prefix <=> same raw-input prefix (the builders are  *)
(*                      deterministic and symbols are distinguishable)      *)
(*   C02/prefix         Inv_C02_Prefix on the real observations: two runs   *)
(*                      whose inputs agree on bars 1..k agree on the         *)
(*                      observations of bars 1..k                           *)
(*   C02/intact         Inv_C02_InputsIntact: supplied and live frames      *)
(*                      unchanged by the run (deep digests)                 *)
(*   C02/rerun          Inv_C02_Rerun: same inputs, fresh account: the same *)
(*                      observations (and the same outcome of run())        *)
(* In tree mode the class of histories sharing a k-prefix is a contiguous   *)
(* block of the sorted family; every record is compared with the first      *)
(* record of its block (transitivity gives all pairs), so the cost is       *)
(* linear.  Otherwise (small groups, replays) all pairs are compared.       *)
(*                                                                         *)
(* The abstract model takes part: for every record the specification's own  *)
(* Run(c, FrameOf(c, h)) must satisfy the invariants too (clause spec/model).*)
(* That the real observations depend on no MORE of the past than the model's*)
(* is deliberately not required: reading more of the past is no look-ahead. *)
(***************************************************************************)
EXTENDS NoLookahead, Json, IOUtils, TLC

Groups == ndJsonDeserialize(IOEnv.VERIF_C02_TRACE)

AcctDf == 6            \* component index of the account_status_df row (absent when run() raised)

RECURSIVE Pow(_, _)
Pow(b, e) == IF e = 0 THEN 1 ELSE b * Pow(b, e - 1)

SamePrefix(h1, h2, k) == \A i \in 1 .. k : h1[i] = h2[i]

(* components compared between two records on bar i *)
CompEq(r1, r2, i, j) == (j = AcctDf /\ (r1.err # 0 \/ r2.err # 0)) \/ r1.obs[i][j] = r2.obs[i][j]
BarEq(r1, r2, i) == \A j \in DOMAIN r1.obs[i] : CompEq(r1, r2, i, j)
BadComps(r1, r2, i) == {j \in DOMAIN r1.obs[i] : ~CompEq(r1, r2, i, j)}

(* the j-th history (j from 1) of length n over 1..syms in lexicographic order *)
HistNo(j, n, syms) == [i \in 1 .. n |-> (((j - 1) \div Pow(syms, n - i)) % syms) + 1]
BlockFirst(j, k, n, syms) == (j - 1) - ((j - 1) % Pow(syms, n - k)) + 1

PairsToCheck(g) ==
  LET R == g.recs  n == Len(R) IN
  IF g.tree THEN {<<BlockFirst(j, k, g.N, g.Syms), j, k>> : j \in 1 .. n, k \in 1 .. g.N}
  ELSE {<<a, b, k>> \in (1 .. n) \X (1 .. n) \X (1 .. g.N) : a < b /\ k <= Len(R[a].h) /\ k <= Len(R[b].h) /\ SamePrefix(R[a].h, R[b].h, k)}

Verdicts(g) ==
  LET R == g.recs
      n == Len(R)
      c == [kind |-> g.kind, F |-> g.F, script |-> g.script]
      family == IF g.tree /\ (n # Pow(g.Syms, g.N) \/ \E j \in 1 .. n : R[j].h # HistNo(j, g.N, g.Syms))
                THEN {<<"machinery/family", 0, 0, 0, {}>>} ELSE {}
      inputs == {<<"machinery/inputs", a, b, k, {}>> : <<a, b, k>> \in
                   {<<a, b, k>> \in (1 .. n) \X (1 .. n) \X (1 .. g.N) :
                        a < b /\ (IF g.tree THEN b = a + 1 \/ a = BlockFirst(b, k, g.N, g.Syms) ELSE TRUE)
                        /\ k <= Len(R[a].h) /\ k <= Len(R[b].h)
                        /\ (SamePrefix(R[a].h, R[b].h, k) # (R[a].rp[k] = R[b].rp[k]))}}
      \* a class of histories sharing a k-prefix is contained in the class of every shorter prefix, so comparing bar k for
      \* every triple <<a, b, k>> covers the bars 1..k of every pair
      prefix == {<<"C02/prefix", t[1], t[2], t[3], BadComps(R[t[1]], R[t[2]], t[3])>> :
                   t \in {x \in PairsToCheck(g) : x[1] # x[2] /\ SamePrefix(R[x[1]].h, R[x[2]].h, x[3])
                                                   /\ ~BarEq(R[x[1]], R[x[2]], x[3])}}
      intact == {<<"C02/intact", j, j, 0, {}>> : j \in {x \in 1 .. n : R[x].din # R[x].dout \/ R[x].lin # R[x].lout}}
      rerun  == {<<"C02/rerun", j, j, i, {m \in DOMAIN R[j].obs[i] : R[j].obs[i][m] # R[j].obs2[i][m]}>> :
                   <<j, i>> \in {<<x, y>> \in (1 .. n) \X (1 .. g.N) : y <= Len(R[x].h) /\ R[x].obs[y] # R[x].obs2[y]}}
                \cup {<<"C02/rerun", j, j, 0, {}>> : j \in {x \in 1 .. n : R[x].err # R[x].err2 \/ R[x].dout2 # R[x].dout}}
      \* the specification's own run of every recorded history satisfies the invariants (ties the trace to NoLookahead!Run)
      model  == {<<"spec/model", j, j, 0, {}>> : j \in {x \in 1 .. n :
                    LET fr == FrameOf(c, R[x].h)  r == Run(c, fr)
                    IN ~(Inv_C02_InputsIntact(c, fr, r) /\ Inv_C02_Rerun(c, r) /\ Inv_C02_ReadsOnlyPast(c, Len(R[x].h)))}}
  IN family \cup inputs \cup prefix \cup intact \cup rerun \cup model

(* at most Cap verdicts per group are printed (the first by TLC's set order) *)
Cap == 12
RECURSIVE Take(_, _)
Take(S, k) == IF k = 0 \/ S = {} THEN <<>> ELSE LET x == CHOOSE y \in S : TRUE IN <<x>> \o Take(S \ {x}, k - 1)

Report(g) == LET v == Verdicts(g) IN [gid |-> g.gid, n |-> Len(g.recs), bad |-> Cardinality(v), first |-> Take(v, Cap),
                                      compared |-> Cardinality({t \in PairsToCheck(g) : t[1] # t[2]})]

VARIABLE gi
TInit == gi = 0
TNext == /\ gi < Len(Groups)
         /\ gi' = gi + 1
         /\ PrintT(<<"@c02", Report(Groups[gi'])>>)
TSpec == TInit /\ [][TNext]_gi
AllConsumed == gi = Len(Groups) \/ ENABLED TNext
=============================================================================

CONSTANTS
  DEV_UpdateBeforeOnBar = FALSE
  DEV_PendingNotCleared = FALSE
  DEV_StampAfterBeforeBar = FALSE
  DEV_SkipNotifyWhenTwo = FALSE
  DEV_RowTwice = FALSE
  DEV_PriceLast = FALSE
  DEV_RefreshAlways = FALSE
  DEV_NotifyIteratesCopy = FALSE
INIT Init
NEXT Next
INVARIANT Inv_State
POSTCONDITION Post_AllConsumed
CHECK_DEADLOCK FALSE

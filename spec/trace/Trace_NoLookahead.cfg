CONSTANTS
  DEV_PriceFromNextBar = FALSE
  DEV_TwapWindowEndsNext = FALSE
  DEV_StatusRowNext = FALSE
  DEV_AccountPriceNext = FALSE
  DEV_StatusWrittenBack = FALSE
  DEV_BookSharedWithData = FALSE
  DEV_HourRounded = FALSE
INIT TInit
NEXT TNext
CHECK_DEADLOCK FALSE

-------------------------- MODULE Trace_UniMirror --------------------------
(* Validates recorded pairs of helper results (pool A token0 = quote, pool B its mirror; same economic state, same call in    *)
(* base / quote terms) against UniMirror!MirrorOK (property C09).  One ndjson line = [id, h, a, b].                          *)
EXTENDS UniMirror, Json, IOUtils, TLC
T == ndJsonDeserialize(IOEnv.VERIF_TRACE)
Failures == {<<T[i].id, MirrorBad(T[i].h, T[i].a, T[i].b)>> : i \in {j \in DOMAIN T : ~MirrorOK(T[j].h, T[j].a, T[j].b)}}
ASSUME PrintT(<<"mirror_verdict", Len(T), Failures>>)
VARIABLE x
Init == x = 0
Next == FALSE /\ x' = x
=============================================================================

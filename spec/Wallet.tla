------------------------------- MODULE Wallet -------------------------------
(***************************************************************************)
(* The broker wallet: demeter/broker/_typing.py  Asset.add / Asset.sub and  *)
(* Broker.subtract_from_balance (allow_negative_balance = FALSE).           *)
(* Asset.sub snaps the balance to 0 when |balance - amount| / base is       *)
(* below the float literal 0.00001 (base = balance, or the amount when the  *)
(* balance is 0) -- the "wallet rounding dust" of properties C03/C04 --,    *)
(* rejects an overdraft, and otherwise subtracts exactly.                   *)
(***************************************************************************)
EXTENDS Num

(* exact value of the IEEE double 0.00001 that the Decimal ratio is compared with *)
DustRatio == <<1, <<7057, 358, 9581, 5902>>, <<1712, 565, 3587, 5810, 9029, 5>>>>

WAdd(bal, a) == QAdd(bal, a)

(* [ok, bal]: ok = FALSE means the call raises and the balance is unchanged *)
WSub(bal, a) ==
  LET base == IF bal # Zero THEN bal ELSE a IN
  IF base = Zero THEN [ok |-> TRUE, bal |-> bal]
  ELSE IF QLt(QAbs(QDiv(QSub(bal, a), base)), DustRatio) THEN [ok |-> TRUE, bal |-> Zero]
  ELSE IF QLt(QSub(bal, a), Zero) THEN [ok |-> FALSE, bal |-> bal]
  ELSE [ok |-> TRUE, bal |-> QSub(bal, a)]

(* dust a debit of amount a from balance bal may create: what the snap forgives *)
WDust(bal, a) == IF WSub(bal, a).ok /\ WSub(bal, a).bal = Zero /\ QLt(bal, a) THEN QSub(a, bal) ELSE Zero

(***************************************************************************)
(* Broker.swap_by_from / swap_by_to (demeter/broker/broker.py): a swap     *)
(* inside the wallet at the prices handed in, fee charged on the "from"    *)
(* side.  The debit goes through Asset.sub (dust snap, overdraft raises    *)
(* BEFORE the credit, so a rejected swap leaves the wallet), the credit    *)
(* through Asset.add.  fee must lie in [0, 1).                              *)
(*   by_from: to = a * px[f] * (1 - fee) / px[t],        reported fee = a * fee        (in f) *)
(*   by_to  : from = a * px[t] / (1 - fee) / px[f],      reported fee = from * fee     (in f) *)
(* result: [ok, w, from, to, fee]                                           *)
(***************************************************************************)
FeeOk(fee) == QLe(Zero, fee) /\ QLt(fee, One)
BSwapMove(w, f, t, fromAmt, toAmt, fee) ==
  LET r == WSub(w[f], fromAmt) IN
  IF ~r.ok THEN [ok |-> FALSE, w |-> w, from |-> fromAmt, to |-> toAmt, fee |-> QMul(fromAmt, fee)]
  ELSE LET w1 == [w EXCEPT ![f] = r.bal] IN
       [ok |-> TRUE, w |-> [w1 EXCEPT ![t] = WAdd(w1[t], toAmt)], from |-> fromAmt, to |-> toAmt, fee |-> QMul(fromAmt, fee)]
BSwapFrom(w, f, t, a, px, fee) ==
  IF ~FeeOk(fee) THEN [ok |-> FALSE, w |-> w, from |-> a, to |-> Zero, fee |-> Zero]
  ELSE BSwapMove(w, f, t, a, QDiv(QMul(QMul(a, px[f]), QSub(One, fee)), px[t]), fee)
BSwapTo(w, f, t, a, px, fee) ==
  IF ~FeeOk(fee) THEN [ok |-> FALSE, w |-> w, from |-> Zero, to |-> a, fee |-> Zero]
  ELSE BSwapMove(w, f, t, QDiv(QDiv(QMul(a, px[t]), QSub(One, fee)), px[f]), a, fee)
=============================================================================

------------------------------- MODULE Wallet -------------------------------
(***************************************************************************)
(* The broker wallet: demeter/broker/_typing.py  Asset.add / Asset.sub and  *)
(* Broker.subtract_from_balance (allow_negative_balance = FALSE).           *)
(* Asset.sub snaps the balance to 0 when |balance - amount| / base is       *)
(* below the float literal 0.00001 (base = balance, or the amount when the  *)
(* balance is 0) -- the "wallet rounding dust" of properties C03/C04 --,    *)
(* rejects an overdraft, and otherwise subtracts exactly.                   *)
(***************************************************************************)
EXTENDS Num

(* exact value of the IEEE double 0.00001 that the Decimal ratio is compared with *)
DustRatio == <<1, <<7057, 358, 9581, 5902>>, <<1712, 565, 3587, 5810, 9029, 5>>>>

WAdd(bal, a) == QAdd(bal, a)

(* [ok, bal]: ok = FALSE means the call raises and the balance is unchanged *)
WSub(bal, a) ==
  LET base == IF bal # Zero THEN bal ELSE a IN
  IF base = Zero THEN [ok |-> TRUE, bal |-> bal]
  ELSE IF QLt(QAbs(QDiv(QSub(bal, a), base)), DustRatio) THEN [ok |-> TRUE, bal |-> Zero]
  ELSE IF QLt(QSub(bal, a), Zero) THEN [ok |-> FALSE, bal |-> bal]
  ELSE [ok |-> TRUE, bal |-> QSub(bal, a)]

(* dust a debit of amount a from balance bal may create: what the snap forgives *)
WDust(bal, a) == IF WSub(bal, a).ok /\ WSub(bal, a).bal = Zero /\ QLt(bal, a) THEN QSub(a, bal) ELSE Zero
=============================================================================

-------------------------------- MODULE Aave --------------------------------
(***************************************************************************)
(* Aave v3 lending as simulated by demeter/aave/market.py (AaveV3Market)    *)
(* and demeter/aave/core.py.  One action per public call: supply, withdraw, *)
(* borrow, repay (cash / with collateral), change_collateral, the bar-end   *)
(* update() (= liquidation loop, one LiqStep per seized pair) and the move  *)
(* to the next bar (set_market_status with a new row).  The spec keeps NO   *)
(* caches: every derived view is defined from the positions, the current    *)
(* row (indices) and prices (property C13).                                 *)
(*                                                                         *)
(* state  st = [w  : wallet balance per token,                               *)
(*              sb : scaled ("base") supply per token, Zero = no supply,      *)
(*              sc : collateral flag per token (FALSE when no supply),        *)
(*              bb : scaled variable debt per token, Zero = no debt,          *)
(*              bz : tokens with an EMPTY debt entry: borrow() of nothing     *)
(*                   (amount None with no headroom, or 0) is accepted by the  *)
(*                   code, records a zero BorrowAction and leaves an entry of  *)
(*                   scaled amount 0 in _borrows; it carries no debt (repay    *)
(*                   rejects it, liquidation skips it) but it is listed,       *)
(*              row: index into Rows, k: number of steps taken]               *)
(***************************************************************************)
EXTENDS Wallet, FiniteSets, TLC

CONSTANTS Tokens,     \* set of token names (strings)
          Risk,       \* [Tokens -> [canColl, canBorrow : BOOLEAN, ltv, lt, bonus : Q]]
          Rows        \* sequence of [px, li, bi : [Tokens -> Q]]  (price, liquidity index, variable borrow index)

CONSTANTS DEV_SupplyDebitsBeforeFlagCheck,   \* #6  wallet debited before the collateral-flag check
          DEV_WithdrawKeepsTrial,            \* #7  trial deduction kept when HF check rejects
          DEV_LiqUsesDebtIndex,              \* #10 seized collateral scaled with the debt token's liquidity index
          DEV_BorrowLimitUsesLT              \* mutant: borrow limit computed with liquidation threshold

-----------------------------------------------------------------------------
(* helper.sub_base_amount: a remainder below the float 1e-18 - 1e-27 (also a negative one) becomes 0 *)
MinTokenValue == <<1, <<2531, 5334, 2968, 5192>>, <<96, 2922, 4963, 8530, 2762, 5348, 6858, 9229, 51>>>>
SubBase(old, v) == LET n == QSub(old, v) IN IF QLt(n, MinTokenValue) THEN Zero ELSE n

RECURSIVE SumOver(_, _)
SumOver(S, f) == IF S = {} THEN Zero ELSE LET t == CHOOSE x \in S : TRUE IN QAdd(f[t], SumOver(S \ {t}, f))

Row(st) == Rows[st.row]
Px(st, t) == Row(st).px[t]
Li(st, t) == Row(st).li[t]
Bi(st, t) == Row(st).bi[t]

HasSup(st, t) == st.sb[t] # Zero
HasBor(st, t) == st.bb[t] # Zero
HasBorEntry(st, t) == HasBor(st, t) \/ t \in st.bz      \* what `borrows` / `borrow_keys` list
SupAmt(st, t) == QMul(st.sb[t], Li(st, t))
BorAmt(st, t) == QMul(st.bb[t], Bi(st, t))
SupVal(st, t) == QMul(SupAmt(st, t), Px(st, t))
BorVal(st, t) == QMul(BorAmt(st, t), Px(st, t))
CollVal(st, t) == IF st.sc[t] THEN SupVal(st, t) ELSE Zero

TotSup(st)  == SumOver(Tokens, [t \in Tokens |-> SupVal(st, t)])
TotColl(st) == SumOver(Tokens, [t \in Tokens |-> CollVal(st, t)])
TotBor(st)  == SumOver(Tokens, [t \in Tokens |-> BorVal(st, t)])
WeightedColl(st, f) == SumOver(Tokens, [t \in Tokens |-> QMul(CollVal(st, t), f[t])])

(* markers shaped like rationals (TLC cannot compare a string with a tuple): sign field 2 / 3 never occurs in a Q *)
Inf    == <<3, <<>>, <<1>>>>        \* "infinite": a ratio whose denominator is 0 (Decimal("inf") in the code)
AllAmt == <<2, <<>>, <<1>>>>        \* amount argument None: the whole position / the maximum
SafeDiv(a, b) == IF b = Zero THEN Inf ELSE QDiv(a, b)
HF(st)      == SafeDiv(WeightedColl(st, [t \in Tokens |-> Risk[t].lt]), TotBor(st))
MaxLtv(st)  == SafeDiv(WeightedColl(st, [t \in Tokens |-> Risk[t].ltv]), TotColl(st))
LiqThr(st)  == SafeDiv(WeightedColl(st, [t \in Tokens |-> Risk[t].lt]), TotColl(st))
Ltv(st)     == SafeDiv(TotBor(st), TotSup(st))
NetValue(st) == QSub(TotSup(st), TotBor(st))                     \* position value, unquantised
WalletValue(st) == SumOver(Tokens, [t \in Tokens |-> QMul(st.w[t], Px(st, t))])

HFLt1(h) == h # Inf /\ QLt(h, One)
HFGe1(h) == h = Inf \/ QGe(h, One)
HFGt1(h) == h = Inf \/ QGt(h, One)

Q4(x) == QRound(x, 4, "HALF_EVEN")                                \* Decimal.quantize(Decimal("0.0001"))

(* every derived view of the market (C13); the harness reads the same list from the real object *)
View(st) ==
  [supplies        |-> [t \in {x \in Tokens : HasSup(st, x)} |-> [amount |-> SupAmt(st, t), base |-> st.sb[t],
                                                                   collateral |-> st.sc[t], value |-> SupVal(st, t)]],
   borrows         |-> [t \in {x \in Tokens : HasBorEntry(st, x)} |-> [amount |-> BorAmt(st, t), base |-> st.bb[t],
                                                                   value |-> BorVal(st, t)]],
   collateral_value|-> [t \in {x \in Tokens : HasSup(st, x) /\ st.sc[x]} |-> SupVal(st, t)],
   total_supply    |-> TotSup(st),
   total_collateral|-> TotColl(st),
   total_borrows   |-> TotBor(st),
   health_factor   |-> HF(st),
   max_ltv         |-> MaxLtv(st),
   liq_threshold   |-> LiqThr(st),
   ltv             |-> Ltv(st),
   bal_net_value   |-> QSub(Q4(TotSup(st)), Q4(TotBor(st))),       \* get_market_balance().net_value
   bal_supplies    |-> Q4(TotSup(st)),
   bal_borrows     |-> Q4(TotBor(st)),
   bal_collaterals |-> Q4(TotColl(st)),
   supply_weights  |-> [t \in {x \in Tokens : HasSup(st, x)} |-> IF TotSup(st) = Zero THEN Zero ELSE QDiv(SupVal(st, t), TotSup(st))],
   borrow_weights  |-> [t \in {x \in Tokens : HasBorEntry(st, x)} |-> IF TotBor(st) = Zero THEN Zero ELSE QDiv(BorVal(st, t), TotBor(st))]]

-----------------------------------------------------------------------------
InitSt(w0) == [w |-> w0, sb |-> [t \in Tokens |-> Zero], sc |-> [t \in Tokens |-> FALSE],
               bb |-> [t \in Tokens |-> Zero], bz |-> {}, row |-> 1, k |-> 0]

Ok(st2, acts)  == [st |-> st2, out |-> "ok", acts |-> acts]
Reject(st)     == [st |-> st, out |-> "reject", acts |-> <<>>]
RejectDirty(s) == [st |-> s, out |-> "reject", acts |-> <<>>]      \* only reachable through a DEV_ switch

(* remove `amt` of token t from the supply; a supply that reaches 0 disappears (flag cleared) *)
SubSupply(st, t, amt) ==
  LET nb == SubBase(st.sb[t], QDiv(amt, Li(st, t))) IN
  [st EXCEPT !.sb[t] = nb, !.sc[t] = IF nb = Zero THEN FALSE ELSE @]
SubBorrow(st, t, amt) == [st EXCEPT !.bb[t] = SubBase(@, QDiv(amt, Bi(st, t)))]

----
(* supply(token, amount, collateral) *)
Supply(st, t, a, c) ==
  IF c /\ ~Risk[t].canColl THEN Reject(st)
  ELSE LET flagClash == HasSup(st, t) /\ st.sc[t] # c
           ws == WSub(st.w[t], a)
       IN IF flagClash /\ ~DEV_SupplyDebitsBeforeFlagCheck THEN Reject(st)
          ELSE IF ~ws.ok THEN Reject(st)
          ELSE IF flagClash THEN RejectDirty([st EXCEPT !.w[t] = ws.bal])
          ELSE LET s2 == [st EXCEPT !.w[t] = ws.bal, !.sb[t] = QAdd(@, QDiv(a, Li(st, t))), !.sc[t] = c]
               IN Ok(s2, <<[type |-> "supply", token |-> t, amount |-> a, collateral |-> c, after |-> SupAmt(s2, t)]>>)

(* withdraw(token, amount | ALL) *)
Withdraw(st, t, a0) ==
  IF ~HasSup(st, t) THEN Reject(st)
  ELSE LET a == IF a0 = AllAmt THEN SupAmt(st, t) ELSE a0 IN
       IF a = Zero \/ QGt(a, SupAmt(st, t)) THEN Reject(st)
       ELSE LET trial == [st EXCEPT !.sb[t] = QSub(@, QDiv(a, Li(st, t)))]
                s2 == SubSupply(st, t, a)
                s3 == [s2 EXCEPT !.w[t] = WAdd(@, a)]
            IN IF st.sc[t] /\ HFLt1(HF(trial))
               THEN (IF DEV_WithdrawKeepsTrial THEN RejectDirty(trial) ELSE Reject(st))
               ELSE Ok(s3, <<[type |-> "withdraw", token |-> t, amount |-> a, after |-> SupAmt(s3, t)]>>)

(* the value still borrowable, as get_max_borrow_amount reports it (the dapp's 0.99 safety factor) *)
MaxBorrowValue(st) ==
  LET m == MaxLtv(st) IN
  IF m = Inf THEN Zero ELSE QMul(QSub(QMul(TotColl(st), m), TotBor(st)), QOf(99, 100))

BorrowLimitFactor(st) == IF DEV_BorrowLimitUsesLT THEN LiqThr(st) ELSE MaxLtv(st)

(* borrow(token, amount | MAX) *)
Borrow(st, t, a0) ==
  LET a == IF a0 = AllAmt THEN QDiv(MaxBorrowValue(st), Px(st, t)) ELSE a0 IN
  IF ~Risk[t].canBorrow \/ TotColl(st) = Zero \/ MaxLtv(st) = Zero \/ ~HFGt1(HF(st)) THEN Reject(st)
  ELSE LET need == QDiv(QAdd(TotBor(st), QMul(a, Px(st, t))), BorrowLimitFactor(st)) IN
       IF QGt(need, TotColl(st)) THEN Reject(st)
       ELSE LET s2 == [st EXCEPT !.bb[t] = QAdd(@, QDiv(a, Bi(st, t))), !.w[t] = WAdd(@, a),
                                 !.bz = IF a = Zero /\ ~HasBor(st, t) THEN @ \cup {t} ELSE @ \ {t}]
            IN Ok(s2, <<[type |-> "borrow", token |-> t, amount |-> a, after |-> BorAmt(s2, t)]>>)

(* repay(token, amount | ALL, with = "cash" | collateral token) *)
Swap(st, from, to, amt) == QDiv(QMul(amt, Px(st, from)), Px(st, to))
Repay(st, t, a0, with) ==
  IF ~HasBor(st, t) THEN Reject(st)
  ELSE LET a1 == IF a0 = AllAmt THEN BorAmt(st, t) ELSE a0 IN
       IF with # "cash" /\ ~(HasSup(st, with) /\ st.sc[with]) THEN Reject(st)
       ELSE LET a == IF with # "cash" /\ QGt(Swap(st, t, with, a1), SupAmt(st, with))
                     THEN Swap(st, with, t, SupAmt(st, with)) ELSE a1
                pb == QDiv(a, Bi(st, t))
            IN IF ~QGt(pb, Zero) \/ QLt(QRound(QSub(st.bb[t], pb), 18, "HALF_EVEN"), Zero) THEN Reject(st)
               ELSE IF with = "cash"
                    THEN LET ws == WSub(st.w[t], a) IN
                         IF ~ws.ok THEN Reject(st)
                         ELSE LET s2 == SubBorrow([st EXCEPT !.w[t] = ws.bal], t, a)
                              IN Ok(s2, <<[type |-> "repay", token |-> t, amount |-> a, after |-> BorAmt(s2, t)]>>)
                    ELSE LET s2 == SubBorrow(SubSupply(st, with, Swap(st, t, with, a)), t, a)
                         IN Ok(s2, <<[type |-> "repay", token |-> t, amount |-> a, after |-> BorAmt(s2, t)]>>)

(* change_collateral(token, flag): no action record exists for it *)
SetColl(st, t, c) ==
  IF ~HasSup(st, t) THEN Reject(st)
  ELSE IF st.sc[t] = c THEN Ok(st, <<>>)
  ELSE LET s2 == [st EXCEPT !.sc[t] = c] IN
       IF ~c /\ HFLt1(HF(s2)) THEN Reject(st) ELSE Ok(s2, <<>>)

-----------------------------------------------------------------------------
(* Bar-end liquidation.  The pair policy is the code's: the not-yet-visited debt of smallest value against the
   collateral of largest value (property C12 leaves the choice free; see LiqStepOK for what it demands).        *)
CloseFactor(hf) == IF QGt(hf, QOf(95, 100)) THEN QOf(1, 2) ELSE One

MinDebt(st, cand) == CHOOSE d \in cand : \A e \in cand : QLe(BorVal(st, d), BorVal(st, e))
MaxColl(st) == LET cs == {t \in Tokens : HasSup(st, t) /\ st.sc[t]} IN
               CHOOSE c \in cs : \A e \in cs : QGe(SupVal(st, c), SupVal(st, e))

(* one step: returns [skip |-> FALSE, st, act] or [skip |-> TRUE] (collateral cannot be liquidated: the code swallows the assertion) *)
LiqStep(st, c, d) ==
  LET hf     == HF(st)
      debt   == BorAmt(st, d)
      cover  == BorVal(st, d)                       \* the code passes the debt's VALUE as amount to cover
      maxL   == QMul(debt, CloseFactor(hf))
      act0   == IF QGt(cover, maxL) THEN maxL ELSE cover
      coll   == SupAmt(st, c)
      bonus  == Risk[c].bonus
      want   == QMul(QDiv(QMul(Px(st, d), act0), Px(st, c)), QAdd(One, bonus))
      seized == IF QGt(want, coll) THEN coll ELSE want
      repaid == IF QGt(want, coll) THEN QDiv(QMul(Px(st, c), coll), QMul(Px(st, d), QAdd(One, bonus))) ELSE act0
      idx    == IF DEV_LiqUsesDebtIndex THEN Li(st, d) ELSE Li(st, c)
      nb     == SubBase(st.sb[c], QDiv(seized, idx))
      s1     == [st EXCEPT !.sb[c] = nb, !.sc[c] = IF nb = Zero THEN FALSE ELSE @]
      s2     == SubBorrow(s1, d, repaid)
  IN IF Risk[c].lt = Zero THEN [skip |-> TRUE]
     ELSE [skip |-> FALSE, st |-> s2, act |-> [type |-> "liquidation", collateral |-> c, debt |-> d, seized |-> seized, repaid |-> repaid,
                               hf_before |-> hf, coll_after |-> SupAmt(s2, c), debt_after |-> BorAmt(s2, d)]]

RECURSIVE LiqLoop(_, _, _)
LiqLoop(st, visited, acts) ==
  LET hf == HF(st) IN
  IF hf = Inf \/ ~(QLt(Zero, hf) /\ QLt(hf, One)) THEN [st |-> st, acts |-> acts]
  ELSE LET cand == {t \in Tokens : HasBor(st, t) /\ t \notin visited} IN
       IF cand = {} THEN [st |-> st, acts |-> acts]
       ELSE LET d == MinDebt(st, cand)
                c == MaxColl(st)
                r == LiqStep(st, c, d)
            IN IF r.skip THEN LiqLoop(st, visited \cup {d}, acts)
               ELSE LiqLoop(r.st, visited \cup {d}, Append(acts, r.act))

Update(st) == LET r == LiqLoop(st, {}, <<>>) IN Ok(r.st, r.acts)

NextBar(st, row) == Ok([st EXCEPT !.row = row], <<>>)

-----------------------------------------------------------------------------
(* events are records; Step is total *)
Step(st, ev) ==
  LET r == CASE ev.op = "supply"   -> Supply(st, ev.t, ev.a, ev.c)
             [] ev.op = "withdraw" -> Withdraw(st, ev.t, ev.a)
             [] ev.op = "borrow"   -> Borrow(st, ev.t, ev.a)
             [] ev.op = "repay"    -> Repay(st, ev.t, ev.a, ev.with)
             [] ev.op = "setcoll"  -> SetColl(st, ev.t, ev.c)
             [] ev.op = "update"   -> Update(st)
             [] ev.op = "nextbar"  -> NextBar(st, ev.row)
             [] ev.op = "read"     -> Ok(st, <<>>)
  IN [r EXCEPT !.st.k = st.k + 1]

IsUserOp(ev) == ev.op \in {"supply", "withdraw", "borrow", "repay", "setcoll"}

-----------------------------------------------------------------------------
(* properties *)

(* C03: nothing negative *)
Inv_NonNeg(st) == \A t \in Tokens : QGe(st.w[t], Zero) /\ QGe(st.sb[t], Zero) /\ QGe(st.bb[t], Zero)

(* C04: a rejected operation leaves everything intact *)
Act_C04(st, ev, r) == r.out = "reject" => (r.st.w = st.w /\ r.st.sb = st.sb /\ r.st.sc = st.sc /\ r.st.bb = st.bb /\ r.st.bz = st.bz /\ r.acts = <<>>)

(* C03: user operations conserve total net value exactly up to wallet dust (frozen row) *)
Total(st) == QAdd(WalletValue(st), NetValue(st))
Act_C03(st, ev, r) ==
  IsUserOp(ev) /\ ev.op # "setcoll" =>
     LET dust == QMul(QOf(1, 50000), QAdd(WalletValue(st), QAdd(TotSup(st), TotBor(st)))) IN
     QLe(QAbs(QSub(Total(r.st), Total(st))), dust)

(* C10: operations move exactly the stated amounts; full repay / withdraw removes the position *)
Tiny == QOf(1, 1000000)   \* spec-level slack only for the sub_base_amount snap (1e-18) -- far below
Act_C10(st, ev, r) ==
  r.out = "ok" /\ Len(r.acts) = 1 /\ IsUserOp(ev) =>
    LET a == r.acts[1].amount
        t == ev.t
    IN CASE ev.op = "supply"   -> r.st.w[t] = (WSub(st.w[t], a)).bal /\ SupAmt(r.st, t) = QAdd(SupAmt(st, t), a)
         [] ev.op = "withdraw" -> r.st.w[t] = QAdd(st.w[t], a) /\ QWithin(SupAmt(r.st, t), QSub(SupAmt(st, t), a), Zero, Tiny)
                                  /\ (ev.a = AllAmt => ~HasSup(r.st, t))
         [] ev.op = "borrow"   -> r.st.w[t] = QAdd(st.w[t], a) /\ BorAmt(r.st, t) = QAdd(BorAmt(st, t), a)
         [] ev.op = "repay"    -> QWithin(BorAmt(r.st, t), QSub(BorAmt(st, t), a), Zero, Tiny)
                                  /\ (ev.a = AllAmt /\ a = BorAmt(st, t) => ~HasBor(r.st, t))
                                  /\ (ev.with = "cash" => r.st.w[t] = (WSub(st.w[t], a)).bal)
                                  /\ (ev.with # "cash" => r.st.w = st.w)
         [] OTHER -> TRUE
(* C10: a new bar only changes the indices: amounts scale with the index ratio, scaled balances stay *)
Act_C10_Accrue(st, ev, r) ==
  ev.op = "nextbar" => r.st.sb = st.sb /\ r.st.bb = st.bb /\ r.st.w = st.w /\
     \A t \in Tokens : SupAmt(r.st, t) = QMul(SupAmt(st, t), QDiv(Li(r.st, t), Li(st, t)))
                    /\ BorAmt(r.st, t) = QMul(BorAmt(st, t), QDiv(Bi(r.st, t), Bi(st, t)))

(* C11: limits.  After an accepted borrow / withdraw / collateral change an account with debt has HF >= 1, and an
   accepted borrow is covered by collateral x weighted max LTV.                                                  *)
Act_C11(st, ev, r) ==
  /\ (r.out = "ok" /\ TotBor(r.st) # Zero
        /\ (ev.op = "borrow" \/ (ev.op = "withdraw" /\ st.sc[ev.t]) \/ (ev.op = "setcoll" /\ st.sc[ev.t] /\ ~ev.c))
        => HFGe1(HF(r.st)))
  /\ (r.out = "ok" /\ ev.op = "borrow" => QLe(TotBor(r.st), QMul(TotColl(st), MaxLtv(st))))
  /\ (r.out = "ok" /\ IsUserOp(ev) /\ HFGe1(HF(st)) => HFGe1(HF(r.st)))     \* no user op takes HF from >= 1 to < 1

(* C12: what every liquidation step must satisfy, whatever pair was chosen *)
LiqStepOK(s, s2, a) ==
  LET c == a.collateral  d == a.debt
      hf == HF(s)
      debt == BorAmt(s, d)
      coll == SupAmt(s, c)
      repaid == QSub(debt, BorAmt(s2, d))
      seized == QSub(coll, SupAmt(s2, c))
      claim == QMul(QMul(repaid, Px(s, d)), QAdd(One, Risk[c].bonus))
      eps == QOf(1, 1000000000)
  IN /\ hf # Inf /\ QLt(Zero, hf) /\ QLt(hf, One) /\ s.sc[c] /\ Risk[c].lt # Zero
     /\ QGe(repaid, Zero) /\ QGe(seized, Zero)
     /\ QLe(repaid, QMul(QMul(debt, CloseFactor(hf)), QAdd(One, eps)))
     /\ \/ QWithin(QMul(seized, Px(s, c)), claim, eps, Zero) /\ QLe(seized, coll)
        \/ QWithin(seized, coll, eps, Zero) /\ QLe(QMul(seized, Px(s, c)), QMul(claim, QAdd(One, eps)))
     /\ s2.w = s.w
     /\ \A t \in Tokens \ {c} : s2.sb[t] = s.sb[t]
     /\ \A t \in Tokens \ {d} : s2.bb[t] = s.bb[t]
     /\ QWithin(QSub(NetValue(s), NetValue(s2)), QMul(QMul(Risk[c].bonus, repaid), Px(s, d)), eps, QOf(1, 1000000000))
     /\ QWithin(a.seized, seized, eps, Zero) /\ QWithin(a.repaid, repaid, eps, Zero)
     /\ QGe(SupAmt(s2, c), Zero) /\ QGe(BorAmt(s2, d), Zero)

(* replay the recorded actions of an Update one by one *)
RECURSIVE LiqChainOK(_, _, _)
LiqChainOK(s, acts, visited) ==
  IF acts = <<>> THEN TRUE
  ELSE LET a == Head(acts)
           r == LiqStep(s, a.collateral, a.debt)
       IN a.debt \notin visited /\ ~r.skip /\ LiqStepOK(s, r.st, a) /\ LiqChainOK(r.st, Tail(acts), visited \cup {a.debt})

(* relational verdict on a whole recorded update(): state before, state after, the recorded (collateral, debt) pairs *)
LiqRunOK(s, s2, acts) ==
  /\ (HFGe1(HF(s)) => acts = <<>> /\ s2.sb = s.sb /\ s2.bb = s.bb)
  /\ (HFLt1(HF(s)) /\ QGt(HF(s), Zero) /\ (\A t \in Tokens : HasSup(s, t) /\ s.sc[t] => Risk[t].lt # Zero) => acts # <<>>)
  /\ s2.w = s.w
  /\ \A i, j \in DOMAIN acts : i # j => acts[i].debt # acts[j].debt
  /\ \/ HFGe1(HF(s2)) \/ HF(s2) = Zero
     \/ \A t \in Tokens : HasBor(s2, t) => (\E i \in DOMAIN acts : acts[i].debt = t)
                                           \/ (\E c \in Tokens : s.sc[c] /\ Risk[c].lt = Zero)

Act_C12(st, ev, r) ==
  ev.op = "update" =>
    /\ (HFGe1(HF(st)) => r.acts = <<>> /\ r.st.sb = st.sb /\ r.st.bb = st.bb)                \* only below 1
    /\ (HFLt1(HF(st)) /\ QGt(HF(st), Zero) /\ (\E t \in Tokens : HasSup(st, t) /\ st.sc[t] /\ Risk[t].lt # Zero)
          => r.acts # <<>>)                                                                     \* if below 1 then liquidated
    /\ LiqChainOK(st, r.acts, {})
    /\ r.st.w = st.w
    /\ \/ HFGe1(HF(r.st)) \/ HF(r.st) = Zero                                                   \* ends: healthy, no collateral,
       \/ \A t \in Tokens : HasBor(r.st, t) => (\E i \in DOMAIN r.acts : r.acts[i].debt = t)    \*   or every debt visited
                                             \/ (\A c \in Tokens : st.sc[c] => Risk[c].lt = Zero)
=============================================================================

------------------------------- MODULE GmxV2 -------------------------------
(***************************************************************************)
(* GMX v2 (GM market tokens) as simulated by demeter/gmx/market2.py and     *)
(* demeter/gmx/gmx_v2/*.py.  The code is an IEEE-double pipeline; the spec  *)
(* states the same formulas over exact rationals (Num.tla) and the binding  *)
(* compares at 1e-9 relative.  Amounts are human units, prices USD/token.   *)
(***************************************************************************)
EXTENDS Num

CONSTANTS DEV_OverWithdraw,        \* defect #15: withdraw accepts more GM than is held
          DEV_NoImpactCap,         \* (mutant) positive impact not capped by the impact pool
          DEV_MutateBeforeCheck    \* defect #15 (C04): deposit adds GM before the debits; withdraw(-x) pays before rejecting

E(k) == QN(NTen(k))
D(m, k) == QDiv(QI(m), E(k))

(* PoolConfig defaults (gmx_v2/_typing.py) *)
ImpactFactorPos == D(2, 10)        \* 2e20 / 1e30
ImpactFactorNeg == D(4, 10)        \* 4e20 / 1e30
ImpactExponent  == 2
DepositFeePos   == D(5, 4)
DepositFeeNeg   == D(7, 4)
WithdrawFeePos  == D(5, 4)
WithdrawFeeNeg  == D(7, 4)

(* MarketUtils.getAdjustedSwapImpactFactors: the positive factor never exceeds the negative one *)
AdjPos == QMin(ImpactFactorPos, ImpactFactorNeg)
AdjNeg == ImpactFactorNeg

(* pool row: [la, sa : pool token amounts, hasV : BOOLEAN, vl, vs : virtual swap inventory,
              pv : poolValue, sup : marketTokensSupply, ip : impactPoolAmount, lp, sp : prices]          *)

Sq(x) == QPow(x, ImpactExponent)
Diff(a, b) == QAbs(QSub(a, b))

(* SwapPricingUtils._getPriceImpactUsd: a, b pool USD of tokenA / tokenB, a2, b2 after the deltas *)
ImpactCore(a, b, a2, b2) ==
  LET id   == Diff(a, b)
      nd   == Diff(a2, b2)
      same == QLe(a, b) = QLe(a2, b2)
  IN  IF same
      THEN LET pos == QLt(nd, id)
               f   == IF pos THEN AdjPos ELSE AdjNeg
               d   == Diff(QMul(Sq(id), f), QMul(Sq(nd), f))
           IN  [usd |-> IF pos THEN d ELSE QNeg(d), kind |-> IF pos THEN "same_pos" ELSE "same_neg"]
      ELSE LET p == QMul(Sq(id), AdjPos)
               n == QMul(Sq(nd), AdjNeg)
               d == Diff(p, n)
           IN  [usd |-> IF QGt(p, n) THEN d ELSE QNeg(d), kind |-> IF QGt(p, n) THEN "cross_pos" ELSE "cross_neg"]

(* SwapPricingUtils.getPriceImpactUsd for a deposit (tokenA = long, deltas = deposited USD):           *)
(* a non-negative impact is final; a negative one is replaced by the virtual-inventory impact if that  *)
(* is lower (more negative)                                                                            *)
Impact(row, dA, dB) ==
  LET a == QMul(row.la, row.lp)
      b == QMul(row.sa, row.sp)
      real == ImpactCore(a, b, QAdd(a, dA), QAdd(b, dB))
  IN  IF QGe(real.usd, Zero) \/ ~row.hasV THEN real
      ELSE LET va == QMul(row.vl, row.lp)
               vb == QMul(row.vs, row.sp)
               virt == ImpactCore(va, vb, QAdd(va, dA), QAdd(vb, dB))
           IN  IF QLt(virt.usd, real.usd) THEN [usd |-> virt.usd, kind |-> "virtual"] ELSE real

UsdToGm(row, usd) == QDiv(QMul(row.sup, usd), row.pv)        \* MarketUtils.usdToMarketTokenAmount
GmToUsd(row, gm)  == QDiv(QMul(row.pv, gm), row.sup)         \* MarketUtils.marketTokenAmountToUsd

(* ExecuteDepositUtils.calc_token_amount for one side *)
DepositSide(row, pIn, pOut, amount, imp) ==
  LET pos    == QGt(imp, Zero)
      fee    == QMul(amount, IF pos THEN DepositFeePos ELSE DepositFeeNeg)
      after0 == QSub(amount, fee)
      posAmt0 == QDiv(imp, pOut)
      posAmt == IF pos THEN (IF QGt(posAmt0, row.ip) /\ ~DEV_NoImpactCap THEN row.ip ELSE posAmt0) ELSE Zero
      credit == QMul(posAmt, pOut)                                  \* USD credited from the impact pool (capped)
      after  == IF QLt(imp, Zero) THEN QAdd(after0, QDiv(imp, pIn)) ELSE after0
  IN  [gm |-> QAdd(UsdToGm(row, credit), UsdToGm(row, QMul(after, pIn))), fee |-> fee, credit |-> credit,
       capped |-> pos /\ QGt(posAmt0, row.ip)]

NoSide == [gm |-> Zero, fee |-> Zero, credit |-> Zero, capped |-> FALSE]

(* ExecuteDepositUtils.get_mint_amount -> LPResult *)
Deposit(row, la, sa) ==
  LET lv  == QMul(la, row.lp)
      sv  == QMul(sa, row.sp)
      tot == QAdd(lv, sv)
      im  == Impact(row, lv, sv)
      L   == IF QGt(la, Zero) THEN DepositSide(row, row.lp, row.sp, la, QDiv(QMul(im.usd, lv), tot)) ELSE NoSide
      S   == IF QGt(sa, Zero) THEN DepositSide(row, row.sp, row.lp, sa, QDiv(QMul(im.usd, sv), tot)) ELSE NoSide
      gm  == QAdd(L.gm, S.gm)
  IN  [long_amount |-> la, short_amount |-> sa, total_usd |-> tot, gm_amount |-> gm, gm_usd |-> GmToUsd(row, gm),
       long_fee |-> L.fee, short_fee |-> S.fee, fee_usd |-> QAdd(QMul(L.fee, row.lp), QMul(S.fee, row.sp)),
       price_impact_usd |-> im.usd, kind |-> im.kind, credit |-> QAdd(L.credit, S.credit), capped |-> L.capped \/ S.capped,
       rt |-> QMul(GmToUsd(row, gm), QSub(One, WithdrawFeeNeg))]      \* USD paid by withdrawing the minted GM at once

(* MarketUtils.getTokenAmountsFromGM *)
TokensOfGm(row, gm) ==
  LET lu == QMul(row.la, row.lp)
      su == QMul(row.sa, row.sp)
      u  == GmToUsd(row, gm)
  IN  [long |-> QDiv(QDiv(QMul(u, lu), QAdd(lu, su)), row.lp), short |-> QDiv(QDiv(QMul(u, su), QAdd(lu, su)), row.sp)]

(* ExecuteWithdrawUtils.getOutputAmount -> LPResult (withdrawals carry no price impact, negative-impact fee factor) *)
Withdraw(row, gm) ==
  LET t  == TokensOfGm(row, gm)
      lf == QMul(t.long, WithdrawFeeNeg)
      sf == QMul(t.short, WithdrawFeeNeg)
      lo == QSub(t.long, lf)
      so == QSub(t.short, sf)
  IN  [long_amount |-> lo, short_amount |-> so, total_usd |-> QAdd(QMul(lo, row.lp), QMul(so, row.sp)), gm_amount |-> gm,
       gm_usd |-> GmToUsd(row, gm), long_fee |-> lf, short_fee |-> sf, fee_usd |-> QAdd(QMul(lf, row.lp), QMul(sf, row.sp)),
       price_impact_usd |-> Zero, kind |-> "-", credit |-> Zero, capped |-> FALSE, rt |-> Zero]

NoRes == [long_amount |-> Zero, short_amount |-> Zero, total_usd |-> Zero, gm_amount |-> Zero, gm_usd |-> Zero, long_fee |-> Zero,
          short_fee |-> Zero, fee_usd |-> Zero, price_impact_usd |-> Zero, kind |-> "-", credit |-> Zero, capped |-> FALSE, rt |-> Zero]

-----------------------------------------------------------------------------
(* wallet: Asset.sub with the dust snap *)
Dust == QDiv(One, E(5))
WalletSub(bal, amt) ==
  LET base == IF bal # Zero THEN bal ELSE amt IN
  IF base = Zero THEN [ok |-> TRUE, bal |-> bal]
  ELSE IF QLt(QAbs(QDiv(QSub(bal, amt), base)), Dust) THEN [ok |-> TRUE, bal |-> Zero]
  ELSE IF QLt(QSub(bal, amt), Zero) THEN [ok |-> FALSE, bal |-> bal]
  ELSE [ok |-> TRUE, bal |-> QSub(bal, amt)]

Tol9 == QDiv(One, E(9))
(* a requested amount within 1e-9 (relative) of the holding: either outcome is accepted (DESIGN 2.9) *)
InBand(amt, held) == amt # held /\ QLe(QAbs(QSub(amt, held)), QMul(Tol9, QMax(QAbs(amt), QAbs(held))))

-----------------------------------------------------------------------------
(* state [row, wl, ws : wallet of long / short token, gm : GM held, n]
   events [op |-> "bar", row] | [op |-> "dep", la, sa] | [op |-> "wd", all : BOOLEAN, amt]                *)
InitSt(wl0, ws0) == [row |-> 0, wl |-> wl0, ws |-> ws0, gm |-> Zero, n |-> 0]

Step(st, ev, RowOf(_)) ==
  CASE ev.op = "bar" -> [st |-> [st EXCEPT !.row = ev.row, !.n = @ + 1], out |-> "ok", res |-> NoRes, band |-> FALSE]
    [] ev.op = "dep" ->
         LET row == RowOf(st.row)
             r   == Deposit(row, ev.la, ev.sa)
             a   == WalletSub(st.wl, ev.la)
             b   == WalletSub(st.ws, ev.sa)
         IN  IF a.ok /\ b.ok
             THEN [st |-> [st EXCEPT !.wl = a.bal, !.ws = b.bal, !.gm = QAdd(@, r.gm_amount), !.n = @ + 1], out |-> "ok", res |-> r, band |-> FALSE]
             ELSE [st |-> [st EXCEPT !.gm = IF DEV_MutateBeforeCheck THEN QAdd(@, r.gm_amount) ELSE @, !.n = @ + 1],
                   out |-> "reject", res |-> NoRes, band |-> FALSE]
    [] ev.op = "wd" ->
         LET row == RowOf(st.row)
             g   == IF ev.all THEN st.gm ELSE ev.amt
             r   == Withdraw(row, g)
             paid == [st EXCEPT !.wl = QAdd(@, r.long_amount), !.ws = QAdd(@, r.short_amount), !.gm = QSub(@, g), !.n = @ + 1]
         IN  IF QLt(g, Zero)
             THEN [st |-> IF DEV_MutateBeforeCheck THEN paid ELSE [st EXCEPT !.n = @ + 1], out |-> "reject", res |-> NoRes, band |-> FALSE]
             ELSE IF QGt(g, st.gm) /\ ~DEV_OverWithdraw
             THEN [st |-> [st EXCEPT !.n = @ + 1], out |-> "reject", res |-> NoRes, band |-> InBand(g, st.gm)]
             ELSE [st |-> paid, out |-> "ok", res |-> r, band |-> InBand(g, st.gm)]

(* GmxV2Market.get_market_balance *)
Balance(st, row) ==
  IF QGt(st.gm, Zero)
  THEN LET t == TokensOfGm(row, st.gm) IN [net |-> GmToUsd(row, st.gm), gm |-> st.gm, long |-> t.long, short |-> t.short]
  ELSE [net |-> Zero, gm |-> st.gm, long |-> Zero, short |-> Zero]

(* account views (C01 / C03): wallet at the bar's prices plus GM at pool value per share; the market quotes in USD, an
   account quoted in the long token converts both legs by 1 / longPrice                                                   *)
WalletValueUsd(st, row) == QAdd(QMul(st.wl, row.lp), QMul(st.ws, row.sp))
MarketValueUsd(st, row) == IF QGt(st.gm, Zero) THEN GmToUsd(row, st.gm) ELSE Zero
AccountUsd(st, row) == QAdd(WalletValueUsd(st, row), MarketValueUsd(st, row))
AccountView(st, row) ==
  LET a == WalletValueUsd(st, row)
      m == MarketValueUsd(st, row)
  IN  [usd  |-> [asset |-> a, market |-> m, net |-> QAdd(a, m)],
       long |-> [asset |-> QDiv(a, row.lp), market |-> QDiv(m, row.lp), net |-> QDiv(QAdd(a, m), row.lp)]]
(* C03: a deposit may gain the wallet dust of the balances it debits and what the impact pool credits (capped) *)
DustAllowUsd(st, ev, row) == IF ev.op = "dep" THEN QMul(Dust, WalletValueUsd(st, row)) ELSE Zero

-----------------------------------------------------------------------------
(* Property C17, v2 clauses *)
(* deposit (la, sa), immediately withdraw the minted GM in the same bar: the USD received never exceeds the USD paid
   plus what the impact pool credited (capped by the pool); without a positive impact it never exceeds the USD paid *)
RoundTripHolds(row, la, sa) ==
  LET d == Deposit(row, la, sa)
      w == Withdraw(row, d.gm_amount)
  IN  QLe(w.total_usd, QAdd(d.total_usd, d.credit)) /\ (QLe(d.price_impact_usd, Zero) => QLe(w.total_usd, d.total_usd))

(* the credited positive impact never exceeds the impact pool's value on the paying side *)
ImpactCapHolds(row, la, sa) ==
  LET d == Deposit(row, la, sa) IN
  QLe(d.credit, QAdd(QMul(row.ip, row.lp), QMul(row.ip, row.sp)))

(* minted GM is worth exactly (deposit - fee +/- impact) at pool value per share *)
MintValueHolds(row, la, sa) ==
  LET d == Deposit(row, la, sa)
      net == QSub(d.total_usd, d.fee_usd)
  IN  IF QLe(d.price_impact_usd, Zero) THEN d.gm_usd = QAdd(net, d.price_impact_usd)
      ELSE d.gm_usd = QAdd(net, d.credit) /\ QLe(d.credit, d.price_impact_usd)
=============================================================================

------------------------------ MODULE UniMirror ------------------------------
(***************************************************************************)
(* Property C09 for the helpers of UniLpMarket that take or return prices, *)
(* values or amounts (beyond the operations of UniLp.tla / MC_UniLp, whose  *)
(* two orientations run in lockstep):                                       *)
(*   price_to_tick / tick_to_price, add_liquidity (by price),               *)
(*   add_liquidity_by_value (every swap branch), even_rebalance, swap,      *)
(*   estimate_amount, estimate_liquidity, remove_all_liquidity.             *)
(*                                                                         *)
(* A pool A (token0 is the quote token) and its mirror B (token1 is the    *)
(* quote token; tick t of A is tick -t of B, a range [lo, hi] of A is      *)
(* [-hi, -lo] of B) are put in the same economic state (same quote price,  *)
(* same base / quote wallet) and given the same call in base / quote terms.*)
(* A call's RESULT record is                                               *)
(*   out    "ok" | "reject"                                                *)
(*   ticks  sequence of <<name, lo, hi>> (tick ranges; single ticks as      *)
(*          lo = hi) in the pool's own orientation                          *)
(*   nums   sequence of <<name, class, value>>, values in base / quote      *)
(*          terms, class "amt" (token amount or value), "liq" (liquidity    *)
(*          units), "px" (price)                                            *)
(* MirrorOK is the statement of C09 on a pair of results.                   *)
(***************************************************************************)
EXTENDS Num, Sequences, FiniteSets

Helpers == {"price_tick", "add_by_price", "add_by_value", "even_rebalance", "swap", "estimate_amount", "estimate_liquidity",
            "remove_all"}
(* helpers whose result is an estimate (float exponentials / swap-fee approximation): 0.1 % *)
Estimates == {"add_by_value", "estimate_amount", "estimate_liquidity"}

(* the case lattice the harness instantiates *)
Regions == {"below", "at_lower", "in", "at_upper", "above"}       \* price relative to the range
Shapes  == {"centred", "low", "high"}                             \* range centred on the price / mostly below / mostly above it
Wallets == {"base", "quote", "both"}                              \* wallet holds mostly base, mostly quote, both
Cases   == [h : Helpers, reg : Regions, shape : Shapes, wal : Wallets, half : BOOLEAN]    \* half: a requested tick exactly half-way
                                                                                            \* between two usable ticks
Applicable(c) ==
  /\ (c.h \in {"price_tick", "even_rebalance", "swap"} => c.reg = "in" /\ c.shape = "centred")
  /\ (c.h \in {"price_tick", "swap"} => c.wal = "both")
  /\ (c.half => c.h \in {"price_tick", "add_by_price", "add_by_value"})
  /\ (c.shape # "centred" => c.reg = "in")

Rel(h) == IF h \in Estimates THEN QOf(1, 1000) ELSE QOf(1, 1000000000)
(* absolute slack: amounts two wei of a 6-decimals token (offered amounts are floored to wei), liquidity a few units *)
Abs(class) == CASE class = "amt" -> QOf(2, 1000000) [] class = "liq" -> QI(8) [] OTHER -> Zero

NumOK(h, x, y) == /\ x[1] = y[1] /\ x[2] = y[2]
                  /\ QWithin(x[3], y[3], Rel(h), Abs(x[2]))
TickOK(x, y)   == x[1] = y[1] /\ y[2] = -x[3] /\ y[3] = -x[2]

(* the first failing clause of a pair, "" if the pair satisfies C09 *)
MirrorBad(h, a, b) ==
  IF a.out # b.out THEN "outcome"
  ELSE IF a.out # "ok" THEN ""
  ELSE IF Len(a.ticks) # Len(b.ticks) \/ Len(a.nums) # Len(b.nums) THEN "shape"
  ELSE IF \E i \in DOMAIN a.ticks : ~TickOK(a.ticks[i], b.ticks[i])
       THEN "ticks:" \o a.ticks[CHOOSE i \in DOMAIN a.ticks : ~TickOK(a.ticks[i], b.ticks[i])][1]
  ELSE IF \E i \in DOMAIN a.nums : ~NumOK(h, a.nums[i], b.nums[i])
       THEN "value:" \o a.nums[CHOOSE i \in DOMAIN a.nums : ~NumOK(h, a.nums[i], b.nums[i])][1]
  ELSE ""
MirrorOK(h, a, b) == MirrorBad(h, a, b) = ""

(* self-checks of the relation (evaluated by MC_UniMirror): it is reflexive up to mirroring and it rejects an asymmetric result *)
SelfA == [out |-> "ok", ticks |-> <<<<"pos", 100, 200>>>>, nums |-> <<<<"base_used", "amt", QOf(3, 2)>>, <<"liq", "liq", QI(1000000)>>>>]
SelfB == [out |-> "ok", ticks |-> <<<<"pos", -200, -100>>>>, nums |-> <<<<"base_used", "amt", QOf(3, 2)>>, <<"liq", "liq", QI(1000003)>>>>]
SelfC == [SelfB EXCEPT !.ticks = <<<<"pos", -210, -100>>>>]
SelfD == [SelfB EXCEPT !.nums = <<<<"base_used", "amt", QOf(1501, 1000)>>, <<"liq", "liq", QI(1000003)>>>>]
SelfOK == /\ MirrorOK("add_by_price", SelfA, SelfB)
          /\ MirrorBad("add_by_price", SelfA, SelfC) = "ticks:pos"
          /\ MirrorBad("add_by_price", SelfA, SelfD) = "value:base_used"
          /\ MirrorOK("add_by_value", SelfA, SelfD)
          /\ MirrorBad("swap", SelfA, [SelfB EXCEPT !.out = "reject"]) = "outcome"
=============================================================================

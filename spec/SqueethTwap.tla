---------------------------- MODULE SqueethTwap ----------------------------
(***************************************************************************)
(* The TWAP of SqueethMarket.get_twap_price / helper.calc_twap_price: the    *)
(* geometric mean of the prices of the trailing window, specified            *)
(* RELATIONALLY (no logarithms, no roots): g is accepted for the window ps   *)
(* up to relative eps  iff  (g(1-eps))^n <= prod(ps) <= (g(1+eps))^n.        *)
(* GeoWit computes one witness (used by Squeeth.tla to carry a TWAP in its   *)
(* state; Inv_C14_Twap re-checks it against TwapOk).                         *)
(***************************************************************************)
EXTENDS Num, Sequences

(* the window: the bars whose timestamp lies in [now - 6 min, now] (TWAP_PERIOD = 7 one-minute rows); with bars F minutes apart
   (a resampled run) these are the last (6 div F) + 1 bars - the window is a span of TIME, not a number of rows *)
TwapSpanMin == 6
TwapWindow(all, F) == LET n == Len(all)  k == (TwapSpanMin \div F) + 1
                      IN  SubSeq(all, IF n - k + 1 < 1 THEN 1 ELSE n - k + 1, n)

RECURSIVE Prod(_)
Prod(ps) == IF ps = <<>> THEN One ELSE QMul(Head(ps), Prod(Tail(ps)))

(* g is a geometric mean of ps up to relative eps  iff  (g(1-eps))^n <= prod ps <= (g(1+eps))^n *)
TwapOk(g, ps, eps) ==
  LET n == Len(ps)
      P == Prod(ps)
  IN  /\ QLe(QPow(QMul(g, QSub(One, eps)), n), P)
      /\ QLe(P, QPow(QMul(g, QAdd(One, eps)), n))

(* a witness: Newton iteration for x^n = P from the arithmetic mean (>= geometric mean), iterates rounded to 24 places *)
RECURSIVE Newton(_, _, _, _)
Newton(P, n, x, it) ==
  IF it = 0 THEN x
  ELSE LET x1 == QDiv(QAdd(QMul(QI(n - 1), x), QDiv(P, QPow(x, n - 1))), QI(n))
       IN  Newton(P, n, QRound(x1, 24, "HALF_EVEN"), it - 1)
AllEqual(ps) == \A i \in DOMAIN ps : ps[i] = ps[1]
GeoWit(ps) == IF AllEqual(ps) THEN ps[1]
              ELSE Newton(Prod(ps), Len(ps), QDiv(QSumSeq(ps), QI(Len(ps))), 9)

=============================================================================

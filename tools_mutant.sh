#!/bin/sh
# usage: tools_mutant.sh <check id> <python-expr-file or 'sed' script applied to a file>  : run a check against a mutated scratch copy
# tools_mutant.sh C13 demeter/aave/market.py 's/old/new/'
set -e
ID=$1; FILE=$2; SED=$3
D=$(mktemp -d /tmp/mut_XXXXXX)
git -C /repo worktree add -q --detach "$D/r" HEAD
sed -i "$SED" "$D/r/$FILE"
if git -C "$D/r" diff --quiet; then echo "MUTATION DID NOT APPLY"; fi
git -C "$D/r" diff | head -20
cd /verif
DEMETER_REPO="$D/r" VERIF_EVIDENCE_DIR="$D" ./check "$ID" --tier quick 2>&1 | grep -E "VIOLATION|KNOWN|^\[C|MACHINERY|Error" | cut -c1-400 | head -8
git -C /repo worktree remove --force "$D/r"; rm -rf "$D"

"""Runner of the Uniswap LP checks C08 (per-bar fee) and C09 (token order immaterial): TLC on spec/UniLp.tla through
MC_UniLp (both orientations in one specification), then replay of every behaviour through the real Actuator + UniLpMarket
in both orientations."""
from __future__ import annotations

import multiprocessing as mp
import os
import random
from fractions import Fraction

from . import tlc
from .common import VERIF, Check, close
from .cross import pack, unpack

SPEC = VERIF / "spec" / "mc" / "MC_UniLp.tla"
MC = SPEC.parent
_G = {}
REL12 = Fraction(1, 10 ** 9)    # the property says 1e-12; one wei of a 6-decimals token offered is 5e-11 of 20000 (see uni_drv.REL)
ABS = Fraction(1, 10 ** 24)


def _beh(states):
    s0 = states[0]
    scn, row0 = list(s0["last"]["ev"]["scn"]), s0["last"]["ev"]["row0"]
    a = [(s["last"]["ev"], s["last"]["out"], s["last"]["ret"], s["st"]) for s in states[1:]]
    from .uni_drv import mirror_event
    b = [(mirror_event(s["last"]["ev"]), s["last"]["outm"], s["last"]["retm"], s["stm"]) for s in states[1:]]
    touched = [s["touched"] for s in states[1:]]
    views = ([s["last"]["view"] for s in states[1:]], [s["last"]["viewm"] for s in states[1:]])
    return scn, row0, a, b, touched, (s0["st"], s0["stm"]), views


def _work(job):
    from . import uni_drv
    kind, payload, float_ticks = job[:3]
    F = job[3] if len(job) > 3 else 1
    acct_f = job[4] if len(job) > 4 else None
    two = bool(job[5]) if len(job) > 5 else False     # a second pool (with a position of its own) under the same broker
    states = [_G["graph"].state(n) for n in payload] if kind == "path" else payload
    scn, row0, sa, sb, touched, init, views = _beh(states)
    rangesA = sorted({tuple(k) for k in init[0]["pos"]})
    u = _G["universe"]
    pa = _G.get("pa") or uni_drv.Pool(u["poolA"], u["rowsA"], u["w0"], "A")
    pb = _G.get("pb") or uni_drv.Pool(u["poolB"], u["rowsB"], (u["w0"][1], u["w0"][0]), "B")
    _G["pa"], _G["pb"] = pa, pb
    counts = {}

    def tally(c):
        counts[c] = counts.get(c, 0) + 1
    res = []
    recs = {}
    for pool, steps, tag, st0, vw in ((pa, sa, "A", init[0], views[0]), (pb, sb, "B", init[1], views[1])):
        prefix = [e if tag == "A" else uni_drv.mirror_event(e) for e in scn]
        er = rangesA if tag == "A" else [(-hi, -lo) for lo, hi in rangesA]
        r, err, nbars = uni_drv.run_behaviour(pool, prefix, [s[0] for s in steps], row0, float_ticks, er, F, acct_f, two)
        body = r[len(prefix):]
        # drop the final bar's after_bar record (the behaviour ends inside the last bar)
        if body and body[-1].get("endbar") and (not steps or steps[-1][0]["op"] != "endbar" or len(body) > len(steps)):
            body = body[:len(steps)]
        ip = r[len(prefix) - 1]["proj"] if prefix and len(r) >= len(prefix) else None
        # with a second pool in the account the account-level figures contain its position: only the first pool's own state is compared
        mm, at = uni_drv.compare_run(pool, body, err, steps, tally, ip, st0, None if two else vw, acct_f)
        recs[tag] = body
        for m in mm:
            res.append((tag, m.prop, m.clause, m.text, at))
    # C09: the two real runs against each other, in base/quote terms - whatever each of them does relative to the specification
    # (a deviation both orientations share is another property's; one they do not share is C09's as well)
    if all(len(recs[t]) >= len(sa) for t in ("A", "B")) or not res:
        for i, (ra, rb) in enumerate(zip(recs["A"], recs["B"])):
            if touched[i]:
                tally("info/mirror_skipped_after_boundary_path")
                break
            tally("C09/mirror_step")
            ea, eb = uni_drv.econ(pa, ra["proj"]), uni_drv.econ(pb, rb["proj"])
            bad = None
            if ra.get("out") != rb.get("out"):
                bad = f"outcome {ra.get('out')} vs mirrored {rb.get('out')}"
            elif not close(ea[0], eb[0], REL12, ABS) or not close(ea[1], eb[1], REL12, ABS):
                bad = f"wallet base/quote {float(ea[0])!r}/{float(ea[1])!r} vs mirrored {float(eb[0])!r}/{float(eb[1])!r}"
            elif set(ea[2]) != set(eb[2]):
                bad = f"positions {sorted(ea[2])} vs mirrored {sorted(eb[2])}"
            else:
                for k, (la, ba, qa) in ea[2].items():
                    lb, bb, qb = eb[2][k]
                    if not close(la, lb, REL12, 4):
                        bad = f"liquidity of {k}: {la} vs mirrored {lb}"
                    elif not touched[i] and (not close(ba, bb, REL12, ABS) or not close(qa, qb, REL12, ABS)):
                        bad = f"pending of {k}: base {float(ba)!r} quote {float(qa)!r} vs mirrored {float(bb)!r} {float(qb)!r}"
                if not bad and ra.get("ret") and rb.get("ret"):
                    for k in ra["ret"]:
                        va, vb = ra["ret"][k], rb["ret"][k]
                        if not close(Fraction(str(va)) if not isinstance(va, int) else va, Fraction(str(vb)) if not isinstance(vb, int) else vb, REL12, 4 if k == "liq" else ABS):
                            bad = f"returned {k}: {va} vs mirrored {vb}"
            if not bad:
                va, vb = ra["view"], rb["view"]
                for k in ("net", "base_unc", "quote_unc", "base_in", "quote_in"):
                    if not close(va[k], vb[k], REL12, ABS):
                        bad = f"get_market_balance {k}: {float(va[k])!r} vs mirrored {float(vb[k])!r}"
                for (lo, hi), pv in va["pos"].items():
                    pm = vb["pos"].get((-hi, -lo))
                    if pm and not bad:
                        for fa, fb in (("a0", "a1"), ("a1", "a0"), ("lv", "lv"), ("pv", "pv"), ("v", "v")):
                            if not close(pv[fa], pm[fb], REL12, ABS):
                                bad = f"get_position_status({lo},{hi}).{fa}: {float(pv[fa])!r} vs mirrored {float(pm[fb])!r}"
                pt = sa[i][3]["ptick"]
                near = any(abs(pt - b) <= 1 for r in rangesA for b in r)
                if not bad and not near:
                    tally("C09/estimate_helpers")
                    for ((lo, hi), val), ea_ in va["est"].items():
                        eb_ = vb["est"].get(((-hi, -lo), val))
                        if eb_ is None:
                            continue
                        if ea_[0] != eb_[0]:
                            bad = f"estimate_liquidity({val}, ({lo},{hi})): {ea_[:2]} vs mirrored {eb_[:2]}"
                        elif ea_[0] == "ok":
                            t3 = Fraction(1, 1000)
                            # token0/token1 of A are quote/base; of B base/quote
                            if not close(ea_[1], eb_[1], t3, 4) or not close(ea_[2], eb_[3], t3, ABS) or not close(ea_[3], eb_[2], t3, ABS):
                                bad = (f"estimate_liquidity({val}, ({lo},{hi})): liq {ea_[1]} amounts {float(ea_[2])!r}/{float(ea_[3])!r} vs mirrored "
                                       f"liq {eb_[1]} amounts {float(eb_[3])!r}/{float(eb_[2])!r}")
            if bad:
                res.append(("AB", "C09", "mirror_economics", f"step {i} ({sa[i][0]['op']}): {bad}", i))
                break
    rep = None
    if res:
        rep = {"kind": "uni_behaviour", "scenario": scn, "row0": row0, "events": [s[0] for s in sa], "float_ticks": float_ticks, "F": F, "acct_f": str(acct_f) if acct_f is not None else None, "two_pools": two,
               "mismatches": [f"{t} {p}/{c}: {x}" for t, p, c, x, _ in res],
               "packed": pack({"states": states, "universe": u})}   # the TLC states (spec side of every step), pickled
    counts["info/run_on_resampled_5min_grid" if F > 1 else "info/run_on_1min_grid"] = 1
    if two:
        counts["info/run_with_a_second_pool_under_the_same_broker"] = 1
    sample = {"row0": row0, "minutes_per_bar": F, "scenario": [e["op"] for e in scn], "events": [e[0]["op"] + (":" + str(e[0].get("next", "")) if e[0]["op"] == "endbar" else "") + "->" + e[1] for e in sa]}
    return res, rep, counts, len(sa), sample


def run(chk: Check, owner: str) -> int:
    explore(chk, owner)
    if owner == "C09":
        # the helpers that take or return prices / values / amounts and are not operations of UniLp.tla: UniMirror.tla
        from . import uni_mirror
        uni_mirror.run_leg(chk)
    return chk.finish("a case = one behaviour of MC_UniLp (BFS spanning-tree path or simulated behaviour) executed through the real "
                      "Actuator + UniLpMarket in both token orientations; non-trivial = contains an accepted operation or a bar end")


def run_cross(chk: Check, owner: str):
    """Uniswap leg of the cross-market properties C01 / C03 / C04 (no chk.finish)."""
    explore(chk, owner, cross=True)


def explore(chk: Check, owner: str, cross=False):
    quick = chk.tier == "quick"
    devs = {"C08": [("lasttick", "P_C08"), ("share", "P_C08"), ("latewrite", "P_C08")]}.get(owner, [])
    for dev, prop in devs:
        # latewrite needs three bars (a write after the update of bar 1 shows in the fee of bar 2): found by simulation, not by BFS
        args = ("-simulate", "num=300000", "-depth", "7", "-seed", "1") if dev == "latewrite" else ()
        r = tlc.run(SPEC, MC / f"MC_UniLp_dev_{dev}.cfg", chk.tmp, workers=8, timeout=600, args=args)
        chk.extra.setdefault("dev_switch_detected", {})[dev] = prop in r.violated
        if prop not in r.violated:
            raise RuntimeError(f"vacuous: dev switch {dev} does not violate {prop}")
    if owner == "C08":
        cfg = "MC_UniLp_fee3.cfg" if quick else "MC_UniLp_fee.cfg"
    else:
        cfg = "MC_UniLp_quick.cfg" if quick else "MC_UniLp_ops3.cfg"
    res, g = tlc.dump_lazy(SPEC, MC / cfg, chk.tmp, workers=16, timeout=1800)
    chk.add_tlc(res, "bfs " + cfg)
    chk.spec_violation(res, "bfs")
    universe = tlc.printed(res.output, "universe")
    rnd = random.Random(chk.seed)
    paths = g.tree_paths()
    budget = int(os.environ.get("VERIF_UNI_BUDGET") or ((600 if quick else 5000) if cross else (1400 if quick else 12000)))
    paths, chk.exhaustive = tlc.choose_paths(g, paths, budget, rnd)     # tree paths + non-tree edges, stratified (harness/tlc.py)
    # every fifth behaviour is supplied as 5 one-minute rows per bar and run on a resampled (5 min) grid
    # ... and every third one in an account quoted in USD while the pool quotes in USDC at 0.95 USD (market quote != account quote)
    AF = Fraction(19, 20)
    two = owner == "C08"       # every seventh fee behaviour runs with a second pool under the same broker
    jobs = [("path", p, i % 4 == 3, 5 if i % 5 == 2 else 1, AF if i % 3 == 1 else None, two and i % 7 == 5) for i, p in enumerate(paths)]
    simcfg = "MC_UniLp_sim_fee.cfg" if owner == "C08" else "MC_UniLp_sim.cfg"
    sres, behs = tlc.simulate(SPEC, MC / simcfg, chk.tmp, num=(48 if cross else 160) if quick else (1500 if cross else 3000), depth=12 if quick else 20, seed=chk.seed,
                              workers=16, timeout=1500)
    chk.add_tlc(sres, "simulate " + simcfg)
    chk.spec_violation(sres, "simulate")
    jobs += [("beh", [s for _, s in b], i % 4 == 3, 5 if i % 5 == 2 else 1, AF if i % 3 == 1 else None, two and i % 7 == 5) for i, b in enumerate(behs)]
    _G["graph"], _G["universe"] = g, universe
    _G.pop("pa", None), _G.pop("pb", None)
    nontrivial = set()
    with mp.get_context("fork").Pool(16) as pool:
        for res_, rep, counts, nsteps, sample in pool.imap_unordered(_work, jobs, chunksize=4):
            chk.traces += 1
            chk.evaluations += nsteps
            for c, n in counts.items():
                chk.count(c, n)
            if any("endbar" in e for e in sample["events"]) or any("ok" in e for e in sample["events"]):
                nontrivial.add(repr(sample))
                chk.sample(sample, cap=4)
            for tag, prop, clause, text, at in res_:
                # a deviation that shows in one orientation only means token order matters: C09
                only_b = tag == "B" and not any(t == "A" for t, *_ in res_)
                p = "C09" if (only_b or prop == "C09") else prop
                if p == owner:
                    chk.violation(f"UniLpMarket|{clause}|{tag}", f"[orientation {tag}] {text}", rep)
                else:
                    chk.count(f"other/{p}/{clause}")
                    if len(chk.extra.setdefault("other_samples", [])) < 6:
                        chk.extra["other_samples"].append({"text": text, "sample": sample})
    chk.extra["distinct_nontrivial"] = chk.extra.get("distinct_nontrivial", 0) + len(nontrivial)
    chk.assumptions += ["orientation B is the mirror of A (ticks negated, ranges mirrored, per-token volumes swapped)",
                        "mirrored fee paths are compared only when no endpoint lies exactly on a range bound (half-open range test)",
                        "bar 0 has no previous bar: its fee path starts at its own close, as in the code"]
    return None


def replay(chk: Check, path: str, owner: str) -> int:
    """Re-run one stored behaviour (the TLC states are carried in the replay file) against the working tree."""
    import json
    rep = json.load(open(path))["replay"]
    if rep.get("kind") == "tlc":
        print(rep.get("output_tail", ""))
        return chk.finish("TLC output of a spec-level violation")
    if rep.get("kind") == "uni_mirror":
        from . import uni_mirror
        uni_mirror.replay_one(chk, rep)
        return chk.finish("replay of one helper case on both orientations")
    d = unpack(rep["packed"])
    _G["universe"] = d["universe"]
    _G.pop("pa", None), _G.pop("pb", None)
    res_, rep2, counts, nsteps, sample = _work(("beh", d["states"], rep["float_ticks"], rep.get("F", 1), Fraction(rep["acct_f"]) if rep.get("acct_f") else None, rep.get("two_pools", False)))
    chk.traces += 1
    chk.evaluations += nsteps
    for c, n in counts.items():
        chk.count(c, n)
    chk.sample(sample)
    for tag, prop, clause, text, at in res_:
        only_b = tag == "B" and not any(t == "A" for t, *_ in res_)
        p = "C09" if (only_b or prop == "C09") else prop
        print(f"  mismatch [{tag}] {p}/{clause}: {text}")
        if p == owner:
            chk.violation(f"UniLpMarket|{clause}|{tag}", f"[orientation {tag}] {text}", rep2)
    return chk.finish("replay of one recorded behaviour (both orientations)")

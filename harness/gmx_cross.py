"""GMX legs (GmxMarket = v1 / GLP, GmxV2Market = v2 / GM) of the cross-market properties C01, C03, C04.

    run_cross(chk, owner)      owner in {"C01", "C03", "C04"}; adds to chk, never calls chk.finish()

Machinery: the C17 specs (spec/GmxV1.tla, spec/GmxV2.tla) on the "cross" configurations
  spec/mc/MC_GmxV1_cross*.cfg  (Level 3: pool rows whose glp_price equals aumInUsdg / supply, a token without pool data)
  spec/mc/MC_GmxV2_cross*.cfg  (Cross = TRUE: states carry the account views)
whose TLC-checked properties include Prop_RejectLeavesState (C04), Prop_C03_NoValueCreation and Inv_C17_NonNegShares (C03).
Every behaviour of the TLC graph (thorough: deeper graph + simulation) is replayed into the real market attached to a real
Broker; the owner's clauses are decided on the real objects (C04: deep snapshot before/after a raising call; C03:
Broker.get_account_status(prices).net_value before/after every call; C01: Broker.get_account_status and
get_market_balance against the spec's AccountView for an account quoted in USD and one quoted in WETH).
Clauses of C17 itself (spec/code state agreement) are counted under other/C17/... and never alarm here.
"""
from __future__ import annotations

import copy
import re
from concurrent.futures import ThreadPoolExecutor
from decimal import Decimal
from fractions import Fraction

from . import tlc
from .common import Check, close, frac, unq
from .props import c17 as g

MC = g.MC
DOM = "gmx"
REL30, REL9 = g.REL30, g.REL9
DUST = Fraction(1, 10 ** 5)   # Asset.sub: differences below 1e-5 of the balance are snapped


# ------------------------------------------------------------------------------------------------
# adapters: one per market class
# ------------------------------------------------------------------------------------------------
class V1:
    kind, cls, spec = "v1", "GmxMarket", g.SPEC1
    cfg, deep, sim = "MC_GmxV1_cross.cfg", "MC_GmxV1_cross_deep.cfg", "MC_GmxV1_cross_sim.cfg"
    devs = {"C04": [("MC_GmxV1_dev_mutate.cfg", "Prop_RejectLeavesState")],
            "C03": [("MC_GmxV1_dev_c03.cfg", "Prop_C03_NoValueCreation"), ("MC_GmxV1_dev_overredeem.cfg", "Inv_C17_NonNegShares")],
            "C01": []}
    rel = REL30
    quote2 = "weth"
    frame = staticmethod(g.v1_frame)

    def __init__(self, df, st0):
        self.broker, self.market, self.toks, self.acts = g.make_v1(df, st0)
        for t, w in st0["w"].items():   # a zero initial balance means: the wallet has no entry for that token
            if w == 0:
                self.broker._assets.data.pop(self.toks[t], None)

    def tok(self, name):
        from demeter import TokenInfo
        return self.toks.get(name) or TokenInfo(name=name, decimal=18)

    def entry(self, ev):
        return {"bar": "update", "buy": "buy_glp", "sell": "sell_glp"}[ev["op"]]

    def do(self, ev, prev):
        from demeter import MarketStatus
        op = ev["op"]
        if op == "bar":
            if prev["row"] != 0:
                self.market.update()
            self.market.set_market_status(MarketStatus(g.ts_of(ev["row"]), None), None)
            return None
        if op == "buy":
            return self.market.buy_glp(self.tok(ev["tok"]), g.to_dec(ev["amt"]))
        return self.market.sell_glp(self.tok(ev["tok"])) if ev["all"] else self.market.sell_glp(self.tok(ev["tok"]), g.to_dec(ev["amt"]))

    def wallet(self):
        return {k.name.lower(): v.balance for k, v in self.broker._assets.items()}

    def holdings(self):
        return {"glp": self.market.glp_amount, "reward": self.market.reward}

    def spec_wallet(self, st):
        return dict(st["w"])

    def spec_holdings(self, st):
        return {"glp": st["glp"], "reward": st["reward"]}

    def usd_price(self, row, name):
        return row["price"][name] / 10 ** 30

    def prices(self, row, quote):
        from demeter._typing import USD
        unit = Fraction(1) if quote == "usd" else self.usd_price(row, "weth")
        p = {t.upper(): g.to_dec(self.usd_price(row, t) / unit) for t in g.TOKENS1}
        p["USD"] = g.to_dec(1 / unit)
        self.broker.quote_token = USD if quote == "usd" else self.toks["weth"]
        return p

    def debits(self, ev):
        return [ev["tok"]] if ev["op"] == "buy" else []

    def redeem_request(self, ev):
        if ev["op"] != "sell" or ev["all"]:
            return None
        return ev["amt"]

    def held(self):
        return self.market.glp_amount

    def balance_fields(self, st, last):
        return {"glp": st["glp"], "reward": st["reward"], "net_value": last["net"]}

    def credit(self, last):
        return Fraction(0)

    def paid_usd(self, ev, row, res):
        return ev["amt"] * self.usd_price(row, ev["tok"])

    def is_mint(self, ev):
        return ev["op"] == "buy"

    def round_trip(self, ev, ret, row, last):
        """sell the GLP just minted back for the same token on a copy; returns (received, paid, allowance) in token units."""
        if not ret:
            return None
        b2, m2 = copy.deepcopy((self.broker, self.market))
        back = m2.sell_glp(self.tok(ev["tok"]), ret)
        return frac(back), ev["amt"], Fraction(0)


class V2:
    kind, cls, spec = "v2", "GmxV2Market", g.SPEC2
    cfg, deep, sim = "MC_GmxV2_cross.cfg", "MC_GmxV2_cross_deep.cfg", "MC_GmxV2_cross_sim.cfg"
    devs = {"C04": [("MC_GmxV2_dev_mutate.cfg", "Prop_RejectLeavesState")],
            "C03": [("MC_GmxV2_dev_c03.cfg", "Prop_C03_NoValueCreation"), ("MC_GmxV2_dev_overwithdraw.cfg", "Inv_C17_NonNegShares")],
            "C01": []}
    rel = REL9
    quote2 = "long"
    frame = staticmethod(g.v2_frame)

    def __init__(self, df, st0):
        self.broker, self.market, self.weth, self.usdc, self.acts = g.make_v2(df, st0)

    def entry(self, ev):
        return {"bar": "set_market_status", "dep": "deposit", "wd": "withdraw"}[ev["op"]]

    def do(self, ev, prev):
        from demeter.gmx._typing2 import GmxV2MarketStatus
        op = ev["op"]
        if op == "bar":
            if prev["row"] != 0:
                self.market.update()
            self.market.set_market_status(GmxV2MarketStatus(g.ts_of(ev["row"]), None), None)
            return None
        if op == "dep":
            return self.market.deposit(float(ev["la"]), float(ev["sa"]))
        return self.market.withdraw(None) if ev["all"] else self.market.withdraw(float(ev["amt"]))

    def wallet(self):
        return {k.name.lower(): v.balance for k, v in self.broker._assets.items()}

    def holdings(self):
        return {"gm": self.market.amount}

    def spec_wallet(self, st):
        return {"weth": st["wl"], "usdc": st["ws"]}

    def spec_holdings(self, st):
        return {"gm": st["gm"]}

    def usd_price(self, row, name):
        return frac(float(row["lp"])) if name == "weth" else frac(float(row["sp"]))

    def prices(self, row, quote):
        from demeter._typing import USD
        unit = Fraction(1) if quote == "usd" else self.usd_price(row, "weth")
        p = {"WETH": g.to_dec(self.usd_price(row, "weth") / unit), "USDC": g.to_dec(self.usd_price(row, "usdc") / unit),
             "USD": g.to_dec(1 / unit)}
        self.broker.quote_token = USD if quote == "usd" else self.weth
        return p

    def debits(self, ev):
        return ["weth", "usdc"] if ev["op"] == "dep" else []

    def redeem_request(self, ev):
        if ev["op"] != "wd" or ev["all"]:
            return None
        return ev["amt"]

    def held(self):
        return self.market.amount

    def balance_fields(self, st, last):
        b = last["bal"]
        return {"gm_amount": b["gm"], "long_amount": b["long"], "short_amount": b["short"], "net_value": b["net"]}

    def credit(self, last):
        return last["res"]["credit"] if last["ev"]["op"] == "dep" and last["out"] == "ok" else Fraction(0)

    def is_mint(self, ev):
        return ev["op"] == "dep"

    def round_trip(self, ev, ret, row, last):
        if not ret.gm_amount > 0:
            return None
        b2, m2 = copy.deepcopy((self.broker, self.market))
        back = m2.withdraw(ret.gm_amount)
        return frac(back.total_usd), frac(ret.total_usd), last["res"]["credit"]


# ------------------------------------------------------------------------------------------------
def snapshot(ad):
    """What C04 names: wallet balances, the market's holdings (and every other plain attribute of the market object
    except the status / refresh flags), the action log."""
    skip = {"has_update", "is_open", "fee_calls", "_data", "data_path", "broker", "logger", "_market_status", "_price_status",
            "_record_action_callback", "open", "_market_info", "pool", "pool_config", "_tokens", "quote_token"}
    fields = {k: copy.deepcopy(v) for k, v in vars(ad.market).items() if k not in skip}
    return {"wallet": dict(ad.wallet()), "market": fields, "actions": [id(a) for a in ad.acts]}


def snap_diff(a, b):
    d = []
    for part in ("wallet", "market"):
        for k in sorted(set(a[part]) | set(b[part])):
            x, y = a[part].get(k, "<absent>"), b[part].get(k, "<absent>")
            if not (x == y):
                d.append(f"{part}.{k}: {x} -> {y}")
    if a["actions"] != b["actions"]:
        d.append(f"action log: {len(a['actions'])} -> {len(b['actions'])} records")
    return d


def msg_class(e: Exception) -> str:
    return f"{type(e).__name__}: " + re.sub(r"-?\d[\d.,E+\-]*", "#", str(e))[:70]


def cnt(chk, owner, clause, n=1):
    chk.count(f"{owner}/{DOM}/{clause}", n)
    chk.evaluations += n


def other(chk, clause):
    chk.count(f"other/C17/{clause}")


def evs(ev):
    return {k: (float(v) if isinstance(v, Fraction) else v) for k, v in ev.items()}


# ------------------------------------------------------------------------------------------------
def replay(chk: Check, owner: str, A, df, rows, states, seen=None, keys=None):
    ad = A(df, states[0]["st"])
    prev = states[0]["st"]
    row = None

    def rp(i):
        return {"kind": "gmx_cross", "owner": owner, "market": ad.kind, "rows": {str(k): v for k, v in rows.items()},
                "states": states[: i + 1]}

    def bad(i, entry, clause, klass, text):
        chk.violation(f"{ad.cls}.{entry}|{clause}|{klass}", text, rp(i))

    for i in range(1, len(states)):
        s = states[i]
        st, last = s["st"], s["last"]
        ev, out = last["ev"], last["out"]
        op = ev["op"]
        check = seen is None or keys[i] not in seen
        if not check and not seen[keys[i]]:
            return
        if check and seen is not None:
            seen[keys[i]] = False
        entry = ad.entry(ev)
        frozen = op != "bar" and row is not None
        before = snapshot(ad) if check else None
        nv0 = None
        if check and owner == "C03" and frozen:
            nv0 = frac(ad.broker.get_account_status(ad.prices(row, "usd")).net_value)
        held0 = ad.held()
        w0 = ad.wallet()
        ret = err = None
        try:
            ret = ad.do(ev, prev)
        except Exception as e:  # any exception = rejected
            err = e
        if op == "bar":
            row = last["rowdata"]
        if check:
            # ---------------- C04 -----------------------------------------------------------------------
            if err is not None:
                cause = f"{entry}|{msg_class(err)}"
                rc = chk.extra.setdefault(f"{DOM}_reject_causes", [])
                if cause not in rc:
                    rc.append(cause)
                    rc.sort()
                if owner == "C04":
                    cnt(chk, owner, "rejected_call_leaves_wallet_positions_actions_intact")
                    d = snap_diff(before, snapshot(ad))
                    if d:
                        bad(i, entry, "state_changed_by_rejected_call", msg_class(err).split(":")[0],
                            f"{ad.cls}.{entry}({evs(ev)}) raised {type(err).__name__}: {err} but changed " + "; ".join(d[:6]))
                        return
            # ---------------- C03 -----------------------------------------------------------------------
            if owner == "C03" and frozen:
                pr = ad.prices(row, "usd")
                nv1 = frac(ad.broker.get_account_status(pr).net_value)
                dust = sum((DUST * abs(frac(w0[t])) * ad.usd_price(row, t) for t in ad.debits(ev) if t in w0), Fraction(0))
                slack = ad.rel * max(abs(nv0), abs(nv1))
                credit = ad.credit(last) * (1 + REL9)
                cnt(chk, owner, "net_value_not_raised_by_call")
                if nv1 > nv0 + dust + slack + credit:
                    bad(i, entry, "net_value_raised", "accepted" if err is None else "rejected",
                        f"frozen market (row {prev['row']}): {ad.cls}.{entry}({evs(ev)}) {'returned' if err is None else 'raised'}; account "
                        f"net value {float(nv0):.12g} -> {float(nv1):.12g} (+{float(nv1 - nv0):.6g}, dust allowance {float(dust):.3g})")
                    return
                if nv1 > nv0 + dust + slack:
                    chk.extra[f"{DOM}_info_value_credited_by_impact_pool"] = chk.extra.get(f"{DOM}_info_value_credited_by_impact_pool", 0) + 1
                cnt(chk, owner, "no_negative_balance_or_holding")
                neg = [f"wallet {k} {v}" for k, v in ad.wallet().items() if v < 0] + [f"{k} {v}" for k, v in ad.holdings().items() if v < 0]
                if neg:
                    bad(i, entry, "negative_holding", op, f"after {ad.cls}.{entry}({evs(ev)}): " + ", ".join(neg))
                    return
                req = ad.redeem_request(ev)
                if req is not None and err is None:
                    cnt(chk, owner, "pays_out_no_more_than_held")
                    if req > frac(held0) * (1 + (REL9 if ad.kind == "v2" else 0)):
                        bad(i, entry, "pays_out_more_than_held", op,
                            f"{ad.cls}.{entry}({float(req):.9g}) accepted while {held0} were held; returned {ret!r:.200}")
                        return
            # ---------------- spec / code agreement (C17's business: never alarmed here) ------------------
            other(chk, "outcome")
            if (err is None) != (out == "ok") and not last.get("band"):
                other(chk, "outcome_differs")
                return
            sw, sh = ad.spec_wallet(st), ad.spec_holdings(st)
            cw, ch = ad.wallet(), ad.holdings()
            other(chk, "state")
            if any(not close(cw.get(k, 0), v, rel=ad.rel) for k, v in sw.items()) or any(not close(ch[k], v, rel=ad.rel) for k, v in sh.items()):
                other(chk, "state_differs")
                return
            # ---------------- C03 round trip ---------------------------------------------------------------
            if owner == "C03" and err is None and ad.is_mint(ev):
                try:
                    rt = ad.round_trip(ev, ret, row, last)
                except Exception as e:
                    rt = None
                    other(chk, f"round_trip_probe_raised_{type(e).__name__}")
                if rt is not None:
                    got, paid, allow = rt
                    cnt(chk, owner, "round_trip_never_profits")
                    if got > (paid + allow) * (1 + (REL9 if ad.kind == "v2" else 0)):
                        bad(i, entry, "round_trip_profit", op,
                            f"{ad.cls}.{entry}({evs(ev)}) then redeeming the minted shares at once in row {st['row']}: paid {float(paid):.12g}, "
                            f"received {float(got):.12g}")
                        return
            # ---------------- C01 ------------------------------------------------------------------------
            if owner == "C01" and row is not None:
                bal = ad.market.get_market_balance()
                for f, exp in ad.balance_fields(st, last).items():
                    cnt(chk, owner, f"market_balance_{f}")
                    if not close(getattr(bal, f), exp, rel=ad.rel):
                        bad(i, "get_market_balance", f"market_balance_{f}", op,
                            f"{type(bal).__name__}.{f} = {getattr(bal, f)} after {evs(ev)} in row {st['row']}; independent valuation "
                            f"{float(exp):.15g}")
                        return
                for q, key in (("usd", "usd"), (ad.quote2, ad.quote2)):
                    pr = ad.prices(row, "usd" if q == "usd" else "other")
                    stat = ad.broker.get_account_status(pr)
                    exp = last["acct"][key]
                    got = {"asset": stat.asset_value, "net": stat.net_value}
                    ms = stat.market_status[ad.market.market_info].net_value
                    for f in ("asset", "net"):
                        cnt(chk, owner, f"account_{f}_value_{'usd' if q == 'usd' else 'weth'}_quote")
                        if not close(got[f], exp[f], rel=ad.rel):
                            bad(i, "get_account_status", f"account_{f}_value", f"{'usd' if q == 'usd' else 'weth'}_quote",
                                f"Broker.get_account_status (account quoted in {'USD' if q == 'usd' else 'WETH'}, {ad.cls} quoted in USD) "
                                f"{f} value {got[f]} after {evs(ev)} in row {st['row']}; wallet x prices + market value x quote price = "
                                f"{float(exp[f]):.15g} (wallet {float(exp['asset']):.12g}, market {float(exp['market']):.12g})")
                            return
                    cnt(chk, owner, "account_market_status_net_value")
                    if not close(ms, last["acct"]["usd"]["market"], rel=ad.rel):
                        bad(i, "get_account_status", "account_market_status_net_value", op,
                            f"AccountStatus.market_status[{ad.cls}].net_value {ms}; independent valuation {float(last['acct']['usd']['market']):.15g}")
                        return
                ad.prices(row, "usd")
            if seen is not None:
                seen[keys[i]] = True
        prev = st


# ------------------------------------------------------------------------------------------------
def run_cross(chk: Check, owner: str):
    assert owner in ("C01", "C03", "C04"), owner
    quick = chk.tier == "quick"
    sides = (V1, V2)

    # non-vacuity of the owner's spec property: the DEV companion configurations must be rejected by TLC
    def dev(job):
        A, cfg, inv = job
        r = g.retry(tlc.run, A.spec, MC / cfg, chk.tmp, workers=2, timeout=600)
        return cfg, inv, r.violated

    def graph(A):
        return A, g.retry(tlc.dump_graph, A.spec, MC / (A.cfg if quick else A.deep), chk.tmp, workers=6 if quick else 8, timeout=1500)

    with ThreadPoolExecutor(4) as ex:
        fd = [ex.submit(dev, (A, c, i)) for A in sides for c, i in A.devs[owner]]
        fg = [ex.submit(graph, A) for A in sides]
        det = chk.extra.setdefault(f"{DOM}_dev_switch_detected", {})
        for f in fd:
            cfg, inv, violated = f.result()
            det[f"{owner}:{cfg}"] = inv in violated
            if inv not in violated:
                raise RuntimeError(f"vacuous: {cfg} does not violate {inv} (violated: {violated})")
        graphs = [f.result() for f in fg]
    owned = {"C04": {"Prop_RejectLeavesState"}, "C03": {"Prop_C03_NoValueCreation", "Inv_C17_NonNegShares"}, "C01": set()}[owner]
    for A, (res, gr) in graphs:
        cfg = A.cfg if quick else A.deep
        chk.add_tlc(res, f"{DOM}:{cfg}")
        for inv in res.violated:
            if inv in owned:
                chk.violation(f"{A.cls}.spec|{inv}|{cfg}", f"TLC reports {inv} violated in {cfg}",
                              {"kind": "tlc", "run": cfg, "output_tail": res.output[-3000:]})
            else:
                other(chk, f"spec_{inv}")
        if gr is None:
            continue
        nodes = {k: unq(v) for k, v in gr.nodes.items()}
        rows = g.collect_rows(nodes.values())
        df = A.frame(rows, chk.tmp)
        seen = {}
        import random as _random
        # tree paths (every node) + a stratified sample of the non-tree edges (the same event after another history)
        for p in gr.bfs_paths() + gr.sample_paths(gr.edge_paths(), 500 if quick else 8000, _random.Random(chk.seed)):
            replay(chk, owner, A, df, rows, [nodes[k] for k in p], seen, p)
            chk.traces += 1
        if len(chk.samples) < 6:
            p = max(gr.bfs_paths()[:200], key=len)
            chk.sample({"market": A.cls, "owner": owner, "events": [evs(nodes[k]["last"]["ev"]) for k in p[1:]],
                        "spec_outcomes": [nodes[k]["last"]["out"] for k in p[1:]]})
        if not quick:
            res, behs = g.retry(tlc.simulate, A.spec, MC / A.sim, chk.tmp, num=1500, depth=10, seed=chk.seed, workers=8, timeout=1500)
            chk.add_tlc(res, f"{DOM}:{A.sim}(simulate)")
            behs = [[unq(s) for _, s in b] for b in behs if len(b) > 1]
            rows = g.collect_rows(s for b in behs for s in b)
            if rows:
                df = A.frame(rows, chk.tmp)
                for b in behs:
                    replay(chk, owner, A, df, rows, b)
                    chk.traces += 1
    chk.assumptions += {
        "C01": ["gmx: GmxMarket values GLP at the row's glp_price column and rewards at the row's wavax_price (taken as given, as the "
                "code documents); GmxV2Market values GM at poolValue / marketTokensSupply; both markets quote in USD, the account is "
                "quoted once in USD and once in WETH (prices[USD] = 1 / weth price)"],
        "C03": ["gmx: pool rows are frozen between bar events; GLP rows have glp_price = aumInUsdg / supply (as in recorded data), wallet "
                "prices are the row's token prices; a GMX v2 deposit that balances the pool is credited the positive price impact from "
                "the impact pool (capped) - that credit, taken from the spec, is allowed on top of the wallet dust and counted in "
                f"{DOM}_info_value_credited_by_impact_pool"],
        "C04": ["gmx: snapshot = Broker._assets balances, every plain attribute of the market object except status/refresh flags "
                "(glp_amount, reward / amount), the action list given to the Broker's record callback"],
    }[owner]


def replay_cross(chk: Check, r: dict):
    """Re-run one stored behaviour (replay dict with kind == 'gmx_cross') against the working tree; no chk.finish()."""
    rows = {int(k): g.revive(v) for k, v in r["rows"].items()}
    for row in rows.values():
        if "weight" in row:
            row["weight"] = {t: int(w) for t, w in row["weight"].items()}
    states = g.revive(r["states"])
    A = V1 if r["market"] == "v1" else V2
    replay(chk, r["owner"], A, A.frame(rows, chk.tmp), rows, states)
    chk.traces += 1

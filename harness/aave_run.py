"""Common runner of the Aave checks (C10, C11, C12, C13): TLC on spec/Aave.tla, then replay into AaveV3Market."""
from __future__ import annotations

import multiprocessing as mp
import random

from . import tlc
from .common import VERIF, Check

SPEC = VERIF / "spec" / "mc" / "MC_Aave.tla"
MC = SPEC.parent

DEVS = {
    "C04": [("SupplyDebitsBeforeFlagCheck", "P_C04"), ("WithdrawKeepsTrial", "P_C04")],
    "C11": [("BorrowLimitUsesLT", "P_C11")],
    "C12": [("LiqUsesDebtIndex", "P_C12")],
    "C10": [],
    "C13": [],
}

_G = {}


def _steps_from_states(states):
    """states: list of parsed TLC states (dicts with st,last,view,scn) along one behaviour, first = initial."""
    scn = list(states[0]["scn"])
    steps = [(s["last"]["ev"], s["last"]["out"], list(s["last"]["acts"]), s["st"], s["view"]) for s in states[1:]]
    return scn, steps


def _work(job):
    from . import aave_drv
    kind, payload, mode = job
    # the BFS and the simulation configuration may be of different levels (token sets / row tables): each has its own universe
    ukey = "uni_sim" if kind == "beh" and _G.get("universe_sim") is not None else "uni"
    uni = _G.get(ukey)
    if uni is None:
        uni = _G[ukey] = aave_drv.Universe(_G["universe_sim"] if ukey == "uni_sim" else _G["universe"])
    if kind == "path":
        states = [_G["graph"].state(n) for n in payload]
    else:
        states = payload
    scn, steps = _steps_from_states(states)
    counts = {}

    def tally(c):
        counts[c] = counts.get(c, 0) + 1
    probes = []
    mm, at = aave_drv.replay_path(uni, scn, steps, mode, tally, probes, _G.get("owner") == "C11")
    for pr in probes:
        pr["scenario"] = [aave_drv.json_ev(e) for e in scn]
        pr["events"] = [aave_drv.json_ev(s[0]) for s in steps[:pr.get("step", 0) + 1]]
    rep = None
    if mm:
        rep = {"kind": "aave_path", "scenario": scn, "events": [s[0] for s in steps[:at + 1]], "read_mode": mode,
               "failed_step": at, "spec_state": steps[at][3] if at >= 0 else None, "lvl2": "DAI" in uni.tokens,
               "mismatches": [repr(m) for m in mm]}
    sample = {"scenario": [aave_drv.fmt_ev(e) + ":" + e["op"] for e in scn],
              "events": [e["op"] + aave_drv.fmt_ev(e) + "->" + o for e, o, *_ in steps]}
    return [(m.prop, m.clause, m.text) for m in mm], rep, counts, len(steps), sample, probes


def run(chk: Check, owner: str) -> int:
    explore(chk, owner)
    return chk.finish("a case = one behaviour of MC_Aave (BFS spanning-tree path or simulated behaviour) replayed step by step into "
                      "AaveV3Market; non-trivial = contains at least one accepted operation; distinct by event sequence")


def run_cross(chk: Check, owner: str):
    """Aave leg of the cross-market properties C01 / C03 / C04 (no chk.finish)."""
    explore(chk, owner, cross=True)


def explore(chk: Check, owner: str, cross=False):
    quick = chk.tier == "quick"
    for dev, prop in DEVS.get(owner, []) if (not cross or owner == "C04") else []:
        r = tlc.run(SPEC, MC / f"MC_Aave_dev_{dev}.cfg", chk.tmp, workers=8, timeout=600)
        chk.extra.setdefault("dev_switch_detected", {})[f"DEV_{dev}"] = prop in r.violated
        if prop not in r.violated:
            raise RuntimeError(f"vacuous: DEV_{dev} does not violate {prop}")
    # exhaustive BFS (invariants + action properties) with state-graph dump
    if owner == "C12":
        bfs_cfg = "MC_Aave_liq.cfg" if quick else "MC_Aave_liq2.cfg"
    else:
        bfs_cfg = "MC_Aave_quick.cfg" if quick else "MC_Aave_bfs3.cfg"
    res, g = tlc.dump_lazy(SPEC, MC / bfs_cfg, chk.tmp, workers=16, timeout=1500)
    chk.add_tlc(res, "bfs")
    chk.spec_violation(res, "bfs")
    universe = tlc.printed(res.output, "universe")
    if not quick:
        res2 = tlc.run(SPEC, MC / "MC_Aave_thorough.cfg", chk.tmp, workers=16, timeout=2400)
        chk.add_tlc(res2, "bfs-level2 (no replay)")
        chk.spec_violation(res2, "bfs-level2")
    rnd = random.Random(chk.seed)
    jobs = []
    paths = g.tree_paths() if g else []
    budget = (700 if quick else 6000) if cross else (1500 if quick else 12000)
    # spanning-tree paths plus the same events after other histories (non-tree edges); a budgeted sample is stratified by the kinds
    # (operation, outcome) of the last three transitions, so a rare succession (rejected call -> update) is always in it
    paths, chk.exhaustive = tlc.choose_paths(g, paths, budget, rnd) if g else ([], False)
    for i, p in enumerate(paths):
        jobs.append(("path", p, "all" if i % 2 == 0 else "events"))
    # deeper behaviours by simulation
    simcfg = MC / ("MC_Aave_sim.cfg" if quick else "MC_Aave_sim2.cfg")
    sres, behs = tlc.simulate(SPEC, simcfg, chk.tmp, num=(120 if cross else 240) if quick else (2000 if cross else 4000), depth=14 if quick else 22, seed=chk.seed,
                              workers=8, timeout=1500)
    chk.add_tlc(sres, "simulate")
    chk.spec_violation(sres, "simulate")
    for i, b in enumerate(behs):
        jobs.append(("beh", [s for _, s in b], "all" if i % 2 == 0 else "events"))
    _G["universe"], _G["graph"], _G["owner"] = universe, g, owner
    usim = tlc.printed(sres.output, "universe")
    _G["universe_sim"] = usim if usim != universe else None
    all_probes = []
    _G.pop("uni", None)
    _G.pop("uni_sim", None)
    ctx = mp.get_context("fork")
    nontrivial = set()
    with ctx.Pool(16) as pool:
        for mm, rep, counts, nsteps, sample, probes in pool.imap_unordered(_work, jobs, chunksize=8):
            all_probes.extend(probes)
            chk.traces += 1
            chk.evaluations += nsteps
            for c, n in counts.items():
                chk.count(c, n)
            if any("ok" in e for e in sample["events"]):
                nontrivial.add(repr(sample))
                chk.sample(sample, cap=4)
            for prop, clause, text in mm:
                if prop == owner:
                    chk.violation(f"AaveV3Market|{clause}|{rep['events'][-1]['op'] if rep['events'] else 'prefix'}", text, rep)
                else:
                    chk.count(f"other/{prop}/{clause}")
    if not cross:
        all_probes.extend(pinned(chk, owner))
    judge_probes(chk, owner, all_probes)
    chk.extra["distinct_nontrivial"] = chk.extra.get("distinct_nontrivial", 0) + len(nontrivial)
    chk.extra["aave_universe"] = {"tokens": sorted(universe["tokens"]), "rows": len(universe["rows"])}
    chk.assumptions += ["rate_to_apy(rate) is taken from the code as a leaf function; the spec provides the value weights",
                        "risk parameters enter through a harness-generated CSV in the format load_risk_parameter reads"]
    return None


def pinned(chk: Check, owner: str):
    """Behaviours kept from earlier thorough runs (harness/aave_pins.jsonl: event sequences only): the specification recomputes what
    must happen (Trace_AaveProbe kind=path), the real market is stepped through them like any other path."""
    import json
    from . import aave_drv
    f = VERIF / "harness" / "aave_pins.jsonl"
    pins = [json.loads(l) for l in open(f)] if f.exists() else []
    probes = []
    tla = VERIF / "spec" / "trace" / "Trace_AaveProbe.tla"
    for n, pin in enumerate(pins):
        scn, events = pin["scenario"], pin["events"]
        pf = chk.tmp / f"pin_{n}.ndjson"
        pf.write_text(json.dumps({"kind": "path", "scn": scn, "events": events}) + "\n")
        r = tlc.run(tla, tla.parent / ("Trace_AaveProbe2.cfg" if pin.get("lvl2") else "Trace_AaveProbe.cfg"), chk.tmp, workers=1,
                    env={"VERIF_PROBES": str(pf)}, timeout=600)
        exp = tlc.printed(r.output, "probe_results")[0]
        uni = aave_drv.Universe(tlc.printed(r.output, "universe"))
        steps = [(s["ev"], s["out"], list(s["acts"]), s["st"], s["view"]) for s in exp]
        got = []
        mm, at = aave_drv.replay_path(uni, [_tup(e) for e in scn], steps, "events", chk.count, got, owner == "C11")
        uni.close()
        chk.traces += 1
        chk.evaluations += len(steps)
        rep = {"kind": "aave_path", "scenario": scn, "events": events, "read_mode": "events", "lvl2": bool(pin.get("lvl2"))}
        for pr in got:
            pr["scenario"], pr["events"] = scn, events[:pr.get("step", 0) + 1]
        probes.extend(got)
        for m in mm:
            if m.prop == owner:
                chk.violation(f"AaveV3Market|{m.clause}|{events[at]['op'] if at >= 0 else 'prefix'}", m.text, rep)
            else:
                chk.count(f"other/{m.prop}/{m.clause}")
    chk.extra["pinned_behaviours"] = len(pins)
    return probes


def judge_probes(chk: Check, owner: str, probes):
    """Code -> spec leg: TLC (Trace_AaveProbe) evaluates the spec on states/events recorded from the real code."""
    import json
    if not probes:
        return
    # de-duplicate identical probes (same state and event), cap the batch
    seen, uniq = set(), []
    for pr in probes:
        key = json.dumps({k: pr.get(k) for k in ("kind", "st", "st2", "ev", "act", "acts", "tag", "what")}, sort_keys=True, default=list)
        if key not in seen:
            seen.add(key)
            uniq.append(pr)
    rnd = random.Random(chk.seed)
    cap = 4000 if chk.tier == "quick" else 40000
    # the probes of one helper value (bounds / at / at_band / beyond) are judged together: they are kept or dropped as a group, and the
    # order is made independent of the order in which the worker processes delivered them
    groups = {}
    for pr in uniq:
        gk = json.dumps([pr.get("kind"), pr.get("st"), pr.get("helper"), pr.get("token"), pr.get("value")] if pr.get("helper")
                        else {k: pr.get(k) for k in ("kind", "st", "st2", "ev", "act", "acts", "what")}, sort_keys=True, default=list)
        groups.setdefault(gk, []).append(pr)
    keys = sorted(groups)
    if len(uniq) > cap:
        keep, n = [], 0
        for gk in rnd.sample(keys, len(keys)):
            if n + len(groups[gk]) > cap:
                continue
            keep.append(gk)
            n += len(groups[gk])
        keys = sorted(keep)
    order = {"bounds": 0, "at": 1, "at_band": 2, "beyond": 3}
    uniq = [pr for gk in keys for pr in sorted(groups[gk], key=lambda x: order.get(x.get("tag"), 9))]
    tl = [pr for pr in uniq if pr["kind"] in ("step", "liqstep", "liqrun")]
    verdicts = [None] * len(tl)
    if tl:
        tla = VERIF / "spec" / "trace" / "Trace_AaveProbe.tla"
        wall = 0.0
        # the probes of a level-2 universe (token DAI) and of a level-1 universe are evaluated by their own configurations
        for lvl2 in (False, True):
            idx = [i for i, pr in enumerate(tl) if ("DAI" in pr["st"]["w"]) == lvl2]
            if not idx:
                continue
            f = chk.tmp / f"probes_{int(lvl2)}.ndjson"
            with open(f, "w") as fh:
                for i in idx:
                    fh.write(json.dumps({k: tl[i][k] for k in ("kind", "st", "st2", "ev", "act", "acts") if k in tl[i]}, default=list) + "\n")
            r = tlc.run(tla, tla.parent / ("Trace_AaveProbe2.cfg" if lvl2 else "Trace_AaveProbe.cfg"), chk.tmp, workers=1,
                        env={"VERIF_PROBES": str(f)}, timeout=3000)
            vs = list(tlc.printed(r.output, "probe_results"))
            if len(vs) != len(idx):
                raise RuntimeError(f"probe oracle returned {len(vs)} verdicts for {len(idx)} probes")
            for i, v in zip(idx, vs):
                verdicts[i] = v
            wall += r.wall_s
        chk.extra["probe_oracle"] = {"probes": len(tl), "wall_s": round(wall, 1)}
    chk.traces += len({json.dumps((pr["scenario"], pr["events"]), default=list) for pr in uniq})
    vi = iter(verdicts)
    band = {}
    for pr, v in zip(tl, verdicts):
        if pr.get("tag") == "at_band":
            band[(json.dumps(pr["st"], sort_keys=True), pr["helper"], pr["token"])] = v
    for pr in uniq:
        rep = {"kind": "aave_probe", **{k: pr.get(k) for k in ("scenario", "events", "helper", "token", "value", "tag", "ev", "act", "what")}}
        k = pr["kind"]
        if k == "helper_raises":
            chk.count("C11/helper_callable")
            if owner == "C11":
                chk.violation("AaveV3Market|helper_raises|", pr["what"], rep)
            continue
        if k == "liq_no_record":
            chk.count("C12/step_has_record")
            if owner == "C12":
                chk.violation("AaveV3Market|liquidation_record|", pr["what"], rep)
            continue
        v = next(vi)
        if k == "liqrun":
            chk.count("C12/liq_run_relation(trace)")
            if v != "ok" and owner == "C12":
                chk.violation("AaveV3Market|liq_run_relation|", f"update(): liquidation run with steps {pr['acts']} violates LiqRunOK "
                              "(iff HF<1 / wallet untouched / each debt once / end condition)", {**rep, "acts": pr["acts"]})
            continue
        if k == "liqstep":
            chk.count("C12/liq_step_relation(trace)")
            if v != "ok" and owner == "C12":
                chk.violation(f"AaveV3Market|liq_step_relation|{pr['act']['collateral']}-{pr['act']['debt']}",
                              f"recorded liquidation step {pr['act']['collateral']}/{pr['act']['debt']} violates LiqStepOK", rep)
            continue
        tag, h = pr["tag"], pr["helper"]
        if tag == "at_band":
            continue
        chk.count(f"C11/{h}_{tag}")
        if owner != "C11":
            continue
        what = f"{h}({pr['token']}) = {pr['value']}"
        if tag == "bounds" and not pr["ok"]:
            chk.violation(f"AaveV3Market|{h}_bounds|", f"{what} is outside [0, supplied {pr['supplied']}]", rep)
        elif tag == "at":
            if pr["code_out"] != "ok":
                chk.violation(f"AaveV3Market|{h}_not_accepted|", f"{what} is rejected by the code", rep)
            elif v != "ok" and band.get((json.dumps(pr["st"], sort_keys=True), h, pr["token"])) not in ("ok", None):
                chk.violation(f"AaveV3Market|{h}_beyond_limit|", f"{what} exceeds the limit of the specification", rep)
        elif tag == "beyond":
            if v == "reject" and pr["code_out"] == "ok":
                chk.violation(f"AaveV3Market|{h}_beyond_accepted|", f"{what}: an amount 0.1% beyond it is accepted but beyond the limit", rep)
            elif v == "ok":
                chk.count("info/helper_not_tight")


def _tup(x):
    return tuple(_tup(i) for i in x) if isinstance(x, list) else ({k: _tup(v) for k, v in x.items()} if isinstance(x, dict) else x)


def replay(chk: Check, path: str, owner: str) -> int:
    """Re-run a recorded scenario against the working tree; the expected behaviour is recomputed by TLC."""
    import json
    from . import aave_drv
    rep = json.load(open(path))["replay"]
    scn, events = rep["scenario"], rep["events"]
    lvl2 = rep.get("lvl2", any(e.get("t") == "DAI" or e.get("with") == "DAI" for e in scn + events)
                   or any(e.get("op") == "nextbar" and e.get("row", 0) > 8 for e in events))
    f = chk.tmp / "probes.ndjson"
    f.write_text(json.dumps({"kind": "path", "scn": scn, "events": events}) + "\n")
    tla = VERIF / "spec" / "trace" / "Trace_AaveProbe.tla"
    r = tlc.run(tla, tla.parent / ("Trace_AaveProbe2.cfg" if lvl2 else "Trace_AaveProbe.cfg"), chk.tmp, workers=1,
                env={"VERIF_PROBES": str(f)}, timeout=600)
    exp = tlc.printed(r.output, "probe_results")[0]
    universe = tlc.printed(r.output, "universe")
    uni = aave_drv.Universe(universe)
    steps = [(s["ev"], s["out"], list(s["acts"]), s["st"], s["view"]) for s in exp]
    probes = []
    mm, at = aave_drv.replay_path(uni, [_tup(e) for e in scn], steps, rep.get("read_mode", "all"), chk.count, probes, owner == "C11")
    chk.traces += 1
    chk.evaluations += len(steps)
    for pr in probes:
        pr["scenario"], pr["events"] = scn, events[:pr.get("step", 0) + 1]
    for m in mm:
        print(f"  mismatch at step {at}: {m}")
        if m.prop == owner:
            chk.violation(f"AaveV3Market|{m.clause}|{events[at]['op'] if at >= 0 else 'prefix'}", m.text, rep)
    judge_probes(chk, owner, probes)
    chk.sample({"scenario": scn, "events": events})
    uni.close()
    return chk.finish("replay of one recorded scenario; expected behaviour recomputed by TLC (Trace_AaveProbe kind=path)")

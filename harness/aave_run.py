"""Common runner of the Aave checks (C10, C11, C12, C13): TLC on spec/Aave.tla, then replay into AaveV3Market."""
from __future__ import annotations

import multiprocessing as mp
import random

from . import tlc
from .common import VERIF, Check

SPEC = VERIF / "spec" / "mc" / "MC_Aave.tla"
MC = SPEC.parent

DEVS = {
    "C04": [("SupplyDebitsBeforeFlagCheck", "P_C04"), ("WithdrawKeepsTrial", "P_C04")],
    "C11": [("BorrowLimitUsesLT", "P_C11")],
    "C12": [("LiqUsesDebtIndex", "P_C12")],
    "C10": [],
    "C13": [],
}

_G = {}


def _steps_from_states(states):
    """states: list of parsed TLC states (dicts with st,last,view,scn) along one behaviour, first = initial."""
    scn = list(states[0]["scn"])
    steps = [(s["last"]["ev"], s["last"]["out"], list(s["last"]["acts"]), s["st"], s["view"]) for s in states[1:]]
    return scn, steps


def _work(job):
    from . import aave_drv
    kind, payload, mode = job
    uni = _G.get("uni")
    if uni is None:
        uni = _G["uni"] = aave_drv.Universe(_G["universe"])
    if kind == "path":
        states = [_G["graph"].state(n) for n in payload]
    else:
        states = payload
    scn, steps = _steps_from_states(states)
    counts = {}

    def tally(c):
        counts[c] = counts.get(c, 0) + 1
    mm, at = aave_drv.replay_path(uni, scn, steps, mode, tally)
    rep = None
    if mm:
        rep = {"kind": "aave_path", "scenario": scn, "events": [s[0] for s in steps[:at + 1]], "read_mode": mode,
               "failed_step": at, "spec_state": steps[at][3] if at >= 0 else None,
               "mismatches": [repr(m) for m in mm]}
    sample = {"scenario": [aave_drv.fmt_ev(e) + ":" + e["op"] for e in scn],
              "events": [e["op"] + aave_drv.fmt_ev(e) + "->" + o for e, o, *_ in steps]}
    return [(m.prop, m.clause, m.text) for m in mm], rep, counts, len(steps), sample


def run(chk: Check, owner: str) -> int:
    quick = chk.tier == "quick"
    for dev, prop in DEVS.get(owner, []):
        r = tlc.run(SPEC, MC / f"MC_Aave_dev_{dev}.cfg", chk.tmp, workers=8, timeout=600)
        chk.extra.setdefault("dev_switch_detected", {})[f"DEV_{dev}"] = prop in r.violated
        if prop not in r.violated:
            raise RuntimeError(f"vacuous: DEV_{dev} does not violate {prop}")
    # exhaustive BFS (invariants + action properties) with state-graph dump
    res, g = tlc.dump_lazy(SPEC, MC / ("MC_Aave_quick.cfg" if quick else "MC_Aave_bfs3.cfg"), chk.tmp, workers=16,
                           timeout=1500)
    chk.add_tlc(res, "bfs")
    chk.spec_violation(res, "bfs")
    universe = tlc.printed(res.output, "universe")
    if not quick:
        res2 = tlc.run(SPEC, MC / "MC_Aave_thorough.cfg", chk.tmp, workers=16, timeout=2400)
        chk.add_tlc(res2, "bfs-level2 (no replay)")
        chk.spec_violation(res2, "bfs-level2")
    rnd = random.Random(chk.seed)
    jobs = []
    paths = g.tree_paths() if g else []
    budget = 1500 if quick else 12000
    chk.exhaustive = len(paths) <= budget
    if len(paths) > budget:
        paths = rnd.sample(paths, budget)
    for i, p in enumerate(paths):
        jobs.append(("path", p, "all" if i % 2 == 0 else "events"))
    # deeper behaviours by simulation
    simcfg = MC / ("MC_Aave_sim.cfg" if quick else "MC_Aave_sim2.cfg")
    sres, behs = tlc.simulate(SPEC, simcfg, chk.tmp, num=240 if quick else 4000, depth=14 if quick else 22, seed=chk.seed,
                              workers=8, timeout=1500)
    chk.add_tlc(sres, "simulate")
    chk.spec_violation(sres, "simulate")
    for i, b in enumerate(behs):
        jobs.append(("beh", [s for _, s in b], "all" if i % 2 == 0 else "events"))
    _G["universe"], _G["graph"] = universe, g
    _G.pop("uni", None)
    ctx = mp.get_context("fork")
    nontrivial = set()
    with ctx.Pool(16) as pool:
        for mm, rep, counts, nsteps, sample in pool.imap_unordered(_work, jobs, chunksize=8):
            chk.traces += 1
            chk.evaluations += nsteps
            for c, n in counts.items():
                chk.count(c, n)
            if any("ok" in e for e in sample["events"]):
                nontrivial.add(repr(sample))
                chk.sample(sample, cap=4)
            for prop, clause, text in mm:
                if prop == owner:
                    chk.violation(f"AaveV3Market|{clause}|{rep['events'][-1]['op'] if rep['events'] else 'prefix'}", text, rep)
                else:
                    chk.count(f"other/{prop}/{clause}")
    chk.extra["distinct_nontrivial"] = len(nontrivial)
    chk.extra["universe"] = {"tokens": sorted(universe["tokens"]), "rows": len(universe["rows"])}
    chk.assumptions += ["rate_to_apy(rate) is taken from the code as a leaf function; the spec provides the value weights",
                        "risk parameters enter through a harness-generated CSV in the format load_risk_parameter reads"]
    return chk.finish("a case = one behaviour of MC_Aave (BFS spanning-tree path or simulated behaviour) replayed step by step into "
                      "AaveV3Market; non-trivial = contains at least one accepted operation; distinct by event sequence")


def replay(chk: Check, path: str, owner: str) -> int:
    raise NotImplementedError

"""Generate /verif/MANIFEST.json from the table below (python -m harness.manifest)."""
import json
from pathlib import Path

VERIF = Path(__file__).resolve().parent.parent
ALL = [f"C{i:02d}" for i in range(1, 21)]

TRUSTED = ("TLC 1.8 and the JVM; the TLA+ value parser and replay harness under /verif/harness; the projection from "
           "real objects to the abstract state; bounded universes stated in the evidence file")

CHECKS = {
    "C18": dict(
        technique="TLA+ spec (Triggers.tla: denotation FireSet vs operational When/OutDate) model-checked by TLC over every "
                  "grid x trigger configuration; every terminal state of the TLC graph replayed through the real Actuator bar loop",
        text="TLC proves on the bounded universe that the operational trigger semantics equals the denotation and that retirement "
             "is safe; each TLC-enumerated configuration (single triggers exhaustively, pairs by simulation) is then executed by "
             "the real Actuator.run and firing times, call counts, kwargs and retirement are compared with the spec's terminal state",
        design="3/C18"),
}

AAVE_TECH = ("TLA+ spec Aave.tla (cache-free state machine of AaveV3Market, rationals) model-checked by TLC (BFS + simulation, "
             "action properties P_C03/C04/C10/C11/C12, DEV switches); behaviours replayed into the real AaveV3Market with state, "
             "action records and every derived view compared after each step; states/events recorded from the code validated by "
             "the TLA+ trace spec Trace_AaveProbe")
CHECKS.update({
    "C10": dict(technique=AAVE_TECH, design="3/C10",
                text="TLC checks on the bounded universe that every operation moves exactly the stated amounts, that a new bar only "
                     "rescales balances by the index ratio and that exhausted positions disappear; each TLC behaviour (BFS spanning "
                     "tree of the depth-bounded graph from 4-6 initial portfolios, plus simulated behaviours of depth 14-22) is "
                     "replayed into AaveV3Market and wallet, scaled balances, amounts (1e-18) and action records are compared"),
    "C11": dict(technique=AAVE_TECH, design="3/C11",
                text="TLC checks the borrow / withdraw / collateral-flag guards (HF >= 1 after, debt covered by collateral x max LTV) "
                     "on every transition; replay compares the accept/reject outcome of every borrow/withdraw/change_collateral and "
                     "the health factor, max LTV, liquidation threshold and LTV with the spec; the helper amounts "
                     "(get_max_withdraw_amount / get_max_borrow_amount, the code's exact Decimals) are sent back to TLC, which "
                     "decides acceptance of the amount itself, a 1e-24 band and 0.1% beyond it"),
    "C12": dict(technique=AAVE_TECH, design="3/C12",
                text="the spec's liquidation loop follows the code's pair policy and TLC checks every step against the relational "
                       "property LiqStepOK and the run against the iff/end conditions; in the other direction every liquidation step "
                       "the real update() performs (state before, after, action record; harness-side wrapper) and every whole run is "
                       "validated by TLC against LiqStepOK / LiqRunOK, so a different but legal pair or a smaller repayment does not alarm"),
    "C13": dict(technique=AAVE_TECH, design="3/C13",
                text="the spec has no caches: View(st) defines every derived figure from positions, indices and prices; after every "
                     "event of every replayed behaviour (accepted, rejected, new bar, liquidation), in two read schedules (all views "
                     "after every step / only at explicit read events), the real market's views are compared with View(st)"),
})

DERIBIT_TECH = ("TLA+ spec Deribit.tla (option account, visible order book, settlement) model-checked by TLC (BFS + simulation, "
                "state invariants and Act_C15_*/Act_C16_* action properties, DEV switches); TLC behaviours replayed into the real "
                "DeribitOptionMarket (C15: direct calls; C16: through the real Actuator bar loop) with every step compared")
CHECKS.update({
    "C15": dict(technique=DERIBIT_TECH, design="3/C15",
                text="TLC explores books of 0-4 levels (zero and fractional sizes) x cash x order sizes x market/limit/cap pricing on "
                     "both sides, deposits, withdrawals and a refresh, and checks fills, fee rule, cash ledger, position balance; "
                     "each graph path and simulated behaviour is replayed into DeribitOptionMarket and returned orders, fee, cash, "
                     "positions, both instruments' asks/bids and equity are compared exactly after every step"),
    "C16": dict(technique=DERIBIT_TECH, design="3/C16",
                text="TLC explores holdings of a call and a put over underlying paths around the strike, expiries on / between / off "
                     "hourly bars and before/after the window, delisted instruments, on five bar grids (hourly alone, minutely with a "
                     "minutely co-market, only hours with rows, a co-market resampled to 15-minute bars, the option market alone on a "
                     "two-hour grid with decoy books in the hours between); each behaviour becomes synthetic market data and a scripted strategy "
                     "run through the real Actuator; Deliver/Expired records, balance and positions per bar and trade rejection on "
                     "closed bars are compared with the spec"),
})

CHECKS["C05"] = dict(
    technique="TLA+ spec BarLoop.tla (one action per phase of Actuator.run) model-checked by TLC; recorded traces of the real "
              "Actuator.run (harness-side wrappers) validated event by event by the trace spec Trace_BarLoop; TLC-enumerated scripts "
              "executed by the real bar loop and compared with the predicted event sequence",
    design="3/C05",
    text="TLC enumerates every script within a per-configuration budget (operations per hook, triggers, update-emitted records) over "
         "1/5/60-minute grids and minutely+hourly market mixes and checks BarsInOrder, PhaseOrder, Stamp, NotifyOnce, RowPerBar; every "
         "exported script plus seeded random scripts and a real UniLpMarket mix is run by the real Actuator and its trace must be "
         "accepted by Trace_BarLoop (each event takeable as the next spec action); operations issued inside notify() are part of the "
         "scripts; the real markets of every type (Uniswap, Aave, Squeeth + pool, Deribit, GMX v1/v2, a minutely market next to an option "
         "book with more rows than minutes, the option market alone under minutely prices) run under the same recorder on 1-minute and "
         "resampled grids; a trace rejected by a clause beyond the statement is re-evaluated as a whole by Trace_BarLoopCore so that a "
         "violation of the statement is not hidden; corrupted traces must be rejected")

CHECKS["C06"] = dict(
    technique="TLA+ spec TickMath.tla (protocol algorithm over exact naturals, floor relation, closed-form bracket, price and "
              "nearest-usable relations); recorded calls of the real helpers validated by TLC with the trace spec Trace_TickMath",
    design="3/C06",
    text="exhaustive over all 1,774,545 ticks: get_sqrt_ratio_at_tick equals the spec's transcription of TickMath and the spec's values "
         "are strictly increasing with the protocol's boundary constants; floor relation S(t) <= p < S(t+1) checked for recorded "
         "sqrt_price_x96_to_tick calls on and between boundaries of a tick sample; closed-form bracket with integers for |t| <= 2048, "
         "powers of two, boundaries and a seeded sample; tick->price->tick within one tick for 9 decimals pairs x 2 orientations and "
         "through UniLpMarket; nearest_usable_tick against the nearest-multiple relation")
CHECKS["C17"] = dict(
    technique="TLA+ specs GmxV1.tla / GmxV2.tla (Vault fee rule, mint/redeem with the contract's floors, v2 price impact and fee factors "
              "over exact rationals) model-checked by TLC (BFS + simulation, invariants, DEV switches); behaviours replayed into the real "
              "GmxMarket / GmxV2Market with a real Broker, every step compared",
    design="3/C17",
    text="TLC explores pool rows (token below/at/above target weight, target 0, 6-decimals token, aum/supply ratios; v2 balanced / "
         "long-heavy / short-heavy pools x impact pool x virtual inventory) and buy/sell, deposit/withdraw sequences, checking fee "
         "bounds, fee within 1 bp of the Vault rule, round trips, non-negative shares, value per share; each behaviour is replayed into "
         "the real markets and return values, wallet, shares, balances, fee bps, reward and action records are compared "
         "(v1 1e-30, v2 float pipeline 1e-9)")

CHECKS["C07"] = dict(
    technique="TLA+ spec LiqMath.tla (protocol LiquidityAmounts with its floors, closed-form amounts, the clauses as relations over exact "
              "rationals); TLC enumerates the case lattice (MC_LiqMath); recorded instances of the real functions validated by TLC with "
              "the trace spec Trace_LiqMath",
    design="3/C07",
    text="TLC enumerates region x range kind (narrow, wide, touching MIN/MAX tick, single spacing) x decimals x amount classes (0, 1 wei, "
         "typical, 1e12 tokens); each case is instantiated with seeded ticks, prices (incl. exactly on range bounds and one unit inside) and "
         "amounts; get_liquidity/get_amounts via V3CoreLib.new_position/close_position and UniLpMarket.add_liquidity_by_tick/"
         "remove_liquidity are recorded and TLC checks no over-spend, maximality up to the stated rounding allowance, one-sidedness, "
         "non-negativity, closed form at 1e-30, monotonicity in price, proportionality and the exact round trip, and the same clauses for "
         "the spec's own functions")

UNI_TECH = ("TLA+ spec UniLp.tla (positions, wallet, per-bar fee with the tick-path fraction, buy/sell) over the exact tick and "
            "liquidity math of TickMath.tla/LiqMath.tla, model-checked by TLC through MC_UniLp, which runs both token orientations "
            "in lockstep (self-composition); behaviours replayed through the real Actuator bar loop into UniLpMarket in both orientations")
CHECKS["C08"] = dict(technique=UNI_TECH, design="3/C08",
    text="TLC checks on every bar end of the bounded graph that each position's fee is non-negative, zero when the path misses the "
         "range, never above the single-position share and equal to volume x fee rate x path fraction x own/(pool+own) for a single "
         "position, with the path starting at the previous bar's close whatever was written in the bar (DEV switches for the two "
         "deviations); every behaviour (all (previous close, close) pairs over ticks on, next to and far from the range bounds, pool "
         "liquidity 0 / L / 1000L, unrelated writes and swaps in the same bar - in on_bar and, after the bar's update, in after_bar -, "
         "positions lent out and returned, integer and float tick columns) is run through the real Actuator - one in five on a resampled 5-minute grid, each bar supplied as five 1-minute rows, so "
         "that the aggregation rules of the data layer are in the loop - and the per-bar pending deltas are compared with the spec")
CHECKS["C09"] = dict(technique=UNI_TECH, design="3/C09",
    text="MC_UniLp steps a token0-is-quote pool and its mirror (ticks negated, ranges mirrored, volumes swapped) with the same "
         "base/quote events and TLC checks outcome, wallet, liquidity, pending fees and net value agree to 1e-12; each behaviour is "
         "executed on two real UniLpMarket instances; each must follow its own spec state and the two real runs must agree with "
         "each other in base/quote terms (fee paths with an endpoint exactly on a range bound are excluded: half-open range test); the "
         "helpers that are not operations of UniLp.tla (price_to_tick, add_liquidity by price, add_liquidity_by_value in every swap "
         "branch, even_rebalance, swap, estimate_amount / estimate_liquidity, remove_all_liquidity) are instantiated from the TLC-enumerated "
         "case lattice of UniMirror.tla (price region x range shape x wallet composition x half-way ticks) on both orientations and the "
         "result pairs are validated by TLC against UniMirror!MirrorOK")
CHECKS["C20"] = dict(
    technique="TLA+ spec Metrics.tla (drawdown three ways, returns, relational annualisation and volatility with certified "
              "enclosures over exact rationals); TLC enumerates series/benchmark cases as behaviours (MC_Metrics, 8 invariants, DEV "
              "switch) and prints each case with the expected values; cases replayed into the real metric functions",
    design="3/C20",
    text="every series of length 2..5 (thorough 2..6) over {1,2,3,5,8} x value families x sampling intervals x benchmark families, plus "
         "TLC-simulated series up to length 200, is evaluated by TLC and replayed into max_draw_down, return_rate, return_rate_series, "
         "return_multiple, annualized_return (all input forms), volatility, sharpe_ratio, alpha_beta and performance_metrics at 1e-9 "
         "relative (annualisation and volatility through their defining relations, exactly)")

CHECKS["C14"] = dict(
    technique="TLA+ spec Squeeth.tla / SqueethTwap.tla (vault state machine, relational geometric TWAP, reduce-debt and liquidation) "
              "model-checked by TLC (operation graph, simulated back-tests, DEV switches); every graph edge replayed into the real "
              "SqueethMarket, simulated back-tests run through the real Actuator, observed TWAP values validated by the trace spec "
              "Trace_SqueethTwap",
    design="3/C14",
    text="TLC explores vault operation sequences with amounts computed at each state's limits (exact mint/withdraw limit, +-1e-6, the "
         "0.5 ETH line, mints landing exactly on 1.5x at another price) with and without LP collateral and checks accepted-only-if-safe, "
         "safe-stays-safe for accepted and raised calls, exact movement, liquidation iff below 1.5x and its amounts; every edge is replayed "
         "by direct calls, 10-bar back-tests run through Actuator.run with live TWAP, each get_twap_price validated relationally by TLC - "
         "on 1-minute bars and on resampled 5- and 60-minute bars, where the window is the span of time SqueethTwap!TwapWindow denotes; "
         "one LP kind carries uncollected fees")

CROSS_TECH = ("TLA+ specs of the wallet (Wallet.tla / MC_Wallet, MC_WalletSwap for Broker.swap_by_from / swap_by_to) and of every market (UniLp.tla, Aave.tla, Squeeth.tla, Deribit.tla, GmxV1.tla, GmxV2.tla) carry the property's "
              "clauses as invariants / action properties, model-checked by TLC (BFS + simulation, DEV switches per market); TLC "
              "behaviours replayed into the real markets under a real Broker (and through the real Actuator where bars matter), the "
              "property's clauses decided on the real objects after every step (harness/cross.py orchestrates the legs: wallet, uniswap, aave, squeeth, deribit, gmx)")
CHECKS["C01"] = dict(technique=CROSS_TECH, design="3/C01",
    text="for each market type TLC explores operation sequences interleaved with bar changes; each behaviour is replayed into the real "
         "market under a real Broker and after every step Broker.get_account_status (net value, wallet value, each market's net value) "
         "and the market balance fields are compared with the spec's valuation of the spec state - Uniswap positions at the bar's pool "
         "price plus pending fees (both orientations), Aave supplies minus debts, Squeeth vaults incl. a lent LP position counted once "
         "(pool valuation), Deribit cash plus options at mark in an ETH-quoted market inside a USDC account (direct and through the "
         "Actuator with a minutely co-market), GMX v1 GLP plus rewards and v2 GM at pool value, account quoted in USD and in WETH")
CHECKS["C03"] = dict(technique=CROSS_TECH, design="3/C03",
    text="TLC checks on every transition of every market specification that net value does not rise beyond wallet dust, that Uniswap "
         "liquidity and Aave operations conserve it up to dust, that swaps lose the reported fee, that no holding is negative and no "
         "operation pays out more than held (amount alphabets incl. 0, exact holding, holding x (1 +- eps), oversized, None; wallet swaps at "
         "two price vectors and fee rates 0 / 0.003 / 0.5 / 1); each "
         "behaviour is replayed and the same clauses are decided on the real account (net value before/after every accepted or raised "
         "call on the frozen status, signs of every holding, accept/reject of over-redemptions)")
CHECKS["C04"] = dict(technique=CROSS_TECH, design="3/C04",
    text="TLC checks Act_C04 (a rejecting Step returns the state unchanged, no action record) on every transition of every market "
         "specification and its coverage shows each rejection cause taken; every replayed call that raises in the real code is "
         "bracketed by deep snapshots (wallet, positions / debts / vaults / options / shares, visible order book, action log) that must "
         "be equal; DEV switches re-create the mutate-before-check defects that were repaired")
CHECKS["C02"] = dict(
    technique="TLA+ spec NoLookahead.tla (which raw rows every observable of bar i is computed from; observations uninterpreted) "
              "model-checked by TLC as a self-composition of two runs over histories sharing a prefix (MC_NoLookahead, DEV switches); "
              "the exported history tree is run through the real Actuator for every market type, interval and script and the recorded "
              "runs are validated by TLC with the trace spec Trace_NoLookahead",
    design="3/C02",
    text="TLC proves Inv_Prefix / Inv_InputsIntact / Inv_Rerun / Inv_ReadsOnlyPast for every configuration (6 market kinds x resampling "
         "factor x 3 scripts), every common prefix and every pair of suffixes (5 bars quick, 6-7 thorough, 3 symbols); every history of "
         "the exported tree is run twice through the real Actuator (rerun on the same input objects, every other chunk after an unrelated "
         "backtest in the same process) and TLC validates that observations (snapshots at call time, account rows, actions, "
         "notifications) are a function of the raw-input prefix, that deep digests of supplied and live frames are unchanged and that "
         "the rerun reproduces every observation; corrupted records must be rejected")
CHECKS["C19"] = dict(
    technique="TLA+ spec Manager.tla (caller + forked workers, task queue with non-deterministic assignment, objects that carry state "
              "between runs abstracted to their histories) model-checked by TLC over every configuration and schedule (DEV switches for "
              "shared config markets / per-process copies / shared broker); every TLC-enumerated configuration executed by the real "
              "BacktestManager.run (sequential in-process, forked in fresh interpreters) and compared with solo runs",
    design="3/C19",
    text="TLC checks for every configuration [market mix, ordered strategy kinds from a family that leaves state behind, threads 1..3] and "
         "every task-to-worker schedule that each finished strategy's result is Run(s, CleanEnv); each configuration is run through the "
         "real BacktestManager (forked runs repeated since the OS picks the schedule; observed schedules must be among the model's) and "
         "every strategy's complete account history, final positions and wallet must equal those of the same strategy run alone")

NOT_YET = "check not built yet in this round (see DESIGN.md section 3 for the planned spec clauses)"


def main():
    checks = []
    for pid in ALL:
        if pid not in CHECKS:
            continue
        c = CHECKS[pid]
        checks.append({
            "property_id": pid,
            "quick_cmd": f"./check {pid} --tier quick",
            "thorough_cmd": f"./check {pid} --tier thorough",
            "evidence_file": f"/verif/evidence/{pid}.json",
            "replay_cmd_template": f"./check {pid} --replay {{path}}",
            "engine": "tlc+replay",
            "level_claimed": {"category": "model_checking", "text": c["text"], "design_ref": c["design"]},
            "level_note": c.get("note", TRUSTED),
            "technique": c["technique"],
        })
    m = {
        "version": 1,
        "setup_cmd": "./setup.sh",
        "hooks": {
            "guard": "DEMETER_VERIF",
            "enable": "no source hooks: demeter is sequential and exposes its abstract state; the harness wraps public methods in-process. "
                      "DEMETER_VERIF is reserved and unused.",
            "baseline_off_cmd": "cd /repo && /venv/bin/python -m pytest -ra -q -p no:cacheprovider --timeout=900 --continue-on-collection-errors",
            "source_commits": [],
            "add_only": True,
        },
        "engines": [{"name": "tlc+replay", "path": "/verif/check", "serves_properties": sorted(CHECKS),
                     "kind_free_text": "explicit TLA+ specification checked by TLC; behaviours exported from TLC (state graph dump / "
                                       "simulation) are replayed into the real demeter classes and recorded traces of the real code "
                                       "are validated by TLC trace specs"}],
        "checks": checks,
        "not_applicable": [{"property_id": p, "reason": NOT_YET} for p in ALL if p not in CHECKS],
        "notes": "See DESIGN.md. KNOWN_FINDINGS.jsonl lists fixed/open findings.",
    }
    (VERIF / "MANIFEST.json").write_text(json.dumps(m, indent=1) + "\n")
    print(f"MANIFEST.json: {len(checks)} checks, {len(m['not_applicable'])} not_applicable")


if __name__ == "__main__":
    main()

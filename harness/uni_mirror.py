"""Helper leg of C09 (token order immaterial): every case of the lattice UniMirror!Cases (enumerated by TLC, MC_UniMirror) is
instantiated on a real token0-is-quote UniLpMarket (A) and on its mirror (B: token1 is the quote token, ticks negated, ranges
mirrored) in the same economic state; the same call is made in base / quote terms and the two result records are validated
by TLC against UniMirror!MirrorOK (spec/trace/Trace_UniMirror.tla).
"""
from __future__ import annotations

import json
import random
from decimal import Decimal
from fractions import Fraction

from . import tlc
from .common import VERIF, Check, frac, int_to_limbs

MC = VERIF / "spec" / "mc" / "MC_UniMirror.tla"
TRACE = VERIF / "spec" / "trace" / "Trace_UniMirror.tla"
D = Decimal
SP = 10   # tick spacing of the 0.05 % pool


def qj(x):
    f = frac(x)
    return [(f > 0) - (f < 0), list(int_to_limbs(abs(f.numerator))), list(int_to_limbs(f.denominator))]


class Side:
    """one orientation: market + broker in a given economic state"""

    def __init__(self, zq: bool, tick_a: int, price, wallet):
        import pandas as pd

        from . import sim  # noqa: F401
        from demeter import Broker, MarketInfo, TokenInfo
        from demeter.uniswap import UniLpMarket, UniswapMarketStatus, UniV3Pool
        self.zq = zq
        self.usdc, self.eth = TokenInfo("usdc", 6), TokenInfo("eth", 18)
        pool = UniV3Pool(self.usdc, self.eth, 0.05, self.usdc) if zq else UniV3Pool(self.eth, self.usdc, 0.05, self.usdc)
        self.m = UniLpMarket(MarketInfo("a" if zq else "b"), pool)
        self.b = Broker()
        self.actions = []
        self.b._record_action_callback = self.actions.append
        self.b.add_market(self.m)
        self.b.set_balance(self.eth, wallet[0])
        self.b.set_balance(self.usdc, wallet[1])
        t = tick_a if zq else -tick_a
        self.m.set_market_status(UniswapMarketStatus(timestamp=None, data=pd.Series(
            data=[D(10) ** 15, D(10) ** 20, D(10) ** 22, t, price], index=["inAmount0", "inAmount1", "currentLiquidity", "closeTick", "price"])),
            price=None)

    def rng(self, lo, hi):
        """a range given in A ticks, in this orientation"""
        return (lo, hi) if self.zq else (-hi, -lo)

    def wallet(self):
        return [["wallet_base", "amt", qj(self.b.get_token_balance(self.eth))], ["wallet_quote", "amt", qj(self.b.get_token_balance(self.usdc))]]

    def bq(self, a0, a1):
        """(token0, token1) amounts -> (base, quote)"""
        return (a1, a0) if self.zq else (a0, a1)


def price_of_tick(tick_a):
    from demeter.uniswap.helper import tick_to_base_unit_price
    return tick_to_base_unit_price(int(tick_a), 6, 18, True)


def call(side: Side, c, inst):
    """-> result record {out, ticks, nums}"""
    from demeter.uniswap import PositionInfo
    m = side.m
    h = c["h"]
    lo, hi = inst["lo"], inst["hi"]
    ticks, nums = [], []
    try:
        if h == "price_tick":
            t = m.price_to_tick(inst["p"])
            ticks.append(["tick", int(t), int(t)])
            nums.append(["price_of_tick", "px", qj(m.tick_to_price(t))])
        elif h == "add_by_price":
            pos, bu, qu, liq = m.add_liquidity(inst["p_lo"], inst["p_hi"], inst.get("quote_max"), inst.get("base_max"))
            ticks.append(["pos", int(pos.lower_tick), int(pos.upper_tick)])
            nums += [["base_used", "amt", qj(bu)], ["quote_used", "amt", qj(qu)], ["liq", "liq", qj(int(liq))]] + side.wallet()
            bal = m.get_market_balance()
            nums += [["net_value", "amt", qj(D(bal.net_value))], ["base_in_position", "amt", qj(D(bal.base_in_position))],
                     ["quote_in_position", "amt", qj(D(bal.quote_in_position))]]
        elif h == "add_by_value":
            r = side.rng(inst["lo_raw"], inst["hi_raw"])
            n0 = len(side.actions)
            pos, bu, qu, liq = m.add_liquidity_by_value(r[0], r[1], inst["value"])
            ticks.append(["pos", int(pos.lower_tick), int(pos.upper_tick)])
            nums += [["base_used", "amt", qj(bu)], ["quote_used", "amt", qj(qu)], ["liq", "liq", qj(int(liq))]] + side.wallet()
            ps = m.get_position_status(pos)
            nums += [["position_value", "amt", qj(D(ps.value))], ["records", "px", qj(len(side.actions) - n0)]]
        elif h == "even_rebalance":
            m.even_rebalance()
            nums += side.wallet()
        elif h == "swap":
            if inst["dir"] == "sell":
                fee, got = m.swap(inst["amount"], side.eth, side.usdc)
            else:
                fee, got = m.swap(inst["amount"], side.usdc, side.eth)
            nums += [["fee", "amt", qj(fee)], ["to_amount", "amt", qj(got)]] + side.wallet()
        elif h == "estimate_amount":
            r = side.rng(lo, hi)
            a0, a1 = m.estimate_amount(inst["value"], r[0], r[1])
            b, q = side.bq(a0, a1)
            nums += [["base", "amt", qj(b)], ["quote", "amt", qj(q)]]
        elif h == "estimate_liquidity":
            r = side.rng(lo, hi)
            liq, a0, a1 = m.estimate_liquidity(inst["value"], PositionInfo(r[0], r[1]))
            b, q = side.bq(a0, a1)
            nums += [["liq", "liq", qj(int(liq))], ["base", "amt", qj(b)], ["quote", "amt", qj(q)]]
        elif h == "remove_all":
            for (l2, h2, bm, qm) in inst["positions"]:
                r = side.rng(l2, h2)
                m.add_liquidity_by_tick(r[0], r[1], bm, qm)
            mid = side.wallet()
            m.remove_all_liquidity()
            nums += [[n + "_mid", k, v] for n, k, v in mid] + side.wallet() + [["positions_left", "px", qj(len(m.positions))]]
        else:
            raise ValueError(h)
    except Exception as e:
        return {"out": "reject", "ticks": [], "nums": [], "exc": f"{type(e).__name__}: {e}"}
    return {"out": "ok", "ticks": ticks, "nums": nums}


def instantiate(rnd: random.Random, c):
    """concrete economic state and arguments of a case (ticks in A orientation; A: a higher tick is a LOWER quote price)"""
    t = 200000 + rnd.randint(-300, 300) * SP + (0 if c["reg"] in ("at_lower", "at_upper") else rnd.randint(1, SP - 1))
    if c["reg"] == "in":
        d_lo, d_hi = {"centred": (500, 500), "low": (900, 100), "high": (100, 900)}[c["shape"]]
        lo, hi = t - d_lo, t + d_hi
    elif c["reg"] == "below":
        lo, hi = t + 300, t + 1300
    elif c["reg"] == "above":
        lo, hi = t - 1300, t - 300
    elif c["reg"] == "at_lower":
        lo, hi = t, t + 1000
    else:
        lo, hi = t - 1000, t
    lo_u, hi_u = (lo // SP) * SP, -((-hi) // SP) * SP          # usable range containing [lo, hi]
    if c["reg"] == "at_lower":
        lo_u = t
    if c["reg"] == "at_upper":
        hi_u = t
    wallet = {"base": (D(10), D(100)), "quote": (D("0.01"), D(50000)), "both": (D(3), D(6000))}[c["wal"]]
    price = price_of_tick(t)
    inst = {"t": t, "price": price, "wallet": wallet, "lo": lo_u, "hi": hi_u}
    half = SP // 2
    lo_raw, hi_raw = (lo_u + half, hi_u + half + SP * rnd.randint(0, 1)) if c["half"] else (lo_u + rnd.randint(0, 4), hi_u - rnd.randint(0, 4))
    h = c["h"]
    if h == "price_tick":
        inst["p"] = price_of_tick(lo_raw) if c["half"] else price * D(str(round(rnd.uniform(0.8, 1.25), 6)))
    elif h == "add_by_price":
        # a higher A tick is a lower quote price
        inst["p_lo"], inst["p_hi"] = price_of_tick(hi_raw), price_of_tick(lo_raw)
        if rnd.random() < 0.5:
            inst["base_max"], inst["quote_max"] = wallet[0] / 3, wallet[1] / 3
    elif h == "add_by_value":
        total = wallet[0] * price + wallet[1]
        inst["lo_raw"], inst["hi_raw"] = lo_raw, hi_raw
        inst["value"] = (total * D(rnd.choice(["0.3", "0.6", "0.95"]))).quantize(D("0.000001"))
    elif h == "swap":
        inst["dir"] = rnd.choice(["sell", "buy"])
        inst["amount"] = D("0.5") if inst["dir"] == "sell" else D(900)
    elif h in ("estimate_amount", "estimate_liquidity"):
        inst["value"] = D(rnd.choice([500, 3000, 77]))
    elif h == "remove_all":
        inst["positions"] = [(lo_u, hi_u, wallet[0] / 4, wallet[1] / 4), (lo_u - 2000, lo_u - 1000, wallet[0] / 5, wallet[1] / 5)]
    return inst


def run_cases(chk: Check, cases, per, rnd):
    recs, meta = [], []
    for c in cases:
        for _ in range(per):
            inst = instantiate(rnd, c)
            a = call(Side(True, inst["t"], inst["price"], inst["wallet"]), c, inst)
            b = call(Side(False, inst["t"], inst["price"], inst["wallet"]), c, inst)
            rid = len(recs) + 1
            recs.append({"id": rid, "h": c["h"], "a": {k: a[k] for k in ("out", "ticks", "nums")},
                         "b": {k: b[k] for k in ("out", "ticks", "nums")}})
            meta.append((c, {k: (str(v) if not isinstance(v, (int, list, tuple)) else v) for k, v in inst.items()}, a, b))
    return recs, meta


def validate(chk: Check, recs):
    chunks = [recs[i::8] for i in range(8) if recs[i::8]]
    fails = {}
    from concurrent.futures import ThreadPoolExecutor

    def one(ic):
        i, ch = ic
        f = chk.tmp / f"mirror_{i}.ndjson"
        with open(f, "w") as fh:
            for r in ch:
                fh.write(json.dumps(r) + "\n")
        res = tlc.run(TRACE, TRACE.with_suffix(".cfg"), chk.tmp, workers=1, env={"VERIF_TRACE": str(f)}, timeout=900)
        n, failures = tlc.printed_n(res.output, "mirror_verdict", 2)
        f.unlink()
        if n != len(ch):
            raise RuntimeError(f"Trace_UniMirror validated {n} of {len(ch)} records")
        return res, failures
    with ThreadPoolExecutor(len(chunks)) as ex:
        for res, failures in ex.map(one, list(enumerate(chunks))):
            chk.states += 1
            chk.transitions += 1
            for rid, clause in failures:
                fails[int(rid)] = clause
    return fails


def run_leg(chk: Check):
    """adds the helper leg to a C09 run (no chk.finish)"""
    quick = chk.tier == "quick"
    rnd = random.Random(chk.seed + 909)
    res, g = tlc.dump_graph(MC, MC.with_suffix(".cfg"), chk.tmp, workers=2, timeout=600)
    chk.add_tlc(res, "MC_UniMirror (case lattice, relation self-checks)")
    cases = sorted((dict(s["c"]) for s in g.nodes.values()), key=lambda c: json.dumps(c, sort_keys=True))
    recs, meta = run_cases(chk, cases, 3 if quick else 25, rnd)
    # non-vacuity of the binding: a corrupted copy of an accepted pair must be rejected
    fails = validate(chk, recs)
    okids = [r["id"] for r in recs if r["id"] not in fails and r["a"]["out"] == "ok" and r["a"]["nums"]]
    bad = []
    for rid in rnd.sample(okids, min(6, len(okids))):
        r = json.loads(json.dumps(recs[rid - 1]))
        r["id"] = 10 ** 6 + rid
        v = r["b"]["nums"][0][2]
        r["b"]["nums"][0][2] = qj(Fraction(v[0] * int("".join(f"{x:04d}" for x in reversed(v[1])) or "0"),
                                           int("".join(f"{x:04d}" for x in reversed(v[2])))) * Fraction(101, 100) + Fraction(1, 50))
        bad.append(r)
    if bad:
        f2 = validate(chk, bad)
        if len(f2) != len(bad):
            raise RuntimeError("vacuous: a corrupted mirror record was accepted by Trace_UniMirror")
        chk.extra["mirror_corrupted_records_rejected"] = len(bad)
    nrej = 0
    for r, (c, inst, a, b) in zip(recs, meta):
        chk.count("C09/helpers/" + c["h"])
        chk.evaluations += 2
        if a["out"] != "ok":
            nrej += 1
        if r["id"] in fails:
            cl = fails[r["id"]]
            detail = ""
            if cl.startswith("value:") or cl.startswith("ticks:"):
                name = cl.split(":", 1)[1]
                key = "nums" if cl.startswith("value:") else "ticks"
                va = [x for x in a[key] if x[0] == name]
                vb = [x for x in b[key] if x[0] == name]
                def show(x):
                    if key == "ticks":
                        return x[0][1:]
                    q = x[0][2]
                    return float(Fraction(q[0] * int("".join(f"{y:04d}" for y in reversed(q[1])) or "0"), int("".join(f"{y:04d}" for y in reversed(q[2])))))
                detail = f": token0-is-quote {show(va)!r} vs mirror {show(vb)!r}"
            elif cl == "outcome":
                detail = f": token0-is-quote {a['out']} ({a.get('exc')}) vs mirror {b['out']} ({b.get('exc')})"
            chk.violation(f"UniLpMarket.{c['h']}|mirror_{cl.split(':')[0]}|{c['reg']}/{c['shape']}/{c['wal']}{'/half' if c['half'] else ''}",
                          f"{c['h']} case {c} at tick {inst['t']} range [{inst['lo']},{inst['hi']}]: {cl}{detail}",
                          {"kind": "uni_mirror", "case": c, "inst": inst})
    chk.traces += len(recs)
    chk.extra["mirror_helper_cases"] = {"cases": len(cases), "instances": len(recs), "rejected_by_both_orientations": nrej}
    if recs:
        c, inst, a, b = meta[len(meta) // 2]
        chk.sample({"helper_case": c, "instance": inst, "result_token0_is_quote": {"out": a["out"], "ticks": a["ticks"]},
                    "result_mirror": {"out": b["out"], "ticks": b["ticks"]}})
    return len(fails)


def replay_one(chk: Check, r: dict):
    c = r["case"]
    i = r["inst"]
    inst = dict(i)
    for k in ("price", "p", "p_lo", "p_hi", "value", "amount", "base_max", "quote_max"):
        if k in inst and inst[k] is not None:
            inst[k] = D(str(inst[k]))
    inst["wallet"] = tuple(D(str(x)) for x in (i["wallet"] if isinstance(i["wallet"], (list, tuple)) else eval(i["wallet"])))  # noqa: S307
    if "positions" in inst:
        inst["positions"] = [(p[0], p[1], D(str(p[2])), D(str(p[3]))) for p in inst["positions"]]
    a = call(Side(True, inst["t"], inst["price"], inst["wallet"]), c, inst)
    b = call(Side(False, inst["t"], inst["price"], inst["wallet"]), c, inst)
    rec = {"id": 1, "h": c["h"], "a": {k: a[k] for k in ("out", "ticks", "nums")}, "b": {k: b[k] for k in ("out", "ticks", "nums")}}
    fails = validate(chk, [rec])
    chk.traces += 1
    for rid, cl in fails.items():
        chk.violation(f"UniLpMarket.{c['h']}|mirror_{cl.split(':')[0]}|{c['reg']}/{c['shape']}/{c['wal']}{'/half' if c['half'] else ''}",
                      f"{c['h']} case {c}: {cl}", r)

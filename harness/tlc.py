"""Run TLC (model checking, graph dump, simulation, trace validation) and parse what it prints."""
from __future__ import annotations

import os
import re
import shutil
import subprocess
import time
from dataclasses import dataclass, field
from pathlib import Path

from . import tlaval

VERIF = Path(__file__).resolve().parent.parent
SPEC = VERIF / "spec"
JAR = "/opt/veriftools/tla/tla2tools.jar"
CM = "/opt/veriftools/tla/CommunityModules-deps.jar"
CLASSES = SPEC / "lib" / "classes"


class TlcError(Exception):
    """TLC itself failed (parse error, crash, timeout): machinery failure, never a violation."""


@dataclass
class TlcResult:
    ok: bool
    generated: int = 0
    distinct: int = 0
    depth: int = 0
    violated: list = field(default_factory=list)  # names of violated invariants / properties
    output: str = ""
    wall_s: float = 0.0
    coverage: dict = field(default_factory=dict)  # action name -> (distinct, total)
    printed: list = field(default_factory=list)  # values printed by PrintT (parsed lazily by callers)


def _java_cmd(extra_jvm=(), override=True, workers=8):
    cp = f"{JAR}:{CM}"
    if override and CLASSES.is_dir():
        cp = f"{CLASSES}:{cp}"
    # many single-worker JVMs run side by side (simulation, trace validation): the default parallel collector starts one GC thread
    # per core in each of them (measured: 16 concurrent simulations 115 s with the default, 22 s with a serial collector)
    gc = ["-XX:+UseSerialGC", "-Xmx3g"] if workers <= 2 else ["-XX:+UseParallelGC", f"-XX:ParallelGCThreads={min(8, workers)}"]
    return ["java", *gc, "-Xss16m", *extra_jvm, "-cp", cp, "tlc2.TLC"]


def module_path_env():
    # TLC resolves EXTENDS relative to the spec file's directory and -DTLA-Library
    libs = [str(SPEC / d) for d in ("lib", "gen", "", "mc")]
    return "-DTLA-Library=" + os.pathsep.join(libs)


def run(tla: Path, cfg: Path, tmp: Path, *, workers=8, args=(), env=None, timeout=900, jvm=(), override=True) -> TlcResult:
    """Run TLC on tla/cfg; metadir under tmp.  Raises TlcError on machinery failure."""
    meta = tmp / ("meta_" + tla.stem + "_" + str(time.time_ns()))
    cmd = _java_cmd((module_path_env(), *jvm), override, workers) + [
        "-workers", str(workers), "-metadir", str(meta), "-noGenerateSpecTE",
        "-config", str(cfg), *args, str(tla),
    ]
    t0 = time.time()
    e = dict(os.environ)
    if env:
        e.update(env)
    try:
        p = subprocess.run(cmd, cwd=str(tla.parent), env=e, capture_output=True, text=True, timeout=timeout)
    except subprocess.TimeoutExpired as ex:
        raise TlcError(f"TLC timeout after {timeout}s on {tla.name}") from ex
    finally:
        shutil.rmtree(meta, ignore_errors=True)
    out = p.stdout + p.stderr
    res = TlcResult(ok=False, output=out, wall_s=time.time() - t0)
    m = re.search(r"(\d+) states generated, (\d+) distinct states found", out)
    if m:
        res.generated, res.distinct = int(m.group(1)), int(m.group(2))
    m = re.search(r"The number of states generated: (\d+)", out)
    if m and not res.generated:
        res.generated = int(m.group(1))
    m = re.search(r"depth of the complete state graph search is (\d+)", out)
    if m:
        res.depth = int(m.group(1))
    for m in re.finditer(r"Invariant (\S+) is violated", out):
        res.violated.append(m.group(1))
    for m in re.finditer(r"Action property (\S+) is violated|Temporal properties were violated|Assumption .* is false|The postcondition.*is violated|Postcondition.*violated", out):
        res.violated.append(m.group(1) or m.group(0))
    for m in re.finditer(r"^<(\w+) line \d+, col \d+ to line \d+, col \d+ of module (\w+)>: (\d+):(\d+)", out, re.M):
        res.coverage[m.group(1)] = (int(m.group(3)), int(m.group(4)))
    finished = "Model checking completed. No error has been found." in out or re.search(r"Finished in \d", out)
    if res.violated:
        return res
    if "Error:" in out or not finished:
        # anything TLC calls an error that is not a property violation is a machinery failure
        raise TlcError(f"TLC failed on {tla.name} ({cfg.name}):\n" + out[-4000:])
    res.ok = True
    return res


def printed_values(out: str):
    """Yield the TLA+ values printed by PrintT / Print (one per line beginning with a value bracket)."""
    for line in out.splitlines():
        line = line.strip()
        if line[:2] in ("<<", "[a", "[t", "[k") or (line[:1] in "[{(" and "|->" in line) or line.startswith('"@'):
            try:
                yield tlaval.parse(line)
            except tlaval.TlaParseError:
                continue


# ----------------------------------------------------------------------------------------------
# state graph dump
# ----------------------------------------------------------------------------------------------
_NODE = re.compile(r'^(-?\d+) \[label="(.*?)"(?:,style = filled|,tooltip=)')
_EDGE = re.compile(r'^(-?\d+) -> (-?\d+) \[label="(\w*)"')


def _unesc(s: str) -> str:
    return s.replace("\\n", "\n").replace('\\"', '"').replace("\\\\", "\\")


@dataclass
class Graph:
    nodes: dict  # id -> state dict
    edges: list  # (src, dst, action)
    init: list

    def bfs_paths(self, max_paths=None):
        """Root-to-leaf paths of a BFS spanning tree: every node lies on at least one returned path."""
        children = {}
        parent = {}
        order = []
        adj = {}
        for s, d, _ in self.edges:
            adj.setdefault(s, []).append(d)
        from collections import deque
        dq = deque(self.init)
        for i in self.init:
            parent[i] = None
        while dq:
            u = dq.popleft()
            order.append(u)
            for v in adj.get(u, ()):
                if v not in parent:
                    parent[v] = u
                    children.setdefault(u, []).append(v)
                    dq.append(v)
        leaves = [u for u in order if u not in children]
        paths = []
        for leaf in leaves:
            p = []
            u = leaf
            while u is not None:
                p.append(u)
                u = parent[u]
            p.reverse()
            paths.append(p)
        self._parent = parent
        return paths

    def signature(self, nid):
        return _sig_of_state(self.nodes[nid])

    def edge_paths(self):
        """See LazyGraph.edge_paths: one path per non-tree edge (the same event after another history)."""
        if not hasattr(self, "_parent"):
            self.bfs_paths()
        return _edge_paths(self._parent, [(s, d) for s, d, *_ in self.edges])

    def sample_paths(self, paths, budget, rnd, depth=3):
        return _stratified(self, paths, budget, rnd, depth)


def _sig_of_state(s):
    """(operation, outcome) of the transition that led to a parsed state (from its `last` variable), as far as it can be read."""
    last = s.get("last") if isinstance(s, dict) else None
    if not isinstance(last, dict):
        return (str(last)[:24], "?")
    ev = last.get("ev", last)
    op = ev.get("op", ev.get("e", "?")) if isinstance(ev, dict) else str(ev)[:24]
    mode = (ev.get("mode", "") if isinstance(ev, dict) else "") or last.get("kind", "")
    out = last.get("out", "?")
    cause = last.get("cause", "")
    out = out if isinstance(out, str) else str(out)[:24]
    return (f"{op}{':' + str(mode) if mode else ''}", out + (":" + cause if isinstance(cause, str) and cause else ""))


def _edge_paths(parent, edges):
    memo = {}

    def path_to(u):
        if u in memo:
            return memo[u]
        p, x = [], u
        while x is not None:
            p.append(x)
            x = parent[x]
        p.reverse()
        memo[u] = p
        return p
    out, seen = [], set()
    for u, v in edges:
        if parent.get(v, 0) == u or u == v or (u, v) in seen or u not in parent:
            continue
        seen.add((u, v))
        out.append(path_to(u) + [v])
    return out


def _stratified(g, paths, budget, rnd, depth=3):
    if len(paths) <= budget:
        return list(paths)
    groups = {}
    for p in paths:
        groups.setdefault(tuple(g.signature(n) for n in p[-depth:]), []).append(p)
    keys = sorted(groups, key=repr)
    for k in keys:
        rnd.shuffle(groups[k])
    out, i = [], 0
    while len(out) < budget:
        took = False
        for k in keys:
            if i < len(groups[k]):
                out.append(groups[k][i])
                took = True
                if len(out) >= budget:
                    break
        if not took:
            break
        i += 1
    return out


class RawGraph:
    """Adapter for harnesses that keep the dumped node labels as text (ids -> raw label, edges as (src, dst))."""

    def __init__(self, raw, edges, init):
        self.raw, self.edges, self.init = raw, list(edges), list(init)

    def tree_paths(self):
        g = Graph({n: None for n in self.raw}, [(a, b, "") for a, b in self.edges], self.init)
        p = g.bfs_paths()
        self._parent = g._parent
        return p

    def edge_paths(self):
        if not hasattr(self, "_parent"):
            self.tree_paths()
        return _edge_paths(self._parent, self.edges)

    def signature(self, nid):
        raw = self.raw[nid]
        i = raw.find("last")
        seg = raw[i:] if i >= 0 else raw
        m, o, k = LazyGraph._OPOUT.search(seg), LazyGraph._OUT.search(seg), LazyGraph._KIND.search(seg)
        return ((m.group(1) if m else "?") + (":" + k.group(1) if k and k.group(1) else ""), o.group(1) if o else "?")


def choose_paths(g, paths, budget, rnd, depth=3):
    """The paths a budgeted replay walks.  `paths` = the root-to-leaf paths of the BFS spanning tree (every node = every (event,
    resulting state) at least once).  The non-tree edges - the same event after ANOTHER history, e.g. after a rejected call that leaves
    the abstract state but perhaps not the implementation's caches - join them; when the pool exceeds the budget the sample is
    stratified by the (operation, outcome) kinds of the last `depth` transitions, so every kind of succession that exists in the graph
    is walked.  Returns (paths, all_nodes_covered)."""
    extra = g.edge_paths()
    if len(paths) <= budget:
        return list(paths) + _stratified(g, extra, budget - len(paths), rnd, depth), True
    return _stratified(g, list(paths) + extra, budget, rnd, depth), False


def load_dot(path: Path) -> Graph:
    nodes, edges, init = {}, [], []
    with open(path) as f:
        for line in f:
            m = _EDGE.match(line)
            if m:
                edges.append((m.group(1), m.group(2), m.group(3)))
                continue
            m = _NODE.match(line)
            if m:
                nid = m.group(1)
                if nid not in nodes:
                    nodes[nid] = tlaval.parse_state(_unesc(m.group(2)))
                if ",style = filled" in line[m.end(2):m.end(2) + 20]:
                    init.append(nid)
    return Graph(nodes, edges, init)


def dump_graph(tla: Path, cfg: Path, tmp: Path, **kw):
    base = tmp / (tla.stem + "_graph")
    extra = tuple(kw.pop("args", ()))
    res = run(tla, cfg, tmp, args=("-dump", "dot,actionlabels", str(base), *extra), **kw)
    dot = Path(str(base) + ".dot")
    g = load_dot(dot) if dot.exists() else None
    if dot.exists():
        dot.unlink()
    return res, g


# ----------------------------------------------------------------------------------------------
# simulation
# ----------------------------------------------------------------------------------------------
_STATE_HDR = re.compile(r"^\\\* <(\w+) line")


def simulate(tla: Path, cfg: Path, tmp: Path, *, num=100, depth=12, seed=0, **kw):
    """Return (TlcResult, behaviours); a behaviour is a list of (action name, state dict).

    TLC's multi-worker simulation is not reproducible, so `workers` single-worker TLC processes are run side by side,
    each with its own seed derived from `seed` (deterministic for a given seed and worker count)."""
    from concurrent.futures import ThreadPoolExecutor
    w = max(1, min(int(kw.pop("workers", 1)), num))
    per = max(1, (num + w - 1) // w)
    extra = tuple(kw.pop("args", ()))

    def one(i):
        d = tmp / f"sim_{tla.stem}_{time.time_ns()}_{i}"
        d.mkdir(parents=True)
        res = run(tla, cfg, tmp, workers=1, args=("-simulate", f"file={d}/tr,num={per}", "-depth", str(depth),
                                                  "-seed", str(seed * 1000 + i), *extra), **kw)
        behs = []
        for f in sorted(d.iterdir()):
            beh, act, buf = [], None, []
            for line in open(f):
                m = _STATE_HDR.match(line)
                if m:
                    act = m.group(1)
                    buf = []
                elif line.startswith("STATE_"):
                    buf = []
                elif line.startswith("/\\"):
                    buf.append(line)
                elif not line.strip() and buf:
                    beh.append((act, tlaval.parse_state("".join(buf))))
                    buf = []
                elif line.startswith("====") and buf:
                    beh.append((act, tlaval.parse_state("".join(buf))))
                    buf = []
                elif buf:
                    buf.append(line)
            behs.append(beh)
        shutil.rmtree(d, ignore_errors=True)
        return res, behs
    with ThreadPoolExecutor(w) as ex:
        parts = list(ex.map(one, range(w)))
    total = TlcResult(ok=all(r.ok for r, _ in parts))
    behs = []
    for r, b in parts:
        total.generated += r.generated
        total.distinct += r.distinct
        total.wall_s = max(total.wall_s, r.wall_s)
        total.violated += [v for v in r.violated if v not in total.violated]
        if r.violated and not total.output:
            total.output = r.output
        behs += b
    if not total.output:
        total.output = parts[0][0].output
    return total, behs


def printed_n(out: str, marker: str, n: int):
    """The n values V1..Vn printed by PrintT(<<"marker", V1, ..., Vn>>)."""
    v = _printed_tuple(out, marker)
    if v is None:
        raise TlcError(f"no printed value {marker}:\n" + out[-2000:])
    return v[1:1 + n]


def printed(out: str, marker: str):
    """Value V printed by `PrintT(<<"marker", V>>)` (TLC pretty-prints over several lines): bracket matching."""
    v = _printed_tuple(out, marker)
    return None if v is None else v[1]


def printed_all(out: str, marker: str):
    """Every tuple printed by PrintT(<<"marker", ...>>), in output order (multi-line values: bracket matching)."""
    out = re.sub(r'<<\s+"' + re.escape(marker) + '"', '<<"' + marker + '"', out)   # TLC pretty-prints long values as `<< "marker",`
    vals, pos = [], 0
    key = f'<<"{marker}"'
    while True:
        i = out.find(key, pos)
        if i < 0:
            return vals
        v = _printed_tuple(out, marker, i + 2)
        vals.append(v)
        pos = i + len(key)


def _printed_tuple(out: str, marker: str, at: int = None):
    i = out.find(f'"{marker}"') if at is None else at
    if i < 0:
        return None
    start = out.rfind("<<", 0, i)
    depth, j, n = 0, start, len(out)
    instr = False
    while j < n:
        ch = out[j]
        if instr:
            if ch == "\\":
                j += 1
            elif ch == '"':
                instr = False
        elif ch == '"':
            instr = True
        elif out.startswith("<<", j):
            depth += 1
            j += 1
        elif out.startswith(">>", j):
            depth -= 1
            j += 1
            if depth == 0:
                return tlaval.parse(out[start:j + 1])
        j += 1
    raise TlcError(f"unbalanced printed value for {marker}")


class LazyGraph:
    """State graph dump whose node labels are parsed on demand (large graphs, parallel replay)."""

    def __init__(self, path: Path):
        self.raw, self.edges, self.init = {}, [], []
        with open(path) as f:
            for line in f:
                m = _EDGE.match(line)
                if m:
                    self.edges.append((m.group(1), m.group(2)))
                    continue
                m = _NODE.match(line)
                if m:
                    nid = m.group(1)
                    if nid not in self.raw:
                        self.raw[nid] = m.group(2)
                    if ",style = filled" in line[m.end(2):m.end(2) + 20]:
                        self.init.append(nid)

    def state(self, nid):
        return tlaval.parse_state(_unesc(self.raw[nid]))

    def tree_paths(self):
        """Root-to-leaf paths of a BFS spanning tree (every node on >= 1 path), as lists of node ids."""
        from collections import deque
        adj = {}
        for s, d in self.edges:
            adj.setdefault(s, []).append(d)
        parent = {i: None for i in self.init}
        kids = {}
        order = []
        dq = deque(self.init)
        while dq:
            u = dq.popleft()
            order.append(u)
            for v in adj.get(u, ()):
                if v not in parent:
                    parent[v] = u
                    kids[u] = kids.get(u, 0) + 1
                    dq.append(v)
        paths = []
        for u in order:
            if u not in kids:
                p = []
                while u is not None:
                    p.append(u)
                    u = parent[u]
                p.reverse()
                paths.append(p)
        self._parent = parent
        return paths

    def edge_paths(self):
        """One path per NON-tree edge (u, v) of the BFS spanning tree: the tree path to u followed by v.  The spanning tree reaches
        every node, i.e. every (event, resulting state); an edge that is not in the tree is the same event taken after ANOTHER
        history (e.g. after a rejected call, which leaves the abstract state but not necessarily the implementation's caches)."""
        if not hasattr(self, "_parent"):
            self.tree_paths()
        return _edge_paths(self._parent, self.edges)

    _KIND = re.compile(r'kind \|-> \\?"([a-z]*)\\?"')
    _OPOUT = re.compile(r'op \|-> \\?"([a-z_]+)\\?"')
    _OUT = re.compile(r'out \|-> \\?"([a-z_]+)\\?"')

    def signature(self, nid):
        """(operation, outcome) of the transition that led to a node, read from the raw label of `last` (no parsing)."""
        raw = self.raw[nid]
        i = raw.find("last")
        seg = raw[i:] if i >= 0 else raw
        m, o, k = self._OPOUT.search(seg), self._OUT.search(seg), self._KIND.search(seg)
        return ((m.group(1) if m else "?") + (":" + k.group(1) if k and k.group(1) else ""), o.group(1) if o else "?")

    def sample_paths(self, paths, budget, rnd, depth=3):
        return _stratified(self, paths, budget, rnd, depth)


def dump_lazy(tla: Path, cfg: Path, tmp: Path, **kw):
    base = tmp / (tla.stem + "_graph" + str(time.time_ns()))
    extra = tuple(kw.pop("args", ()))
    res = run(tla, cfg, tmp, args=("-dump", "dot,actionlabels", str(base), *extra), **kw)
    dot = Path(str(base) + ".dot")
    g = LazyGraph(dot) if dot.exists() else None
    if dot.exists():
        dot.unlink()
    return res, g

"""Shared plumbing: run context, verdict collection, evidence files, known findings, replay files."""
from __future__ import annotations

import hashlib
import json
import os
import shutil
import sys
import tempfile
import time
from fractions import Fraction
from pathlib import Path

VERIF = Path(__file__).resolve().parent.parent
REPO = Path(os.environ.get("DEMETER_REPO", "/repo"))
FINDINGS_FILE = VERIF / "KNOWN_FINDINGS.jsonl"


def use_repo():
    """Import demeter from the working tree (never from an installed copy)."""
    p = str(REPO)
    if sys.path[0] != p:
        sys.path.insert(0, p)
    os.environ.setdefault("PYTHONHASHSEED", "0")


def jsonable(v):
    from decimal import Decimal
    if isinstance(v, Fraction):
        return str(v)
    if isinstance(v, Decimal):
        return str(v)
    if isinstance(v, dict):
        return {str(k): jsonable(x) for k, x in v.items()}
    if isinstance(v, (list, tuple)):
        return [jsonable(x) for x in v]
    if isinstance(v, (set, frozenset)):
        return sorted((jsonable(x) for x in v), key=str)
    if isinstance(v, (str, int, float, bool)) or v is None:
        return v
    return repr(v)


class Check:
    """One run of one property's check."""

    def __init__(self, pid: str, tier: str, seed: int):
        self.pid = pid
        self.tier = tier
        self.seed = seed
        self.t0 = time.time()
        self.tmp = Path(tempfile.mkdtemp(prefix=f"verif_{pid}_"))
        self.states = 0
        self.transitions = 0
        self.traces = 0
        self.evaluations = 0
        self.samples = []
        self.clauses = {}  # clause -> count of comparisons made
        self.extra = {}
        self.assumptions = []
        self.violations = []  # (signature, description, replay dict)
        self.known = []
        self.exhaustive = False
        self._findings = load_findings()

    # --- bookkeeping -------------------------------------------------------------------------
    def add_tlc(self, res, label=None):
        self.states += res.distinct or res.generated
        self.transitions += res.generated
        if label:
            self.extra.setdefault("tlc_runs", []).append(
                {"run": label, "generated": res.generated, "distinct": res.distinct, "depth": res.depth,
                 "wall_s": round(res.wall_s, 1),
                 "coverage": {k: list(v) for k, v in res.coverage.items()} if res.coverage else None})

    def count(self, clause, n=1):
        self.clauses[clause] = self.clauses.get(clause, 0) + n

    def sample(self, s, cap=6):
        if len(self.samples) < cap:
            self.samples.append(jsonable(s))

    # --- verdicts ----------------------------------------------------------------------------
    def violation(self, signature: str, what: str, replay: dict):
        """signature = 'entry point|clause|scenario class' (property id is prepended)."""
        sig = f"{self.pid}|{signature}"
        for f in self._findings:
            if f.get("status") == "open" and f.get("property") == self.pid and f.get("signature") == sig:
                if sig not in [k[0] for k in self.known]:
                    self.known.append((sig, what))
                return
        self._vcount = getattr(self, "_vcount", {})
        self._vcount[sig] = self._vcount.get(sig, 0) + 1
        if self._vcount[sig] <= 2 and len(self.violations) < 40:
            self.violations.append((sig, what, replay))

    def spec_violation(self, res, label):
        for inv in res.violated:
            self.violation(f"spec|{inv}|{label}", f"TLC reports {inv} violated in {label}",
                           {"kind": "tlc", "run": label, "output_tail": res.output[-60000:]})

    # --- finish ------------------------------------------------------------------------------
    def finish(self, rule: str, level="model_checking") -> int:
        wall = time.time() - self.t0
        ev = {
            "property_id": self.pid, "tier": self.tier, "seed": self.seed, "level": level,
            "coverage": {
                "states": self.states, "transitions": self.transitions,
                "traces_validated_against_impl": self.traces,
                "evaluations": self.evaluations, "distinct_nontrivial": self.extra.pop("distinct_nontrivial", None),
                "rule": rule, "samples": self.samples or ["(none)"], "exhaustive": self.exhaustive,
                "clauses": self.clauses, **self.extra,
            },
            "assumptions": self.assumptions, "wall_s": round(wall, 2),
            "violations": len(self.violations),
        }
        if ev["coverage"]["distinct_nontrivial"] is None:
            del ev["coverage"]["distinct_nontrivial"]
        if self.known:
            ev["coverage"]["known_findings_hit"] = [k[0] for k in self.known]
        evdir = Path(os.environ.get("VERIF_EVIDENCE_DIR") or (VERIF / "evidence"))
        evdir.mkdir(exist_ok=True)
        if not os.environ.get("VERIF_NO_EVIDENCE"):     # a --replay run re-executes one scenario: it is not evidence of coverage
            with open(evdir / f"{self.pid}.json", "w") as f:
                json.dump(ev, f, indent=1, default=jsonable)
        for sig, what in self.known:
            print(f"KNOWN-FINDING: property={self.pid} {sig} :: {what}")
        rc = 0
        if self.violations:
            rdir = Path(os.environ["VERIF_EVIDENCE_DIR"]) if os.environ.get("VERIF_EVIDENCE_DIR") else VERIF / "replays"
            rdir.mkdir(exist_ok=True)
            for sig, what, replay in self.violations:
                h = hashlib.sha1((sig + json.dumps(jsonable(replay), sort_keys=True)).encode()).hexdigest()[:10]
                path = rdir / f"{self.pid}-{h}.json"
                with open(path, "w") as f:
                    json.dump({"property": self.pid, "signature": sig, "what": what, "replay": jsonable(replay)}, f, indent=1)
                print(f"VIOLATION property={self.pid} replay={path} :: {sig} :: {what}")
            rc = 1
        print(f"[{self.pid}] tier={self.tier} seed={self.seed} states={self.states} transitions={self.transitions} "
              f"traces={self.traces} evaluations={self.evaluations} violations={len(self.violations)} "
              f"known={len(self.known)} wall={wall:.1f}s")
        shutil.rmtree(self.tmp, ignore_errors=True)
        return rc


def load_findings():
    out = []
    if FINDINGS_FILE.exists():
        for line in open(FINDINGS_FILE):
            line = line.strip()
            if line and not line.startswith("#"):
                try:
                    out.append(json.loads(line))
                except json.JSONDecodeError:
                    pass
    return out


# ---- rationals (spec/lib/Num.tla representation) --------------------------------------------------
def limbs_to_int(t) -> int:
    r = 0
    for x in reversed(t):
        r = r * 10000 + x
    return r


def int_to_limbs(n: int):
    out = []
    while n > 0:
        n, r = divmod(n, 10000)
        out.append(r)
    return tuple(out)


def Q(v) -> Fraction:
    """Num.tla rational <<s, n, d>> (or a TLC int) -> Fraction."""
    if isinstance(v, (tuple, list)) and len(v) == 3:
        return Fraction(v[0] * limbs_to_int(v[1]), limbs_to_int(v[2]))
    return Fraction(v)


def q_tla(x) -> str:
    """Fraction / Decimal / int / str -> TLA+ literal of the Num.tla rational."""
    f = frac(x)
    s = (f > 0) - (f < 0)
    n, d = abs(f.numerator), f.denominator

    def l(k):
        return "<<" + ", ".join(map(str, int_to_limbs(k))) + ">>"
    return f"<<{s}, {l(n)}, {l(d)}>>"


def is_q(v) -> bool:
    return (isinstance(v, tuple) and len(v) == 3 and v[0] in (-1, 0, 1) and isinstance(v[1], tuple)
            and isinstance(v[2], tuple) and len(v[2]) >= 1 and all(isinstance(i, int) for i in v[1] + v[2]))


def unq(v):
    """Recursively turn every Num.tla rational inside a parsed TLA+ value into a Fraction."""
    if is_q(v):
        return Q(v)
    if isinstance(v, dict):
        return {k: unq(x) for k, x in v.items()}
    if isinstance(v, tuple):
        return tuple(unq(x) for x in v)
    if isinstance(v, list):
        return [unq(x) for x in v]
    return v


def frac(x) -> Fraction:
    """Exact Fraction of a Decimal / int / float / str."""
    from decimal import Decimal
    if isinstance(x, Fraction):
        return x
    if isinstance(x, Decimal):
        return Fraction(x)
    if isinstance(x, float):
        return Fraction(x)
    if isinstance(x, str):
        return Fraction(x)
    return Fraction(int(x)) if float(x) == int(x) else Fraction(float(x))


def maybe_float(d):
    """The public operations take `Decimal | float`.  A Decimal argument whose value a float holds exactly is handed over as that
    float for half of the values (chosen by the value itself: deterministic, the same in a replay); the abstract event is unchanged."""
    from decimal import Decimal
    if not isinstance(d, Decimal) or not d.is_finite():
        return d
    fr = Fraction(d)
    try:
        f = float(d)
    except OverflowError:
        return d
    if Fraction(f) == fr and (fr.numerator + fr.denominator) % 2 == 0:
        return f
    return d


def close(a, b, rel=Fraction(0), abs_=Fraction(0)) -> bool:
    a, b = frac(a), frac(b)
    if a == b:
        return True
    d = abs(a - b)
    return d <= abs_ or d <= rel * max(abs(a), abs(b))

"""Num self-test: pure TLA+ definitions vs Java override must print the same results."""
import sys
import tempfile
from pathlib import Path

from . import tlc


def main():
    tmp = Path(tempfile.mkdtemp(prefix="numself_"))
    tla = tlc.SPEC / "mc" / "MC_NumSelf.tla"
    outs = []
    for ov in (False, True):
        r = tlc.run(tla, tla.with_suffix(".cfg"), tmp, workers=1, override=ov, timeout=600)
        i = r.output.find('"numself"')
        j = r.output.find("Computing initial states")
        if i < 0 or j < i:
            print(r.output[-2000:])
            sys.exit("numself: no result printed")
        line = ["".join(r.output[i:j].split())]
        outs.append(line[0])
        print(f"numself override={ov}: {r.wall_s:.1f}s, {len(line[0])} chars")
    import shutil
    shutil.rmtree(tmp, ignore_errors=True)
    if outs[0] != outs[1]:
        sys.exit("numself: Java override disagrees with the TLA+ definitions")
    print("numself ok")


main()

"""Shared by props/c15.py and props/c16.py: build a real DeribitOptionMarket from a Deribit.tla state, apply spec events,
project the real objects back to the abstract state, compare."""
from __future__ import annotations

from decimal import Decimal
from fractions import Fraction

import pandas as pd

from .common import maybe_float, close, frac, unq
from . import sim  # noqa: F401  (sets sys.path to the repo under test, silences logging)

INSTRS = ("C", "P")
T0 = pd.Timestamp("2023-09-01 00:00:00")
AVG_REL = Fraction(1, 10 ** 30)  # Decimal division at prec 35 (DESIGN 2.3)
ZERO_POS = {"amt": Fraction(0), "avgBuy": Fraction(0), "buyAmt": Fraction(0), "avgSell": Fraction(0), "sellAmt": Fraction(0)}


def ts_of(minute: int) -> pd.Timestamp:
    return T0 + pd.Timedelta(minutes=int(minute))


def dec(x) -> Decimal:
    """exact Decimal of a Fraction with a finite decimal expansion (universe values are chosen that way)."""
    x = Fraction(x)
    d = Decimal(x.numerator) / Decimal(x.denominator)
    if Fraction(d) != x:
        raise ValueError(f"universe value {x} is not a finite decimal")
    return d


def untuple(v):
    """JSON round trip turned tuples into lists: restore tuples (TLA+ sequences) recursively."""
    if isinstance(v, list):
        return tuple(untuple(x) for x in v)
    if isinstance(v, dict):
        return {k: untuple(x) for k, x in v.items()}
    return v


def side_to_py(levels, int_sizes=False):
    out = []
    for lv in levels:
        s = float(lv["s"])
        if int_sizes and lv["s"].denominator == 1:
            s = int(lv["s"])
        out.append([float(lv["p"]), s])
    return out


def book_frame(book, info, int_sizes=False, extra_rows=()):
    """one hour's order book (index instrument_name) from the spec's book function; unlisted instruments are absent."""
    rows, idx = [], []
    for i in sorted(book):
        b = book[i]
        if not b["listed"]:
            continue
        idx.append(i)
        rows.append({
            "state": "open" if b.get("live", True) else "closed", "type": "CALL" if info[i]["kind"] == "C" else "PUT", "strike_price": int(info[i]["K"]),
            "expiry_time": ts_of(info[i]["exp"]), "underlying_price": float(b["und"]), "mark_price": float(b["mark"]),
            "delta": 0.5, "gamma": 0.001, "asks": side_to_py(b["asks"], int_sizes), "bids": side_to_py(b["bids"], int_sizes)})
    for name, und in extra_rows:
        idx.append(name)
        rows.append({"state": "open", "type": "CALL", "strike_price": 5000, "expiry_time": ts_of(10 ** 6), "underlying_price": float(und),
                     "mark_price": 0.001, "delta": 0.1, "gamma": 0.001, "asks": [[0.002, 1.0]], "bids": [[0.0005, 1.0]]})
    cols = ["state", "type", "strike_price", "expiry_time", "underlying_price", "mark_price", "delta", "gamma", "asks", "bids"]
    df = pd.DataFrame(rows, columns=cols, index=pd.Index(idx, name="instrument_name"))
    return df


def project_market(m, with_book=True):
    """real market -> abstract state (Fractions, exact)."""
    pos = {}
    for i in INSTRS:
        p = m.positions.get(i)
        if p is None:
            pos[i] = dict(ZERO_POS)
        else:
            pos[i] = {"amt": frac(p.amount), "avgBuy": frac(p.avg_buy_price), "buyAmt": frac(p.buy_amount),
                      "avgSell": frac(p.avg_sell_price), "sellAmt": frac(p.sell_amount)}
    extra = sorted(k for k in m.positions if k not in INSTRS)
    out = {"cash": frac(m.balance), "pos": pos, "extra_pos": extra}
    if with_book:
        book = {}
        data = m.market_status.data
        for i in INSTRS:
            if data is None or i not in data.index:
                book[i] = None
                continue
            r = data.loc[i]
            # prices are read by the code as Decimal(str(float)) -> the shortest decimal; sizes are taken exactly
            book[i] = {"asks": [(Fraction(str(x[0])), frac(x[1])) for x in r.asks], "bids": [(Fraction(str(x[0])), frac(x[1])) for x in r.bids]}
        out["book"] = book
    return out


def spec_book(st):
    out = {}
    for i in INSTRS:
        b = st["book"][i]
        out[i] = None if not b["listed"] else {"asks": [(l["p"], l["s"]) for l in b["asks"]], "bids": [(l["p"], l["s"]) for l in b["bids"]]}
    return out


def pos_diffs(spec_pos, real_pos):
    """names of position fields that differ (amounts exact, averages to 1e-30 relative)."""
    bad = []
    for i in INSTRS:
        s, r = spec_pos[i], real_pos[i]
        for f in ("amt", "buyAmt", "sellAmt"):
            if s[f] != r[f]:
                bad.append(f"{i}.{f}: spec {s[f]} code {r[f]}")
        for f in ("avgBuy", "avgSell"):
            if not close(s[f], r[f], rel=AVG_REL):
                bad.append(f"{i}.{f}: spec {s[f]} code {r[f]}")
    return bad


def trade_call(m, ev):
    """issue the spec's buy/sell event against the real market; returns (orders, fee)."""
    f = m.buy if ev["op"] == "buy" else m.sell
    amt = maybe_float(dec(ev["amt"]))          # Decimal | float, as the signatures say
    if ev["mode"] == "mkt":
        return f(ev["i"], amt)
    if ev["mode"] == "lim":
        return f(ev["i"], amt, price_in_token=dec(ev["px"]))
    if ev["mode"] == "limusd":
        return f(ev["i"], amt, price_in_usd=dec(ev["px"]))
    return f(ev["i"], amt, max_mark_price_multiple=dec(ev["px"]))


def fstr(x):
    x = Fraction(x)
    return str(float(x)) if x.denominator not in (1,) else str(x.numerator)


def ev_str(ev):
    if ev["op"] in ("buy", "sell"):
        px = "" if ev["mode"] == "mkt" else f" {ev['mode']}={fstr(ev['px'])}"
        return f"{ev['op']}({ev['i']}, {fstr(ev['amt'])}{px})"
    if ev["op"] in ("deposit", "withdraw"):
        return f"{ev['op']}({fstr(ev['amt'])})"
    return ev["op"]


__all__ = ["INSTRS", "T0", "ts_of", "dec", "untuple", "book_frame", "project_market", "spec_book", "pos_diffs", "trade_call",
           "ev_str", "fstr", "unq", "ZERO_POS"]

"""Drive the real BacktestManager (demeter/core/backtest.py) for the configurations of spec/Manager.tla (property C19).

A configuration = [mix, kinds, w]: market mix (1 = {UniLpMarket}, 2 = {UniLpMarket, AaveV3Market}), the ordered list of
strategy kinds handed to the manager, and the `threads` argument.  `run_config` builds a fresh world (synthetic data
through the builders of uni_drv / aave_drv), fresh market objects, a fresh StrategyConfig and fresh strategy objects and
calls the real `BacktestManager.run()`.  Every strategy writes, in its own `finalize()`, one JSON file named by the
strategy: the complete account_status_df (exact cell values), its final market positions / debts, its wallet, its
action log and the process (pid, sequence number inside that process) that ran it.

The module doubles as the helper script for the forked path (`set_start_method("fork")` can be called once per
process): `/venv/bin/python /verif/harness/mgr_drv.py job.json` runs one configuration in a fresh interpreter.
DEMETER_REPO is respected through harness.common.use_repo (imported by harness.sim).
"""
from __future__ import annotations

import contextlib
import io
import json
import os
import sys
from datetime import timedelta
from decimal import Decimal
from pathlib import Path

if __name__ == "__main__":  # helper-script mode: make `harness` importable, then re-enter through the package
    sys.path.insert(0, str(Path(__file__).resolve().parent.parent))
    os.environ.setdefault("PYTHONHASHSEED", "0")
    from harness import mgr_drv as _m

    sys.exit(_m.main(sys.argv[1:]))

import pandas as pd  # noqa: E402

from . import aave_drv, uni_drv  # noqa: E402  (both import demeter from the working tree through harness.sim)
from .common import int_to_limbs  # noqa: E402
from .sim import minute  # noqa: E402

from demeter import (AtTimeTrigger, BacktestConfig, BacktestData, BacktestManager, MarketInfo, MarketTypeEnum,  # noqa: E402
                     Strategy, StrategyConfig)
from demeter.aave import AaveV3Market  # noqa: E402
from demeter.uniswap import UniLpMarket, get_price_from_data  # noqa: E402

KINDS = ("idle", "lp", "late", "swap", "aave", "opt", "opt2")
NB = 8                      # bars
CENTRE = 207240             # tick of ~1000 USDC per ETH for (usdc 6, eth 18)
UNI_KEY = MarketInfo("uni")
AAVE_KEY = MarketInfo("aave", MarketTypeEnum.aave_v3)
OPT_KEY = MarketInfo("opt", MarketTypeEnum.deribit_option)


def q(n, d=1):
    """Num.tla rational literal as the drivers' universes carry it."""
    return ((n > 0) - (n < 0), int_to_limbs(abs(n)), int_to_limbs(d))


# ---- synthetic world (built by the other modules' builders) ------------------------------------------------
_CLOSES = (0, 10, -20, 30, 0, 5, -40, 20)
_VOL0 = (10 ** 9, 2 * 10 ** 9, 0, 10 ** 9, 3 * 10 ** 9, 10 ** 9, 10 ** 9, 5 * 10 ** 8)


class World:
    def __init__(self, mix: int):
        self.mix = mix
        rows = []
        prev = CENTRE
        for d, v in zip(_CLOSES, _VOL0):
            rows.append(dict(open=prev, close=CENTRE + d, liq=int_to_limbs(10 ** 18), in0=int_to_limbs(v), in1=int_to_limbs(v * 10 ** 9)))
            prev = CENTRE + d
        self.pool = uni_drv.Pool({"d0": 6, "d1": 18, "zq": True, "sp": 10, "fee": q(5, 10000)}, rows, (q(10000), q(10)), "A")
        self.uni_df = self.pool.frame(list(range(1, NB + 1)))
        prices, quote = get_price_from_data(self.uni_df, self.pool.pool)
        self.assets = {self.pool.t0: Decimal(10000), self.pool.t1: Decimal(10)}
        self.data = {UNI_KEY: self.uni_df}
        self.aave = None
        if mix == 2:
            u = {"tokens": ["WETH", "USDT"],
                 "risk": {"WETH": {"ltv": q(8, 10), "lt": q(825, 1000), "bonus": q(5, 100), "canColl": True, "canBorrow": True},
                          "USDT": {"ltv": q(75, 100), "lt": q(8, 10), "bonus": q(5, 100), "canColl": True, "canBorrow": True}},
                 "rows": [{"px": {"WETH": q(1000 + 5 * ((i * 3) % 4)), "USDT": q(1)},
                           "li": {"WETH": q(1000 + i, 1000), "USDT": q(1000 + 2 * i, 1000)},
                           "bi": {"WETH": q(1000 + 2 * i, 1000), "USDT": q(1000 + 5 * i, 1000)}} for i in range(NB)],
                 "w0": {"WETH": q(10), "USDT": q(5000)}}
            self.aave = aave_drv.Universe(u)
            ser, px = [], []
            for r in range(1, NB + 1):
                ms, price = self.aave.status(r)
                ser.append(ms.data)
                px.append(price)
            # Universe.status stamps row r with minute(r); the backtest grid starts at minute(0) like the pool frame
            self.aave_df = pd.DataFrame(ser, index=self.uni_df.index)
            self.aave_df.columns = pd.MultiIndex.from_tuples(list(self.aave_df.columns))
            self.data[AAVE_KEY] = self.aave_df
            for t in self.aave.tokens:
                prices[t] = [p[t] for p in px]
                self.assets[self.aave.tok[t]] = aave_drv.dec(self.aave.w0[t])
        self.opt_df = None
        if mix == 3:
            # the hourly option market next to the minutely pool: one book (hour 00:00), the best ask holds 10 contracts - two takers of
            # 8 contracts each overlap on that level when they see the same book object
            from fractions import Fraction as Fr

            from .deribit_util import book_frame
            book = {"C": {"listed": True, "und": Fr(1000), "mark": Fr("0.05"),
                          "asks": [{"p": Fr("0.051"), "s": Fr(10)}, {"p": Fr("0.061"), "s": Fr(50)}],
                          "bids": [{"p": Fr("0.049"), "s": Fr(10)}, {"p": Fr("0.04"), "s": Fr(50)}]}}
            info = {"C": {"kind": "C", "K": 1000, "exp": 10 ** 6}}
            self.opt_df = pd.concat([book_frame(book, info)], keys=[self.uni_df.index[0]], names=["time", "instrument_name"])
            self.data[OPT_KEY] = self.opt_df
        self.prices = (prices, quote)

    def markets(self):
        ms = [UniLpMarket(UNI_KEY, self.pool.pool)]
        if self.opt_df is not None:
            from demeter.deribit import DeribitOptionMarket
            ms.append(DeribitOptionMarket(OPT_KEY, DeribitOptionMarket.ETH))
        if self.aave is not None:
            ms.append(AaveV3Market(AAVE_KEY, self.aave.csv, tokens=list(self.aave.tok.values())))
        return ms

    def close(self):
        if self.aave is not None:
            self.aave.close()


# ---- the strategy family: every member (but idle) leaves state behind ----------------------------------------
_PROC = {"n": 0}   # per-process sequence number of the runs started in this process (forked workers get their own copy)


def cell(x):
    if isinstance(x, Decimal):
        return "D" + Decimal.__str__(x)
    if isinstance(x, float):
        return "F" + repr(x)
    if isinstance(x, (int, bool)) or x is None:
        return "I" + repr(x)
    return "S" + str(x)


class Fam(Strategy):
    """One member of the family; `kind` selects the behaviour, `sid` names the result file."""

    def __init__(self, kind: str, sid: str, out_dir: str):
        super().__init__()
        self.kind, self.sid, self.out_dir = kind, sid, out_dir
        self.seq = None

    # -- behaviour ----------------------------------------------------------------------------------------
    def initialize(self):
        self.seq = _PROC["n"]
        _PROC["n"] += 1
        if self.kind == "late":      # adds liquidity late, by a time trigger (as samples/strategy-example/62 does)
            self.triggers.append(AtTimeTrigger(time=minute(NB - 3), do=self.add_late))

    def add_late(self, snapshot):
        self.markets[UNI_KEY].add_liquidity_by_tick(CENTRE - 200, CENTRE + 300, Decimal(6), Decimal(6000))

    def on_bar(self, snapshot):
        uni = self.markets[UNI_KEY]
        if self.kind == "lp" and snapshot.row_id == 0:        # opens an LP position in the very first bar
            uni.add_liquidity_by_tick(CENTRE - 100, CENTRE + 100, Decimal(2), Decimal(2500))
        elif self.kind == "lp" and snapshot.row_id == 4:
            uni.add_liquidity_by_tick(CENTRE - 50, CENTRE + 150, Decimal(1), Decimal(1000))
        elif self.kind == "swap" and snapshot.row_id == 1:    # spends the wallet
            uni.sell(Decimal(7))
        elif self.kind == "swap" and snapshot.row_id == 3:
            uni.buy(Decimal(2))
        elif self.kind == "aave" and snapshot.row_id == 1:    # supplies and borrows: leaves a debt
            aave = self.markets[AAVE_KEY]
            tok = {t.name: t for t in aave.tokens}
            aave.supply(tok["WETH"], Decimal(6), True)
            aave.get_max_withdraw_amount(tok["WETH"])          # a read-only query (no debt yet) before borrowing
            aave.borrow(tok["USDT"], Decimal(2000))
        elif self.kind in ("opt", "opt2") and snapshot.row_id == 0:   # option takers: both lift the same ask level of the same hour
            opt = self.markets[OPT_KEY]
            opt.deposit(Decimal(5) if self.kind == "opt" else Decimal(3))
            if self.kind == "opt":
                opt.buy("C", Decimal(8))
            else:                                              # the second taker caps the price it accepts (1.1 x mark: the first level only)
                opt.buy("C", Decimal(8), max_mark_price_multiple=Decimal("1.1"))
        elif self.kind == "opt2" and snapshot.row_id == 3:            # (closed bar: the order is refused, the deposit is not)
            opt = self.markets[OPT_KEY]
            opt.deposit(Decimal(1))
        elif self.kind == "aave" and snapshot.row_id == 5:
            aave = self.markets[AAVE_KEY]
            tok = {t.name: t for t in aave.tokens}
            aave.repay(tok["USDT"], Decimal(500))

    # -- observation ----------------------------------------------------------------------------------------
    def finalize(self):
        df = self.account_status_df
        res = {
            "sid": self.sid, "kind": self.kind, "pid": os.getpid(), "seq": self.seq,
            "history": {"columns": [str(c) for c in df.columns], "index": [str(i) for i in df.index],
                        "rows": [[cell(v) for v in row] for row in df.itertuples(index=False, name=None)]},
            "wallet": {t.name: cell(a.balance) for t, a in sorted(self.broker.assets.items(), key=lambda kv: kv[0].name)},
            "positions": {}, "actions": [[str(a.timestamp), a.action_type.name, str(a.market)] for a in self.actions],
        }
        for mk, m in self.broker.markets.items():
            if isinstance(m, UniLpMarket):
                res["positions"][mk.name] = sorted(
                    [[int(k.lower_tick), int(k.upper_tick), cell(int(p.liquidity)), cell(p.pending_amount0), cell(p.pending_amount1)]
                     for k, p in m.positions.items()])
            elif type(m).__name__ == "DeribitOptionMarket":
                res["positions"][mk.name] = {"cash": cell(m.balance),
                                             "options": sorted([[k, cell(p.amount), cell(p.avg_buy_price), cell(p.buy_amount)] for k, p in m.positions.items()])}
            elif isinstance(m, AaveV3Market):
                res["positions"][mk.name] = {
                    "supplies": sorted([[k.name, cell(v.base_amount), bool(v.collateral)] for k, v in m._supplies.items()]),
                    "borrows": sorted([[k.name, cell(v.base_amount)] for k, v in m._borrows.items()])}
        tmp = os.path.join(self.out_dir, f".{self.sid}.{os.getpid()}.tmp")
        with open(tmp, "w") as f:
            json.dump(res, f)
        os.replace(tmp, os.path.join(self.out_dir, f"{self.sid}.json"))


def sid_of(i, kind):
    return f"s{i + 1}_{kind}"


# ---- one manager run --------------------------------------------------------------------------------------------
def run_config(cfg: dict, out_dir: str):
    """Run the real BacktestManager for cfg = {mix, kinds, w}.  Returns (error text | None, config-side observation).
    The observation (info only) says whether the configuration's own market objects were left untouched."""
    world = World(cfg["mix"])
    try:
        markets = world.markets()
        config = StrategyConfig(assets=dict(world.assets), markets=markets)
        strategies = [Fam(k, sid_of(i, k), out_dir) for i, k in enumerate(cfg["kinds"])]
        mgr = BacktestManager(config=config, data=BacktestData(world.data, world.prices), strategies=strategies,
                              backtest_config=BacktestConfig(), threads=cfg["w"])
        err = None
        cwd = os.getcwd()
        os.chdir(out_dir)        # Actuator.run saves "backtest-with-error" files to "./" when a run raises
        noise = io.StringIO()    # the sequential path prints "NoneType: None" per strategy (e_callback(None))
        try:
            with contextlib.redirect_stderr(noise), contextlib.redirect_stdout(noise):
                mgr.run()
        except Exception as e:  # the manager raised: the remaining strategies have no result
            err = f"{type(e).__name__}: {e}"
        finally:
            os.chdir(cwd)
        text = noise.getvalue()
        if err is None and "Traceback" in text:
            err = "worker error: " + text.strip().splitlines()[-1][:300]
        touched = []
        for m in markets:
            if m.broker is not None:
                touched.append(f"{m.market_info.name}.broker")
            if isinstance(m, UniLpMarket) and m.positions:
                touched.append(f"{m.market_info.name}.positions")
            if isinstance(m, AaveV3Market) and (m._supplies or m._borrows):
                touched.append(f"{m.market_info.name}.supplies/borrows")
            if type(m).__name__ == "DeribitOptionMarket" and (m.positions or m.balance):
                touched.append(f"{m.market_info.name}.positions/cash")
        return err, touched
    finally:
        world.close()


def load_results(cfg: dict, out_dir: str):
    out = {}
    for i, k in enumerate(cfg["kinds"]):
        p = os.path.join(out_dir, f"{sid_of(i, k)}.json")
        if os.path.exists(p):
            with open(p) as f:
                out[i] = json.load(f)
    return out


def main(argv):
    job = json.load(open(argv[0]))
    os.makedirs(job["out"], exist_ok=True)
    err, touched = run_config(job["cfg"], job["out"])
    with open(os.path.join(job["out"], "_run.json"), "w") as f:
        json.dump({"err": err, "touched": touched}, f)
    return 0

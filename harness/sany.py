"""Parse every spec module with SANY (setup-time sanity check)."""
import subprocess
import sys
from concurrent.futures import ThreadPoolExecutor
from pathlib import Path

from .tlc import CM, JAR, SPEC, module_path_env


def one(f: Path):
    p = subprocess.run(["java", module_path_env(), "-cp", f"{JAR}:{CM}", "tla2sany.SANY", str(f)],
                       cwd=str(f.parent), capture_output=True, text=True)
    ok = p.returncode == 0 and "error" not in p.stdout.lower().replace("semantic errors:\n\n", "")
    return f, ok, p.stdout[-1500:]


def main():
    files = [f for d in ("", "mc", "trace", "lib") for f in sorted((SPEC / d).glob("*.tla"))]
    bad = 0
    with ThreadPoolExecutor(8) as ex:
        for f, ok, out in ex.map(one, files):
            if not ok:
                bad += 1
                print(f"SANY FAILED {f}\n{out}")
    print(f"sany: {len(files) - bad}/{len(files)} modules parse")
    sys.exit(0)  # informational: a check whose module does not parse fails on its own (exit 2)


main()

"""Drive the real AaveV3Market along behaviours of spec/Aave.tla and compare after every step.

Shared by the checks of C10 (balances / amounts moved), C11 (limits, risk figures), C12 (liquidation),
C13 (derived views) and the Aave legs of C03 / C04.  Every comparison is tagged with the property that owns it;
a check raises violations only for its own tags (others are counted in the evidence as cross-property info).
"""
from __future__ import annotations

import copy
import csv
import os
import tempfile
from decimal import Decimal
from fractions import Fraction

import pandas as pd

from .common import maybe_float, Q, close, frac, unq
from .sim import BASE, minute  # noqa: F401  (imports demeter from the working tree)

from demeter import MarketInfo, MarketStatus, MarketTypeEnum, TokenInfo, Broker  # noqa: E402
from demeter.aave import AaveV3Market  # noqa: E402

ALL = (2, (), (1,))
INF = (3, (), (1,))
REL = Fraction(1, 10 ** 24)      # Decimal results involving a division (prec 35 / 28)
ABS18 = Fraction(1, 10 ** 18)    # property C10: "nothing beyond 1e-18"
ABS4 = Fraction(1, 10 ** 4)
BAND_IN = 1 - Fraction(1, 10 ** 24)   # a request this close to a limit may go either way (Decimal rounding)

_CSV_COLS = ["underlyingAsset", "name", "symbol", "decimals", "baseLTVasCollateral", "reserveLiquidationThreshold",
             "reserveLiquidationBonus", "reserveFactor", "usageAsCollateralEnabled", "borrowingEnabled",
             "variableRateSlope1", "variableRateSlope2", "baseVariableBorrowRate", "optimalUsageRatio",
             "flashLoanEnabled", "borrowCap", "supplyCap", "borrowableInIsolation"]

RATES = {"WETH": ("0.02", "0.03"), "USDT": ("0.05", "0.08"), "DAI": ("0", "0.04"), "XTK": ("0.01", "0.01")}


def dec(fr: Fraction) -> Decimal:
    """Exact Decimal of a universe value (all universe values are finite decimals)."""
    d = Decimal(fr.numerator) / Decimal(fr.denominator)
    assert Fraction(d) == fr, f"universe value {fr} is not a finite decimal"
    return d


class Universe:
    def __init__(self, u):
        self.tokens = sorted(u["tokens"])
        self.risk = {t: {k: (Q(v) if isinstance(v, tuple) else v) for k, v in r.items()} for t, r in u["risk"].items()}
        self.rows = [{k: {t: Q(v) for t, v in r[k].items()} for k in ("px", "li", "bi")} for r in u["rows"]]
        self.w0 = {t: Q(v) for t, v in u["w0"].items()}
        self.tok = {t: TokenInfo(t, 18 if t in ("WETH", "XTK") else 6) for t in self.tokens}
        fd, self.csv = tempfile.mkstemp(prefix="verif_risk_", suffix=".csv")
        with os.fdopen(fd, "w", newline="") as f:
            w = csv.writer(f)
            w.writerow(_CSV_COLS)
            for t in self.tokens:
                r = self.risk[t]
                w.writerow(["0x0", t, t, self.tok[t].decimal, int(r["ltv"] * 10000), int(r["lt"] * 10000),
                            int(10000 + r["bonus"] * 10000), 1000, r["canColl"], r["canBorrow"],
                            0, 0, 0, 0, True, 0, 0, True])

    def close(self):
        try:
            os.unlink(self.csv)
        except OSError:
            pass

    def status(self, row: int):
        r = self.rows[row - 1]
        cols = ["liquidity_rate", "stable_borrow_rate", "variable_borrow_rate", "liquidity_index", "variable_borrow_index"]
        idx = pd.MultiIndex.from_product([self.tokens, cols])
        data = []
        for t in self.tokens:
            lr, br = RATES[t]
            data += [Decimal(lr), Decimal(br), Decimal(br), dec(r["li"][t]), dec(r["bi"][t])]
        ms = MarketStatus(minute(row), pd.Series(index=idx, data=data))
        price = pd.Series({t: dec(r["px"][t]) for t in self.tokens})
        return ms, price


class Driver:
    """One real broker + AaveV3Market."""

    def __init__(self, uni: Universe):
        self.u = uni
        self.actions = []
        self.broker = Broker(record_action_callback=self._rec)
        self.market = AaveV3Market(MarketInfo("aave", MarketTypeEnum.aave_v3), uni.csv, tokens=list(uni.tok.values()))
        self.broker.add_market(self.market)
        from demeter._typing import USD
        self.broker.quote_token = USD
        for t in uni.tokens:
            self.broker.set_balance(uni.tok[t], dec(uni.w0[t]))
        self.row = 1
        self.set_row(1)

    def _rec(self, action):
        action.set_type()
        self.actions.append(action)

    def set_row(self, row):
        ms, price = self.u.status(row)
        self.market.set_market_status(ms, price)
        self.row = row
        self.prices = price.copy()
        self.prices["USD"] = Decimal(1)

    def account(self):
        """the account's REPORTED valuation: (net value, wallet value, this market's net value)."""
        try:
            a = self.broker.get_account_status(self.prices)
        except Exception as e:  # a corrupted position makes the valuation itself raise: reported by the caller as C13/C01
            raise ViewError(f"Broker.get_account_status raised {type(e).__name__}: {e}") from e
        return frac(Decimal(a.net_value)), frac(Decimal(a.asset_value)), frac(Decimal(a.market_status[self.market.market_info].net_value))

    # ---- events -------------------------------------------------------------------------------
    def apply(self, ev):
        """Returns (outcome, exception text, new action records)."""
        m, tok = self.market, self.u.tok
        n0 = len(self.actions)
        op = ev["op"]

        def amt(a):
            return None if a == ALL else maybe_float(dec(Q(a)))       # Decimal | float, as the signatures say
        try:
            if op == "supply":
                m.supply(tok[ev["t"]], amt(ev["a"]), ev["c"])
            elif op == "withdraw":
                m.withdraw(tok[ev["t"]], amt(ev["a"]))
            elif op == "borrow":
                m.borrow(tok[ev["t"]], amt(ev["a"]))
            elif op == "repay":
                if ev["with"] == "cash":
                    m.repay(tok[ev["t"]], amt(ev["a"]))
                else:
                    m.repay(tok[ev["t"]], amt(ev["a"]), repay_with_collateral=True, repay_collateral_token=tok[ev["with"]])
            elif op == "setcoll":
                m.change_collateral(tok[ev["t"]], ev["c"])
            elif op == "update":
                self.liq_steps = []
                self.liq_before = self.project()
                orig = m._do_liquidate

                def wrapped(*a, _o=orig, **kw):      # whatever signature the step function has
                    before = self.project()
                    n = len(self.actions)
                    r = _o(*a, **kw)
                    self.liq_steps.append((before, self.project(), self.actions[n:]))
                    return r
                m._do_liquidate = wrapped
                try:
                    m.update()
                finally:
                    del m._do_liquidate
            elif op == "nextbar":
                self.set_row(ev["row"])
            elif op == "read":
                if ev.get("v") == 2:
                    # the read-only limit helpers are reads too: asking for a limit must not disturb what the views report afterwards
                    for k in list(m._supplies.keys()):
                        try:
                            m.get_max_withdraw_amount(k)
                        except Exception:
                            pass                      # a raising helper is C11's matter (helper probes)
                    for t in self.u.tokens:
                        try:
                            m.get_max_borrow_amount(tok[t])
                        except Exception:
                            pass
            else:
                raise ValueError(op)
        except Exception as e:  # rejection = the public call raises
            return "reject", f"{type(e).__name__}: {e}", self.actions[n0:]
        return "ok", None, self.actions[n0:]

    # ---- projection ---------------------------------------------------------------------------
    def project(self):
        m = self.market
        return {
            "w": {t: frac(self.broker.assets[self.u.tok[t]].balance) for t in self.u.tokens},
            "sb": {k.name: frac(v.base_amount) for k, v in m._supplies.items()},
            "sc": {k.name: bool(v.collateral) for k, v in m._supplies.items()},
            "bb": {k.name: frac(v.base_amount) for k, v in m._borrows.items()},
        }

    def snapshot(self):
        """Deep, comparable snapshot of everything C04 names (wallet, positions, action log length)."""
        p = self.project()
        return (tuple(sorted(p["w"].items())), tuple(sorted(p["sb"].items())), tuple(sorted(p["sc"].items())),
                tuple(sorted(p["bb"].items())), len(self.actions))

    def views(self, subset=None):
        m = self.market
        out = {}

        def want(k):
            return subset is None or k in subset
        if want("supplies"):
            out["supplies"] = {k.name: {"amount": v.amount, "base": v.base_amount, "collateral": v.collateral, "value": v.value}
                               for k, v in m.supplies.items()}
        if want("borrows"):
            out["borrows"] = {k.name: {"amount": v.amount, "base": v.base_amount, "value": v.value} for k, v in m.borrows.items()}
        if want("collateral_value"):
            out["collateral_value"] = {k.name: v for k, v in m.collateral_value.items()}
        if want("total_supply"):
            out["total_supply"] = m.total_supply_value
        if want("total_collateral"):
            out["total_collateral"] = m.total_collateral_value
        if want("total_borrows"):
            out["total_borrows"] = m.total_borrows_value
        if want("health_factor"):
            out["health_factor"] = m.health_factor
        if want("max_ltv"):
            out["max_ltv"] = m.max_ltv
        if want("liq_threshold"):
            out["liq_threshold"] = m.liquidation_threshold
        if want("ltv"):
            out["ltv"] = m.ltv
        if want("balance"):
            b = m.get_market_balance()
            out["bal_net_value"], out["bal_supplies"], out["bal_borrows"], out["bal_collaterals"] = (
                b.net_value, b.supplies_value, b.borrows_value, b.collaterals_value)
            out["bal_counts"] = (b.supplies_count, b.borrows_count)
            out["bal_hf"] = b.health_factor
        if want("apy"):
            out["supply_apy"], out["borrow_apy"] = m.supply_apy, m.borrow_apy
            out["total_apy"] = m.total_apy
            out["max_repay"] = {k.name: m.get_max_repay_amount(k) for k in m._borrows}
        return out


VIEW_GROUPS = ["supplies", "borrows", "collateral_value", "total_supply", "total_collateral", "total_borrows",
               "health_factor", "max_ltv", "liq_threshold", "ltv", "balance", "apy"]


def is_inf(x):
    return isinstance(x, Decimal) and x.is_infinite()


def q_or_inf(v):
    return "inf" if v == INF else Q(v)


def cmp_q(code, spec, rel=REL, abs_=Fraction(0)):
    """code value (Decimal) vs spec value (Fraction or 'inf')."""
    if spec == "inf":
        return is_inf(code)
    if is_inf(code) or (isinstance(code, Decimal) and code.is_nan()):
        return False
    return close(code, spec, rel, abs_)


class ViewError(Exception):
    pass


class Mismatch:
    def __init__(self, prop, clause, text):
        self.prop, self.clause, self.text = prop, clause, text

    def __repr__(self):
        return f"{self.prop}/{self.clause}: {self.text}"


def compare_state(drv: Driver, st, tally):
    """Projected positions vs spec state -> list of Mismatch."""
    out = []
    p = drv.project()
    for t in drv.u.tokens:
        tally("C10/wallet")
        if not close(p["w"][t], Q(st["w"][t]), REL, Fraction(0)):
            out.append(Mismatch("C10", "wallet", f"wallet[{t}] code {p['w'][t]} spec {Q(st['w'][t])}"))
        sb, bb = Q(st["sb"][t]), Q(st["bb"][t])
        li, bi = drv.u.rows[st["row"] - 1]["li"][t], drv.u.rows[st["row"] - 1]["bi"][t]
        tally("C10/supply_amount")
        cs = p["sb"].get(t)
        if (cs is None) != (sb == 0):
            out.append(Mismatch("C10", "supply_presence", f"supply[{t}] code {'absent' if cs is None else cs} spec base {sb}"))
        elif cs is not None and not close(cs * li, sb * li, REL, ABS18):
            out.append(Mismatch("C10", "supply_amount", f"supply[{t}] amount code {float(cs * li)} spec {float(sb * li)}"))
        if cs is not None and sb != 0:
            tally("C13/collateral_flag")
            if p["sc"][t] != st["sc"][t]:
                out.append(Mismatch("C13", "collateral_flag_state", f"supply[{t}].collateral code {p['sc'][t]} spec {st['sc'][t]}"))
        tally("C10/borrow_amount")
        cb = p["bb"].get(t)
        # an entry of scaled amount 0 is the spec's "empty debt entry" (Aave.tla, st.bz): left by a borrow of nothing, never by a repayment
        spec_entry = bb != 0 or t in st.get("bz", ())
        if (cb is None) == spec_entry:
            out.append(Mismatch("C10", "borrow_presence", f"debt[{t}] code {'absent' if cb is None else cb} spec base {bb}"
                                                          f"{' (empty entry)' if spec_entry and bb == 0 else ''}"))
        elif cb is not None and not close(cb * bi, bb * bi, REL, ABS18):
            out.append(Mismatch("C10", "borrow_amount", f"debt[{t}] amount code {float(cb * bi)} spec {float(bb * bi)}"))
    return out


def compare_views(drv: Driver, view, tally, subset=None):
    out = []
    try:
        v = drv.views(subset)
    except Exception as e:  # a derived view that cannot even be read does not equal its recomputation
        tally("C13/view_readable")
        return [Mismatch("C13", "view_raises", f"reading the derived views raised {type(e).__name__}: {e}")]
    from demeter.aave import AaveV3CoreLib
    for key, code in v.items():
        if key in ("supplies", "borrows"):
            spec = view[key] if isinstance(view[key], dict) else {}
            tally(f"C13/{key}")
            if set(code) != set(spec):
                out.append(Mismatch("C13", key + "_keys", f"{key} code {sorted(code)} spec {sorted(spec)}"))
                continue
            for t, rec in code.items():
                for f, cv in rec.items():
                    sv = spec[t][f]
                    okf = (cv == sv) if f == "collateral" else cmp_q(cv, Q(sv), REL, ABS18)
                    if not okf:
                        out.append(Mismatch("C13", f"{key}.{f}", f"{key}[{t}].{f} code {cv} spec {sv if f == 'collateral' else float(Q(sv))}"))
        elif key == "collateral_value":
            spec = view[key] if isinstance(view[key], dict) else {}
            tally("C13/collateral_value")
            if set(code) != set(spec) or any(not cmp_q(code[t], Q(spec[t]), REL, ABS18) for t in code):
                out.append(Mismatch("C13", key, f"collateral_value code {code} spec { {t: float(Q(x)) for t, x in spec.items()} }"))
        elif key in ("total_supply", "total_collateral", "total_borrows"):
            tally(f"C13/{key}")
            if not cmp_q(code, Q(view[key]), REL, ABS18):
                out.append(Mismatch("C13", key, f"{key} code {code} spec {float(Q(view[key]))}"))
        elif key in ("health_factor", "max_ltv", "liq_threshold", "ltv"):
            # the risk figures are C11's definitions and C13's "equals recomputation"
            sv = q_or_inf(view[key])
            tally(f"C11/{key}")
            tally(f"C13/{key}")
            if not cmp_q(code, sv, REL, Fraction(0)):
                txt = f"{key} code {code} spec {sv if sv == 'inf' else float(sv)}"
                out.append(Mismatch("C11", key, txt))
                out.append(Mismatch("C13", key, txt))
        elif key.startswith("bal_") and key in view:
            tally(f"C13/{key}")
            # quantised to 4 places on both sides; a value within 1e-30 of a rounding tie may legitimately differ by 1e-4
            if not cmp_q(code, Q(view[key]), Fraction(0), Fraction(0)) and not cmp_q(code, Q(view[key]), Fraction(0), ABS4 * 2):
                out.append(Mismatch("C13", key, f"{key} code {code} spec {float(Q(view[key]))}"))
            elif not cmp_q(code, Q(view[key]), Fraction(0), Fraction(0)):
                tally("info/balance_rounding_tie")
        elif key == "bal_counts":
            tally("C13/bal_counts")
            spec = (len(view["supplies"]) if isinstance(view["supplies"], dict) else 0,
                    len(view["borrows"]) if isinstance(view["borrows"], dict) else 0)
            if tuple(code) != spec:
                out.append(Mismatch("C13", "bal_counts", f"counts code {code} spec {spec}"))
        elif key == "bal_hf":
            tally("C13/bal_hf")
            sv = q_or_inf(view["health_factor"])
            if not (is_inf(code) if sv == "inf" else cmp_q(code, sv, Fraction(0), ABS4)):
                out.append(Mismatch("C13", "bal_hf", f"balance.health_factor code {code} spec {sv}"))
        elif key in ("supply_apy", "borrow_apy"):
            tally(f"C13/{key}")
            wkey = "supply_weights" if key == "supply_apy" else "borrow_weights"
            wts = view[wkey] if isinstance(view[wkey], dict) else {}
            exp = Fraction(0)
            for t, wq in wts.items():
                rate = Decimal(RATES[t][0 if key == "supply_apy" else 1])
                exp += Q(wq) * frac(AaveV3CoreLib.rate_to_apy(rate))
            if not close(code, exp, Fraction(1, 10 ** 20), Fraction(1, 10 ** 24)):
                out.append(Mismatch("C13", key, f"{key} code {code} spec-weighted {float(exp)}"))
        elif key == "total_apy":
            # (supply apy x supplies - borrow apy x debts) / (supplies - debts), 0 when the difference is 0; apys as weighted above
            tally("C13/total_apy")
            ex = {}
            for k2, wkey in (("s", "supply_weights"), ("b", "borrow_weights")):
                wts = view[wkey] if isinstance(view[wkey], dict) else {}
                ex[k2] = sum((Q(wq) * frac(AaveV3CoreLib.rate_to_apy(Decimal(RATES[t][0 if k2 == "s" else 1]))) for t, wq in wts.items()), Fraction(0))
            S, B = Q(view["total_supply"]), Q(view["total_borrows"])
            exp = (ex["s"] * S - ex["b"] * B) / (S - B) if S != B else Fraction(0)
            # near cancellation of supplies and debts the 35-digit arithmetic loses relative accuracy: tolerance relative to the legs
            if not close(code, exp, Fraction(1, 10 ** 18), Fraction(1, 10 ** 20) * (abs(ex["s"] * S) + abs(ex["b"] * B) + 1) / (abs(S - B) if S != B else 1)):
                out.append(Mismatch("C13", key, f"total_apy code {code} spec {float(exp)}"))
        elif key == "max_repay":
            tally("C13/max_repay")
            spec = view["borrows"] if isinstance(view["borrows"], dict) else {}
            if set(code) != set(spec) or any(not cmp_q(code[t], Q(spec[t]["amount"]), REL, ABS18) for t in code):
                out.append(Mismatch("C13", key, f"get_max_repay_amount code {code} spec { {t: float(Q(x['amount'])) for t, x in spec.items()} }"))
    return out


def compare_actions(ev, acts_code, acts_spec, tally):
    out = []
    if ev["op"] == "update":
        tally("C12/action_count")
        if len(acts_code) != len(acts_spec):
            out.append(Mismatch("C12", "pair(info)", f"{len(acts_code)} liquidation records, spec policy {len(acts_spec)}"))
            return out
        for a, s in zip(acts_code, acts_spec):
            tally("C12/action_fields")
            if a.collateral_token != s["collateral"] or a.debt_token != s["debt"]:
                out.append(Mismatch("C12", "pair(info)", f"pair code {a.collateral_token}/{a.debt_token} spec {s['collateral']}/{s['debt']}"))
                continue
            for f, sv in (("collateral_used", s["seized"]), ("variable_delt_liquidated", s["repaid"]),
                          ("collateral_after", s["coll_after"]), ("variable_debt_after", s["debt_after"]),
                          ("health_factor_before", s["hf_before"])):
                cv = getattr(a, f)
                if not cmp_q(Decimal(cv), Q(sv), REL, ABS18):   # e.g. repaying less than the close factor is allowed
                    out.append(Mismatch("C12", "pair(info)", f"LiquidationAction.{f} code {cv} spec policy {float(Q(sv))}"))
        return out
    kinds = {"supply": "SupplyAction", "withdraw": "WithdrawAction", "borrow": "BorrowAction", "repay": "RepayAction"}
    tally("C10/action_count")
    if len(acts_code) != len(acts_spec):
        out.append(Mismatch("C10", "action_count", f"{ev['op']}: {len(acts_code)} action records, spec {len(acts_spec)}"))
        return out
    for a, s in zip(acts_code, acts_spec):
        tally("C10/action_fields")
        if type(a).__name__ != kinds.get(s["type"]):
            out.append(Mismatch("C10", "action_type", f"record {type(a).__name__} for {s['type']}"))
            continue
        after = a.deposit_after if s["type"] in ("supply", "withdraw") else a.debt_after
        if a.token != s["token"] or not cmp_q(Decimal(a.amount), Q(s["amount"]), REL, ABS18) \
                or not cmp_q(Decimal(after), Q(s["after"]), REL, ABS18):
            out.append(Mismatch("C10", "action_fields", f"{type(a).__name__} token {a.token} amount {a.amount} after {after}; "
                                                         f"spec {s['token']} {float(Q(s['amount']))} {float(Q(s['after']))}"))
    return out


OUTCOME_OWNER = {"borrow": "C11", "withdraw": "C11", "setcoll": "C11", "supply": "C10", "repay": "C10", "update": "C12",
                 "nextbar": "C13", "read": "C13"}


def q_json(fr):
    from .common import int_to_limbs
    fr = Fraction(fr)
    return [(fr > 0) - (fr < 0), list(int_to_limbs(abs(fr.numerator))), list(int_to_limbs(fr.denominator))]


def st_json(uni, proj, row):
    """code projection -> the spec's state record (JSON form)."""
    z = Fraction(0)
    return {"w": {t: q_json(proj["w"][t]) for t in uni.tokens},
            "sb": {t: q_json(proj["sb"].get(t, z)) for t in uni.tokens},
            "sc": {t: bool(proj["sc"].get(t, False)) for t in uni.tokens},
            "bb": {t: q_json(proj["bb"].get(t, z)) for t in uni.tokens},
            "bz": sorted(t for t, v in proj["bb"].items() if v == 0), "row": row, "k": 0}


def helper_probes(drv: Driver, step_no):
    """C11: the max-withdraw / max-borrow helper amounts (code's exact values) as probe events, with the code's own
    outcome on a deep copy; the spec's outcome is evaluated by TLC (Trace_AaveProbe)."""
    probes = []
    uni = drv.u
    m = drv.market
    proj = drv.project()
    stj = st_json(uni, proj, drv.row)

    def try_on_copy(ev):
        d2 = copy.deepcopy(drv)
        return d2.apply(ev)[0]
    for k in list(m._supplies.keys()):
        t = k.name
        try:
            mw = m.get_max_withdraw_amount(k)
            supplied = m.get_supply(k).amount
        except Exception as e:
            probes.append({"kind": "helper_raises", "what": f"get_max_withdraw_amount({t}): {type(e).__name__}: {e}", "step": step_no})
            continue
        base = {"kind": "step", "st": stj, "step": step_no, "helper": "max_withdraw", "token": t,
                "value": str(mw), "supplied": str(supplied)}
        probes.append({**base, "tag": "bounds", "ok": bool(0 <= mw <= supplied), "ev": {"op": "read", "v": 0}})
        if mw > 0:
            ev = {"op": "withdraw", "t": t, "a": tuple_q(frac(mw))}
            probes.append({**base, "tag": "at", "ev": json_ev(ev), "code_out": try_on_copy(ev), "expect": "ok"})
            ev = {"op": "withdraw", "t": t, "a": tuple_q(frac(mw) * BAND_IN)}   # tolerance band at the limit (DESIGN 2.9)
            probes.append({**base, "tag": "at_band", "ev": json_ev(ev)})
        beyond = mw * Decimal("1.001")
        if mw >= Decimal("0.01") and beyond < supplied:
            ev = {"op": "withdraw", "t": t, "a": tuple_q(frac(beyond))}
            probes.append({**base, "tag": "beyond", "ev": json_ev(ev), "code_out": try_on_copy(ev), "expect": "reject"})
    if m.total_collateral_value > 0:
        for t in uni.tokens:
            if not uni.risk[t]["canBorrow"]:
                continue
            try:
                mb = m.get_max_borrow_amount(uni.tok[t])
            except Exception as e:
                probes.append({"kind": "helper_raises", "what": f"get_max_borrow_amount({t}): {type(e).__name__}: {e}", "step": step_no})
                continue
            base = {"kind": "step", "st": stj, "step": step_no, "helper": "max_borrow", "token": t, "value": str(mb)}
            if mb > 0:
                ev = {"op": "borrow", "t": t, "a": tuple_q(frac(mb))}
                probes.append({**base, "tag": "at", "ev": json_ev(ev), "code_out": try_on_copy(ev), "expect": "ok"})
                ev = {"op": "borrow", "t": t, "a": tuple_q(frac(mb) * BAND_IN)}
                probes.append({**base, "tag": "at_band", "ev": json_ev(ev)})
                beyond = mb / Decimal("0.99") * Decimal("1.001")
                ev = {"op": "borrow", "t": t, "a": tuple_q(frac(beyond))}
                probes.append({**base, "tag": "beyond", "ev": json_ev(ev), "code_out": try_on_copy(ev), "expect": "reject"})
    return probes


def tuple_q(fr):
    from .common import int_to_limbs
    return ((fr > 0) - (fr < 0), int_to_limbs(abs(fr.numerator)), int_to_limbs(fr.denominator))


def json_ev(ev):
    return {k: (list(map(lambda x: list(x) if isinstance(x, tuple) else x, v)) if isinstance(v, tuple) else v) for k, v in ev.items()}


def liq_probes(drv: Driver, step_no):
    """C12: every liquidation step the code performed in update(): (state before, state after, action record)."""
    out = [{"kind": "liqrun", "step": step_no, "st": st_json(drv.u, drv.liq_before, drv.row),
            "st2": st_json(drv.u, drv.project(), drv.row),
            "acts": [{"collateral": a.collateral_token, "debt": a.debt_token}
                     for _, _, acts in drv.liq_steps for a in acts]}]
    for before, after, acts in getattr(drv, "liq_steps", []):
        if len(acts) != 1:
            out.append({"kind": "liq_no_record", "step": step_no, "what": f"{len(acts)} action records for one liquidation step"})
            continue
        a = acts[0]
        out.append({"kind": "liqstep", "step": step_no, "st": st_json(drv.u, before, drv.row), "st2": st_json(drv.u, after, drv.row),
                    "act": {"collateral": a.collateral_token, "debt": a.debt_token,
                            "seized": q_json(frac(Decimal(a.collateral_used))), "repaid": q_json(frac(Decimal(a.variable_delt_liquidated)))}})
    return out


def replay_path(uni: Universe, scn, steps, read_mode, tally, probes=None, probe_helpers=False):
    """steps: list of (ev, out, acts, st, view) from the spec.  Returns (list of Mismatch, step index) - stops at first."""
    drv = Driver(uni)
    for ev in scn:
        o, exc, _ = drv.apply(ev)
        if o != "ok":
            return [Mismatch("C10", "scenario_prefix", f"scenario prefix event {ev} raised {exc}")], -1
    soft_acc, soft_at = [], -1
    prev_spec = None
    for i, (ev, out, acts, st, view) in enumerate(steps):
        if i > 0:
            prev_spec = steps[i - 1][3]
        if ev.get("rel") and "a" in ev and ev["a"] != ALL:
            fa = Q(ev["a"])
            if Fraction(Decimal(fa.numerator) / Decimal(fa.denominator)) != fa:
                tally("info/amount_relative_to_balance_not_a_finite_decimal")     # cannot be handed to the API exactly: the path ends
                return soft_acc, i
        before = drv.snapshot()
        try:
            nv0 = drv.account()[0]
        except ViewError as e:
            return [Mismatch("C13", "view_raises", str(e)), Mismatch("C01", "account_status_raises", str(e))], i
        px0 = drv.u.rows[drv.row - 1]["px"]
        touched = before[0]
        o, exc, new = drv.apply(ev)
        mm = []
        if ev["op"] in ("supply", "withdraw", "borrow", "repay", "setcoll"):
            # C03: frozen market - no value creation beyond wallet dust; Aave operations conserve net value exactly up to dust
            # (the reported Aave value is quantised to 1e-4 on supplies and debts: 2e-4 absolute)
            tally("C03/aave_value_conserved")
            try:
                nv1 = drv.account()[0]
            except ViewError as e:
                mm += [Mismatch("C13", "view_raises", str(e)), Mismatch("C01", "account_status_raises", str(e))]
                nv1 = nv0
            wbal = dict(touched).get(ev.get("t"), Fraction(0))
            dust = Fraction(1, 10 ** 5) * wbal * px0.get(ev.get("t"), Fraction(0)) + Fraction(2, 10 ** 4)
            if nv1 - nv0 > dust:
                mm.append(Mismatch("C03", "value_created", f"{ev['op']} {fmt_ev(ev)} ({o}) raised net value by {float(nv1 - nv0)!r} (dust {float(dust)!r})"))
            elif ev["op"] != "setcoll" and abs(nv1 - nv0) > dust:
                mm.append(Mismatch("C03", "value_not_conserved", f"{ev['op']} {fmt_ev(ev)} ({o}) changed net value by {float(nv1 - nv0)!r}"))
            p_ = drv.project()
            tally("C03/aave_non_negative")
            neg = [k for k, v in list(p_["w"].items()) + list(p_["sb"].items()) + list(p_["bb"].items()) if v < 0]
            if neg:
                mm.append(Mismatch("C03", "negative_holding", f"after {ev['op']} {fmt_ev(ev)}: negative {neg}"))
        tally(f"{OUTCOME_OWNER[ev['op']]}/outcome")
        if o == "reject":
            tally("C04/reject_intact")
            if drv.snapshot() != before:
                mm.append(Mismatch("C04", "reject_intact", f"{ev['op']} raised ({exc}) but state changed"))
        if ev["op"] == "update" and o == "reject":
            mm.append(Mismatch("C12", "update_raises", f"update() raised {exc}"))
        elif o != out:
            if at_limit(drv.u, prev_spec, ev):
                # the request sits on the limit itself (within 1e-20 relative): the code's 35-digit Decimal division may fall on either
                # side (DESIGN 2.9, band at a limit); either outcome is allowed and the path ends here (the states differ from now on)
                tally("info/outcome_in_band_at_limit")
                return soft_acc, i
            mm.append(Mismatch(OUTCOME_OWNER[ev["op"]], "outcome", f"{ev['op']} {fmt_ev(ev)}: code {o} ({exc}), spec {out}"))
        if mm and ev["op"] != "update":
            # the step already deviates (another clause): the positions are still compared with the spec's state after the step, so
            # that a deviation is also reported under the clause that owns the positions (C10)
            mm2 = compare_state(drv, st, tally)
            mm += mm2
            if not mm2 and o == out and (read_mode == "all" or ev["op"] == "read" or i == len(steps) - 1):
                # positions and outcome conform: the deviation so far is in reported values - decide the views' own clauses too (C13)
                mm += compare_views(drv, view, tally, None)
        if not mm:
            mm += compare_actions(ev, new, acts, tally)
            if ev["op"] != "update":
                mm += compare_state(drv, st, tally)
            elif not mm and compare_state(drv, st, lambda c: None):
                mm.append(Mismatch("C12", "pair(info)", "state after update() differs from the policy prediction"))
            if mm and all(m.clause == "pair(info)" for m in mm):
                pass
            elif read_mode == "all" or ev["op"] == "read" or i == len(steps) - 1:
                subset = None
                if read_mode != "all" and ev["op"] == "read":
                    subset = VIEW_GROUPS[ev["v"] % len(VIEW_GROUPS)::3]
                mm += compare_views(drv, view, tally, subset)
        if all(m.prop in ("C13", "C11") and m.clause != "view_raises" for m in mm):
            # C01: the reported net value equals wallet x prices + (supplies - debts) valued by the specification (also when only
            # other REPORTED values deviate: positions, wallet and outcome conform)
            tally("C01/aave_net_value")
            try:
                nv, av, mv = drv.account()
            except ViewError as e:
                return [Mismatch("C13", "view_raises", str(e)), Mismatch("C01", "account_status_raises", str(e))], i
            px = drv.u.rows[st["row"] - 1]["px"]
            spec_av = sum((Q(st["w"][t]) * px[t] for t in drv.u.tokens), Fraction(0))
            spec_mv = Q(view["bal_net_value"])
            if not close(av, spec_av, REL, Fraction(0)):
                mm.append(Mismatch("C01", "asset_value", f"asset_value code {float(av)!r} spec {float(spec_av)!r}"))
            elif not close(mv, spec_mv, Fraction(0), ABS4 * 2):
                mm.append(Mismatch("C01", "market_net_value", f"aave net_value code {float(mv)!r} spec {float(spec_mv)!r}"))
            elif not close(nv, spec_av + spec_mv, REL, ABS4 * 2):
                mm.append(Mismatch("C01", "net_value", f"account net_value code {float(nv)!r} spec {float(spec_av + spec_mv)!r}"))
        if probes is not None:
            if ev["op"] == "update" and o == "ok":
                probes.extend(liq_probes(drv, i))
            if probe_helpers and not mm and (i == len(steps) - 1 or i % 3 == 0):
                probes.extend(helper_probes(drv, i))
        real = [m for m in mm if m.clause != "pair(info)"]
        if real:
            # a deviation in REPORTED values only (the positions, the wallet and the outcome conform) does not end the path: what the
            # stale figure does to later operations is a matter of the clauses that own those operations (first deviation kept)
            soft = all(m.prop in ("C13", "C01") or (m.prop == "C03" and m.clause.startswith("value_")) or
                       (m.prop == "C11" and m.clause in ("health_factor", "max_ltv", "liq_threshold", "ltv")) for m in real)
            if soft and o == out and not compare_state(drv, st, lambda c: None):
                if not soft_acc:
                    soft_acc, soft_at = real, i
                continue
            return soft_acc + real, i
        if mm:
            # a different but possibly legal liquidation (pair, count or amount): decided by the relational probes
            # (Trace_AaveProbe: LiqStepOK / LiqRunOK); the rest of the path would follow another state
            tally("info/liquidation_differs_from_policy")
            return soft_acc, i
    return soft_acc, (len(steps) - 1 if soft_acc else len(steps))


def at_limit(uni, st, ev, rel=Fraction(1, 10 ** 20)) -> bool:
    """Is the request of ev EXACTLY on its limit in the spec state st (before the event)?  borrow: debt + new = collateral x weighted
    max LTV; withdraw / collateral flag off: health factor afterwards = 1.  None / unknown state: no."""
    if st is None or ev["op"] not in ("borrow", "withdraw", "setcoll") or ev.get("a") == ALL:
        return False
    row = uni.rows[st["row"] - 1]
    px, li, bi = row["px"], row["li"], row["bi"]
    sup = {t: Q(st["sb"][t]) * li[t] * px[t] for t in uni.tokens}
    coll = {t: (sup[t] if st["sc"][t] else Fraction(0)) for t in uni.tokens}
    bor = sum((Q(st["bb"][t]) * bi[t] * px[t] for t in uni.tokens), Fraction(0))
    tot_coll = sum(coll.values(), Fraction(0))
    if tot_coll == 0:
        return False
    t = ev["t"]
    if ev["op"] == "borrow":
        cap = sum((coll[x] * uni.risk[x]["ltv"] for x in uni.tokens), Fraction(0))
        need = bor + Q(ev["a"]) * px[t]
        return abs(need - cap) <= rel * cap
    if bor == 0:
        return False
    wl = sum((coll[x] * uni.risk[x]["lt"] for x in uni.tokens), Fraction(0))
    if ev["op"] == "withdraw":
        if not st["sc"][t]:
            return False
        wl2 = wl - Q(ev["a"]) * px[t] * uni.risk[t]["lt"]
    else:
        if ev.get("c") or not st["sc"][t]:
            return False
        wl2 = wl - coll[t] * uni.risk[t]["lt"]
    return abs(wl2 - bor) <= rel * bor


def fmt_ev(ev):
    d = {}
    for k, v in ev.items():
        if k == "op":
            continue
        d[k] = "ALL" if v == ALL else (str(Q(v)) if isinstance(v, tuple) else v)
    return str(d)

"""Deribit legs of the cross-market properties C01 / C03 / C04:  run_cross(chk, owner).

Same machinery as props/c15.py and props/c16.py (spec/Deribit.tla, spec/mc/MC_Deribit.tla): the TLC state graph of the order universe
(plus simulated behaviours) is replayed into a real Broker + DeribitOptionMarket whose quote token (ETH) differs from the account quote
token (USDC, ETH = 1900); for C01 additionally C16 behaviours through the real Actuator next to a minutely co-market.

 C04: deep snapshot (broker wallet, option cash, every position field, visible asks/bids of every instrument, action log) before every
      call; whenever the call raises the snapshot after must be equal.  Rejection causes seen are recorded.
 C03: Broker.get_account_status(prices).net_value before / after every call on the frozen status (accepted or rejected): no rise beyond
      1e-5 of the wallet balance a deposit debits; wallet and option amounts never negative; a sale never pays out more than held.
 C01: after every step net_value / asset_value / market_status[opt].net_value / get_market_balance() fields against the spec's
      NetValue = (wallet + cash + sum amount * Quantize6(mark)) * price(ETH), on hour bars and on closed (off-hour / row-less) bars.
Clauses of the domain's own properties are counted as other/C15/... and never alarmed here.
"""
from __future__ import annotations

import copy
import random
import re
from decimal import Decimal
from fractions import Fraction

from . import tlc
from .common import VERIF, frac, jsonable, unq

SPEC = VERIF / "spec" / "mc" / "MC_Deribit.tla"
PX_ETH = Decimal(1900)  # = PxEth in MC_Deribit.tla
DUST = Fraction(1, 100000)
OWN = {
    "C04": {"devs": {"MC_Deribit_dev13c.cfg": ("DEV_BuyDepletesBeforeCashCheck", ("Act_C04_RejectIntact_",))},
            "props": ("Act_C04_RejectIntact_",)},
    "C03": {"devs": {"MC_Deribit_x03_dev_oversell.cfg": ("DEV_OversellAccepted", ("Act_C03_NoValueCreation_", "Act_C03_NoOverRedemption_", "Inv_C03_NonNeg_")),
                     "MC_Deribit_x03_dev_unheld.cfg": ("DEV_SellUnheldKeepsCredit", ("Act_C03_NoValueCreation_",))},
            "props": ("Act_C03_NoValueCreation_", "Act_C03_NoOverRedemption_", "Inv_C03_NonNeg_")},
    "C01": {"devs": {}, "props": ("Act_C15_EquityMove_",)},
}


class Out:
    def __init__(self):
        self.counts, self.viols, self.causes, self.samples = {}, [], set(), []
        self.evals = self.traces = 0

    def count(self, c, n=1):
        self.counts[c] = self.counts.get(c, 0) + n


def msg_class(e: Exception) -> str:
    return type(e).__name__ + ": " + re.sub(r"\s+", " ", re.sub(r"[-+]?\d[\d.eE+-]*", "#", str(e)))[:70]


def build(st0):
    import pandas as pd
    from demeter import Broker, MarketInfo, MarketTypeEnum, TokenInfo
    from demeter.deribit import DeribitOptionMarket
    from .deribit_util import dec
    from .props.c15 import set_status
    broker = Broker()
    broker.quote_token = TokenInfo("usdc", 6)
    m = DeribitOptionMarket(MarketInfo("opt", MarketTypeEnum.deribit_option), DeribitOptionMarket.ETH)
    broker.add_market(m)
    actions = []
    m._record_action_callback = actions.append
    broker.set_balance(DeribitOptionMarket.ETH, dec(st0["wallet"] + st0["cash"]))
    set_status(m, st0["book"], st0["info"], 0, False, st0["open"], st0["hour"])
    if st0["cash"] != 0:
        m.deposit(dec(st0["cash"]))
    prices = pd.Series({"ETH": PX_ETH, "USDC": Decimal(1)})
    return broker, m, actions, prices


def deep_snapshot(broker, m, actions):
    """what C04 names: wallet, option cash, positions, visible book of every instrument, action log."""
    data = m.market_status.data
    book = {}
    if data is not None:
        for i in data.index:
            r = data.loc[i]
            book[i] = (copy.deepcopy(r.asks), copy.deepcopy(r.bids), r.state)
    return {"wallet": {k.name: v.balance for k, v in broker._assets.items()},
            "cash": m.balance,
            "positions": {k: copy.deepcopy(vars(v)) for k, v in m.positions.items()},
            "book": book,
            "actions": [repr(a) for a in actions]}


def snap_diff(a, b):
    return [k for k in a if a[k] != b[k]]


def account(broker, prices):
    try:
        return broker.get_account_status(prices), None
    except Exception as e:  # e.g. get_market_balance() returned None
        return None, f"{type(e).__name__}: {e}"


def r6(x: Fraction) -> Fraction:
    y = x * 10 ** 6
    n = y.numerator // y.denominator
    return Fraction(n + 1 if y - n >= Fraction(1, 2) else n, 10 ** 6)


def sane_books(st):
    """C03 constrains order-book data to bids <= mark <= asks."""
    for b in st["book"].values():
        if not b["listed"]:
            continue
        mk = r6(b["mark"])
        if any(l["p"] < mk for l in b["asks"]) or any(l["p"] > mk for l in b["bids"]):
            return False
    return True


def replay_direct(states, owner) -> Out:
    """one TLC path (Scen 1) against a real Broker + DeribitOptionMarket."""
    from .deribit_util import INSTRS, ev_str, fstr, pos_diffs, project_market, spec_book
    from .props.c15 import apply_event
    o = Out()
    o.traces = 1
    st0 = states[0]["st"]
    info = st0["info"]
    broker, m, actions, prices = build(st0)
    key = m.market_info
    pre_k = f"{owner}/deribit/"
    hist = []
    rep = {"kind": "deribit_cross_path", "owner": owner, "states": None}

    def viol(entry, clause, cls, text, upto):
        r = dict(rep)
        r["states"] = jsonable(states[:upto + 1])
        o.viols.append((f"DeribitOptionMarket.{entry}|{clause}|{cls}", f"after {' ; '.join(hist)}: {text}", r))

    def c01_compare(j, st, last_rec, where):
        """reported values against the spec's valuation of the spec state (only called while code state == spec state)."""
        acct, err = account(broker, prices)
        o.count(pre_k + "net_value")
        bar = "hour_bar" if st["hour"] and st["open"] else ("hour_bar_without_row" if st["hour"] else "off_hour_bar")
        if acct is None:
            viol("get_market_balance", "net_value_reported_at_every_bar", bar, f"{where}: Broker.get_account_status raised {err}", j)
            return False
        want_nv, want_eq = last_rec["nv"], last_rec["eq"]
        ok = True
        if frac(acct.net_value) != want_nv:
            viol("get_market_balance", "net_value_is_wallet_plus_option_account_at_quote_price", bar,
                 f"{where}: reported net value {acct.net_value}, spec (wallet {fstr(st['wallet'])} + cash {fstr(st['cash'])} + options at mark "
                 f"{fstr(want_eq - st['cash'])}) x {PX_ETH} = {float(want_nv)}", j)
            ok = False
        o.count(pre_k + "asset_value")
        if ok and frac(acct.asset_value) != st["wallet"] * Fraction(PX_ETH):
            viol("get_account_status", "asset_value_is_wallet_at_prices", bar, f"{where}: asset_value {acct.asset_value}, spec {float(st['wallet'] * Fraction(PX_ETH))}", j)
            ok = False
        o.count(pre_k + "market_net_value")
        mb = acct.market_status[key]
        if ok and frac(mb.net_value) != want_eq:
            viol("get_market_balance", "market_value_is_cash_plus_options_at_mark", bar, f"{where}: market net value {mb.net_value}, spec {float(want_eq)}", j)
            ok = False
        o.count(pre_k + "balance_fields")
        if ok and (frac(mb.balance) != st["cash"] or frac(mb.premium) != want_eq - st["cash"]):
            viol("get_market_balance", "balance_and_premium_fields", bar,
                 f"{where}: balance {mb.balance} premium {mb.premium}, spec cash {fstr(st['cash'])} options {fstr(want_eq - st['cash'])}", j)
            ok = False
        return ok

    if st0["hour"]:
        m.get_market_balance()  # the bar loop values the account on every bar
    if owner == "C01" and not c01_compare(0, st0, states[0]["last"], "initial state"):
        return o
    for j in range(1, len(states)):
        pre, node = states[j - 1]["st"], states[j]
        ev, exp, last = node["last"]["ev"], node["st"], node["last"]
        is_call = ev["op"] != "refresh"
        snap0 = deep_snapshot(broker, m, actions) if owner == "C04" else None
        nv0 = None
        if owner == "C03" and is_call:
            a0, _ = account(broker, prices)
            nv0 = None if a0 is None else frac(a0.net_value)
        held0 = {i: (frac(m.positions[i].amount) if i in m.positions else Fraction(0)) for i in INSTRS}
        wallet0 = frac(next(iter(broker._assets.values())).balance)
        raised, ret, exc = None, None, None
        try:
            ret = apply_event(m, ev, info, False, pre["nref"])
        except Exception as e:
            raised, exc = f"{type(e).__name__}: {e}", e
        hist.append(ev_str(ev) + ("" if raised is None else " [raised]"))
        o.evals += 1
        cls = f"{ev['op']}_{ev.get('mode', '')}".rstrip("_")
        cause = last["cause"] if last["out"] == "reject" else "spec_accepts"
        # ---- C04 -----------------------------------------------------------------------------------------------------
        if owner == "C04" and raised is not None:
            o.causes.add((ev["op"], msg_class(exc)))
            o.count(pre_k + "rejected_call_leaves_state_intact")
            o.count(pre_k + "cause/" + (last["cause"] if last["out"] == "reject" else "unexpected_" + type(exc).__name__))
            d = snap_diff(snap0, deep_snapshot(broker, m, actions))
            if d:
                viol(ev["op"], "rejected_call_leaves_state_intact", f"{'+'.join(d)}_changed_on_{cause}",
                     f"{ev_str(ev)} raised {raised} but {d} changed", j)
                return o
        # ---- C03 -----------------------------------------------------------------------------------------------------
        if owner == "C03" and is_call:
            a1, err = account(broker, prices)
            o.count(pre_k + "net_value_does_not_rise")
            if nv0 is not None and a1 is not None and sane_books(pre):
                dust = DUST * wallet0 * Fraction(PX_ETH) if ev["op"] == "deposit" else Fraction(0)
                nv1 = frac(a1.net_value)
                if nv1 > nv0 + dust:
                    bar = "hour_bar" if pre["hour"] else "off_hour_bar"
                    viol(ev["op"], "net_value_does_not_rise", f"{cls}_{'rejected' if raised else 'accepted'}_{bar}",
                         f"{ev_str(ev)} ({'raised ' + raised if raised else 'accepted'}) moved the account net value {float(nv0)} -> {float(nv1)} "
                         f"with market data and prices frozen (allowed dust {float(dust)})", j)
                    return o
                if ev["op"] in ("deposit", "withdraw") and raised is None and nv1 != nv0:
                    o.count(pre_k + "info/transfer_changes_net_value_within_dust")
            elif a1 is None or nv0 is None:
                o.count(pre_k + "info/no_valuation_available")
            o.count(pre_k + "no_negative_wallet_or_option_amount")
            neg = [f"wallet {k.name} {v.balance}" for k, v in broker._assets.items() if v.balance < 0] + \
                  [f"position {k} amount {v.amount}" for k, v in m.positions.items() if v.amount < 0]
            if neg:
                viol(ev["op"], "no_negative_wallet_or_option_amount", cls, f"{ev_str(ev)}: {neg}", j)
                return o
            if ev["op"] == "sell" and raised is None:
                o.count(pre_k + "pays_out_no_more_than_held")
                sold = sum((frac(x.amount) for x in ret[0]), Fraction(0))
                if sold > held0[ev["i"]]:
                    viol("sell", "pays_out_no_more_than_held", cls, f"{ev_str(ev)} sold {fstr(sold)} contracts, {fstr(held0[ev['i']])} held", j)
                    return o
        # ---- follow the spec (divergences here belong to C15) ----------------------------------------------------------------
        if (last["out"] == "ok") != (raised is None):
            o.count(f"other/C15/outcome")
            return o
        got = project_market(m)
        if got["cash"] != exp["cash"] or pos_diffs(exp["pos"], got["pos"]) or got["book"] != spec_book(exp) or \
                frac(next(iter(broker._assets.values())).balance) != exp["wallet"]:
            o.count(f"other/C15/state")
            return o
        if owner == "C01":
            if not c01_compare(j, exp, last, f"after {ev_str(ev)}"):
                return o
        elif exp["hour"]:
            m.get_market_balance()
        if not o.samples and owner == "C01" and ev["op"] in ("buy", "sell") and raised is None:
            o.samples.append({"events": list(hist), "wallet": fstr(exp["wallet"]), "cash": fstr(exp["cash"]), "equity": fstr(last["eq"]),
                              "net_value_usdc": fstr(last["nv"])})
    return o


def replay_bars(states, grid) -> Out:
    """C01 at every bar of an Actuator run (C16 behaviours): account rows against the spec."""
    from .deribit_util import fstr, pos_diffs
    from .props.c16 import run_real
    o = Out()
    o.traces = 1
    rep = {"kind": "deribit_cross_bars", "owner": "C01", "grid": grid, "states": jsonable(states)}
    try:
        bars, rec = run_real(states, grid)
    except Exception as e:
        o.viols.append(("DeribitOptionMarket.get_market_balance|net_value_reported_at_every_bar|actuator_run", f"Actuator.run raised {type(e).__name__}: {e}", rep))
        return o
    act = rec["act"]
    rows = {a.timestamp: a for a in act.account_status}
    from .deribit_util import ts_of
    for b in bars:
        if b["end"] is None:
            break
        st = states[b["end"]]["st"]
        got = rec["bars"].get(b["t"])
        if got is None or got["cash"] != st["cash"] or pos_diffs(st["pos"], got["pos"]):
            o.count("other/C16/state")
            return o
        row = rows.get(ts_of(b["t"]).to_pydatetime())
        o.evals += 1
        bar = "hour_bar" if b["hour"] and b["open"] else ("hour_bar_without_row" if b["hour"] else "off_hour_bar")
        o.count("C01/deribit/bar_net_value")
        o.count("C01/deribit/bar_net_value/" + bar)
        px = Fraction(b["px"])
        want = (st["wallet"] + st["eqBar"]) * px
        if row is None:
            o.viols.append(("Actuator.run|net_value_reported_at_every_bar|" + bar, f"no account row for bar t={b['t']}", rep))
            return o
        mb = [v for k, v in row.market_status.items() if k.name == "opt"][0]
        if frac(row.net_value) != want or frac(row.asset_value) != st["wallet"] * px or frac(mb.net_value) != st["eqBar"]:
            o.viols.append((f"DeribitOptionMarket.get_market_balance|net_value_is_wallet_plus_option_account_at_quote_price|actuator_{bar}",
                            f"[grid {grid}] bar t={b['t']} (ETH = {fstr(px)}): net_value {row.net_value} asset_value {row.asset_value} option account "
                            f"{mb.net_value}; spec wallet {fstr(st['wallet'])} + equity {fstr(st['eqBar'])} -> {float(want)}", rep))
            return o
    return o


# ----------------------------------------------------------------------------------------------------------------------
_JOBS = None


def _work(args):
    ids, owner, kind = args
    tot = Out()
    for k in ids:
        o = replay_direct(_JOBS[k], owner) if kind == "direct" else replay_bars(_JOBS[k], kind)
        for c, n in o.counts.items():
            tot.count(c, n)
        tot.viols = (tot.viols + o.viols[:2])[:40]
        tot.causes |= o.causes
        tot.evals += o.evals
        tot.traces += o.traces
        if not tot.samples:
            tot.samples = o.samples
    return tot


def fan_out(chk, jobs, owner, kind, causes, procs=16):
    global _JOBS
    import multiprocessing as mp
    if not jobs:
        return
    _JOBS = jobs
    n = max(1, min(procs, len(jobs) // 10 or 1))
    chunks = [(list(range(i, len(jobs), n * 3)), owner, kind) for i in range(n * 3)]
    chunks = [c for c in chunks if c[0]]
    if n == 1:
        outs = [_work(c) for c in chunks]
    else:
        with mp.get_context("fork").Pool(n) as pool:
            outs = pool.map(_work, chunks)
    _JOBS = None
    for o in outs:
        for k, v in o.counts.items():
            chk.count(k, v)
        for sig, what, rep in o.viols:
            chk.violation(sig, what, rep)
        causes |= o.causes
        chk.evaluations += o.evals
        chk.traces += o.traces
        for s in o.samples[:1]:
            chk.sample(s)


def replay_cross(chk, r: dict):
    """Re-run one stored behaviour (kind deribit_cross_path / deribit_cross_bars) against the working tree; no chk.finish()."""
    from .props.c15 import refrac
    states = list(refrac(r["states"]))
    o = replay_direct(states, r["owner"]) if r["kind"] == "deribit_cross_path" else replay_bars(states, r["grid"])
    for k, v in o.counts.items():
        chk.count(k, v)
    for sig, what, rep in o.viols:
        chk.violation(sig, what, rep)
    chk.evaluations += o.evals
    chk.traces += o.traces
    for s_ in o.samples[:1]:
        chk.sample(s_)


def run_cross(chk, owner):
    """Deribit leg of C01 / C03 / C04 (does not call chk.finish)."""
    from .props.c15 import check_devs
    assert owner in OWN
    quick = chk.tier == "quick"
    rnd = random.Random(chk.seed)
    own = OWN[owner]
    if own["devs"]:
        check_devs(chk, own["devs"], extra_key="deribit_dev_switch_detected")

    def spec_verdict(res, label):
        for inv in res.violated:
            if inv in own["props"]:
                chk.violation(f"DeribitOptionMarket.spec|{inv}|{label}", f"TLC reports {inv} violated in {label}",
                              {"kind": "tlc", "run": label, "output_tail": res.output[-3000:]})
            else:
                chk.count(f"other/C15/spec/{inv}")

    causes = set()
    cfg = "MC_Deribit_quick.cfg" if quick else "MC_Deribit_thorough.cfg"
    res, g = tlc.dump_graph(SPEC, SPEC.parent / cfg, chk.tmp, workers=16, timeout=1200)
    chk.add_tlc(res, f"deribit:{cfg}")
    spec_verdict(res, cfg)
    if g is None:
        raise RuntimeError("TLC produced no state graph")
    nodes = {k: unq(v) for k, v in g.nodes.items()}
    paths = g.bfs_paths()
    budget = 2000 if quick else 30000
    paths, _ = tlc.choose_paths(g, paths, budget, rnd)     # tree paths + non-tree edges, stratified (harness/tlc.py)
    jobs = [[nodes[i] for i in p] for p in paths]
    scfg = "MC_Deribit_sim.cfg" if quick else "MC_Deribit_simthorough.cfg"
    res, behs = tlc.simulate(SPEC, SPEC.parent / scfg, chk.tmp, num=96 if quick else 3000, depth=8 if quick else 10, seed=chk.seed,
                             workers=16, timeout=1200)
    chk.add_tlc(res, f"deribit:{scfg}(simulate)")
    spec_verdict(res, scfg)
    jobs += [[unq(s) for _, s in b] for b in behs if len(b) > 1]
    fan_out(chk, jobs, owner, "direct", causes)
    total = len(jobs)
    if owner == "C01":
        for grid in (2, 1):
            cfg = f"MC_Deribit_c16_g{grid}.cfg" if quick else f"MC_Deribit_c16_g{grid}_thorough.cfg"
            res, behs = tlc.simulate(SPEC, SPEC.parent / cfg, chk.tmp, num=(96 if grid == 2 else 32) if quick else 2000, depth=30,
                                     seed=chk.seed + grid, workers=16, timeout=1200)
            chk.add_tlc(res, f"deribit:{cfg}(simulate)")
            spec_verdict(res, cfg)
            bj = [[unq(s) for _, s in b] for b in behs if len(b) > 1]
            fan_out(chk, bj, owner, grid, causes)
            total += len(bj)
        chk.assumptions.append("Deribit: option market quoted in ETH inside an account quoted in USDC (ETH = 1900 in the direct leg, the underlying path "
                               "1800..2200 in the Actuator leg); marks, books and prices are given; equity = cash + sum amount x Quantize6(mark) of the "
                               "visible row, which on closed bars is the row of the last hour")
    if owner == "C03":
        chk.assumptions.append("Deribit: every book of the universe has bids <= mark <= asks; limit orders are placed at displayed levels only; "
                               "dust = 1e-5 of the wallet balance a deposit debits")
    if owner == "C04":
        chk.extra["deribit_reject_causes"] = sorted([list(c) for c in causes])
    chk.extra["deribit_cases"] = total
    return None

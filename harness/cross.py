"""Orchestrator of the account-wide properties C01 (net value = independent valuation), C03 (frozen market: no value
creation, no negative holdings, no over-redemption) and C04 (a rejected operation leaves everything intact).

These properties quantify over EVERY market type under one Broker.  Each domain specification carries the owner's clauses
(Inv_* / Act_* / P_* operators named after the property) and each domain runner has a `run_cross(chk, owner)` leg:

    leg        specification                     TLC configurations                           binding (spec -> code)
    wallet     Wallet.tla via MC_Wallet          MC_Wallet_quick/thorough, DEV cfg            harness/wallet_cross.py (Broker / Asset.add / Asset.sub alone)
    uniswap    UniLp.tla via MC_UniLp            MC_UniLp_quick/ops3 + simulation             harness/uni_run.py  (real Actuator + UniLpMarket, both orientations)
    aave       Aave.tla via MC_Aave              MC_Aave_quick/bfs3 + simulation, DEV cfgs    harness/aave_run.py (AaveV3Market + Broker)
    squeeth    Squeeth.tla via MC_Squeeth        MC_Squeeth_cross/cross2/crosslive, DEV cfgs  harness/props/c14.py (SqueethMarket + UniLpMarket + Broker / Actuator)
    deribit    Deribit.tla via MC_Deribit        MC_Deribit_quick/thorough/sim/c16_g*, DEV    harness/deribit_cross.py (DeribitOptionMarket, ETH-quoted, in a USDC account)
    account    Account.tla (composition)         Trace_Account (trace validation)             harness/account_cross.py (several real markets under one Broker / Actuator; C01 only)
    gmx v1/v2  GmxV1.tla / GmxV2.tla             MC_GmxV*_cross/cross_deep/cross_sim, DEV     harness/gmx_cross.py (GmxMarket / GmxV2Market + Broker)

Every leg replays TLC behaviours into the real classes under a real Broker and decides the OWNER's clauses on the real
objects after every step (C01: Broker.get_account_status / get_market_balance against the spec's valuation of the spec
state; C03: net value before/after each call on the frozen status, signs of every holding, pay-out <= holding; C04: deep
snapshot before/after every raising call).  Mismatches that belong to another property are counted under other/<id>/...
and never alarm here.  A leg that fails as machinery (TLC crash) makes the whole check exit 2.
"""
from __future__ import annotations

import base64
import json
import pickle
import time

from .common import Check

LEGS = ("wallet", "uniswap", "aave", "squeeth", "deribit", "gmx", "account")

RULE = {
    "C01": "a case = one TLC behaviour of a market specification replayed into the real market under a real Broker; after every step "
           "Broker.get_account_status(prices) (net value, wallet value, the market's net value) and the market's balance fields are "
           "compared with the spec's valuation of the spec state; non-trivial = contains an accepted operation or a bar change",
    "C03": "a case = one TLC behaviour replayed into the real market under a real Broker with the market status frozen between bar "
           "events; for every call (accepted or raised) the account net value before/after, the sign of every holding and the pay-out "
           "against the holding are checked; non-trivial = contains an accepted operation",
    "C04": "a case = one TLC behaviour replayed into the real market under a real Broker; every call that raises is bracketed by deep "
           "snapshots (wallet, positions / debts / vaults / options / shares, visible book, action log) which must be equal; "
           "non-trivial = contains at least one raising call",
}


def _leg(name):
    if name == "wallet":
        from . import wallet_cross
        return wallet_cross.run_cross
    if name == "account":
        from . import account_cross
        return account_cross.run_cross
    if name == "uniswap":
        from . import uni_run
        return uni_run.run_cross
    if name == "aave":
        from . import aave_run
        return aave_run.run_cross
    if name == "squeeth":
        from .props import c14
        return c14.run_cross
    if name == "deribit":
        from . import deribit_cross
        return deribit_cross.run_cross
    if name == "gmx":
        from . import gmx_cross
        return gmx_cross.run_cross
    raise KeyError(name)


def run(chk: Check, owner: str) -> int:
    import os
    legs = [l for l in os.environ.get("VERIF_LEGS", ",".join(LEGS)).split(",") if l]
    per_leg = {}
    for name in legs:
        t0 = time.time()
        before = (chk.traces, chk.evaluations, len(chk.violations))
        _leg(name)(chk, owner)
        per_leg[name] = {"wall_s": round(time.time() - t0, 1), "traces": chk.traces - before[0],
                         "evaluations": chk.evaluations - before[1], "violations": len(chk.violations) - before[2]}
    chk.extra["legs"] = per_leg
    chk.exhaustive = False
    own = [c for c in chk.clauses if c.startswith(owner + "/")]
    chk.extra["owner_clause_comparisons"] = sum(chk.clauses[c] for c in own)
    if not own:
        raise RuntimeError(f"vacuous: no {owner} clause was evaluated")
    return chk.finish(RULE[owner])


# ---- replay -------------------------------------------------------------------------------------------------------
def pack(obj) -> str:
    return base64.b64encode(pickle.dumps(obj, protocol=4)).decode()


def unpack(s: str):
    return pickle.loads(base64.b64decode(s))


def replay(chk: Check, path: str, owner: str) -> int:
    rec = json.load(open(path))
    r = rec["replay"]
    kind = r.get("kind")
    if kind == "tlc":
        print(r.get("output_tail", ""))
        return chk.finish("TLC output of a spec-level violation")
    if kind == "aave_path":
        from . import aave_run
        return aave_run.replay(chk, path, owner)
    if kind == "uni_behaviour":
        from . import uni_run
        return uni_run.replay(chk, path, owner)
    if kind == "gmx_cross":
        from . import gmx_cross
        gmx_cross.replay_cross(chk, r)
        return chk.finish("replay of one recorded GMX behaviour")
    if kind in ("cross_exact", "cross_live"):
        from .props import c14
        c14.replay_cross(chk, r)
        return chk.finish("replay of one recorded Squeeth path")
    if kind == "account_case":
        from . import account_cross
        account_cross.replay_cross(chk, r)
        return chk.finish("replay of one composite account run")
    if kind in ("wallet_path", "wallet_swap_path"):
        from . import wallet_cross
        wallet_cross.replay_cross(chk, r)
        return chk.finish("replay of one recorded wallet path")
    if kind in ("deribit_cross_path", "deribit_cross_bars"):
        from . import deribit_cross
        deribit_cross.replay_cross(chk, r)
        return chk.finish("replay of one recorded Deribit behaviour")
    raise RuntimeError(f"unknown replay kind {kind!r}")

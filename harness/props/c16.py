"""C16 - options settle once at expiry with intrinsic payoff net of delivery fee; trades only on open bars.

Spec: spec/Deribit.tla (EndBar = Update phase with Settle of every due position + load of the next bar; Buy / Sell gated by `open`),
      spec/mc/MC_Deribit.tla (Scen = 2): calls and puts with strike 2000, underlying path over {1800, 2000, 2000.25, 2200(, 1999.75)}
      chosen hour by hour, expiry in {before the first bar, on an hour bar, between bars, on an hour without book row, after the
      last bar}, book rows present / missing, instruments still listed / delisted at expiry, two mark levels (both fee branches).
      Grids: 1 = every hour (option market alone, interval 1h), 2 = minute bars around the hours next to a minutely co-market
      (the default market), 3 = only the hours that have a book row (option market alone, default interval).
TLC : BFS (grid 1, one trade) with invariants and Act_C16_* properties; -simulate per grid for up to 2/3 trades; a companion
      config with DEV_SettleStrictlyAfterExpiry must be rejected.
Bind: every behaviour is turned into synthetic market data + a scripted strategy and run through the real Actuator bar loop; after
      every trade and after every bar the code's outcome, balance, positions and the Deliver/Expired action records notified in that
      bar (count, bar, amounts) are compared with the spec.
"""
from __future__ import annotations

import json
import random
from decimal import Decimal
from fractions import Fraction

from .. import tlc
from ..common import Check, VERIF, frac, jsonable, unq
from .c15 import Out, check_devs, refrac

SPEC = VERIF / "spec" / "mc" / "MC_Deribit.tla"
DEVS = {"MC_Deribit_c16_dev.cfg": ("DEV_SettleStrictlyAfterExpiry", ("Act_C16_SettleExactlyWhenDue_",))}
START_CASH = 10


def plan_of(states):
    """behaviour (unq'ed states) -> bars [{t, hour, open, px, book, steps:[(state index, ev)], end: state index | None}]"""
    st0 = states[0]["st"]
    bars = [{"t": st0["t"], "hour": st0["hour"], "open": st0["open"], "px": st0["px"], "book": st0["book"], "steps": [], "end": None}]
    for j in range(1, len(states)):
        ev = states[j]["last"]["ev"]
        if ev["op"] == "endbar":
            bars[-1]["end"] = j
            nx = ev["next"]
            if nx["last"]:
                break
            bars.append({"t": nx["t"], "hour": nx["hour"], "open": nx["open"], "px": nx["px"], "book": nx["book"], "steps": [], "end": None})
        else:
            bars[-1]["steps"].append((j, ev))
    return bars


def run_real(states, grid):
    """Build data for the behaviour, run the real Actuator, return what happened per bar."""
    import pandas as pd
    from demeter import Actuator, MarketInfo, MarketTypeEnum, Strategy
    from demeter.deribit import DeribitOptionMarket
    from ..deribit_util import INSTRS, book_frame, project_market, trade_call, ts_of
    from ..sim import NullMarket, USDC

    info = states[0]["st"]["info"]
    bars = plan_of(states)
    # a bar whose update phase the behaviour never reached is still run (its trades are compared), nothing after it matters
    horizon = bars[-1]["t"]
    sentinel = (horizon // 60 + 1) * 60
    frames, keys = [], []
    for b in bars:
        if b["hour"] and b["open"]:
            frames.append(book_frame(b["book"], info, extra_rows=[("Z", b["px"])]))
            keys.append(ts_of(b["t"]))
    if grid == 5:
        # the hours between the two-hour bars exist in the data: other underlying, other marks, deeper books - never to be seen
        sentinel = horizon + 120
        decoy_hours = [h for h in range(bars[0]["t"] + 60, sentinel, 120) if (h // 60) not in states[0]["c"]["miss"]]
        for t in decoy_hours:
            near = max((b for b in bars if b["t"] < t), key=lambda b: b["t"])
            decoy = {i: ({**row, "und": row["und"] + 137, "mark": row["mark"] * 3} if row.get("listed") else row)
                     for i, row in near["book"].items()}
            frames.append(book_frame(decoy, info, extra_rows=[("Z", near["px"] + 137)]))
            keys.append(ts_of(t))
    frames.append(book_frame({}, info, extra_rows=[("Z", bars[-1]["px"])]))
    keys.append(ts_of(sentinel))
    order = sorted(range(len(keys)), key=lambda k: keys[k])
    frames, keys = [frames[k] for k in order], [keys[k] for k in order]
    data = pd.concat(frames, keys=keys, names=["time", "instrument_name"])
    act = Actuator()
    eth = DeribitOptionMarket.ETH
    opt = DeribitOptionMarket(MarketInfo("opt", MarketTypeEnum.deribit_option), eth, data=data)
    if grid == 2:
        idx = pd.DatetimeIndex([ts_of(b["t"]) for b in bars])
        act.broker.add_market(NullMarket(MarketInfo("minutely"), pd.DataFrame(index=idx, data={"v": range(len(idx))})))
        pidx, ppx = idx, [b["px"] for b in bars]
    elif grid == 4:
        # every minute is supplied; the run resamples to 15-minute bars (the bars of the behaviour are the 15-minute labels)
        mins = list(range(bars[0]["t"], bars[-1]["t"] + 15))
        idx = pd.DatetimeIndex([ts_of(t) for t in mins])
        act.broker.add_market(NullMarket(MarketInfo("minutely"), pd.DataFrame(index=idx, data={"v": range(len(idx))})))
        by_t = {b["t"]: b["px"] for b in bars}
        pidx, ppx, last = idx, [], bars[0]["px"]
        for t in mins:
            last = by_t.get(t, last)
            ppx.append(last)
        act.interval = "15min"
    else:
        by_t = {b["t"]: b["px"] for b in bars}
        hours = list(range(bars[0]["t"], sentinel + 1, 60))
        pidx = pd.DatetimeIndex([ts_of(t) for t in hours])
        last = bars[0]["px"]
        ppx = []
        for t in hours:
            last = by_t.get(t, last)
            ppx.append(last)
        if grid == 1:
            act.interval = "1h"
        if grid == 5:
            ppx = [p if (t // 60) % 2 == 0 else p + 137 for t, p in zip(hours, ppx)]      # the odd hours' prices are decoys too
            act.interval = "2h"
    act.broker.add_market(opt)
    act.set_price(pd.DataFrame(index=pidx, data={"ETH": [Decimal(str(float(p))) if Fraction(p).denominator != 1 else Decimal(int(p)) for p in ppx]}), USDC)
    act.broker.set_balance(eth, 1000)
    by_ts = {ts_of(b["t"]).to_pydatetime(): b for b in bars}
    rec = {"bars": {}, "trades": {}, "actions": [], "visited": []}

    class S(Strategy):
        def initialize(self_):
            opt.deposit(START_CASH)

        def on_bar(self_, snapshot):
            b = by_ts.get(snapshot.timestamp)
            rec["visited"].append(snapshot.timestamp)
            if b is None:
                return
            b["flags"] = (bool(opt.is_open), bool(opt._is_open()))
            for j, ev in b["steps"]:
                raised, ret = None, None
                try:
                    ret = trade_call(opt, ev)
                except Exception as e:
                    raised = f"{type(e).__name__}: {e}"
                rec["trades"][j] = (raised, ret, project_market(opt, with_book=False))

        def after_bar(self_, snapshot):
            b = by_ts.get(snapshot.timestamp)
            if b is not None:
                rec["bars"][b["t"]] = project_market(opt, with_book=False)

        def notify(self_, action):
            rec["actions"].append(action)

    act.strategy = S()
    rec["act"] = act
    act.run(print_result=False)
    return bars, rec


def near_tie(x: Fraction) -> bool:
    """x * 1e6 within 1e-9 (relative to x) of a rounding tie: the float division in _deliver_option may round either way."""
    y = x * 10 ** 6
    d = abs((y - (y.numerator // y.denominator)) - Fraction(1, 2))
    return d <= abs(y) * Fraction(1, 10 ** 9)


def replay_behaviour(states, grid) -> Out:
    from demeter.deribit import DeliverAction, ExpiredAction
    from ..deribit_util import INSTRS, ev_str, fstr, pos_diffs, ts_of
    o = Out()
    o.traces = 1
    rep = {"kind": "c16_behaviour", "grid": grid, "states": jsonable(states)}
    info = states[0]["st"]["info"]
    cfg = states[0]["c"]
    cls0 = f"grid{grid}"

    def viol(entry, clause, cls, text):
        o.viols.append((f"{entry}|{clause}|{cls}", f"[grid {grid}, expiry C@{info['C']['exp']} P@{info['P']['exp']}, hours without row {sorted(cfg['miss'])}, "
                        f"delist {cfg['delist']}] {text}", rep))

    try:
        bars, rec = run_real(states, grid)
    except Exception as e:
        import traceback
        viol("Actuator.run", "bar_loop_completes", cls0, f"bar loop raised {type(e).__name__}: {e} :: {traceback.format_exc()[-600:]}")
        return o
    for b in bars:
        t = b["t"]
        tag = f"bar t={t}"
        if t not in rec["bars"]:
            viol("Actuator.run", "bar_loop_completes", cls0, f"{tag} was not visited; visited {rec['visited']}")
            return o
        o.count("info/open_flags")
        if b.get("flags") != (b["open"], b["hour"]):
            o.note("info/open_flags_differ", f"{tag}: (is_open, _is_open()) = {b.get('flags')}, spec (open, hour) = {(b['open'], b['hour'])}")
        # ---- trades of this bar ------------------------------------------------------------------------------------------
        for j, ev in b["steps"]:
            last, exp = states[j]["last"], states[j]["st"]
            raised, ret, proj = rec["trades"][j]
            o.evals += 1
            entry = "DeribitOptionMarket." + ev["op"]
            o.count("trades_only_on_open_bars")
            if last["out"] == "reject" and raised is None:
                if last["cause"] == "closed":
                    viol(entry, "trades_only_on_open_bars", "hour_without_book_row" if b["hour"] else "off_hour_bar",
                         f"{tag} (hour bar: {b['hour']}, book row: {b['open']}): {ev_str(ev)} was accepted on a closed bar")
                else:
                    o.note("info/c15_outcome", f"{tag}: {ev_str(ev)} accepted, spec rejects ({last['cause']})")
                return o
            if last["out"] == "ok" and raised is not None:
                o.note("info/c15_outcome", f"{tag}: {ev_str(ev)} raised {raised}, spec accepts")
                return o
            if last["out"] == "ok":
                orders, fee = ret
                got = [(frac(x.price), frac(x.amount)) for x in orders]
                want = [(f["p"], f["a"]) for f in last["fills"]]
                if got != want or frac(fee) != last["fee"]:
                    o.note("info/c15_fills", f"{tag}: {ev_str(ev)} fills {got} fee {fee}")
                    return o
            if proj["cash"] != exp["cash"] or pos_diffs(exp["pos"], proj["pos"]):
                o.note("info/c15_state_after_trade", f"{tag}: {ev_str(ev)} cash {proj['cash']} spec {exp['cash']} {pos_diffs(exp['pos'], proj['pos'])}")
                return o
        # ---- update phase of this bar ------------------------------------------------------------------------------------
        if b["end"] is None:
            break
        j = b["end"]
        pre, exp, last = states[j - 1]["st"], states[j]["st"], states[j]["last"]
        got = rec["bars"][t]
        o.evals += 1
        acts_here = [a for a in rec["actions"] if a.timestamp == ts_of(t).to_pydatetime()]
        stop = False
        for i in INSTRS:
            held_before = pre["pos"][i]["amt"]
            if held_before == 0:
                continue
            due = exp["pos"][i]["amt"] == 0
            removed = got["pos"][i]["amt"] == 0
            o.count("removed_at_first_hour_bar_at_or_after_expiry" if due else "nothing_settled_before_expiry_or_off_hour")
            cls = f"{'call' if info[i]['kind'] == 'C' else 'put'}_{'listed' if b['book'][i]['listed'] else 'unlisted'}"
            if due and not removed:
                viol("DeribitOptionMarket.update", "removed_at_first_hour_bar_at_or_after_expiry", cls,
                     f"{tag} (hour {b['hour']}): {i} expired at {info[i]['exp']} and is still held ({fstr(got['pos'][i]['amt'])})")
                stop = True
            if removed and not due:
                why = "before expiry" if t < info[i]["exp"] else "on a bar that is not on the hour"
                viol("DeribitOptionMarket.update", "nothing_settled_before_expiry_or_off_hour", cls,
                     f"{tag} (hour {b['hour']}): {i} with expiry {info[i]['exp']} was removed {why}")
                stop = True
            n_exp = sum(1 for a in acts_here if isinstance(a, ExpiredAction) and a.instrument_name == i)
            dl = [a for a in acts_here if isinstance(a, DeliverAction) and a.instrument_name == i]
            want_dl = [a for a in last["acts"] if a["kind"] == "deliver" and a["i"] == i]
            o.count("expired_record_exactly_once")
            if n_exp != (1 if due else 0):
                viol("DeribitOptionMarket.update", "expired_record_exactly_once", cls, f"{tag}: {n_exp} ExpiredAction records for {i}, spec {1 if due else 0}")
                stop = True
            if due:
                o.count("payoff_and_delivery_fee")
                und = b["book"][i]["und"] if b["book"][i]["listed"] else b["px"]
                exact = held_before * abs(und - info[i]["K"]) / und
                tol = Fraction(1, 10 ** 6) if near_tie(exact) else Fraction(0)
                o.count("deliver_record_amounts" if want_dl else "pays_nothing_out_of_money_or_below_fee")
                if want_dl:
                    o.count("info/fee_branch_" + ("rate_x_contracts" if want_dl[0]["fee"] == Fraction(15, 100000) * held_before else "eighth_of_option_value"))
                if len(dl) != len(want_dl):
                    sit = "pays although out of the money / payoff below fee" if dl else "does not pay although in the money above the fee"
                    viol("DeribitOptionMarket._deliver_option", "pays_iff_in_the_money_above_fee", cls,
                         f"{tag}: {i} x{fstr(held_before)} strike 2000 underlying {fstr(und)}: {len(dl)} DeliverAction, spec {len(want_dl)} ({sit})")
                    stop = True
                elif dl:
                    a, w = dl[0], want_dl[0]
                    bad = []
                    if abs(frac(a.deriver_amount) - w["payoff"]) > tol:
                        bad.append(f"payoff {a.deriver_amount} spec {fstr(w['payoff'])}")
                    if frac(a.fee) != w["fee"]:
                        bad.append(f"fee {a.fee} spec {fstr(w['fee'])}")
                    if abs(frac(a.income_amount) - w["income"]) > tol:
                        bad.append(f"income {a.income_amount} spec {fstr(w['income'])}")
                    if frac(a.amount) != w["amt"]:
                        bad.append(f"amount {a.amount} spec {fstr(w['amt'])}")
                    if bad:
                        clause = "delivery_fee_min_rule" if all(x.startswith("fee") or x.startswith("income") for x in bad) and any(
                            x.startswith("fee") for x in bad) else "payoff_is_contracts_times_diff_over_underlying"
                        viol("DeribitOptionMarket._deliver_option", clause, cls,
                             f"{tag}: {i} x{fstr(held_before)} underlying {fstr(und)} mark {fstr(b['book'][i]['mark']) if b['book'][i]['listed'] else 0}: " + "; ".join(bad))
                        stop = True
        o.count("balance_after_bar")
        if not stop and got["cash"] != exp["cash"]:
            viol("DeribitOptionMarket.update", "balance_changes_by_net_payoff_only", cls0,
                 f"{tag}: balance {got['cash']} (= {float(got['cash'])}), spec {exp['cash']} (= {float(exp['cash'])})")
            stop = True
        o.count("positions_after_bar")
        if not stop and pos_diffs(exp["pos"], got["pos"]):
            viol("DeribitOptionMarket.update", "positions_after_bar", cls0, f"{tag}: {pos_diffs(exp['pos'], got['pos'])}")
            stop = True
        if stop:
            return o
    # ---- whole run: settled exactly once per holding ---------------------------------------------------------------------
    if bars[-1]["end"] is not None:
        from demeter.deribit import ExpiredAction as EA
        fin = states[bars[-1]["end"]]["st"]
        for i in INSTRS:
            o.count("settled_exactly_once_per_holding")
            horizon = ts_of(bars[-1]["t"]).to_pydatetime()
            n = sum(1 for a in rec["actions"] if isinstance(a, EA) and a.instrument_name == i and a.timestamp <= horizon)
            if n != fin["settled"][i]:
                viol("DeribitOptionMarket.update", "settled_exactly_once_per_holding", cls0,
                     f"{i}: {n} ExpiredAction records over the run, spec settled {fin['settled'][i]} holdings")
        if len(o.samples) < 1 and any(fin["settled"][i] for i in INSTRS):
            o.samples.append({"grid": grid, "config": jsonable(cfg), "bars": [b["t"] for b in bars],
                              "settled": fin["settled"], "final_cash": fstr(fin["cash"])})
    return o


# ----------------------------------------------------------------------------------------------------------------------
_BEHS = None


def _work(args):
    ids, grid = args
    tot = Out()
    for k in ids:
        o = replay_behaviour(_BEHS[k], grid)
        for c, n in o.counts.items():
            tot.count(c, n)
        tot.viols += o.viols[:2]
        tot.viols = tot.viols[:40]
        for c, d in o.notes.items():
            t = tot.notes.setdefault(c, {"n": 0, "examples": []})
            t["n"] += d["n"]
            t["examples"] = (t["examples"] + d["examples"])[:3]
        tot.evals += o.evals
        tot.traces += o.traces
        if not tot.samples:
            tot.samples = o.samples
    return tot


def replay_many(chk: Check, behs: list, grid: int, notes: dict, procs=16):
    global _BEHS
    import multiprocessing as mp
    if not behs:
        return
    _BEHS = behs
    n = max(1, min(procs, len(behs) // 8 or 1))
    chunks = [(list(range(i, len(behs), n * 3)), grid) for i in range(n * 3)]
    chunks = [c for c in chunks if c[0]]
    if n == 1:
        outs = [_work(c) for c in chunks]
    else:
        with mp.get_context("fork").Pool(n) as pool:
            outs = pool.map(_work, chunks)
    for o in outs:
        o.merge_into(chk, notes)
    _BEHS = None


def complete(b):
    return len(b) > 1


def run(chk: Check) -> int:
    quick = chk.tier == "quick"
    check_devs(chk, DEVS)
    notes = {}
    rnd = random.Random(chk.seed)
    total = 0
    # 1. exhaustive graph, grid 1, at most one trade
    res, g = tlc.dump_graph(SPEC, SPEC.parent / "MC_Deribit_c16_bfs.cfg", chk.tmp, workers=16, timeout=1500)
    chk.add_tlc(res, "MC_Deribit_c16_bfs.cfg")
    chk.spec_violation(res, "MC_Deribit_c16_bfs.cfg")
    if g is None:
        raise RuntimeError("TLC produced no state graph")
    nodes = {k: unq(v) for k, v in g.nodes.items()}
    paths = g.bfs_paths()
    chk.extra["graph_paths"] = len(paths)
    budget = 1200 if quick else len(paths) + 20000
    paths, chk.exhaustive = tlc.choose_paths(g, paths, budget, rnd)     # tree paths + non-tree edges, stratified (harness/tlc.py)
    behs = [[nodes[i] for i in p] for p in paths]
    replay_many(chk, behs, 1, notes)
    total += len(behs)
    # 2. simulated behaviours per grid (two / three trades, all configurations)
    for grid in (1, 2, 3, 4, 5):
        cfg = f"MC_Deribit_c16_g{grid}.cfg" if quick else f"MC_Deribit_c16_g{grid}_thorough.cfg"
        res, sb = tlc.simulate(SPEC, SPEC.parent / cfg, chk.tmp, num=320 if quick else 6000, depth=30, seed=chk.seed + grid,
                               workers=16, timeout=1500)
        chk.add_tlc(res, cfg + "(simulate)")
        chk.spec_violation(res, cfg)
        behs = [[unq(s) for _, s in b] for b in sb if complete(b)]
        chk.extra.setdefault("simulated_behaviours", {})[f"grid{grid}"] = len(behs)
        replay_many(chk, behs, grid, notes)
        total += len(behs)
    chk.extra["other_property_notes"] = notes
    chk.extra["distinct_nontrivial"] = total
    chk.assumptions.append("ETH token config; strikes 2000, underlying values dyadic so that the code's float quotient (S-K)/S rounds to the same "
                           "6 decimals as the exact value; the minutely co-market is harness.sim.NullMarket on a sparse minute index "
                           "(h:00, h:01, h:30, h:59 of every hour)")
    return chk.finish("one case = one TLC behaviour (configuration x underlying path x trades) executed by the real Actuator.run; every trade and "
                      "every bar's update phase is compared with the spec state and the spec's Deliver/Expired records")


def replay(chk: Check, path: str) -> int:
    r = json.load(open(path))["replay"]
    if r.get("kind") == "tlc":
        print(r.get("output_tail", ""))
        return chk.finish("TLC output of a spec-level violation")
    states = list(refrac(r["states"]))
    o = replay_behaviour(states, r["grid"])
    notes = {}
    o.merge_into(chk, notes)
    chk.extra["other_property_notes"] = notes
    return chk.finish("replay of one recorded behaviour")

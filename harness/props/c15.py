"""C15 - option orders fill best-first at displayed sizes; cash, fee, position exact.

Spec: spec/Deribit.tla (Buy / Sell in the three pricing modes, Deposit / Withdraw, Refresh), spec/mc/MC_Deribit.tla (Scen = 1).
TLC : exhaustive BFS over every event sequence of the order alphabet (accepted prefixes; a rejected order is a leaf) with the
      state invariants and the Act_C15_* action properties, plus -simulate for longer sequences that continue after rejections
      and across book refreshes.  Four companion configs (DEV_* switches = the defects found in the code) must be rejected by TLC.
Bind: every root-to-leaf path of the dumped graph and every simulated behaviour is replayed into a fresh real
      DeribitOptionMarket (status set by hand like tests/deribit_option_test.py); after EVERY step outcome, returned order list,
      fee, balance, positions, visible asks/bids of both instruments and get_market_balance() equity are compared with the spec.
Clauses starting with C03/ or C04/ belong to those properties: counted here, never alarmed here.
"""
from __future__ import annotations

import json
import random
import re
from fractions import Fraction

from .. import tlc
from ..common import Check, VERIF, frac, jsonable, unq

SPEC = VERIF / "spec" / "mc" / "MC_Deribit.tla"
DEVS = {  # companion cfg -> (switch, properties one of which TLC must report)
    "MC_Deribit_dev13a.cfg": ("DEV_SellUnheldKeepsCredit", ("Inv_C15_CashLedger_", "Act_C04_RejectIntact_")),
    "MC_Deribit_dev13b.cfg": ("DEV_OversellAccepted", ("Act_C15_NoSellUnheld_", "Act_C15_PositionExact_", "Inv_C03_NonNeg_")),
    "MC_Deribit_dev13c.cfg": ("DEV_BuyDepletesBeforeCashCheck", ("Act_C04_RejectIntact_",)),
    "MC_Deribit_dev14.cfg": ("DEV_LimitRejected", ("Act_C15_LimitOnlyThatLevel_",)),
    "MC_Deribit_dev14usd.cfg": ("DEV_UsdLimitRejected", ("Act_C15_LimitOnlyThatLevel_",)),
}
_NUM = re.compile(r"^-?\d+(/\d+)?$")


def refrac(v):
    """inverse of jsonable() for replay files: 'a/b' strings -> Fraction, lists -> tuples."""
    if isinstance(v, str) and _NUM.match(v):
        return Fraction(v)
    if isinstance(v, list):
        return tuple(refrac(x) for x in v)
    if isinstance(v, dict):
        return {k: refrac(x) for k, x in v.items()}
    return v


# ----------------------------------------------------------------------------------------------------------------------
class Out:
    """what a worker sends back: clause counts, violations, C03/C04 notes."""

    def __init__(self):
        self.counts = {}
        self.viols = []
        self.notes = {}
        self.evals = 0
        self.traces = 0
        self.samples = []

    def count(self, c, n=1):
        self.counts[c] = self.counts.get(c, 0) + n

    def note(self, c, text):
        self.counts[c] = self.counts.get(c, 0)  # make the clause visible even if never compared elsewhere
        d = self.notes.setdefault(c, {"n": 0, "examples": []})
        d["n"] += 1
        if len(d["examples"]) < 3:
            d["examples"].append(text)

    def merge_into(self, chk: Check, notes: dict):
        for k, n in self.counts.items():
            chk.count(k, n)
        for sig, what, rep in self.viols:
            chk.violation(sig, what, rep)
        for k, d in self.notes.items():
            t = notes.setdefault(k, {"n": 0, "examples": []})
            t["n"] += d["n"]
            t["examples"] = (t["examples"] + d["examples"])[:3]
        chk.evaluations += self.evals
        chk.traces += self.traces
        for s in self.samples:
            chk.sample(s)


def new_market(st0, int_sizes):
    from demeter import Broker, MarketInfo, MarketTypeEnum
    from demeter.deribit import DeribitOptionMarket
    from ..deribit_util import dec
    broker = Broker()
    m = DeribitOptionMarket(MarketInfo("opt", MarketTypeEnum.deribit_option), DeribitOptionMarket.ETH)
    broker.add_market(m)
    # the spec's wallet is what is left in the broker after the initial option cash has been deposited
    broker.set_balance(DeribitOptionMarket.ETH, dec(st0["wallet"] + st0["cash"]))
    set_status(m, st0["book"], st0["info"], 0, int_sizes, st0["open"], st0["hour"])
    if st0["cash"] != 0:
        m.deposit(dec(st0["cash"]))
    if st0["hour"]:
        m.get_market_balance()  # the bar loop values the account on every bar; on an hour bar this is what later closed bars freeze
    return m


def set_status(m, book, info, k, int_sizes, is_open=True, hour=True):
    import pandas as pd
    from demeter.deribit import DeribitMarketStatus
    from ..deribit_util import T0, book_frame
    ts = T0 + pd.Timedelta(hours=k) + (pd.Timedelta(0) if hour else pd.Timedelta(minutes=30))
    m.set_market_status(DeribitMarketStatus(timestamp=ts, data=book_frame(book, info, int_sizes)), price=pd.Series([2000], index=["ETH"]))
    if not is_open:  # an hour whose row is missing from market.data (the base class derives the flag from the data index)
        m.is_open = False


def apply_event(m, ev, info, int_sizes, nref):
    from ..deribit_util import dec, trade_call
    op = ev["op"]
    if op in ("buy", "sell"):
        return trade_call(m, ev)
    if op == "deposit":
        return m.deposit(dec(ev["amt"]))
    if op == "withdraw":
        return m.withdraw(dec(ev["amt"]))
    if op == "refresh":
        set_status(m, ev["book"], info, nref + 1, int_sizes, ev.get("open", True), ev.get("hour", True))
        return None
    raise ValueError(op)


def round_step(a: Fraction) -> Fraction:
    n = a.numerator // a.denominator
    return Fraction(n + 1 if a - n >= Fraction(1, 2) else n)


def classify_fills(ev, pre_side, got, exp_sum):
    if sum((a for _, a in got), Fraction(0)) != exp_sum:
        return "fills_sum_is_rounded_request"
    disp = {}
    for p, s in pre_side:
        disp.setdefault(p, s)
    if any(p not in disp or a > disp[p] for p, a in got):
        return "within_displayed_size"
    if ev["mode"] in ("lim", "limusd"):
        return "limit_only_that_level"
    order = [p for p, s in pre_side if s != 0]
    idx = [order.index(p) for p, _ in got if p in order]
    if ev["mode"] == "cap":
        return "cap_excludes_worse_levels"
    if idx != list(range(len(idx))):
        return "best_level_first"
    return "best_level_first"


def replay_states(states, variant="float", stop_after=None) -> Out:
    """states: list of unq'ed TLC states (c, st, last); states[0] is an initial state."""
    from ..deribit_util import INSTRS, ev_str, fstr, pos_diffs, project_market, spec_book
    o = Out()
    o.traces = 1
    int_sizes = variant == "int"
    st0 = states[0]["st"]
    info = st0["info"]
    m = new_market(st0, int_sizes)
    rep = {"kind": "c15_path", "variant": variant, "states": None}
    hist = []

    def viol(entry, clause, cls, text, upto):
        r = dict(rep)
        r["states"] = jsonable(states[:upto + 1])
        o.viols.append((f"{entry}|{clause}|{cls}", f"after {' ; '.join(hist)}: {text}", r))

    # the freshly built market must project to the initial state (otherwise the harness, not demeter, is wrong)
    p0 = project_market(m)
    if p0["cash"] != st0["cash"] or p0["book"] != spec_book(st0):
        raise RuntimeError(f"harness cannot establish the initial state: {p0} vs {st0}")
    for j in range(1, len(states)):
        pre, node = states[j - 1]["st"], states[j]
        ev, exp, last = node["last"]["ev"], node["st"], node["last"]
        before = project_market(m)
        raised, ret = None, None
        try:
            ret = apply_event(m, ev, info, int_sizes, pre["nref"])
        except Exception as e:  # any exception is a rejection (DESIGN 2.10)
            raised = f"{type(e).__name__}: {e}"
        after = project_market(m)
        hist.append(ev_str(ev) + ("" if raised is None else " [raised]"))
        o.evals += 1
        entry = "DeribitOptionMarket." + ev["op"]
        is_trade = ev["op"] in ("buy", "sell")
        mode = ev.get("mode", "")
        cls = f"{ev['op']}_{mode}" if is_trade else ev["op"]
        stop = False
        # ---- outcome -------------------------------------------------------------------------------------------------
        if last["out"] == "ok" and raised is not None:
            o.count("accepts_valid_order")
            if is_trade:
                clause = "limit_fills_at_that_level" if mode in ("lim", "limusd") else "accepts_valid_order"
                viol(entry, clause, cls + "_raises_" + raised.split(":")[0], f"spec fills {ev_str(ev)} but the call raised {raised}", j)
            else:
                o.note("info/non_trade_outcome", f"{ev_str(ev)} raised {raised}")
            # state after the spurious rejection: C04's business
            if after != before:
                o.note("C04/reject_intact", f"{ev_str(ev)} raised {raised} and changed state")
            break
        if last["out"] == "reject" and raised is None:
            cause = last["cause"]
            if ev["op"] == "sell" and cause == "not_held":
                o.count("not_held_cannot_be_sold")
                held = pre["pos"][ev["i"]]["amt"]
                viol(entry, "not_held_cannot_be_sold", "oversell" if held > 0 else "unheld",
                     f"{ev_str(ev)} accepted although {fstr(held)} contracts are held; cash {fstr(before['cash'])} -> {fstr(after['cash'])}, "
                     f"position now {fstr(after['pos'][ev['i']]['amt'])}", j)
            elif is_trade and cause == "depth":
                o.count("within_displayed_size")
                viol(entry, "within_displayed_size", cls, f"{ev_str(ev)} accepted beyond the displayed depth; returned {ret}", j)
            elif cause in ("cash", "balance"):
                o.note("C03/no_negative_cash", f"{ev_str(ev)} accepted without funds, cash now {fstr(after['cash'])}")
            else:
                o.note("info/accepts_what_spec_rejects", f"{ev_str(ev)} accepted, spec cause {cause}")
            break
        # ---- both reject ---------------------------------------------------------------------------------------------
        if last["out"] == "reject":
            o.count("rejects_invalid_order")
            if ev["op"] == "sell" and last["cause"] == "not_held":
                o.count("not_held_cannot_be_sold")
            o.count("cash_exact")
            if after["cash"] != before["cash"]:
                viol(entry, "cash_changes_only_by_fills", cls + "_rejected_" + last["cause"],
                     f"{ev_str(ev)} was rejected ({raised}) yet cash went {fstr(before['cash'])} -> {fstr(after['cash'])}", j)
                stop = True
            o.count("C04/reject_intact")
            if after["pos"] != before["pos"] or after["book"] != before["book"]:
                o.note(f"C04/reject_intact_violated/{ev['op']}_{last['cause']}", f"{ev_str(ev)} rejected ({raised}) but " +
                       ("book changed " if after["book"] != before["book"] else "") + ("positions changed" if after["pos"] != before["pos"] else ""))
                stop = True
                if is_trade and after["book"] != before["book"]:
                    # the visible book shrinks by exactly the amounts FILLED: a rejected order fills nothing (C15's own clause, too)
                    o.count("book_shrinks_by_fills_until_refresh")
                    viol(entry, "book_shrinks_by_fills_until_refresh", cls + "_rejected_" + last["cause"],
                         f"{ev_str(ev)} was rejected ({raised}) and filled nothing, yet the visible book changed: "
                         f"{[k for k in after['book'] if after['book'][k] != before['book'][k]]}", j)
            if stop:
                break
            continue
        # ---- both accept ---------------------------------------------------------------------------------------------
        sb = spec_book(exp)
        if is_trade:
            orders, fee = ret
            got = [(frac(x.price), frac(x.amount)) for x in orders]
            want = [(f["p"], f["a"]) for f in last["fills"]]
            side = "asks" if ev["op"] == "buy" else "bids"
            pre_side = before["book"][ev["i"]][side]
            for c in ("fills_sum_is_rounded_request", "within_displayed_size", "best_level_first" if mode == "mkt" else
                      ("limit_only_that_level" if mode in ("lim", "limusd") else "cap_excludes_worse_levels")):
                o.count(c)
            if got != want:
                clause = classify_fills(ev, pre_side, got, round_step(ev["amt"]))
                viol(entry, clause, cls, f"{ev_str(ev)} on {side} {[(fstr(p), fstr(s)) for p, s in pre_side]} returned "
                     f"{[(fstr(p), fstr(a)) for p, a in got]}, spec fills {[(fstr(p), fstr(a)) for p, a in want]}", j)
                stop = True
            o.count("fee_min_rule_rounded")
            if frac(fee) != last["fee"]:
                viol(entry, "fee_min_rule_rounded", cls, f"{ev_str(ev)} fee {fee}, spec {fstr(last['fee'])} (fills {[(fstr(p), fstr(a)) for p, a in want]})", j)
                stop = True
            o.count("position_amounts_exact")
            o.count("avg_price_size_weighted")
            bad = pos_diffs(exp["pos"], after["pos"])
            if bad:
                clause = "avg_price_size_weighted" if all(".avg" in b for b in bad) else "position_amounts_exact"
                viol(entry, clause, cls, f"{ev_str(ev)}: {'; '.join(bad)}", j)
                stop = True
            if after["extra_pos"]:
                viol(entry, "position_amounts_exact", cls, f"unexpected positions {after['extra_pos']}", j)
                stop = True
            if ev["op"] == "sell":
                o.count("not_held_cannot_be_sold")
        else:
            if pos_diffs(exp["pos"], after["pos"]):
                o.note("info/non_trade_changes_positions", ev_str(ev))
                stop = True
        o.count("cash_exact")
        if after["cash"] != exp["cash"]:
            if is_trade:
                viol(entry, "cash_exact", cls, f"{ev_str(ev)}: cash {fstr(before['cash'])} -> {after['cash']}, spec {exp['cash']} "
                     f"(= {float(exp['cash'])})", j)
            else:
                o.note("info/non_trade_cash", f"{ev_str(ev)} cash {after['cash']} spec {exp['cash']}")
            stop = True
        o.count("book_shrinks_by_fills_until_refresh")
        if after["book"] != sb:
            d = [f"{i}.{s}: code {[(fstr(p), fstr(z)) for p, z in after['book'][i][s]]} spec {[(fstr(p), fstr(z)) for p, z in sb[i][s]]}"
                 for i in INSTRS for s in ("asks", "bids") if after["book"][i] is not None and after["book"][i][s] != sb[i][s]]
            viol(entry, "book_shrinks_by_fills_until_refresh", cls, f"{ev_str(ev)}: visible book differs: {d}", j)
            stop = True
        o.count("equity_is_cash_plus_positions_at_mark")
        bal = m.get_market_balance()
        eq = None if bal is None else frac(bal.net_value)
        if eq is None:
            viol("DeribitOptionMarket.get_market_balance", "equity_is_cash_plus_positions_at_mark", "no_balance_before_first_hour_bar",
                 f"after {ev_str(ev)}: get_market_balance() returned None (no hour bar seen yet), spec equity {float(last['eq'])}", j)
            stop = True
        elif eq != last["eq"]:
            viol("DeribitOptionMarket.get_market_balance", "equity_is_cash_plus_positions_at_mark", cls,
                 f"after {ev_str(ev)}: equity {eq} (= {float(eq)}), spec cash + sum amount * Quantize6(mark) = {last['eq']} (= {float(last['eq'])})", j)
            stop = True
        o.count("C03/non_negative")
        if after["cash"] < 0 or any(after["pos"][i]["amt"] < 0 for i in INSTRS):
            o.note("C03/non_negative_violated", f"after {ev_str(ev)}: cash {after['cash']}")
        if stop:
            break
        if len(o.samples) < 1 and is_trade and len(last["fills"]) > 1:
            o.samples.append({"events": list(hist), "fills": [(fstr(f["p"]), fstr(f["a"])) for f in last["fills"]],
                              "fee": fstr(last["fee"]), "cash": fstr(exp["cash"]), "equity": fstr(last["eq"])})
        if stop_after is not None and j >= stop_after:
            break
    if variant == "float" and not o.viols:
        loaded_probe(o, states, rep, hist)
    return o


def loaded_probe(o: Out, states, rep, hist):
    """"... until the book is next refreshed", with the book LOADED from the market's data (as a backtest has it, status handed over
    without a frame): the accepted trades of the path's first bar are issued against such a market, then the status of the SAME hour
    is set again - the book the market shows must be the loaded one in full again, and the loaded frame itself must be as supplied."""
    import pandas as pd
    from demeter import Broker, MarketInfo, MarketTypeEnum
    from demeter.deribit import DeribitMarketStatus, DeribitOptionMarket
    from ..deribit_util import T0, book_frame, dec, project_market, spec_book, trade_call
    st0 = states[0]["st"]
    if not (st0["open"] and st0["hour"]):
        return
    first_bar = []
    for node in states[1:]:
        ev = node["last"]["ev"]
        if ev["op"] == "refresh":
            break
        if ev["op"] in ("buy", "sell") and node["last"]["out"] == "ok":
            first_bar.append(ev)
    if not first_bar:
        return
    frame = book_frame(st0["book"], st0["info"], False)
    data = pd.concat([frame], keys=[T0], names=["time", "instrument_name"])
    snap = [(i, [list(x) for x in r.asks], [list(x) for x in r.bids]) for i, r in data.iterrows()]
    m = DeribitOptionMarket(MarketInfo("opt", MarketTypeEnum.deribit_option), DeribitOptionMarket.ETH, data=data)
    br = Broker()
    br.add_market(m)
    br.set_balance(DeribitOptionMarket.ETH, dec(st0["wallet"] + st0["cash"]) + 1000)
    price = pd.Series([2000], index=["ETH"])
    m.set_market_status(DeribitMarketStatus(timestamp=T0, data=None), price=price)
    m.deposit(dec(st0["cash"]) + 1000)
    try:
        for ev in first_bar:
            trade_call(m, ev)
    except Exception:
        return          # with other cash the order may be refused: nothing to observe here
    m.set_market_status(DeribitMarketStatus(timestamp=T0, data=None), price=price)      # the same hour is read again
    o.count("book_shrinks_by_fills_until_refresh(loaded book)")
    shown = project_market(m)["book"]
    after = [(i, [list(x) for x in r.asks], [list(x) for x in r.bids]) for i, r in data.iterrows()]
    if shown != spec_book(st0) or after != snap:
        r = dict(rep)
        r["states"] = jsonable(states)
        o.viols.append(("DeribitOptionMarket.set_market_status|book_shrinks_by_fills_until_refresh|loaded_book_reread",
                        f"market with a loaded book, after {' ; '.join(hist)} and setting the status of the same hour again: the book shown is "
                        f"{shown} and the loaded data {'were' if after != snap else 'were not'} changed; loaded book {spec_book(st0)}", r))


# ----------------------------------------------------------------------------------------------------------------------
_NODES = None


def _work(args):
    paths, variant = args
    tot = Out()
    for ids in paths:
        o = replay_states([_NODES[i] for i in ids], variant)
        for k, n in o.counts.items():
            tot.count(k, n)
        tot.viols += o.viols[:2]
        for k, d in o.notes.items():
            t = tot.notes.setdefault(k, {"n": 0, "examples": []})
            t["n"] += d["n"]
            t["examples"] = (t["examples"] + d["examples"])[:3]
        tot.evals += o.evals
        tot.traces += o.traces
        if not tot.samples:
            tot.samples = o.samples
        if len(tot.viols) > 60:
            tot.viols = tot.viols[:60]
    return tot


def replay_many(chk: Check, nodes: dict, paths: list, variant: str, notes: dict, procs=16):
    """nodes: id -> unq'ed state; paths: lists of ids.  Forked workers share `nodes` copy-on-write."""
    global _NODES
    import multiprocessing as mp
    _NODES = nodes
    if not paths:
        return
    n = max(1, min(procs, len(paths) // 20 or 1))
    chunks = [paths[i::n * 4] for i in range(n * 4)]
    chunks = [(c, variant) for c in chunks if c]
    if n == 1:
        outs = [_work(c) for c in chunks]
    else:
        with mp.get_context("fork").Pool(n) as pool:
            outs = pool.map(_work, chunks)
    for o in outs:
        o.merge_into(chk, notes)
    _NODES = None


def check_devs(chk: Check, devs: dict, extra_key="dev_switch_detected"):
    for cfg, (switch, owners) in devs.items():
        res = tlc.run(SPEC, SPEC.parent / cfg, chk.tmp, workers=8, timeout=600)
        hit = [v for v in res.violated if v in owners]
        chk.extra.setdefault(extra_key, {})[switch] = hit or False
        if not hit:
            raise RuntimeError(f"vacuous: {switch} ({cfg}) does not violate any of {owners}; TLC reported {res.violated}")


def run(chk: Check) -> int:
    quick = chk.tier == "quick"
    check_devs(chk, DEVS)
    notes = {}
    rnd = random.Random(chk.seed)
    # 1. exhaustive graph
    cfg = "MC_Deribit_quick.cfg" if quick else "MC_Deribit_thorough.cfg"
    res, g = tlc.dump_graph(SPEC, SPEC.parent / cfg, chk.tmp, workers=16, timeout=1500)
    chk.add_tlc(res, cfg)
    chk.spec_violation(res, cfg)
    if g is None:
        raise RuntimeError("TLC produced no state graph")
    nodes = {k: unq(v) for k, v in g.nodes.items()}
    paths = g.bfs_paths()
    chk.extra["graph_paths"] = len(paths)
    # the same events after other histories (non-tree edges of the spanning tree), a stratified sample
    more = g.sample_paths(g.edge_paths(), 1500 if quick else 30000, rnd)
    chk.extra["graph_edge_paths"] = len(more)
    replay_many(chk, nodes, paths + more, "float", notes)
    # the same paths with integer-typed sizes where the displayed size is a whole number (as in the repository's test data)
    sub = paths if not quick else rnd.sample(paths, min(len(paths), 800))
    replay_many(chk, nodes, sub, "int", notes)
    chk.exhaustive = True
    # 2. deeper behaviours (continue after rejections, two refreshes)
    scfg = "MC_Deribit_sim.cfg" if quick else "MC_Deribit_simthorough.cfg"
    res, behs = tlc.simulate(SPEC, SPEC.parent / scfg, chk.tmp, num=400 if quick else 8000, depth=8 if quick else 10,
                             seed=chk.seed, workers=16, timeout=1500)
    chk.add_tlc(res, scfg + "(simulate)")
    chk.spec_violation(res, scfg)
    snodes, spaths = {}, []
    for bi, b in enumerate(behs):
        ids = []
        for si, (_, s) in enumerate(b):
            snodes[(bi, si)] = unq(s)
            ids.append((bi, si))
        if len(ids) > 1:
            spaths.append(ids)
    chk.extra["simulated_behaviours"] = len(spaths)
    replay_many(chk, snodes, spaths, "float", notes)
    chk.extra["other_property_notes"] = notes
    chk.extra["distinct_nontrivial"] = len(paths) + len(spaths)
    chk.assumptions.append("ETH token config (contract step 1, fee step 1e-6); sizes are multiples of 0.5 and prices finite decimals so that "
                           "the code's float bookkeeping of the visible book is exact; price_in_usd is not exercised")
    return chk.finish("every node of the TLC state graph (a node = one event with its outcome and resulting state, so every generated event of "
                      "every event sequence of the order alphabet to the quick/thorough depth, a rejected order being a leaf) and every step of "
                      "the simulated behaviours is executed against a fresh real DeribitOptionMarket; distinct = replayed root-to-leaf paths of "
                      "the BFS spanning tree + simulated behaviours")


def replay(chk: Check, path: str) -> int:
    r = json.load(open(path))["replay"]
    if r.get("kind") == "tlc":
        print(r.get("output_tail", ""))
        return chk.finish("TLC output of a spec-level violation")
    states = refrac(r["states"])
    o = replay_states(list(states), r.get("variant", "float"))
    notes = {}
    o.merge_into(chk, notes)
    chk.extra["other_property_notes"] = notes
    return chk.finish("replay of one recorded path")

"""C17 - GMX mint/redeem: fees bounded and rule-based, amounts follow value per share, round trips never profit,
rewards pro rata, no redemption above the holding.

Spec   : spec/GmxV1.tla (Vault fee rule in its contract and its simulator form, mint / redeem with the round-down steps,
         reward accrual, wallet), spec/GmxV2.tla (the float pipeline over exact rationals: fee factors by impact sign,
         same-side / crossover price impact with the virtual-inventory rule, impact-pool cap, value per share);
         universes in spec/mc/MC_GmxV1.tla, MC_GmxV2.tla.
TLC    : exhaustive BFS over pool row x buy/sell/next-bar sequences (graph dumped) + simulation of longer behaviours;
         invariants Inv_C17_*; six DEV_ companion configurations must be rejected (non-vacuity).
Binding: every behaviour of the TLC graph / simulation is replayed into the real GmxMarket / GmxV2Market attached to a real
         Broker.  The pool rows of the spec are written to csv files that are read back with the readers of
         demeter/gmx/helper*.py (same column types as recorded data).  After every step: outcome, return value, fee basis
         points (wrapped get_fee_basis_points), wallet, holdings, reward, get_market_balance(), action records, and a round-trip
         probe on a copy of the objects.
"""
from __future__ import annotations

import copy
import json
import re
from datetime import timedelta
from decimal import Decimal
from fractions import Fraction
from pathlib import Path

from .. import tlc
from ..common import Check, VERIF, close, frac, jsonable, unq

MC = VERIF / "spec" / "mc"
SPEC1 = MC / "MC_GmxV1.tla"
SPEC2 = MC / "MC_GmxV2.tla"
DEVS = [  # (spec, cfg, switch, owning invariant / property)
    (SPEC1, "MC_GmxV1_dev_overredeem.cfg", "DEV_OverRedeem", "Inv_C17_NonNegShares"),
    (SPEC1, "MC_GmxV1_dev_decimals.cfg", "DEV_NoDecimalsAdjust", "Inv_C17_MintValue"),
    (SPEC1, "MC_GmxV1_dev_mutate.cfg", "DEV_MutateBeforeDebit", "Prop_RejectLeavesState"),
    (SPEC2, "MC_GmxV2_dev_overwithdraw.cfg", "DEV_OverWithdraw", "Inv_C17_NonNegShares"),
    (SPEC2, "MC_GmxV2_dev_nocap.cfg", "DEV_NoImpactCap", "Inv_C17_ImpactCap"),
    (SPEC2, "MC_GmxV2_dev_mutate.cfg", "DEV_MutateBeforeCheck", "Prop_RejectLeavesState"),
]

REL30 = Fraction(1, 10 ** 30)   # Decimal results involving a division (DESIGN 2.3)
REL15 = Fraction(1, 10 ** 15)   # only where the spec flags a floor argument inside the 1e-30 band below an integer
REL9 = Fraction(1, 10 ** 9)     # float64 pipeline (GMX v2)
TOKENS1 = ["weth", "usdc", "wavax", "mim"]
DECIMALS = {"weth": 18, "usdc": 6, "wavax": 18, "mim": 18}


# ------------------------------------------------------------------------------------------------
# helpers
# ------------------------------------------------------------------------------------------------
def to_dec(x: Fraction) -> Decimal:
    """Fraction -> Decimal (exact for every terminating universe amount; 35 digits otherwise)."""
    return Decimal(x.numerator) / Decimal(x.denominator)


def as_int(x: Fraction) -> int:
    assert x.denominator == 1, x
    return x.numerator


def dec_str(x: Fraction) -> str:
    d = to_dec(x)
    assert Fraction(d) == x, x
    return format(d, "f")


_NUM = re.compile(r"^-?\d+(/\d+)?$")


def revive(v):
    """Inverse of common.jsonable for the replay files: 'n/d' strings back to Fractions."""
    if isinstance(v, str) and _NUM.match(v):
        return Fraction(v)
    if isinstance(v, dict):
        return {k: revive(x) for k, x in v.items()}
    if isinstance(v, list):
        return [revive(x) for x in v]
    return v


def ts_of(row_id: int):
    from ..sim import BASE
    return BASE + timedelta(minutes=int(row_id))


def collect_rows(states):
    rows = {}
    for s in states:
        ev = s["last"]["ev"]
        if ev["op"] == "bar":
            rows[ev["row"]] = s["last"]["rowdata"]
    return rows


# ------------------------------------------------------------------------------------------------
# pool rows -> the DataFrames the markets read (through the csv readers of demeter/gmx/helper*.py)
# ------------------------------------------------------------------------------------------------
def v1_frame(rows: dict, tmp: Path):
    import pandas as pd
    from demeter.utils import to_decimal
    cols = ["glp"] + [f"{t}_price" for t in TOKENS1] + [f"{t}_usdg" for t in TOKENS1] + ["interval"] + \
           [f"{t}_weight" for t in TOKENS1] + ["usdg", "aum", "glp_price"]
    lines = ["," + ",".join(cols)]
    for rid in sorted(rows):
        r = rows[rid]
        vals = [str(as_int(r["glp"]))] + [str(as_int(r["price"][t])) for t in TOKENS1] + \
               [str(as_int(r["tusdg"][t])) for t in TOKENS1] + [str(as_int(r["interval"])) + ".0"] + \
               [str(r["weight"][t]) for t in TOKENS1] + [str(as_int(r["usdg"])), str(as_int(r["aum"])), dec_str(r["glpPrice"])]
        lines.append(ts_of(rid).strftime("%Y-%m-%d %H:%M:%S") + "," + ",".join(vals))
    path = tmp / f"gmx_v1_rows_{len(rows)}.csv"
    path.write_text("\n".join(lines) + "\n")
    # the reader of demeter/gmx/helper.py: load_gmx_v1_data (its CacheManager.save step cannot store these integers)
    df = pd.read_csv(path, index_col=0, parse_dates=True,
                     converters={"glp_price": to_decimal, "weth_price": to_decimal, "wavax_price": to_decimal,
                                 "glp": to_decimal, "aum": to_decimal})
    # the synthetic frame must carry the spec's numbers exactly (machinery check, not a property clause)
    for rid in rows:
        got = df.loc[ts_of(rid)]
        r = rows[rid]
        exp = {"glp": r["glp"], "aum": r["aum"], "usdg": r["usdg"], "interval": r["interval"], "glp_price": r["glpPrice"]}
        for t in TOKENS1:
            exp[f"{t}_price"] = r["price"][t]
            exp[f"{t}_usdg"] = r["tusdg"][t]
            exp[f"{t}_weight"] = Fraction(r["weight"][t])
        for c, e in exp.items():
            g = got[c]
            if (frac(g) if isinstance(g, (Decimal, float)) else Fraction(int(g))) != e:
                raise RuntimeError(f"synthetic GMX v1 frame lost precision in column {c}: {g!r} != {e}")
    return df


V2COLS = [("longAmount", "la"), ("shortAmount", "sa"), ("virtualSwapInventoryLong", "vl"), ("virtualSwapInventoryShort", "vs"),
          ("poolValue", "pv"), ("marketTokensSupply", "sup"), ("impactPoolAmount", "ip"), ("longPrice", "lp"),
          ("shortPrice", "sp"), ("indexPrice", "lp")]


def v2_frame(rows: dict, tmp: Path):
    import pandas as pd
    lines = ["timestamp," + ",".join(c for c, _ in V2COLS)]
    for rid in sorted(rows):
        r = rows[rid]
        vals = []
        for c, k in V2COLS:
            if k in ("vl", "vs") and not r["hasV"]:
                vals.append("")  # no virtual inventory recorded: NaN
            else:
                vals.append(repr(float(r[k])))
        lines.append(ts_of(rid).strftime("%Y-%m-%d %H:%M:%S") + "," + ",".join(vals))
    path = tmp / f"gmx_v2_rows_{len(rows)}.csv"
    path.write_text("\n".join(lines) + "\n")
    return pd.read_csv(path, index_col=0, parse_dates=True)  # the reader of demeter/gmx/helper2.py: load_gmx_v2_data


# ------------------------------------------------------------------------------------------------
# sink for verdicts of one replayed path (so that the per-path code is the same for run() and replay())
# ------------------------------------------------------------------------------------------------
class Sink:
    def __init__(self, chk: Check, kind: str, rows: dict, path_states: list):
        self.chk, self.kind, self.rows, self.states = chk, kind, rows, path_states
        self.stop = False

    def replay_dict(self, upto: int):
        return {"kind": self.kind, "rows": {str(k): v for k, v in self.rows.items()}, "states": self.states[: upto + 1]}

    def bad(self, i: int, entry: str, clause: str, klass: str, text: str):
        self.chk.violation(f"{entry}|{clause}|{klass}", text, self.replay_dict(i))
        self.stop = True

    def info(self, i: int, clause: str):
        """A difference no clause of C17 forbids: counted in the evidence, the path is not followed further."""
        self.chk.extra.setdefault("not_alarmed", {})
        self.chk.extra["not_alarmed"][clause] = self.chk.extra["not_alarmed"].get(clause, 0) + 1
        self.stop = True


def cmp(sink: Sink, i, entry, clause, klass, got, exp, rel, what, alarm=True, abs_=Fraction(0)):
    sink.chk.count(clause if alarm else "info/" + clause)
    sink.chk.evaluations += 1
    if close(got, exp, rel=rel, abs_=abs_):
        return True
    if alarm:
        sink.bad(i, entry, clause, klass, f"{what}: code {got} vs spec {exp} ({float(frac(got)):.12g} vs {float(exp):.12g})")
    else:
        sink.chk.extra.setdefault("info_mismatch", {})
        sink.chk.extra["info_mismatch"][clause] = sink.chk.extra["info_mismatch"].get(clause, 0) + 1
    return False


# ------------------------------------------------------------------------------------------------
# GMX v1
# ------------------------------------------------------------------------------------------------
def make_v1(df, st0):
    from demeter import MarketInfo, MarketTypeEnum, TokenInfo
    from demeter.broker import Broker
    from demeter.gmx import GmxMarket

    class RecMarket(GmxMarket):
        """GmxMarket with a recorder around the public fee rule (harness-side wrapper, no change of behaviour)."""
        fee_calls = None

        def get_fee_basis_points(self, token, usdg_amount, increase):
            r = super().get_fee_basis_points(token, usdg_amount, increase)
            self.fee_calls.append((token.name.lower(), usdg_amount, increase, r))
            return r

    toks = {t: TokenInfo(name=t, decimal=DECIMALS[t]) for t in TOKENS1}
    acts = []
    broker = Broker(record_action_callback=acts.append)
    market = RecMarket(MarketInfo("gmx", MarketTypeEnum.gmx_v1), tokens=list(toks.values()), data=df)
    market.fee_calls = []
    broker.add_market(market)
    for t in TOKENS1:
        broker.set_balance(toks[t], to_dec(st0["w"][t]))
    return broker, market, toks, acts


def v1_state_matches(broker, market, toks, st, rel):
    diffs = []
    for t in TOKENS1:
        if not close(broker.get_token_balance(toks[t]), st["w"][t], rel=rel):
            diffs.append(f"wallet[{t}] {broker.get_token_balance(toks[t])} vs {st['w'][t]}")
    if not close(market.glp_amount, st["glp"], rel=rel):
        diffs.append(f"glp {market.glp_amount} vs {st['glp']}")
    if not close(market.reward, st["reward"], rel=rel):
        diffs.append(f"reward {market.reward} vs {st['reward']}")
    return diffs


def replay_v1(chk: Check, df, rows, states, seen: dict | None = None, keys=None):
    """states: [s0, s1, ...] (unq'ed TLC states {st, last}); keys: node ids for prefix memoisation."""
    from demeter import MarketStatus
    broker, market, toks, acts = make_v1(df, states[0]["st"])
    sink = Sink(chk, "v1", rows, states)
    prev = states[0]["st"]
    for i in range(1, len(states)):
        s = states[i]
        st, last = s["st"], s["last"]
        ev, out, res = last["ev"], last["out"], last["res"]
        op = ev["op"]
        check = seen is None or keys[i] not in seen
        if not check and not seen[keys[i]]:
            return  # a difference was already reported (or the path cut) at this node
        if check and seen is not None:
            seen[keys[i]] = False  # set to True below once every comparison of this node has passed
        n_act, n_fee = len(acts), len(market.fee_calls)
        ret, err = None, None
        held_before = market.glp_amount
        wallet_before = {t: broker.get_token_balance(toks[t]) for t in TOKENS1}
        try:
            if op == "bar":
                if prev["row"] != 0:
                    market.update()
                market.set_market_status(MarketStatus(ts_of(ev["row"]), None), None)
            elif op == "buy":
                ret = market.buy_glp(toks[ev["tok"]], to_dec(ev["amt"]))
            elif op == "sell":
                ret = market.sell_glp(toks[ev["tok"]]) if ev["all"] else market.sell_glp(toks[ev["tok"]], to_dec(ev["amt"]))
        except Exception as e:  # any exception = rejected (DESIGN 2.10)
            err = f"{type(e).__name__}: {e}"
        if not check:
            prev = st
            continue
        entry = {"bar": "update", "buy": "buy_glp", "sell": "sell_glp"}[op]
        rel = REL15 if res["band"] else REL30
        # --- outcome -------------------------------------------------------------------------------
        chk.count("outcome")
        chk.evaluations += 1
        if out == "reject" and err is None:
            if op == "sell":
                req = ev["amt"]
                sink.bad(i, "sell_glp", "no_redemption_above_holding", "amount_gt_held",
                         f"sell_glp({ev['tok']}, {float(req):.6g}) accepted while {held_before} GLP are held: paid {ret} "
                         f"{ev['tok']}, holding now {market.glp_amount}")
            else:
                sink.info(i, "C03/buy_accepted_beyond_wallet")
            return
        if out == "ok" and err is not None:
            sink.bad(i, entry, "raises", op, f"{entry}({ev}) raised {err}; the specification accepts it")
            return
        if out == "reject":
            chk.count("C04/state_after_reject")
            d = v1_state_matches(broker, market, toks, st, REL30)
            if d or len(acts) != n_act:
                sink.info(i, f"C04/{entry}_mutates_before_rejecting")
                return
            prev = st
            if seen is not None:
                seen[keys[i]] = True
            continue
        # --- accepted ------------------------------------------------------------------------------
        if op == "bar":
            cmp(sink, i, "update", "reward_pro_rata", "bar", market.reward, st["reward"], REL30,
                f"reward after the bar of row {prev['row']} (glp {float(prev['glp']):.6g})")
        else:
            tok = ev["tok"]
            fees = market.fee_calls[n_fee:]
            chk.count("fee_call")
            if len(fees) != 1 or fees[0][0] != tok or fees[0][2] != (op == "buy"):
                sink.info(i, "info/fee_rule_not_called_once")
                return
            fee = frac(fees[0][3])
            chk.extra.setdefault("fee_branches", {})
            bk = f"{op}:{res['branch']}"
            chk.extra["fee_branches"][bk] = chk.extra["fee_branches"].get(bk, 0) + 1
            chk.count("fee_bounds")
            chk.evaluations += 2
            if not (0 <= fee <= 85):
                sink.bad(i, "get_fee_basis_points", "fee_bounds", res["branch"],
                         f"fee {float(fee):.6g} bp outside [0, 25 + 60] for {op} {tok} usdg {float(res['usdg']):.6g} in row {st['row']}")
                return
            chk.count("fee_within_1bp_of_vault_rule")
            if abs(fee - res["feeVault"]) > 1:
                sink.bad(i, "get_fee_basis_points", "fee_within_1bp_of_vault_rule", res["branch"],
                         f"fee {float(fee):.6g} bp vs Vault rule {float(res['feeVault']):.6g} bp ({res['branch']}) for {op} {tok} "
                         f"usdg delta {float(res['usdg']):.6g} in row {st['row']}")
                return
            cmp(sink, i, entry, "fee_call_usdg_delta", tok, fees[0][1], res["usdg"], rel, "usdg delta given to the fee rule", alarm=False)
            if not close(fee, res["fee"], rel=REL30):
                # a fee inside the property's 1 bp freedom but not the simulator's variant: amounts cannot be pinned down
                sink.info(i, "info/fee_variant_within_1bp")
                return
            clause = "mint_follows_value_per_share" if op == "buy" else "redeem_follows_value_per_share"
            if not cmp(sink, i, entry, clause, tok, ret, res["ret"], rel,
                       f"{entry}({tok}, {'ALL' if ev.get('all') else float(ev['amt'])}) in row {st['row']} (fee {float(fee):.6g} bp)"):
                return
            # action record
            new = acts[n_act:]
            chk.count("info/action_record_emitted")
            if len(new) != 1:
                chk.extra["info_action_record_count_mismatch"] = chk.extra.get("info_action_record_count_mismatch", 0) + 1
            else:
                a = new[0]
                if op == "buy":
                    ok = (type(a).__name__ == "BuyGlpAction" and a.token.lower() == tok
                          and close(a.token_amount, ev["amt"], rel=REL30) and close(a.mint_amount, res["ret"] * 10 ** 18, rel=rel))
                else:
                    g = prev["glp"] if ev["all"] else ev["amt"]
                    ok = (type(a).__name__ == "SellGlpAction" and a.token.lower() == tok
                          and close(a.glp_amount, g, rel=REL30) and close(a.token_out, res["ret"], rel=rel))
                chk.count("action_record_amounts")
                chk.evaluations += 1
                if not ok:
                    sink.bad(i, entry, "action_record_amounts", tok, f"action record {a!r:.300} does not carry the specified amounts "
                                                                     f"(event {ev}, result {float(res['ret']):.12g})")
                    return
        # --- state, views ----------------------------------------------------------------------------
        for t in TOKENS1:
            if not cmp(sink, i, entry, "wallet", t, broker.get_token_balance(toks[t]), st["w"][t], rel, f"wallet {t} after {ev}"):
                return
        if not cmp(sink, i, entry, "shares_held", op, market.glp_amount, st["glp"], rel, f"GLP held after {ev}"):
            return
        chk.count("non_negative_shares")
        if market.glp_amount < 0:
            sink.bad(i, entry, "non_negative_shares", op, f"GLP held {market.glp_amount} after {ev}")
            return
        bal = market.get_market_balance()
        if not cmp(sink, i, "get_market_balance", "balance_glp", op, bal.glp, st["glp"], rel, "GmxBalance.glp"):
            return
        if not cmp(sink, i, "get_market_balance", "balance_reward", op, bal.reward, st["reward"], REL30, "GmxBalance.reward"):
            return
        cmp(sink, i, "get_market_balance", "net_value", op, bal.net_value, last["net"], REL30, "GmxBalance.net_value", alarm=False)
        # --- round trip probe on a copy: sell the minted GLP back for the same token in the same bar -------------
        if op == "buy" and ret != 0:   # (a falsy amount would mean "sell everything")
            b2, m2 = copy.deepcopy((broker, market))
            t2 = toks[ev["tok"]]   # TokenInfo is a value type
            w0 = wallet_before[ev["tok"]]
            try:
                back = m2.sell_glp(t2, ret)
            except Exception as e:
                sink.bad(i, "sell_glp", "raises", "round_trip", f"selling the {ret} GLP just minted raised {type(e).__name__}: {e}")
                return
            chk.count("round_trip_never_profits")
            chk.evaluations += 1
            if frac(back) > ev["amt"] or b2.get_token_balance(t2) > w0:
                sink.bad(i, "buy_glp+sell_glp", "round_trip_never_profits", ev["tok"],
                         f"paid {float(ev['amt']):.12g} {ev['tok']}, minted {ret} GLP, sold back at once for {back} (row {st['row']})")
                return
            # (info only: the fee of the sale may legally differ from the simulator's variant by < 1 bp)
            cmp(sink, i, "buy_glp+sell_glp", "round_trip_amount", ev["tok"], back, res["rt"], rel, "round trip output", alarm=False)
        if op == "sell" and i >= 2:
            p = states[i - 1]
            pe = p["last"]["ev"]
            if (pe["op"] == "buy" and p["last"]["out"] == "ok" and pe["tok"] == ev["tok"] and states[i - 2]["st"]["glp"] == 0
                    and (ev["all"] or ev["amt"] == p["last"]["res"]["ret"])):
                chk.count("round_trip_never_profits")
                if frac(ret) > pe["amt"]:
                    sink.bad(i, "buy_glp+sell_glp", "round_trip_never_profits", ev["tok"],
                             f"paid {float(pe['amt']):.12g} {ev['tok']} and received {ret} in the same bar")
                    return
        prev = st
        if sink.stop:
            return
        if seen is not None:
            seen[keys[i]] = True


# ------------------------------------------------------------------------------------------------
# GMX v2
# ------------------------------------------------------------------------------------------------
LP_FIELDS = ["long_amount", "short_amount", "total_usd", "gm_amount", "gm_usd", "long_fee", "short_fee", "fee_usd", "price_impact_usd"]


def make_v2(df, st0):
    from demeter import MarketInfo, MarketTypeEnum, TokenInfo
    from demeter.broker import Broker
    from demeter.gmx import GmxV2Market, GmxV2Pool
    weth, usdc = TokenInfo(name="weth", decimal=18), TokenInfo(name="usdc", decimal=6)
    acts = []
    broker = Broker(record_action_callback=acts.append)
    market = GmxV2Market(MarketInfo("gm", MarketTypeEnum.gmx_v2), GmxV2Pool(weth, usdc, weth), data=df)
    broker.add_market(market)
    broker.set_balance(weth, to_dec(st0["wl"]))
    broker.set_balance(usdc, to_dec(st0["ws"]))
    return broker, market, weth, usdc, acts


def v2_state_diffs(broker, market, weth, usdc, st):
    d = []
    if not close(broker.get_token_balance(weth), st["wl"], rel=REL9):
        d.append(f"long wallet {broker.get_token_balance(weth)} vs {float(st['wl'])}")
    if not close(broker.get_token_balance(usdc), st["ws"], rel=REL9):
        d.append(f"short wallet {broker.get_token_balance(usdc)} vs {float(st['ws'])}")
    if not close(market.amount, st["gm"], rel=REL9):
        d.append(f"GM {market.amount} vs {float(st['gm'])}")
    return d


def replay_v2(chk: Check, df, rows, states, seen: dict | None = None, keys=None):
    from demeter.gmx._typing2 import GmxV2MarketStatus
    broker, market, weth, usdc, acts = make_v2(df, states[0]["st"])
    sink = Sink(chk, "v2", rows, states)
    prev = states[0]["st"]
    for i in range(1, len(states)):
        s = states[i]
        st, last = s["st"], s["last"]
        ev, out, res = last["ev"], last["out"], last["res"]
        op = ev["op"]
        check = seen is None or keys[i] not in seen
        if not check and not seen[keys[i]]:
            return
        if check and seen is not None:
            seen[keys[i]] = False
        n_act = len(acts)
        ret, err = None, None
        held_before = market.amount
        try:
            if op == "bar":
                if prev["row"] != 0:
                    market.update()
                market.set_market_status(GmxV2MarketStatus(ts_of(ev["row"]), None), None)
            elif op == "dep":
                ret = market.deposit(float(ev["la"]), float(ev["sa"]))
            elif op == "wd":
                ret = market.withdraw(None) if ev["all"] else market.withdraw(float(ev["amt"]))
        except Exception as e:
            err = f"{type(e).__name__}: {e}"
        if not check:
            prev = st
            continue
        entry = {"bar": "set_market_status", "dep": "deposit", "wd": "withdraw"}[op]
        chk.count("outcome")
        chk.evaluations += 1
        if last["band"] and (err is None) != (out == "ok"):
            sink.info(i, "info/withdraw_amount_inside_1e-9_band_of_holding")
            return
        if out == "reject" and err is None:
            if op == "wd":
                sink.bad(i, "withdraw", "no_redemption_above_holding", "amount_gt_held" if ev["amt"] > 0 else "negative_amount",
                         f"withdraw({float(ev['amt']):.9g}) accepted while {held_before} GM are held: paid {ret.long_amount} long / "
                         f"{ret.short_amount} short, holding now {market.amount}")
            else:
                sink.info(i, "C03/deposit_accepted_beyond_wallet")
            return
        if out == "ok" and err is not None:
            sink.bad(i, entry, "raises", op, f"{entry}({ {k: float(v) if isinstance(v, Fraction) else v for k, v in ev.items()} }) raised {err}; "
                                             f"the specification accepts it")
            return
        if out == "reject":
            chk.count("C04/state_after_reject")
            if v2_state_diffs(broker, market, weth, usdc, st) or len(acts) != n_act:
                sink.info(i, f"C04/{entry}_mutates_before_rejecting")
                return
            prev = st
            if seen is not None:
                seen[keys[i]] = True
            continue
        if op in ("dep", "wd"):
            klass = res["kind"] if op == "dep" else ("all" if ev["all"] else "partial")
            if op == "dep":
                chk.extra.setdefault("impact_kinds", {})
                kk = res["kind"] + ("+capped" if res["capped"] else "")
                chk.extra["impact_kinds"][kk] = chk.extra["impact_kinds"].get(kk, 0) + 1
            for f in LP_FIELDS:
                clause = {"gm_amount": "mint_follows_pool_value_per_share" if op == "dep" else "redeem_follows_pool_value_per_share",
                          "long_amount": "amounts", "short_amount": "amounts", "total_usd": "amounts", "gm_usd": "amounts",
                          "long_fee": "fee_factor_by_impact_sign", "short_fee": "fee_factor_by_impact_sign",
                          "fee_usd": "fee_factor_by_impact_sign", "price_impact_usd": "price_impact_capped_by_impact_pool"}[f]
                if op == "wd" and f in ("long_amount", "short_amount", "total_usd"):
                    clause = "redeem_follows_pool_value_per_share"
                # the price impact enters the mint additively: it is held to the absolute USD accuracy that 1e-9 relative on
                # the minted amount implies (1e-9 of the deposited USD); its own relative error is unbounded in float64 when
                # the deposit barely changes the imbalance (difference of squares of nearly equal pool values)
                tol = REL9 * res["total_usd"] if f == "price_impact_usd" else Fraction(0)
                if not cmp(sink, i, entry, clause, klass, getattr(ret, f), res[f], REL9, abs_=tol, what=
                           f"LPResult.{f} of {entry}({', '.join(f'{k}={float(v):.9g}' for k, v in ev.items() if isinstance(v, Fraction))}) "
                           f"in row {st['row']} ({res['kind']}{', capped' if res['capped'] else ''})"):
                    return
            new = acts[n_act:]
            chk.count("info/action_record_emitted")
            if len(new) != 1:
                chk.extra["info_action_record_count_mismatch"] = chk.extra.get("info_action_record_count_mismatch", 0) + 1
            else:
                a = new[0]
                want = "Gmx2DepositAction" if op == "dep" else "Gmx2WithdrawAction"
                pairs = [("gm_amount", "gm_amount"), ("long_amount", "long_amount"), ("short_amount", "short_amount"),
                         ("gm_usd", "gm_usd"), ("fee_usd", "fee_usd"), ("long_fee", "long_fee"), ("short_fee", "short_fee"),
                         ("deposit_usd" if op == "dep" else "withdraw_usd", "total_usd")]
                if op == "dep":
                    pairs.append(("price_impact_usd", "price_impact_usd"))
                ok = type(a).__name__ == want and all(
                    close(getattr(a, x), res[y], rel=REL9, abs_=REL9 * res["total_usd"] if y == "price_impact_usd" else Fraction(0))
                    for x, y in pairs)
                chk.count("action_record_amounts")
                chk.evaluations += 1
                if not ok:
                    sink.bad(i, entry, "action_record_amounts", klass, f"action record {a!r:.400} does not carry the specified amounts")
                    return
        for nm, tk, k in (("long", weth, "wl"), ("short", usdc, "ws")):
            if not cmp(sink, i, entry, "wallet", nm, broker.get_token_balance(tk), st[k], REL9, f"{nm} wallet after {entry}"):
                return
        if not cmp(sink, i, entry, "shares_held", op, market.amount, st["gm"], REL9, f"GM held after {entry}"):
            return
        chk.count("non_negative_shares")
        if market.amount < 0:
            sink.bad(i, entry, "non_negative_shares", op, f"GM held {market.amount}")
            return
        bal = market.get_market_balance()
        for f, k in (("gm_amount", "gm"), ("long_amount", "long"), ("short_amount", "short")):
            if not cmp(sink, i, "get_market_balance", "balance_view", f, getattr(bal, f), last["bal"][k], REL9, f"GmxV2Balance.{f}"):
                return
        cmp(sink, i, "get_market_balance", "net_value", op, bal.net_value, last["bal"]["net"], REL9, "GmxV2Balance.net_value", alarm=False)
        if op == "dep" and ret.gm_amount > 0:
            b2, m2 = copy.deepcopy((broker, market))
            try:
                back = m2.withdraw(ret.gm_amount)
            except Exception as e:
                sink.bad(i, "withdraw", "raises", "round_trip", f"withdrawing the {ret.gm_amount} GM just minted raised {type(e).__name__}: {e}")
                return
            chk.count("round_trip_never_profits")
            chk.evaluations += 1
            limit = (res["total_usd"] + res["credit"]) * (1 + REL9)
            if frac(back.total_usd) > limit:
                sink.bad(i, "deposit+withdraw", "round_trip_never_profits", res["kind"],
                         f"deposited USD {float(res['total_usd']):.12g} (+ {float(res['credit']):.6g} credited by the impact pool), "
                         f"withdrew at once USD {back.total_usd} in row {st['row']}")
                return
            if frac(back.total_usd) > res["total_usd"] * (1 + REL9):
                chk.extra["info_round_trips_above_paid_because_of_positive_impact"] = \
                    chk.extra.get("info_round_trips_above_paid_because_of_positive_impact", 0) + 1
            cmp(sink, i, "deposit+withdraw", "round_trip_amount", res["kind"], back.total_usd, res["rt"], REL9, "round trip USD", alarm=False)
        prev = st
        if sink.stop:
            return
        if seen is not None:
            seen[keys[i]] = True


# ------------------------------------------------------------------------------------------------
# TLC legs
# ------------------------------------------------------------------------------------------------
def graph_paths(g):
    """BFS-tree root-to-leaf paths as lists of node ids; nodes converted lazily."""
    import random as _random
    # tree paths (every node) + a stratified sample of the non-tree edges (the same event after another history)
    return g.bfs_paths() + g.sample_paths(g.edge_paths(), 1500, _random.Random(0))


def retry(fn, *a, **kw):
    """TLC killed from outside (shared machine) is retried once; a second failure is a machinery failure."""
    try:
        return fn(*a, **kw)
    except tlc.TlcError as e:
        if "Error:" in str(e):   # TLC's own diagnosis (parse error, evaluation error): not transient
            raise
        return fn(*a, **kw)


def run_side(chk: Check, kind: str, spec: Path, cfgs, sim_cfg, sim_num, sim_depth, workers=8, sim_workers=4):
    frame = v1_frame if kind == "v1" else v2_frame
    rep = replay_v1 if kind == "v1" else replay_v2
    distinct = set()
    for cfg in cfgs:
        res, g = retry(tlc.dump_graph, spec, MC / cfg, chk.tmp, workers=workers, timeout=1500)
        chk.add_tlc(res, cfg)
        chk.spec_violation(res, cfg)
        if g is None:
            continue
        nodes = {k: unq(v) for k, v in g.nodes.items()}
        rows = collect_rows(nodes.values())
        df = frame(rows, chk.tmp)
        seen = {}
        for p in graph_paths(g):
            rep(chk, df, rows, [nodes[k] for k in p], seen, p)
            chk.traces += 1
        for s in nodes.values():
            e = s["last"]["ev"]
            if e["op"] != "init":
                distinct.add((s["st"]["row"] if e["op"] != "bar" else e["row"], json.dumps(jsonable(e), sort_keys=True)))
    if sim_cfg:
        res, behs = retry(tlc.simulate, spec, MC / sim_cfg, chk.tmp, num=sim_num, depth=sim_depth, seed=chk.seed, workers=sim_workers, timeout=1500)
        chk.add_tlc(res, f"{sim_cfg}(simulate)")
        chk.spec_violation(res, sim_cfg)
        behs = [[unq(s) for _, s in b] for b in behs if len(b) > 1]
        rows = collect_rows(s for b in behs for s in b)
        if rows:
            df = frame(rows, chk.tmp)
            for b in behs:
                rep(chk, df, rows, b)
                chk.traces += 1
                if len(chk.samples) < 6 and len(b) > 4 and (kind == "v1") == (len(chk.samples) % 2 == 0):
                    chk.sample({"kind": kind, "events": [s["last"]["ev"] for s in b[1:6]],
                                "outcomes": [s["last"]["out"] for s in b[1:6]]})
    return distinct


def check_devs(chk: Check):
    from concurrent.futures import ThreadPoolExecutor

    def one(d):
        spec, cfg, switch, inv = d
        r = retry(tlc.run, spec, MC / cfg, chk.tmp, workers=2, timeout=600)
        return switch, inv, r.violated

    det = {}
    with ThreadPoolExecutor(3) as ex:
        for switch, inv, violated in ex.map(one, DEVS):
            det[switch] = inv in violated
            if inv not in violated:
                raise RuntimeError(f"vacuous: {switch} does not violate {inv} (violated: {violated})")
    chk.extra["dev_switch_detected"] = det


def run(chk: Check) -> int:
    quick = chk.tier == "quick"
    check_devs(chk)
    if quick:
        d1 = run_side(chk, "v1", SPEC1, ["MC_GmxV1_quick.cfg"], "MC_GmxV1_sim.cfg", 120, 10)
        d2 = run_side(chk, "v2", SPEC2, ["MC_GmxV2_quick.cfg"], "MC_GmxV2_sim.cfg", 120, 10)
    else:
        d1 = run_side(chk, "v1", SPEC1, ["MC_GmxV1_deep.cfg", "MC_GmxV1_thorough.cfg"], "MC_GmxV1_sim.cfg", 3000, 10,
                      workers=12, sim_workers=8)
        d2 = run_side(chk, "v2", SPEC2, ["MC_GmxV2_deep.cfg", "MC_GmxV2_thorough.cfg"], "MC_GmxV2_sim.cfg", 3000, 10,
                      workers=12, sim_workers=8)
    chk.exhaustive = True
    chk.extra["distinct_nontrivial"] = len(d1) + len(d2)
    chk.assumptions += [
        "pool rows are synthetic (no recorded row is replayed); they are read back through the csv readers of demeter/gmx/helper*.py",
        "GMX v1: the simulator carries exact fractions through fee rebate, fee collection and redemption where the contracts round "
        "down; TLC proves the difference stays below the value of the omitted floors (Inv_C17_SimNearContract, Inv_C17_FeeNearVault)",
        "GMX v2 round trip: USD withdrawn <= USD deposited + the (capped) positive price impact credited by the impact pool",
    ]
    return chk.finish("a case is one (pool row, event) edge of the TLC graph or simulation; distinct = distinct (row, event) pairs; "
                      "each is executed on the real GmxMarket / GmxV2Market with a real Broker and every observable is compared "
                      "with the spec state (v1: 1e-30 relative, v2: 1e-9 relative)")


def replay(chk: Check, path: str) -> int:
    r = json.load(open(path))["replay"]
    if r.get("kind") == "tlc":
        print(r.get("output_tail", ""))
        return chk.finish("TLC counterexample (re-run the check to reproduce)")
    rows = {int(k): revive(v) for k, v in r["rows"].items()}
    for row in rows.values():  # weights are plain integers, booleans stay booleans
        if "weight" in row:
            row["weight"] = {t: int(w) for t, w in row["weight"].items()}
    states = revive(r["states"])
    for s in states:
        if "row" in s["st"]:
            s["st"]["row"] = int(s["st"]["row"])
            s["st"]["n"] = int(s["st"]["n"])
        if "row" in s["last"]["ev"]:
            s["last"]["ev"]["row"] = int(s["last"]["ev"]["row"])
    if r["kind"] == "v1":
        replay_v1(chk, v1_frame(rows, chk.tmp), rows, states)
    else:
        replay_v2(chk, v2_frame(rows, chk.tmp), rows, states)
    chk.traces += 1
    return chk.finish("replay of one behaviour")

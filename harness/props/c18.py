"""C18 - time triggers fire on exactly the bars their specification denotes.

Spec: spec/Triggers.tla (denotation FireSet + operational When/OutDate), spec/mc/MC_Triggers.tla.
TLC: exhaustive over every (grid, trigger configuration) of the universe, all bars; invariants
     Inv_FiredExactly, Inv_RetiredOnlyWhenDead; companion config with DEV_PeriodsStopAtFirstMatch must fail.
Binding (spec -> code): every terminal state of the TLC state graph is one configuration with the spec's
     fired set / retirement time per trigger; the harness builds the real trigger objects, runs the real
     Actuator bar loop on that grid and compares firing times, call counts, kwargs and retirement.
"""
from __future__ import annotations

import random
from datetime import timedelta
from pathlib import Path

from .. import tlc
from ..common import Check, VERIF

SPEC = VERIF / "spec" / "mc" / "MC_Triggers.tla"


def build_trigger(tr, rec, tag):
    from demeter import (AtTimeTrigger, AtTimesTrigger, PeriodTrigger, PeriodsTrigger, TimeRange, TimeRangeTrigger,
                         TimeRangesTrigger)
    from ..sim import minute

    def do(snapshot, **kw):
        rec.append((tag, snapshot.timestamp, dict(kw)))

    kw = {"tag": tag, "k": 7}
    k = tr["k"]

    def at(t):
        """the bar grid is minutely and to_minute() documents "just set its second to 0": a time given with seconds / microseconds
        denotes its minute - every third time is passed with a sub-minute part"""
        m = minute(t)
        return m + timedelta(seconds=(t * 7) % 59 + 1, microseconds=(t * 13) % 999 + 1) if t % 3 == 1 else m

    def order(xs, key=None):
        """the spec's parameters are SETS (of times, ranges, periods); the API takes lists - the order in which a set is listed
        must not matter, so it is varied deterministically: ascending, descending, rotated"""
        xs = sorted(xs, key=key)
        v = (len(xs) + sum((key(x) if key else x) for x in xs)) % 3
        return xs if v == 0 else xs[::-1] if v == 1 else xs[1:] + xs[:1]
    if k == "at":
        return AtTimeTrigger(at(tr["t"]), do, **kw)
    if k == "ats":
        return AtTimesTrigger([at(t) for t in order(tr["ts"])], do, **kw)
    if k == "range":
        return TimeRangeTrigger(TimeRange(at(tr["a"]), at(tr["b"])), do, **kw)
    if k == "ranges":
        return TimeRangesTrigger([TimeRange(at(r["a"]), at(r["b"])) for r in order(tr["rs"], key=lambda r: r["a"] * 1000 + r["b"])], do, **kw)
    if k == "period":
        return PeriodTrigger(timedelta(minutes=tr["d"]), do, trigger_immediately=tr["imm"],
                             pending=timedelta(minutes=tr["p"]), **kw)
    if k == "periods":
        return PeriodsTrigger([timedelta(minutes=d) for d in order(tr["ds"])], do, trigger_immediately=tr["imm"],
                              pending=timedelta(minutes=tr["p"]), **kw)
    raise ValueError(k)


def run_config(c):
    """Run the real bar loop for configuration c; return (fired per trigger, retired-at per trigger, calls, error)."""
    from demeter import Strategy
    from ..sim import null_actuator, to_min
    g, trs = c["g"], c["trs"]
    rec = []
    alive_log = []

    class S(Strategy):
        def initialize(self_):
            self_.mine = [build_trigger(tr, rec, i + 1) for i, tr in enumerate(trs)]
            self_.triggers.extend(self_.mine)

        def after_bar(self_, snapshot):
            alive_log.append((to_min(snapshot.timestamp), [any(t is m for t in self_.triggers) for m in self_.mine]))

    act, _ = null_actuator(g["s"], g["n"] * g["iv"], g["iv"])
    act.strategy = S()
    try:
        act.run(print_result=False)
    except Exception as e:  # a raising trigger is a failed configuration
        return None, None, rec, f"{type(e).__name__}: {e}"
    fired = [set() for _ in trs]
    calls = {}
    for tag, ts, kw in rec:
        fired[tag - 1].add(to_min(ts))
        calls[(tag, to_min(ts))] = calls.get((tag, to_min(ts)), 0) + 1
    retired = [-1] * len(trs)
    for ts, alive in alive_log:
        for i, a in enumerate(alive):
            if not a and retired[i] == -1:
                retired[i] = ts
    bars = [ts for ts, _ in alive_log]
    return (fired, retired, calls, bars), None, rec, None


def compare(chk: Check, c, st):
    g, trs = c["g"], c["trs"]
    got, _, rec, err = run_config(c)
    kinds = "+".join(t["k"] for t in trs)
    replay = {"kind": "trigger_config", "config": c, "spec": st}
    if err:
        chk.violation(f"Actuator.run|raises|{kinds}", f"bar loop raised {err} for {trs}", {**replay, "error": err})
        return
    fired, retired, calls, bars = got
    exp_bars = [g["s"] + j * g["iv"] for j in range(g["n"])]
    chk.count("grid")
    if bars != exp_bars:
        chk.violation(f"Actuator.run|grid|iv{g['iv']}", f"bars visited {bars} != grid {exp_bars}", replay)
        return
    for i, tr in enumerate(trs):
        exp = set(st["fired"][i])
        chk.count("fired_exactly")
        if fired[i] != exp:
            chk.violation(f"{tr['k']}|fired_exactly|{'missing' if exp - fired[i] else 'extra'}",
                          f"trigger {tr} on grid {g}: fired {sorted(fired[i])}, specification denotes {sorted(exp)}",
                          {**replay, "got": sorted(fired[i])})
        chk.count("once_with_kwargs")
        bad = [k for k, n in calls.items() if k[0] == i + 1 and n != 1]
        badkw = [r for r in rec if r[0] == i + 1 and r[2] != {"tag": i + 1, "k": 7}]
        if bad or badkw:
            chk.violation(f"{tr['k']}|once_with_kwargs|", f"trigger {tr}: calls {bad} kwargs {badkw[:2]}", replay)
        # retirement: only when it can never fire again (the spec's retirement time is the earliest legal one
        # for the code's rule; any retirement before the last denoted firing is a violation)
        chk.count("retired_only_when_dead")
        if retired[i] != -1 and any(x > retired[i] for x in exp):
            chk.violation(f"{tr['k']}|retired_only_when_dead|", f"trigger {tr} retired at {retired[i]} but denotes {sorted(exp)}", replay)
        chk.count("info/retire_time")
        if retired[i] != st["retired"][i]:
            chk.extra.setdefault("info_retire_time_diffs", 0)
            chk.extra["info_retire_time_diffs"] += 1


def run(chk: Check) -> int:
    quick = chk.tier == "quick"
    cfgs = ["MC_Triggers_quick.cfg"] if quick else ["MC_Triggers_quick.cfg", "MC_Triggers_thorough.cfg"]
    # 1. non-vacuity: the deviation switch must break the invariant in the spec
    dev = tlc.run(SPEC, SPEC.parent / "MC_Triggers_dev17.cfg", chk.tmp, workers=8)
    chk.extra["dev_switch_detected"] = {"DEV_PeriodsStopAtFirstMatch": "Inv_FiredExactly" in dev.violated}
    if "Inv_FiredExactly" not in dev.violated:
        raise RuntimeError("vacuous: DEV_PeriodsStopAtFirstMatch does not violate Inv_FiredExactly")
    terminals = []
    for cfg in cfgs:
        res, g = tlc.dump_graph(SPEC, SPEC.parent / cfg, chk.tmp, workers=16, args=("-coverage", "1"))
        chk.add_tlc(res, cfg)
        chk.spec_violation(res, cfg)
        if g:
            for s in g.nodes.values():
                if s["bar"] == s["c"]["g"]["n"]:
                    terminals.append(s)
    chk.exhaustive = True
    # pairs of triggers in one strategy (retirement of one must not disturb the other): simulation
    res, behs = tlc.simulate(SPEC, SPEC.parent / "MC_Triggers_pairs.cfg", chk.tmp, num=150 if quick else 3000,
                             depth=40, seed=chk.seed, workers=4)
    chk.add_tlc(res, "pairs(simulate)")
    chk.spec_violation(res, "pairs")
    for b in behs:
        if b and b[-1][1]["bar"] == b[-1][1]["c"]["g"]["n"]:
            terminals.append(b[-1][1])
    rnd = random.Random(chk.seed)
    budget = 2500 if quick else len(terminals)
    if len(terminals) > budget:
        chk.exhaustive = False
        terminals = rnd.sample(terminals, budget)
    from concurrent.futures import ProcessPoolExecutor
    seen = set()
    for s in terminals:
        compare(chk, s["c"], s["st"])
        chk.traces += 1
        chk.evaluations += 1
        seen.add(repr(s["c"]))
        if len(chk.samples) < 4 and s["st"]["fired"][0]:
            chk.sample({"config": s["c"], "spec_fired": s["st"]["fired"], "spec_retired": s["st"]["retired"]})
    chk.extra["distinct_nontrivial"] = len(seen)
    return chk.finish("every (grid, trigger list) configuration TLC enumerates is one case; distinct = distinct configurations; "
                      "each is run through the real Actuator bar loop and compared with the spec's terminal state")


def replay(chk: Check, path: str) -> int:
    import json
    from ..tlaval import parse
    r = json.load(open(path))["replay"]
    # replay files store the configuration as JSON; sets came out as sorted lists
    c, st = r["config"], r["spec"]
    for t in c["trs"]:
        if t["k"] == "ats":
            t["ts"] = set(t["ts"])
    compare(chk, c, st)
    return chk.finish("replay of one configuration")

"""C14 - Squeeth vaults: 150% collateral rule, TWAP pricing, liquidation amounts.

Spec: spec/Squeeth.tla (vault state machine, Safe, relational TWAP, ReduceDebt + Liquidate), spec/mc/MC_Squeeth.tla
      (state-relative amount alphabets), spec/mc/SqueethU.tla (generated: price symbols + LP amounts table).
TLC : (a) companion DEV_ configurations must be rejected (non-vacuity);
      (b) exhaustive operation graph without timestamps (exact Decimal arithmetic: equality at 1.5x / 0.5 ETH decided),
          dumped and replayed edge by edge into the real SqueethMarket + UniLpMarket by direct calls;
      (c) simulation of whole back-tests (8-10 bars over the 3-symbol alphabet, <= 2 calls per bar, live TWAP) replayed
          through the real Actuator.run with a scripted strategy;
      (d) every get_twap_price value observed in (c) is validated relationally by TLC (TwapOk) in a trace run.
"""
from __future__ import annotations

import json
import os
import random
import re
import shutil
from decimal import Decimal
from fractions import Fraction
from pathlib import Path

from .. import tlc, tlaval
from ..common import Check, VERIF, close, frac, maybe_float, q_tla, unq

D = Decimal
MC = VERIF / "spec" / "mc"

# ---------------------------------------------------------------------------------------------------------------
# universe: one source of truth for the spec (generated SqueethU.tla) and the scenario builder
# ---------------------------------------------------------------------------------------------------------------
ROWS = [  # price symbols: norm factor, ETH price (USD), oSQTH price (ETH) = pool price
    {"nf": "0.4", "eth": "2000", "sq": "0.1"},    # index 0.08 ETH per oSQTH, mark 0.10
    {"nf": "0.4", "eth": "2500", "sq": "0.15"},   # index 0.10
    {"nf": "0.32", "eth": "2000", "sq": "0.08"},  # index 0.064
]
LP_KINDS = [  # positions created at pool price LP_PRICE: (lower tick, upper tick, max oSQTH, max WETH)
    (18000, 26400, "20", "2"),   # wide: in range at every symbol
    (22020, 24000, "10", "1"),   # narrow: all WETH at symbol 2, all oSQTH at symbol 3
]
LP_FEES = {1: ("0.05", "0.7")}   # uncollected fees (WETH, oSQTH) an LP kind carries from earlier bars (set on the Position object)
LP_PRICE = "0.1"
W0 = D(100)
Q0 = D(5)
TWAP_BARS = 7
REL_FLOAT = Fraction(1, 10 ** 9)
REL_DEC = Fraction(1, 10 ** 30)


def _tokens():
    from demeter import MarketInfo, MarketTypeEnum, TokenInfo
    return (TokenInfo("weth", 18), TokenInfo("osqth", 18), MarketInfo("Uni", MarketTypeEnum.uniswap_v3),
            MarketInfo("Squeeth", MarketTypeEnum.squeeth))


def _sqrt_price(p: str) -> int:
    from demeter.uniswap.helper import base_unit_price_to_sqrt_price_x96
    return base_unit_price_to_sqrt_price_x96(D(p), 18, 18, True)


def sym_tick(um, s: int) -> int:
    return int(um.price_to_tick(D(ROWS[s - 1]["sq"])))


def uni_row(um, s: int, as_series=True):
    import pandas as pd
    vals = [0, 0, 10 ** 18, sym_tick(um, s), D(ROWS[s - 1]["sq"])]
    idx = ["inAmount0", "inAmount1", "currentLiquidity", "closeTick", "price"]
    return pd.Series(data=vals, index=idx, dtype=object) if as_series else dict(zip(idx, vals))


def sq_row(s: int):
    import pandas as pd
    r = ROWS[s - 1]
    return pd.Series(data=[D(r["nf"]), D(r["eth"]), D(r["sq"])], index=["norm_factor", "WETH", "OSQTH"], dtype=object)


class World:
    """Real SqueethMarket + UniLpMarket under one Broker, LP positions of the universe created, wallet = spec Init."""

    def __init__(self, nk: int, broker=None, um=None, sm=None):
        from demeter import Broker
        from demeter.squeeth.market import SqueethMarket
        from demeter.uniswap import UniLpMarket, UniV3Pool
        from .. import sim  # noqa: F401  (sys.path, silence logging)
        self.weth, self.osqth, self.uk, self.sk = _tokens()
        self.records = []
        if broker is None:
            broker = Broker()
            um = UniLpMarket(self.uk, UniV3Pool(self.weth, self.osqth, 0.3, self.weth))
            sm = SqueethMarket(self.sk, um)
            broker.add_market(um)
            broker.add_market(sm)
        self.broker, self.um, self.sm = broker, um, sm
        self.nk = nk
        self.pos = {}  # LP kind -> PositionInfo
        self.mute = False
        self.log = []  # every action record of both markets (the action log of C04)
        uorig = um._record_action_callback

        def ucb(a, _orig=uorig):
            self.log.append(a)
            if _orig is not None:
                _orig(a)
        um._record_action_callback = ucb
        orig = sm._record_action_callback

        def cb(a, _orig=orig):
            if not self.mute:
                self.records.append(a)
            self.log.append(a)
            if _orig is not None:
                _orig(a)
        sm._record_action_callback = cb

    # -- setup ------------------------------------------------------------------------------------------------
    def set_row(self, s: int):
        """market status without timestamp (the tests' way): TWAP = row price"""
        from demeter import MarketStatus
        from demeter.uniswap import UniswapMarketStatus
        self.um.set_market_status(UniswapMarketStatus(timestamp=None, data=uni_row(self.um, s)), price=None)
        self.sm.set_market_status(MarketStatus(timestamp=None, data=sq_row(s)), price=None)

    def create_lps(self):
        self.broker.set_balance(self.weth, D(1000))
        self.broker.set_balance(self.osqth, D(1000))
        sp = _sqrt_price(LP_PRICE)
        for k in range(1, self.nk + 1):
            lo, up, mb, mq = LP_KINDS[k - 1]
            pos, _, _, _ = self.um.add_liquidity_by_tick(lo, up, D(mb), D(mq), sqrt_price_x96=sp)
            self.pos[k] = pos
            if k in LP_FEES:      # token0 = WETH, token1 = oSQTH
                self.um.positions[pos].pending_amount0 = D(LP_FEES[k][0])
                self.um.positions[pos].pending_amount1 = D(LP_FEES[k][1])
        self.broker.set_balance(self.weth, W0)
        self.broker.set_balance(self.osqth, Q0)

    # -- projection -------------------------------------------------------------------------------------------
    def kind_of(self, pos):
        for k, p in self.pos.items():
            if p == pos:
                return k
        return -1 if pos is not None else 0

    def project(self):
        vaults = []
        for key in sorted(self.sm.vault, key=lambda x: x.id):
            v = self.sm.vault[key]
            vaults.append({"id": v.id, "coll": frac(v.collateral_amount), "short": frac(v.osqth_short_amount),
                           "lp": self.kind_of(v.uni_nft_id)})
        lps = []
        for k in range(1, self.nk + 1):
            p = self.um.positions.get(self.pos[k])
            if p is None or p.liquidity == 0:
                lps.append("gone")
            else:
                lps.append("vault" if p.transferred else "own")
        return {"vaults": vaults, "weth": frac(self.broker.get_token_balance(self.weth)),
                "sqth": frac(self.broker.get_token_balance(self.osqth)), "lps": lps}

    # -- events -----------------------------------------------------------------------------------------------
    def vkey(self, vk: int):
        from demeter.squeeth import VaultKey
        return None if vk == 0 else VaultKey(vk)

    def apply(self, ev):
        """Run one user call; returns (outcome, return value, exception text)."""
        sm = self.sm
        op = ev["op"]
        # arguments are built outside the try block: a harness error must never count as a rejection by the code
        key = self.vkey(ev["vk"]) if "vk" in ev else None
        pos = self.pos[ev["lp"]] if ev.get("lp") else None
        # (Decimal | float, as the signatures say: half of the exactly representable amounts go in as floats)
        amt = {k: (maybe_float(dec(ev[k])) if op != "spend" else dec(ev[k])) for k in ("dep", "mint", "rate", "a", "b", "w") if k in ev}
        if op not in ("odm", "rate", "deposit", "bw", "lpdep", "lpwd", "update", "liq", "spend", "lbuy", "lsell"):
            raise ValueError(op)
        try:
            if op == "odm":
                ret = sm.open_deposit_mint(amt["dep"], amt["mint"], key, pos)
                return "ok", (ret[0].id, frac(ret[1])), None
            if op == "rate":
                ret = sm.open_deposit_mint_by_collat_rate(amt["dep"], amt["rate"], key, pos)
                return "ok", (ret[0].id, frac(ret[1])), None
            if op == "deposit":
                sm.deposit(key, amt["a"])
            elif op == "bw":
                sm.burn_and_withdraw(key, amt["b"], amt["w"])
            elif op == "lpdep":
                sm.deposit_uni_position(key, pos)
            elif op == "lpwd":
                sm.withdraw_uni_position(key, pos)
            elif op == "update":
                sm.update()
            elif op == "liq":
                sm.liquidate(key)
            elif op == "spend":
                self.broker.subtract_from_balance(self.osqth, amt["a"])
            elif op == "lbuy":
                sm.buy_squeeth(osqth_amount=amt["a"])
            elif op == "lsell":
                sm.sell_squeeth(osqth_amount=amt["a"])
            return "ok", None, None
        except Exception as e:  # any exception = rejection (class/message recorded, never compared)
            return "reject", None, f"{type(e).__name__}: {e}"


def dec(q) -> Decimal:
    """exact Decimal of a finite-decimal rational (built from digits: no context rounding)"""
    q = Fraction(q)
    k, p = 0, 1
    while p % q.denominator:
        p *= 10
        k += 1
        if k > 60:
            raise ValueError(f"not a finite decimal: {q}")
    m = q.numerator * (p // q.denominator)
    return Decimal((0 if m >= 0 else 1, tuple(int(c) for c in str(abs(m))), -k))


# ---------------------------------------------------------------------------------------------------------------
# generated module SqueethU.tla
# ---------------------------------------------------------------------------------------------------------------
def lp_table():
    """[kind][symbol] -> (WETH amount, oSQTH amount) read from UniLpMarket.get_position_amount (the code's own valuation)."""
    w = World(len(LP_KINDS))
    w.set_row(1)
    w.create_lps()
    tab = []
    for k in range(1, len(LP_KINDS) + 1):
        row = []
        for s in range(1, len(ROWS) + 1):
            w.set_row(s)
            a0, a1 = w.um.get_position_amount(w.pos[k])
            f0, f1 = LP_FEES.get(k, ("0", "0"))
            row.append((D(a0) + D(f0), D(a1) + D(f1)))      # what the position is worth: liquidity amounts plus uncollected fees
        tab.append(row)
    return tab


def universe_module(tab=None) -> str:
    tab = tab or lp_table()
    rows = ",\n     ".join(f"[nf |-> {q_tla(r['nf'])}, eth |-> {q_tla(r['eth'])}, sq |-> {q_tla(r['sq'])}]" for r in ROWS)
    lp = ",\n     ".join("<< " + ",\n        ".join(f"<<{q_tla(a)}, {q_tla(b)}>>" for a, b in row) + " >>" for row in tab)
    return ("------------------------------ MODULE SqueethU ------------------------------\n"
            "(* GENERATED by harness/props/c14.py (universe_module): price symbols of the universe and, per LP kind and\n"
            "   symbol, the (WETH, oSQTH) amounts read from UniLpMarket.get_position_amount plus the kind's uncollected fees.  Do not edit. *)\n"
            "EXTENDS Num\n\n"
            f"RowsDef ==\n  << {rows} >>\n\n"
            f"LPTabDef ==\n  << {lp} >>\n"
            "=============================================================================\n")


def stage(chk: Check, tab=None) -> Path:
    """Copy MC_Squeeth.tla + cfgs next to a freshly generated SqueethU.tla (scratch only)."""
    d = chk.tmp / "mc"
    d.mkdir(exist_ok=True)
    for f in MC.glob("MC_Squeeth*"):
        shutil.copy(f, d / f.name)
    (d / "SqueethU.tla").write_text(universe_module(tab))
    return d


# ---------------------------------------------------------------------------------------------------------------
# the spec's Safe / views transcribed for the CODE's states (bound to TLC: py_view(st) == view on every spec state)
# ---------------------------------------------------------------------------------------------------------------
EPS_FLOAT = Fraction(11, 10 ** 10)
EPS_DEC = Fraction(1, 10 ** 25)
HALF = Fraction(1, 2)


class Ctx:
    def __init__(self, tab, nk):
        self.tab = [[(frac(a), frac(b)) for a, b in row] for row in tab]
        self.nk = nk


def env_of(st):
    sym = st["path"][-1]
    return {"nf": Fraction(ROWS[sym - 1]["nf"]), "te": st["te"], "ts": st["ts"], "sym": sym}


def idx(e):
    return e["nf"] * e["te"] / 10000


def coll_of(e, v, tab):
    if not v["lp"]:
        return v["coll"]
    a = tab[v["lp"] - 1][e["sym"] - 1]
    return v["coll"] + a[0] + a[1] * idx(e)


def debt_of(e, v):
    return v["short"] * e["nf"] * e["te"] / 10000


def water(e, v, tab):
    return v["short"] == 0 or coll_of(e, v, tab) * 2 >= debt_of(e, v) * 3


def safe(e, v, tab):
    return water(e, v, tab) and not (v["short"] != 0 and coll_of(e, v, tab) < HALF)


def near(a, b, eps):
    return eps != 0 and abs(a - b) <= eps * (abs(a) + abs(b))


def eps_of(ix, v, live):
    return EPS_FLOAT if live else (EPS_DEC if (v["lp"] or ix) else Fraction(0))


def safe_tol(e, v, tab, eps):
    if safe(e, v, tab):
        return True
    if v["short"] == 0:
        return True
    c, d = coll_of(e, v, tab), debt_of(e, v)
    return near(c * 2, d * 3, eps) or near(c, HALF, eps)


def py_view(st, tab):
    e = env_of(st)
    return {"v": tuple({"coll": coll_of(e, v, tab), "debt": debt_of(e, v), "safe": safe(e, v, tab),
                        "water": water(e, v, tab)} for v in st["vaults"])}


def bind_view(node, ctx):
    """the Python transcription of Safe must agree with what TLC evaluated (else the harness is broken: exit 2)"""
    if py_view(node["st"], ctx.tab)["v"] != node["view"]["v"]:
        raise RuntimeError(f"harness transcription of Safe/Coll/Debt disagrees with TLC's View on {node['st']}")


# ---------------------------------------------------------------------------------------------------------------
# collector (picklable; merged into the Check by the parent process)
# ---------------------------------------------------------------------------------------------------------------
class Col:
    def __init__(self):
        self.counts = {}
        self.viol = []
        self.vcount = {}
        self.samples = []
        self.notes = {}
        self.traces = 0
        self.evals = 0
        self.twap = {}  # (token, window symbols) -> observed value (Fraction)

    def count(self, c, n=1):
        self.counts[c] = self.counts.get(c, 0) + n

    def violation(self, sig, text, replay):
        self.vcount[sig] = self.vcount.get(sig, 0) + 1
        if self.vcount[sig] <= 2:
            self.viol.append((sig, text, replay))

    def note(self, key, what, cap=3):
        l = self.notes.setdefault(key, [])
        if len(l) < cap:
            l.append(what)

    def merge_into(self, chk: Check):
        for c, n in self.counts.items():
            chk.count(c, n)
        for sig, text, rp in self.viol:
            chk.violation(sig, text, rp)
        for k, l in self.notes.items():
            dst = chk.extra.setdefault("notes", {}).setdefault(k, [])
            for x in l:
                if len(dst) < 3:
                    dst.append(x)
        chk.traces += self.traces
        chk.evaluations += self.evals
        for s in self.samples:
            chk.sample(s)


ENTRY = {"odm": "SqueethMarket.open_deposit_mint", "rate": "SqueethMarket.open_deposit_mint_by_collat_rate",
         "deposit": "SqueethMarket.deposit", "bw": "SqueethMarket.burn_and_withdraw",
         "lpdep": "SqueethMarket.deposit_uni_position", "lpwd": "SqueethMarket.withdraw_uni_position",
         "update": "SqueethMarket.update", "bar": "Actuator.run/SqueethMarket.update"}


def mints_or_withdraws(ev):
    op = ev["op"]
    return (op == "odm" and ev["mint"] != 0) or op == "rate" or (op == "bw" and ev["w"] != 0) or op == "lpwd"


def tol_of(live):
    return (REL_FLOAT, Fraction(1, 10 ** 7)) if live else (REL_DEC, Fraction(1, 10 ** 28))


def same(a, b, tol):
    return close(a, b, tol[0], tol[1])


def vault_diff(cv, sv, tol):
    out = []
    if not same(cv["coll"], sv["coll"], tol):
        out.append(f"collateral {float(cv['coll'])!r} != {float(sv['coll'])!r}")
    if not same(cv["short"], sv["short"], tol):
        out.append(f"short {float(cv['short'])!r} != {float(sv['short'])!r}")
    if cv["lp"] != sv["lp"]:
        out.append(f"lp {cv['lp']} != {sv['lp']}")
    return out


def state_diff(proj, st, tol):
    out = []
    if len(proj["vaults"]) != len(st["vaults"]):
        out.append(f"{len(proj['vaults'])} vaults != {len(st['vaults'])}")
    for cv in proj["vaults"]:
        if cv["id"] <= len(st["vaults"]):
            out += [f"vault {cv['id']}: {d}" for d in vault_diff(cv, st["vaults"][cv["id"] - 1], tol)]
    if not same(proj["weth"], st["weth"], tol):
        out.append(f"wallet WETH {float(proj['weth'])!r} != {float(st['weth'])!r}")
    if not same(proj["sqth"], st["sqth"], tol):
        out.append(f"wallet oSQTH {float(proj['sqth'])!r} != {float(st['sqth'])!r}")
    if tuple(proj["lps"]) != tuple(st["lps"]):
        out.append(f"LP positions {proj['lps']} != {list(st['lps'])}")
    return out


def scen_of(ev, pst, live):
    lp = bool(ev.get("lp")) or any(v["lp"] for v in pst["vaults"])
    return ("lp" if lp else "nolp") + "/" + ("live_twap" if live else "no_timestamp")


def fl(x):
    return float(x) if isinstance(x, Fraction) else x


def ev_str(ev):
    return "{" + ", ".join(f"{k}={fl(v)!r}" for k, v in ev.items()) + "}"


def rec_fields(a):
    n = type(a).__name__
    if n == "ReduceDebtAction":
        return {"t": "reduce_debt", "v": a.vault_id, "eth": frac(a.withdrawn_eth_amount), "sq": frac(a.withdrawn_osqth_amount),
                "burn": frac(a.burn_amount), "excess": frac(a.excess), "bounty": frac(a.bounty),
                "short_after": frac(a.short_amount_after), "coll_after": frac(a.collateral_after)}
    if n == "LiquidationAction":
        return {"t": "liquidation", "v": a.vault_id, "amt": frac(a.liquidate_amount), "short_after": frac(a.short_amount_after),
                "pay": frac(a.collateral_to_pay), "coll_after": frac(a.collateral_after)}
    if n == "UpdateShortAction":
        return {"t": "short", "v": a.vault_id, "a": frac(a.short_amount), "after": frac(a.short_after)}
    if n == "UpdateCollateralAction":
        return {"t": "coll", "v": a.vault_id, "a": frac(a.collateral_amount), "after": frac(a.collateral_after)}
    if n == "AddVaultAction":
        return {"t": "add_vault", "v": a.vault_id}
    if n == "DepositLpAction":
        return {"t": "lpdep", "v": a.vault_id}
    if n == "WithdrawLpAction":
        return {"t": "lpwd", "v": a.vault_id}
    return {"t": n}


def recs_diff(recs, acts, tol, only=None):
    got = [rec_fields(a) for a in recs]
    exp = [dict(a) for a in acts]
    if only:
        got = [g for g in got if g["t"] in only]
        exp = [e for e in exp if e["t"] in only]
    if [g["t"] for g in got] != [e["t"] for e in exp]:
        return [f"records {[g['t'] for g in got]} != {[e['t'] for e in exp]}"]
    out = []
    for g, e in zip(got, exp):
        for k, v in g.items():
            if k in ("t", "lp"):
                continue
            if k == "v":
                if v != e["v"]:
                    out.append(f"{g['t']}.vault {v} != {e['v']}")
            elif not same(v, e[k], tol):
                out.append(f"{g['t']}.{k} {float(v)!r} != {float(e[k])!r}")
    return out


def check_views(col: Col, W: World, node, live, mk_replay):
    """derived views of the code against the spec state `node` (the code is in that state, at that bar)"""
    from demeter.squeeth import VaultKey
    st = node["st"]
    tol = tol_of(live)
    col.count("twap_value", 2)
    for tok, want, name in ((W.weth, st["te"], "WETH"), (W.osqth, st["ts"], "oSQTH")):
        got = frac(W.sm.get_twap_price(tok))
        if not close(got, want, tol[0], 0):
            col.violation(f"SqueethMarket.get_twap_price|twap|{name}/{'live_twap' if live else 'no_timestamp'}",
                          f"get_twap_price({name}) = {float(got)!r} at bar {len(st['path']) - 1} of path {list(st['path'])}, "
                          f"geometric mean of the trailing {TWAP_BARS}-bar window is {float(want)!r}", mk_replay())
            return False
    for i, vw in enumerate(node["view"]["v"], 1):
        col.count("collat_ratio")
        ratio, liq = W.sm.get_collat_ratio_and_liq_price(VaultKey(i))
        want = vw["coll"] / vw["debt"] if vw["debt"] != 0 else Fraction(0)
        if not same(frac(ratio), want, tol):
            col.violation(f"SqueethMarket.get_collat_ratio_and_liq_price|collat_ratio|{'live_twap' if live else 'no_timestamp'}",
                          f"vault {i}: ratio {float(frac(ratio))!r}, collateral/debt of the vault is {float(want)!r}", mk_replay())
            return False
        col.count("info/liq_price")
        sv = st["vaults"][i - 1]
        want_liq = vw["coll"] / (sv["short"] * env_of(st)["nf"] / 10000 * Fraction(3, 2)) if vw["debt"] != 0 else Fraction(0)
        if not same(frac(liq), want_liq, tol):
            col.count("info/liq_price_diff")
    return True


def check_user(col: Col, W: World, pre, exp, ev, out, ret, err, live, ctx: Ctx, mk_replay):
    pst, est, last = pre["st"], exp["st"], exp["last"]
    band, sout, why = last["band"], last["out"], last["why"]
    tol = tol_of(live)
    proj = W.project()
    env = env_of(pst)
    entry, scen = ENTRY[ev["op"]], scen_of(ev, pst, live)
    code_v = {v["id"]: v for v in proj["vaults"]}
    ix = est["ix"] or pst["ix"]
    what = f"{entry.split('.')[1]}{ev_str(ev)} -> {'returned' if out == 'ok' else 'raised ' + str(err)}"

    col.count("nonneg")
    neg = [v for v in proj["vaults"] if v["coll"] < 0 or v["short"] < 0]
    if neg:
        col.violation(f"{entry}|nonneg|{scen}", f"{what}: vault amounts negative {neg}", mk_replay())
        return False

    col.count("safe_stays_safe")
    if not band:
        for vid, cv in code_v.items():
            pv = pst["vaults"][vid - 1] if vid <= len(pst["vaults"]) else None
            eps = eps_of(ix, cv, live)
            if ev["op"] == "rate":
                eps = max(eps, EPS_DEC)
            if (pv is None or safe(env, pv, ctx.tab)) and not safe_tol(env, cv, ctx.tab, eps):
                c, d = coll_of(env, cv, ctx.tab), debt_of(env, cv)
                col.violation(f"{entry}|safe_stays_safe|{'raised' if out == 'reject' else 'accepted'}",
                              f"{what}: vault {vid} was {'safe' if pv else 'new'} and is left with collateral {float(c)!r} ETH, "
                              f"debt {float(d)!r} ETH (ratio {float(c / d) if d else 0:.6f}); wallet oSQTH {float(proj['sqth'])!r}",
                              mk_replay())
                return False

    if out == "ok" and mints_or_withdraws(ev):
        col.count("accepted_only_if_safe")
        t = ret[0] if ret else ev["vk"]
        cv = code_v.get(t)
        if cv is not None and not band:
            eps = max(eps_of(ix, cv, live), EPS_DEC if ev["op"] == "rate" else 0)
            if not safe_tol(env, cv, ctx.tab, eps):
                c, d = coll_of(env, cv, ctx.tab), debt_of(env, cv)
                col.violation(f"{entry}|accepted_only_if_safe|{scen}",
                              f"{what}: accepted, vault {t} has collateral {float(c)!r} ETH against debt {float(d)!r} ETH "
                              f"(ratio {float(c / d) if d else 0:.6f})", mk_replay())
                return False

    if out != sout:
        if band:
            col.count("band/either_outcome")
            return False
        if out == "ok":
            if why in ("unsafe", "dust") and mints_or_withdraws(ev):
                col.violation(f"{entry}|movement|accepted_with_other_amounts",
                              f"{what}: accepted although the stated amounts leave the vault {why}; code state {state_diff(proj, pst, tol)}",
                              mk_replay())
            else:
                col.count("info/accepted_where_spec_rejects")
                col.note("accepted_where_spec_rejects", f"{what} (spec: {why})")
        else:
            col.count("info/rejected_where_spec_accepts")
            col.note("rejected_where_spec_accepts", what)
        return False

    if out == "ok":
        col.count("movement")
        diffs = state_diff(proj, est, tol)
        if diffs:
            if band:
                col.count("band/either_outcome")
            else:
                col.violation(f"{entry}|movement|{scen}", f"{what}: {'; '.join(diffs)}", mk_replay())
            return False
        if ret is not None:
            col.count("info/return_value")
            if ret[0] != last["ret"][0] or not same(ret[1], last["ret"][1], tol):
                col.count("info/return_value_diff")
        col.count("info/records")
        if recs_diff(W.records, last["acts"], tol):
            col.count("info/records_diff")
            col.note("records_diff", f"{what}: {recs_diff(W.records, last['acts'], tol)}")
    else:
        col.count("C04/reject_leaves_state")
        diffs = state_diff(proj, pst, tol)
        if diffs:
            col.count("C04/state_changed_on_reject")
            col.note("C04_state_changed_on_reject", f"{what}: {'; '.join(diffs)}")
            return False
        if W.records:
            col.count("C04/records_on_reject")
    return True


def check_update(col: Col, W: World, pre, exp, out, err, live, ctx: Ctx, mk_replay, entry="SqueethMarket.update"):
    pst, est, last = pre["st"], exp["st"], exp["last"]
    band = last["band"]
    tol = tol_of(live)
    scen = scen_of({}, pst, live)
    if out == "reject":
        if band:
            col.count("band/either_outcome")
        else:
            col.violation(f"{entry}|bar_end_raises|{scen}", f"update() raised {err} with vaults {show_vaults(pst)}", mk_replay())
        return False
    proj = W.project()
    code_v = {v["id"]: v for v in proj["vaults"]}
    col.count("nonneg")
    neg = [v for v in proj["vaults"] if v["coll"] < 0 or v["short"] < 0]
    if neg:
        col.violation(f"{entry}|nonneg|{scen}", f"after bar-end liquidation vault amounts are negative: {show_vaults({'vaults': neg})} "
                      f"(before: {show_vaults(pst)})", mk_replay())
        return False
    for i, pv in enumerate(pst["vaults"], 1):
        col.count("liq_iff")
        cv = code_v.get(i)
        touched = cv is None or bool(vault_diff(cv, pv, tol))
        w = pre["view"]["v"][i - 1]["water"]
        if touched == w:
            if band:
                col.count("band/either_outcome")
            else:
                vw = pre["view"]["v"][i - 1]
                col.violation(f"{entry}|liq_iff|{'liquidated_at_or_above_1.5x' if w else 'not_liquidated_below_1.5x'}",
                              f"vault {i} (collateral {float(vw['coll'])!r} ETH, debt {float(vw['debt'])!r} ETH, ratio "
                              f"{float(vw['coll'] / vw['debt']) if vw['debt'] else 0:.9f}) was {'' if touched else 'not '}liquidated at bar end",
                              mk_replay())
            return False
    acts = last["acts"]
    for a in acts:
        if a["t"] == "reduce_debt":
            col.count("cover/reduce_debt")
        else:
            sb = a["amt"] + a["short_after"]
            col.count("cover/liq_all" if a["short_after"] == 0 else "cover/liq_half")
            if a["coll_after"] == 0:
                col.count("cover/liq_capped")
    if not acts:
        col.count("cover/no_liquidation")
    col.count("liq_amounts")
    diffs = state_diff(proj, est, tol)
    if diffs:
        if band:
            col.count("band/either_outcome")
        else:
            kinds = "+".join(a["t"] for a in acts) or "none"
            col.violation(f"{entry}|liq_amounts|{kinds}/{scen}", f"bar-end liquidation of {show_vaults(pst)}: {'; '.join(diffs)}", mk_replay())
        return False
    col.count("liq_records")
    rd = recs_diff(W.records, acts, tol, only=("reduce_debt", "liquidation"))
    if rd:
        if band:
            col.count("band/either_outcome")
        else:
            col.violation(f"{entry}|liq_records|{scen}", f"bar-end liquidation of {show_vaults(pst)}: {'; '.join(rd)}", mk_replay())
        return False
    return True


def show_vaults(st):
    return [{k: fl(x) for k, x in v.items()} for v in st["vaults"]]


# ---------------------------------------------------------------------------------------------------------------
# replay of a path of the operation graph by direct calls (market status without timestamp)
# ---------------------------------------------------------------------------------------------------------------
def to_json_states(states):
    from ..common import jsonable
    return jsonable(states)


_FR = re.compile(r"^-?\d+(/\d+)?$")


def unjson(v):
    if isinstance(v, str):
        return Fraction(v) if _FR.match(v) else v
    if isinstance(v, list):
        return tuple(unjson(x) for x in v)
    if isinstance(v, dict):
        return {k: unjson(x) for k, x in v.items()}
    return v


def replay_exact(col: Col, states, ctx: Ctx, verified=None, ids=None):
    """states: parsed nodes along a root->leaf path.  Returns index of the step where the path was cut (or None)."""
    W = World(ctx.nk)
    W.set_row(states[0]["st"]["path"][-1])
    W.create_lps()
    for i in range(1, len(states)):
        pre, exp = states[i - 1], states[i]
        ev = exp["last"]["ev"]
        nid = ids[i] if ids else None
        fresh = verified is None or nid not in verified

        def mk_replay(i=i):
            return {"kind": "exact", "nk": ctx.nk, "states": to_json_states(states[:i + 1])}
        if ev["op"] == "next":
            W.set_row(ev["sym"])
            ok = check_views(col, W, exp, False, mk_replay) if fresh else True
        else:
            W.records.clear()
            out, ret, err = W.apply(ev)
            if not fresh:
                ok = True
            else:
                bind_view(exp, ctx)
                col.evals += 1
                if ev["op"] == "update":
                    ok = check_update(col, W, pre, exp, out, err, False, ctx, mk_replay)
                else:
                    ok = check_user(col, W, pre, exp, ev, out, ret, err, False, ctx, mk_replay)
                if ok:
                    ok = check_views(col, W, exp, False, mk_replay)
                if len(col.samples) < 2 and ok and ev["op"] == "update" and exp["last"]["acts"]:
                    col.samples.append({"mode": "direct calls, no timestamp", "vaults_before": show_vaults(pre["st"]),
                                        "row": ROWS[pre["st"]["path"][-1] - 1], "spec_actions": [
                                            {k: fl(v) for k, v in a.items()} for a in exp["last"]["acts"]],
                                        "vaults_after_code": [{k: fl(v) for k, v in x.items()} for x in W.project()["vaults"]]})
        if verified is not None and nid is not None:
            verified.add(nid)
        if not ok:
            return i
    col.traces += 1
    return None


# ---------------------------------------------------------------------------------------------------------------
# replay of a simulated back-test through the real Actuator (live TWAP path, bar-end update by the bar loop)
# ---------------------------------------------------------------------------------------------------------------
def build_actuator(path, nk):
    import pandas as pd
    from demeter import Actuator, TokenInfo
    from demeter.squeeth.market import SqueethMarket
    from demeter.uniswap import UniLpMarket, UniV3Pool
    from .. import sim
    weth, osqth, uk, sk = _tokens()
    nb = len(path)
    idx = sim.minute_index(0, nb)
    um = UniLpMarket(uk, UniV3Pool(weth, osqth, 0.3, weth))
    rows = [uni_row(um, s, as_series=False) for s in path]
    um.data = pd.DataFrame(index=idx, data={c: [r[c] for r in rows] for c in rows[0]}, dtype=object)
    sdf = pd.DataFrame(index=idx, data={"norm_factor": [D(ROWS[s - 1]["nf"]) for s in path],
                                        "WETH": [D(ROWS[s - 1]["eth"]) for s in path],
                                        "OSQTH": [D(ROWS[s - 1]["sq"]) for s in path]}, dtype=object)
    sm = SqueethMarket(sk, um, data=sdf)
    act = Actuator()
    act.broker.add_market(um)
    act.broker.add_market(sm)
    price = pd.DataFrame(index=idx, data={"WETH": [D(ROWS[s - 1]["eth"]) for s in path],
                                          "OSQTH": [D(ROWS[s - 1]["eth"]) * D(ROWS[s - 1]["sq"]) for s in path],
                                          "USDC": [D(1)] * nb})
    act.set_price(price, TokenInfo("usdc", 6))
    act.broker.set_balance(weth, W0)
    return act, um, sm


def replay_live(col: Col, states, ctx: Ctx):
    import contextlib
    import io
    from demeter import Strategy
    from .. import sim
    path = list(states[-1]["st"]["path"])
    nb = len(path)
    sched = {b: [] for b in range(nb)}
    b = 0
    for i in range(1, len(states)):
        sched[b].append(i)
        if states[i]["last"]["ev"]["op"] == "bar":
            b += 1
    act, um, sm = build_actuator(path, ctx.nk)
    W = World(ctx.nk, broker=act.broker, um=um, sm=sm)
    run = {"ok": True, "phase": None, "exc": None, "bar": -1}

    def mk(i):
        return lambda: {"kind": "live", "nk": ctx.nk, "states": to_json_states(states[:i + 1])}

    class S(Strategy):
        def initialize(self_):
            W.mute = True
            W.create_lps()
            W.mute = False

        def on_bar(self_, snap):
            if not run["ok"]:
                return
            try:
                bar = sim.to_min(snap.timestamp)
                run["bar"], run["phase"] = bar, "on_bar"
                idxs = sched[bar]
                node = states[idxs[0] - 1] if idxs else states[-1]
                win = tuple(path[max(0, bar - TWAP_BARS + 1):bar + 1])
                col.twap.setdefault(("eth", win), (frac(sm.get_twap_price(W.weth)), tuple(path[:bar + 1])))
                col.twap.setdefault(("sq", win), (frac(sm.get_twap_price(W.osqth)), tuple(path[:bar + 1])))
                bind_view(node, ctx)
                if not check_views(col, W, node, True, mk(idxs[0] - 1 if idxs else len(states) - 1)):
                    run["ok"] = False
                    return
                for i in idxs:
                    ev = states[i]["last"]["ev"]
                    if ev["op"] == "bar":
                        break
                    W.records.clear()
                    out, ret, err = W.apply(ev)
                    col.evals += 1
                    bind_view(states[i], ctx)
                    if not check_user(col, W, states[i - 1], states[i], ev, out, ret, err, True, ctx, mk(i)):
                        run["ok"] = False
                        return
                    if not check_views(col, W, states[i], True, mk(i)):
                        run["ok"] = False
                        return
                W.records.clear()
                run["phase"] = "update"
            except Exception as e:  # harness failure: surface it after the run (the Actuator swallows RuntimeError traces)
                run["exc"] = e
                run["ok"] = False

        def after_bar(self_, snap):
            if not run["ok"]:
                return
            try:
                bar = sim.to_min(snap.timestamp)
                run["phase"] = "after_bar"
                idxs = sched[bar]
                if idxs and states[idxs[-1]]["last"]["ev"]["op"] == "bar":
                    i = idxs[-1]
                    col.evals += 1
                    if not check_update(col, W, states[i - 1], states[i], "ok", None, True, ctx, mk(i), entry=ENTRY["bar"]):
                        run["ok"] = False
                    elif len(col.samples) < 2 and states[i]["last"]["acts"]:
                        col.samples.append({"mode": "Actuator.run, live TWAP", "path": path[:bar + 1], "bar": bar,
                                            "twap_eth_code": float(sm.get_twap_price(W.weth)), "twap_eth_spec": float(states[i - 1]["st"]["te"]),
                                            "vaults_before": show_vaults(states[i - 1]["st"]),
                                            "spec_actions": [{k: fl(v) for k, v in a.items()} for a in states[i]["last"]["acts"]],
                                            "vaults_after_code": [{k: fl(v) for k, v in x.items()} for x in W.project()["vaults"]]})
            except Exception as e:
                run["exc"] = e
                run["ok"] = False

    act.strategy = S()
    try:
        with contextlib.redirect_stdout(io.StringIO()):
            act.run(print_result=False)
    except Exception as e:
        if run["exc"] is None and run["ok"] and run["phase"] == "update":
            # the bar-end update() raised inside the bar loop
            idxs = sched[run["bar"]]
            i = idxs[-1] if idxs and states[idxs[-1]]["last"]["ev"]["op"] == "bar" else None
            if i is not None:
                check_update(col, W, states[i - 1], states[i], "reject", f"{type(e).__name__}: {e}", True, ctx, mk(i), entry=ENTRY["bar"])
            else:
                col.count("info/last_bar_update_raised")
            run["ok"] = False
        elif run["exc"] is None and run["ok"]:
            raise
    if run["exc"] is not None:
        raise run["exc"]
    if run["ok"]:
        col.traces += 1
    return run["ok"]


# ---------------------------------------------------------------------------------------------------------------
# TLC output -> work items -> worker processes
# ---------------------------------------------------------------------------------------------------------------
def parse_node(label: str):
    return unq(tlaval.parse_state(label))


def load_dot_raw(path: Path):
    nodes, edges, init = {}, [], []
    with open(path) as f:
        for line in f:
            m = tlc._EDGE.match(line)
            if m:
                edges.append((m.group(1), m.group(2)))
                continue
            m = tlc._NODE.match(line)
            if m:
                nid = m.group(1)
                if nid not in nodes:
                    nodes[nid] = tlc._unesc(m.group(2))
                if ",style = filled" in line[m.end(2):m.end(2) + 20]:
                    init.append(nid)
    return nodes, edges, init


def leaf_paths(nodes, edges, init):
    g = tlc.Graph({n: None for n in nodes}, [(a, b, "") for a, b in edges], init)
    return g.bfs_paths()


def _chdir_scratch(tmp):
    os.makedirs(tmp, exist_ok=True)
    os.chdir(tmp)


def work_graph(args):
    tab, nk, labels, paths, tmp, done = args
    _chdir_scratch(tmp)
    ctx, col = Ctx(tab, nk), Col()
    parsed, verified, failed = {}, set(done), set()
    for p in paths:
        if any(n in failed for n in p):
            col.count("info/paths_cut_by_earlier_stop")
            continue
        for n in p:
            if n not in parsed:
                parsed[n] = parse_node(labels[n])
        cut = replay_exact(col, [parsed[n] for n in p], ctx, verified, p)
        if cut is not None:
            failed.add(p[cut])
            verified.discard(p[cut])
    return col, verified - set(done), failed


def replay_graph(chk: Check, tab, nk, nodes, edges, init, paths, scratch):
    """Replay root->leaf paths in worker processes.  A path is cut where the code leaves the spec without violating the
    property (band, rejection where the spec accepts, C04 matter); nodes behind a cut are then reached by another route of
    the graph (same state, other history) if there is one, so that an early divergence does not hide later edges."""
    verified, failed = set(init), set()
    for rnd_no in range(4):
        if not paths:
            break
        n = max(1, min(64, len(paths) // 50))
        size = (len(paths) + n - 1) // n
        items = []
        for i in range(0, len(paths), size):
            chunk = paths[i:i + size]
            need = {x for p in chunk for x in p}
            items.append((tab, nk, {x: nodes[x] for x in need}, chunk, scratch, {x for x in need if x in verified}))
        for col, ver, fail in pool_map(work_graph, items):
            col.merge_into(chk)
            verified |= ver
            failed |= fail
        missing = set(nodes) - verified - failed
        if not missing or not failed:
            break
        keep = {x: None for x in nodes if x not in failed}
        g = tlc.Graph(keep, [(a, b, "") for a, b in edges if a in keep and b in keep], [i for i in init if i in keep])
        alt = [p for p in g.bfs_paths() if any(x in missing for x in p)]
        # cut each alternative path after its last missing node
        paths = sorted({tuple(p[:max(i for i, x in enumerate(p) if x in missing) + 1]) for p in alt})
        paths = [list(p) for p in paths]
        chk.extra.setdefault("rerouted_paths", []).append(len(paths))
    chk.extra["graph_nodes_unverified"] = chk.extra.get("graph_nodes_unverified", 0) + len(set(nodes) - verified - failed)
    chk.extra["graph_nodes_where_path_stopped"] = chk.extra.get("graph_nodes_where_path_stopped", 0) + len(failed)


def parse_sim_file(f):
    beh, buf = [], []
    for line in open(f):
        if tlc._STATE_HDR.match(line) or line.startswith("STATE_"):
            buf = []
        elif line.startswith("/\\"):
            buf.append(line)
        elif (not line.strip() or line.startswith("====")) and buf:
            beh.append(unq(tlaval.parse_state("".join(buf))))
            buf = []
        elif buf:
            buf.append(line)
    return beh


def work_live(args):
    tab, nk, files, tmp = args
    _chdir_scratch(tmp)
    ctx, col = Ctx(tab, nk), Col()
    for f in files:
        states = parse_sim_file(f)
        if len(states) > 1:
            replay_live(col, states, ctx)
            n = len(states[-1]["st"]["path"])
            col.count(f"cover/bars_{n}")
    return col


def pool_map(fn, items):
    from concurrent.futures import ProcessPoolExecutor
    if not items:
        return []
    with ProcessPoolExecutor(max_workers=min(16, os.cpu_count() or 4, len(items))) as ex:
        return list(ex.map(fn, items))


def twap_resampled(rnd, n_runs):
    """get_twap_price on RESAMPLED data (bars 5 / 60 minutes apart): {(token, ("F", F, bar symbols so far)): (value, raw path)}"""
    import contextlib
    import io
    from demeter import Strategy
    out = {}
    for F in (5, 60):
        for _ in range(n_runs):
            nb = rnd.randint(3, 5)
            raw = []
            bars = []
            for _b in range(nb):
                first = rnd.randint(1, len(ROWS))
                bars.append(first)
                raw += [first] + [rnd.randint(1, len(ROWS)) for _x in range(F - 1)]     # resample(...).first(): the bar's row is its first raw row
            act, um, sm = build_actuator(raw, 0)
            act.interval = f"{F}min"
            weth, osqth, _, _ = _tokens()
            seen = []

            class S(Strategy):
                def on_bar(self_, snap):
                    i = snap.row_id
                    key = ("F", F, tuple(bars[:i + 1]))
                    out.setdefault(("eth", key), (frac(sm.get_twap_price(weth)), tuple(raw)))
                    out.setdefault(("sq", key), (frac(sm.get_twap_price(osqth)), tuple(raw)))
                    seen.append(i)
            act.strategy = S()
            with contextlib.redirect_stdout(io.StringIO()):
                act.run(print_result=False)
            if seen != list(range(nb)):
                raise RuntimeError(f"resampled TWAP run visited bars {seen}, expected {nb}")
    return out


def twap_obs_module(obs):
    rows = []
    for (tok, win), (g, _) in obs:
        f = "eth" if tok == "eth" else "sq"
        if win and win[0] == "F":      # resampled run: ("F", minutes per bar, symbols of every bar so far) - the spec denotes the window
            ps = ", ".join(q_tla(ROWS[s - 1][f]) for s in win[2])
            rows.append(f"[g |-> {q_tla(g)}, ps |-> TwapWindow(<<{ps}>>, {win[1]})]")
            continue
        ps = ", ".join(q_tla(ROWS[s - 1][f]) for s in win)
        rows.append(f"[g |-> {q_tla(g)}, ps |-> <<{ps}>>]")
    return ("------------------------------ MODULE TwapObs ------------------------------\n"
            "(* GENERATED: get_twap_price values recorded from the real code, with the prices of the window the spec denotes *)\n"
            "EXTENDS Num, SqueethTwap\nObs == <<\n  " + ",\n  ".join(rows) + "\n>>\n"
            "=============================================================================\n")


DEVS = {  # DEV switch -> (owning invariant / action property, owning property id)
    "OdmMutatesFirst": ("P_SafeStaysSafe", "C14"), "WithdrawMutatesFirst": ("P_SafeStaysSafe", "C14"),
    "LpWithdrawMutatesFirst": ("P_SafeStaysSafe", "C14"), "RedeemSwapsTokens": ("P_LiqAmounts", "C14"),
    "BountyUncapped": ("Inv_NonNeg", "C14"), "DepositCreditsFirst": ("P_C04_Intact", "C04"),
    "BurnKeptOnReject": ("P_C04_Intact", "C04"),
}


def run(chk: Check) -> int:
    from concurrent.futures import ThreadPoolExecutor
    quick = chk.tier == "quick"
    rnd = random.Random(chk.seed)
    tab = lp_table()
    d = stage(chk, tab)
    spec = d / "MC_Squeeth.tla"
    nk = len(LP_KINDS)
    scratch = str(chk.tmp / "cwd")
    chk.assumptions += [
        "LP collateral: the (WETH, oSQTH) amounts of a Uniswap position at a pool price are irrational (sqrt) and are NOT re-derived "
        "in TLA+; SqueethU.tla tabulates, per LP kind and price symbol, the pair returned by the code's own "
        "UniLpMarket.get_position_amount (pending fees are 0: synthetic pool rows have no volume). The vault logic "
        "(collateral at index price, ReduceDebt, bounty, liquidation) is specified and checked on top of these observed inputs.",
        "TWAP is specified relationally (TwapOk); the spec carries a Newton witness accurate to 1e-15, the code's float TWAP is "
        "accepted within 1e-9 relative; accept/reject/liquidate decisions inside a band of 1.1e-9 (live TWAP) / 1e-25 (Decimal "
        "with a rounded operation) around a limit may go either way; without timestamps and LP the arithmetic is exact and "
        "equality is decided.",
        "Scenario universe: 3 price symbols (norm factor, ETH, oSQTH), 2 LP kinds, wallet 100 WETH; operations by the owner on an "
        "LP position lent to a vault are not enabled (DESIGN 2.10).",
    ]
    # 1. non-vacuity: every DEV switch must make TLC report the owning invariant
    def dev(name):
        return name, tlc.run(spec, d / f"MC_Squeeth_dev_{name}.cfg", chk.tmp, workers=2, timeout=600)
    with ThreadPoolExecutor(max_workers=7) as ex:
        devres = dict(ex.map(dev, DEVS))
    chk.extra["dev_switch_detected"] = {}
    for name, (inv, owner) in DEVS.items():
        hit = inv in devres[name].violated
        chk.extra["dev_switch_detected"][f"DEV_{name}"] = {"violates": inv, "owner": owner, "detected": hit}
        if not hit:
            raise RuntimeError(f"vacuous: DEV_{name} does not violate {inv} (TLC: {devres[name].violated})")

    # 2. operation graph, exact arithmetic (no timestamp): exhaustive BFS, every edge replayed by direct calls
    cfgs = ["MC_Squeeth_quick.cfg"] if quick else ["MC_Squeeth_quick.cfg", "MC_Squeeth_two.cfg", "MC_Squeeth_thorough.cfg"]
    budget = 40000 if quick else 400000
    chk.exhaustive = True
    for cfg in cfgs:
        base = chk.tmp / ("graph_" + cfg[:-4])
        res = tlc.run(spec, d / cfg, chk.tmp, workers=16, timeout=2400,
                      args=("-dump", "dot,actionlabels", str(base)))
        chk.add_tlc(res, cfg)
        chk.spec_violation(res, cfg)
        dot = Path(str(base) + ".dot")
        nodes, edges, init = load_dot_raw(dot)
        dot.unlink()
        rg = tlc.RawGraph(nodes, edges, init)
        paths = sorted(rg.tree_paths())
        chk.extra.setdefault("graph_paths", {})[cfg] = len(paths)
        # tree paths + the same events after other histories (non-tree edges), stratified by the kinds of the last transitions
        paths, full = tlc.choose_paths(rg, paths, budget + (0 if len(paths) > budget else min(len(paths), 1500)), rnd)
        paths = sorted(paths)
        if not full:
            chk.exhaustive = False
        replay_graph(chk, tab, nk, nodes, edges, init, paths, scratch)
        del nodes, edges

    # 3. whole back-tests through the Actuator: TLC simulation in BarMode, live TWAP
    num = 64 if quick else 800
    simdir = chk.tmp / "sim"
    simdir.mkdir()
    w = 16
    res = tlc.run(spec, d / ("MC_Squeeth_live.cfg" if quick else "MC_Squeeth_live2.cfg"), chk.tmp, workers=w, timeout=2400,
                  args=("-simulate", f"file={simdir}/tr,num={(num + w - 1) // w}", "-depth", "40", "-seed", str(chk.seed)))
    chk.add_tlc(res, "live(simulate)")
    chk.spec_violation(res, "live(simulate)")
    files = sorted(str(f) for f in simdir.iterdir())
    chk.extra["live_behaviours"] = len(files)
    n = min(16, max(1, len(files)))
    twap = {}
    for col in pool_map(work_live, [(tab, nk, files[i::n], scratch) for i in range(n)]):
        col.merge_into(chk)
        for k, v in col.twap.items():
            twap.setdefault(k, v)

    # 4. every TWAP value the code returned, validated by TLC against the relational definition
    twap.update(twap_resampled(rnd, 6 if chk.tier == "quick" else 60))
    obs = sorted(twap.items(), key=lambda kv: (kv[0][0], str(kv[0][1])))
    if obs:
        td = chk.tmp / "trace"
        td.mkdir()
        for f in ("Trace_SqueethTwap.tla", "Trace_SqueethTwap.cfg"):
            shutil.copy(VERIF / "spec" / "trace" / f, td / f)
        (td / "TwapObs.tla").write_text(twap_obs_module(obs))
        res = tlc.run(td / "Trace_SqueethTwap.tla", td / "Trace_SqueethTwap.cfg", chk.tmp, workers=1, timeout=600)
        m = re.search(r'<<\s*"twap_bad",\s*(\{[^}]*\}),\s*(\d+)\s*>>', res.output)
        if not m:
            raise RuntimeError("trace validation of TWAP observations printed no verdict")
        bad = sorted(tlaval.parse(m.group(1)))
        chk.count("twap_relational", int(m.group(2)))
        chk.extra["twap_observations_validated_by_tlc"] = int(m.group(2))
        for i in bad[:4]:
            (tok, win), (g, prefix) = obs[i - 1]
            if win and win[0] == "F":
                chk.violation(f"SqueethMarket.get_twap_price|twap_relational|resampled_{win[1]}min",
                              f"get_twap_price({tok}) = {float(g)!r} on bars {win[1]} minutes apart with prices {[ROWS[s - 1][tok] for s in win[2]]} is not the "
                              f"geometric mean of the bars within [now - 6 min, now] (TwapOk fails)",
                              {"kind": "twap_resampled", "token": tok, "F": win[1], "bars": list(win[2]), "path": list(prefix), "value": str(g)})
                continue
            chk.violation(f"SqueethMarket.get_twap_price|twap_relational|window_{len(win)}",
                          f"get_twap_price({tok}) = {float(g)!r} for window prices {[ROWS[s - 1][tok] for s in win]} is not their "
                          f"geometric mean within 1e-9 (TwapOk fails)", {"kind": "twap", "token": tok, "window": list(win), "path": list(prefix), "value": str(g)})
        for i in bad[4:]:
            chk.violation(f"SqueethMarket.get_twap_price|twap_relational|window_{len(obs[i - 1][0][1])}", "", {})
    chk.extra["distinct_nontrivial"] = sum(v for k, v in chk.clauses.items() if k.startswith("cover/liq") or k == "cover/reduce_debt")
    return chk.finish("every edge of the TLC operation graph (state-relative amounts at the 1.5x / 0.5 ETH limits -/+ 1e-6, oversized "
                      "burns/withdrawals, with and without LP collateral, 3 price symbols) is replayed by direct calls on fresh real "
                      "markets; every simulated back-test (<= 10 bars, <= 2 calls per bar) is run through Actuator.run; after every "
                      "step: outcome, Vault fields, wallet, LP ownership, liquidation records, collateral ratio, TWAP; "
                      "distinct_nontrivial = bar-end liquidation steps (reduce-debt / half / all) compared")


def replay(chk: Check, path: str) -> int:
    r = json.load(open(path))["replay"]
    if r.get("kind") == "twap":
        win = r["window"]
        td = chk.tmp / "trace"
        td.mkdir()
        for f in ("Trace_SqueethTwap.tla", "Trace_SqueethTwap.cfg"):
            shutil.copy(VERIF / "spec" / "trace" / f, td / f)
        act, um, sm = build_actuator(r["path"], 0)
        from demeter import MarketStatus
        from .. import sim
        sm.set_market_status(MarketStatus(sim.minute(len(r["path"]) - 1), None), None)
        weth, osqth, _, _ = _tokens()
        g = frac(sm.get_twap_price(weth if r["token"] == "eth" else osqth))
        (td / "TwapObs.tla").write_text(twap_obs_module([((r["token"], tuple(win)), (g, ()))]))
        res = tlc.run(td / "Trace_SqueethTwap.tla", td / "Trace_SqueethTwap.cfg", chk.tmp, workers=1, timeout=600)
        if not re.search(r'<<\s*"twap_bad",\s*\{\s*\},\s*1\s*>>', res.output):
            chk.violation(f"SqueethMarket.get_twap_price|twap_relational|window_{len(win)}", f"TWAP {float(g)!r} for window {win}", r)
        return chk.finish("replay of one TWAP observation")
    if r.get("kind") == "twap_resampled":
        import contextlib
        import io
        from demeter import Strategy
        F, bars = r["F"], list(r["bars"])
        act, um, sm = build_actuator(list(r["path"]), 0)
        act.interval = f"{F}min"
        weth, osqth, _, _ = _tokens()
        got = {}

        class S(Strategy):
            def on_bar(self_, snap):
                if snap.row_id == len(bars) - 1:
                    got["g"] = frac(sm.get_twap_price(weth if r["token"] == "eth" else osqth))
        act.strategy = S()
        with contextlib.redirect_stdout(io.StringIO()):
            act.run(print_result=False)
        td = chk.tmp / "trace"
        td.mkdir()
        for f in ("Trace_SqueethTwap.tla", "Trace_SqueethTwap.cfg"):
            shutil.copy(VERIF / "spec" / "trace" / f, td / f)
        (td / "TwapObs.tla").write_text(twap_obs_module([((r["token"], ("F", F, tuple(bars))), (got["g"], ()))]))
        res = tlc.run(td / "Trace_SqueethTwap.tla", td / "Trace_SqueethTwap.cfg", chk.tmp, workers=1, timeout=600)
        if not re.search(r'<<\s*"twap_bad",\s*\{\s*\},\s*1\s*>>', res.output):
            chk.violation(f"SqueethMarket.get_twap_price|twap_relational|resampled_{F}min", f"TWAP {float(got['g'])!r} on bars {F} minutes apart {bars}", r)
        chk.traces += 1
        return chk.finish("replay of one TWAP observation on resampled data")
    states = unjson(r["states"])
    ctx, col = Ctx(lp_table(), r["nk"]), Col()
    _chdir_scratch(str(chk.tmp / "cwd"))
    if r["kind"] == "exact":
        replay_exact(col, list(states), ctx)
    else:
        replay_live(col, list(states), ctx)
    os.chdir(str(VERIF))
    col.merge_into(chk)
    return chk.finish("replay of one TLC path")


# ===============================================================================================================
# Cross-market legs of the Squeeth domain: run_cross(chk, owner) for C01 / C03 / C04 (the orchestrators call it;
# it never calls chk.finish).  Squeeth market + its WETH/oSQTH Uniswap pool under ONE broker whose quote token is a
# USD stable coin: the pool's quote token (WETH) differs from the account's, Squeeth reports USD.
# ===============================================================================================================
ENTRY.update({"liq": "SqueethMarket.liquidate", "spend": "Broker.subtract_from_balance", "lbuy": "SqueethMarket.buy_squeeth",
              "lsell": "SqueethMarket.sell_squeeth"})
DUST = Fraction(1, 10 ** 5)


def prices_of(sym: int):
    r = ROWS[sym - 1]
    return {"WETH": D(r["eth"]), "OSQTH": D(r["eth"]) * D(r["sq"]), "USDC": D(1), "USD": D(1)}


def set_quote(W: World):
    from demeter import TokenInfo
    W.broker.quote_token = TokenInfo("usdc", 6)


def code_nv(W: World, sym: int):
    """the REAL account valuation: Broker.get_account_status(prices)"""
    a = W.broker.get_account_status(prices_of(sym))
    return {"net": frac(a.net_value), "asset": frac(a.asset_value), "uni": frac(a.market_status[W.uk].net_value),
            "sq": frac(a.market_status[W.sk].net_value)}, a


def deep_snapshot(W: World):
    """what C04 names: wallet balances, every position / vault field of both markets, the action log"""
    return {
        "wallet": {t.name: frac(a.balance) for t, a in W.broker._assets.items()},
        "vaults": {k.id: (frac(v.collateral_amount), frac(v.osqth_short_amount), v.uni_nft_id) for k, v in W.sm.vault.items()},
        "max_vault_id": W.sm._max_vault_id,
        "positions": {(p.lower_tick, p.upper_tick): (int(x.liquidity), frac(x.pending_amount0), frac(x.pending_amount1), bool(x.transferred))
                      for p, x in W.um.positions.items()},
        "action_log": [id(a) for a in W.log],
    }


def snap_diff(a, b):
    out = []
    for k in a:
        if a[k] != b[k]:
            if k == "action_log":
                out.append(f"action log grew by {len(b[k]) - len(a[k])} record(s)")
            else:
                out.append(f"{k}: {fl_deep(a[k])} -> {fl_deep(b[k])}")
    return out


def fl_deep(x):
    if isinstance(x, Fraction):
        return float(x)
    if isinstance(x, dict):
        return {k: fl_deep(v) for k, v in x.items()}
    if isinstance(x, (tuple, list)):
        return [fl_deep(v) for v in x]
    return str(x) if not isinstance(x, (int, float, bool, str, type(None))) else x


def cause_of(ev, err):
    m = re.match(r"(\w+): (.*)", err or "")
    cls, msg = (m.group(1), m.group(2)) if m else ("?", "")
    msg = re.sub(r"[-+]?\d[\d.,E+-]*", "#", msg)[:48]
    return f"{ENTRY[ev['op']].split('.')[1]}|{cls}: {msg}"


def nv_close(a, b, live, gross=Fraction(0)):
    """a net value is a difference of gross legs (collateral - debt): in the float (live TWAP) pipeline the rounding error scales
    with the legs, not with their difference, so the 1e-9 relative tolerance is applied to the gross size as well"""
    return close(a, b, REL_FLOAT if live else Fraction(1, 10 ** 28), Fraction(1, 10 ** 20) + (REL_FLOAT * gross if live else 0))


def gross_of(st, sym):
    """gross size of the Squeeth legs of a state in USD: collateral and debt (at index and at mark) of every vault"""
    row = ROWS[sym - 1]
    eth, nf, sq = Fraction(row["eth"]), Fraction(row["nf"]), Fraction(row["sq"])
    g = Fraction(0)
    for v in st["vaults"]:
        g += v["coll"] * eth + v["short"] * nf * eth * eth / 10000 + v["short"] * sq * eth
    return g


def c01_compare(col: Col, owner, W: World, node, sym, live, where, mk_replay, nv_spec=None):
    """reported account value vs the spec's valuation of the same (conformant) state"""
    if owner != "C01":
        return True
    got, acct = code_nv(W, sym)
    want = nv_spec or node["view"]["nv"]
    lent = any(v["lp"] for v in node["st"]["vaults"])
    scen = ("lp_in_vault" if lent else "lp_redeemed" if "gone" in node["st"]["lps"] else "lp_in_pool") + ("/live" if live else "")
    names = {"net": "net_value", "asset": "asset_value", "uni": "uniswap_market_net_value", "sq": "squeeth_market_net_value"}
    gross = gross_of(node["st"], sym)
    for k in ("asset", "uni", "sq", "net"):
        col.count(f"C01/squeeth/{names[k]}")
        if not nv_close(got[k], want[k], live, gross if k in ("sq", "net") else Fraction(0)):
            ent = {"net": "Broker.get_account_status", "asset": "Broker.get_account_status", "uni": "UniLpMarket.get_market_balance",
                   "sq": "SqueethMarket.get_market_balance"}[k]
            col.violation(f"{ent}|{names[k]}|{scen}",
                          f"{where}: reported {names[k]} {float(got[k])!r}, independent valuation {float(want[k])!r} "
                          f"(vaults {show_vaults(node['st'])}, LP positions {list(node['st']['lps'])}, wallet WETH {float(node['st']['weth'])!r} "
                          f"oSQTH {float(node['st']['sqth'])!r}, prices {ROWS[sym - 1]})", mk_replay())
            return False
    # every holding once: the pool must not count a lent position, the vault must not count a withdrawn one (implied by the
    # two market values above; kept as its own clause for the evidence)
    col.count("C01/squeeth/counted_once")
    bal = acct.market_status[W.sk]
    col.count("C01/squeeth/info/balance_fields")
    e = env_of(node["st"])
    if not nv_close(frac(bal.osqth_short_amount), sum((v["short"] for v in node["st"]["vaults"]), Fraction(0)), live) or \
            not nv_close(frac(bal.osqth_long_amount), node["st"]["sqth"], live) or bal.vault_count != len(node["st"]["vaults"]):
        col.count("C01/squeeth/info/balance_fields_diff")
    return True


def cross_step(col: Col, owner, W: World, pre, exp, ev, live, ctx: Ctx, mk_replay):
    """apply one event to the real objects with the owner's checks around it; True = conformant, go on"""
    sym = pre["st"]["path"][-1]
    pst, est, last = pre["st"], exp["st"], exp["last"]
    entry = ENTRY[ev["op"]]
    tol = tol_of(live)
    before = deep_snapshot(W) if owner == "C04" else None
    nv0 = code_nv(W, sym)[0]["net"] if owner == "C03" else None
    w0 = W.project()
    W.records.clear()
    out, ret, err = W.apply(ev)
    proj = W.project()
    what = f"{entry.split('.')[1]}{ev_str(ev)} -> {'returned' if out == 'ok' else 'raised ' + str(err)}"
    col.evals += 1
    if out == "reject":
        col.notes.setdefault("causes", [])
        c = cause_of(ev, err)
        if c not in col.notes["causes"]:
            col.notes["causes"].append(c)

    if owner == "C04" and out == "reject":
        col.count("C04/squeeth/rejected_call_leaves_state")
        d = snap_diff(before, deep_snapshot(W))
        if d:
            col.violation(f"{entry}|rejected_call_changes_state|{cause_of(ev, err).split('|')[1][:40]}", f"{what}: {'; '.join(d)}", mk_replay())
            return False

    if owner == "C03" and ev["op"] not in ("update", "liq"):
        col.count("C03/squeeth/no_value_creation")
        nv1 = code_nv(W, sym)[0]["net"]
        px = {k: frac(v) for k, v in prices_of(sym).items()}
        debited = Fraction(0)
        if proj["weth"] < w0["weth"]:
            debited += w0["weth"] * px["WETH"]
        if proj["sqth"] < w0["sqth"]:
            debited += w0["sqth"] * px["OSQTH"]
        allow = DUST * debited + abs(nv0) * (REL_FLOAT if live else Fraction(1, 10 ** 25))
        if nv1 - nv0 > allow:
            col.violation(f"{entry}|net_value_rises|{'rejected' if out == 'reject' else 'accepted'}/{scen_of(ev, pst, live).split('/')[0]}",
                          f"{what}: account net value {float(nv0)!r} -> {float(nv1)!r} (+{float(nv1 - nv0)!r}) at unchanged prices "
                          f"{ROWS[sym - 1]}; dust allowance {float(allow)!r}; vaults before {show_vaults(pst)}", mk_replay())
            return False
        if nv1 != nv0:
            col.count("C03/squeeth/info/net_value_changed")
    if owner == "C03":
        col.count("C03/squeeth/non_negative")
        neg = [v for v in proj["vaults"] if v["coll"] < 0 or v["short"] < 0]
        if neg or proj["weth"] < 0 or proj["sqth"] < 0 or any(int(x.liquidity) < 0 for x in W.um.positions.values()):
            col.violation(f"{entry}|negative_amount|{scen_of(ev, pst, live).split('/')[0]}",
                          f"{what}: vaults {show_vaults({'vaults': proj['vaults']})}, wallet WETH {float(proj['weth'])!r} oSQTH {float(proj['sqth'])!r}",
                          mk_replay())
            return False
        if ev["op"] == "bw" and out == "ok" and ev["vk"] <= len(w0["vaults"]):
            col.count("C03/squeeth/payout_bounded")
            v0 = w0["vaults"][ev["vk"] - 1]
            if proj["weth"] - w0["weth"] > v0["coll"] or w0["sqth"] - proj["sqth"] > v0["short"]:
                col.violation(f"{entry}|pays_out_more_than_held|", f"{what}: wallet WETH +{float(proj['weth'] - w0['weth'])!r} from a vault "
                              f"holding {float(v0['coll'])!r}; oSQTH burned {float(w0['sqth'] - proj['sqth'])!r} of debt {float(v0['short'])!r}",
                              mk_replay())
                return False

    # conformance gate (C14's own business: counted, never alarmed here)
    col.count(f"other/C14/{owner}/conformance")
    if out != last["out"] or state_diff(proj, est, tol):
        col.count(f"other/C14/{owner}/diverged_or_band")
        return False
    return True


def replay_cross_exact(col: Col, owner, states, ctx: Ctx, verified, ids):
    W = World(ctx.nk)
    W.set_row(states[0]["st"]["path"][-1])
    W.create_lps()
    set_quote(W)
    W.log.clear()
    for i in range(1, len(states)):
        pre, exp = states[i - 1], states[i]
        ev = exp["last"]["ev"]
        fresh = ids[i] not in verified

        def mk_replay(i=i):
            return {"kind": "cross_exact", "owner": owner, "nk": ctx.nk, "states": to_json_states(states[:i + 1])}
        if ev["op"] == "next":
            W.set_row(ev["sym"])
            ok = True
        elif fresh:
            ok = cross_step(col, owner, W, pre, exp, ev, False, ctx, mk_replay)
        else:
            W.apply(ev)
            ok = True
        if ok and fresh:
            ok = c01_compare(col, owner, W, exp, exp["st"]["path"][-1], False,
                             f"after {ENTRY.get(ev['op'], 'next row').split('.')[-1]}{ev_str(ev)}", mk_replay)
        verified.add(ids[i])
        if not ok:
            verified.discard(ids[i])
            return i
    col.traces += 1
    return None


def work_cross(args):
    tab, nk, labels, paths, tmp, done, owner = args
    _chdir_scratch(tmp)
    ctx, col = Ctx(tab, nk), Col()
    parsed, verified, failed = {}, set(done), set()
    for p in paths:
        if any(n in failed for n in p):
            continue
        for n in p:
            if n not in parsed:
                parsed[n] = parse_node(labels[n])
        cut = replay_cross_exact(col, owner, [parsed[n] for n in p], ctx, verified, p)
        if cut is not None:
            failed.add(p[cut])
    return col, verified - set(done), failed


def replay_cross_live(col: Col, owner, states, ctx: Ctx):
    """C01 at every bar of a back-test: Actuator.account_status[i] and the status after every call vs the spec's valuation"""
    import contextlib
    import io
    from demeter import Strategy
    from .. import sim
    path = list(states[-1]["st"]["path"])
    nb = len(path)
    sched = {b: [] for b in range(nb)}
    b = 0
    for i in range(1, len(states)):
        sched[b].append(i)
        if states[i]["last"]["ev"]["op"] == "bar":
            b += 1
    act, um, sm = build_actuator(path, ctx.nk)
    W = World(ctx.nk, broker=act.broker, um=um, sm=sm)
    run = {"ok": True, "exc": None, "cut_bar": nb}

    def mk(i):
        return lambda: {"kind": "cross_live", "owner": owner, "nk": ctx.nk, "states": to_json_states(states[:i + 1])}

    class S(Strategy):
        def initialize(self_):
            W.create_lps()

        def on_bar(self_, snap):
            if not run["ok"]:
                return
            try:
                bar = sim.to_min(snap.timestamp)
                idxs = sched[bar]
                node = states[idxs[0] - 1] if idxs else states[-1]
                if not c01_compare(col, owner, W, node, path[bar], True, f"bar {bar} of path {path[:bar + 1]} before the calls",
                                   mk(idxs[0] - 1 if idxs else len(states) - 1)):
                    run["ok"], run["cut_bar"] = False, bar
                    return
                for i in idxs:
                    ev = states[i]["last"]["ev"]
                    if ev["op"] == "bar":
                        break
                    if not cross_step(col, owner, W, states[i - 1], states[i], ev, True, ctx, mk(i)) or \
                            not c01_compare(col, owner, W, states[i], path[bar], True,
                                            f"bar {bar}: after {ENTRY[ev['op']].split('.')[1]}{ev_str(ev)}", mk(i)):
                        run["ok"], run["cut_bar"] = False, bar
                        return
            except Exception as e:
                run["exc"], run["ok"] = e, False

    act.strategy = S()
    try:
        with contextlib.redirect_stdout(io.StringIO()):
            act.run(print_result=False)
    except Exception:
        if run["exc"] is None:
            col.count(f"other/C14/{owner}/bar_loop_raised")
            return False
    if run["exc"] is not None:
        raise run["exc"]
    # the account status the Actuator recorded at the end of every bar (after update()), under that bar's prices
    if owner == "C01":
        tol = tol_of(True)
        for bar in range(min(run["cut_bar"], nb - 1)):
            i = sched[bar][-1]
            last = states[i]["last"]
            if last["ev"]["op"] != "bar" or last["band"]:
                break
            a = act.account_status[bar]
            got = {"net": frac(a.net_value), "asset": frac(a.asset_value), "uni": frac(a.market_status[W.uk].net_value),
                   "sq": frac(a.market_status[W.sk].net_value)}
            want = last["nvend"]
            col.count("C01/squeeth/bar_end_account_status")
            bad = [k for k in ("asset", "uni", "sq", "net") if not nv_close(got[k], want[k], True)]
            if bad:
                # a liquidation decision / amount that differs is C14's matter: only alarm when the bar-end state itself conforms
                col.violation(f"Actuator.account_status|{'+'.join(bad)}|bar_end/{'liquidation' if last['acts'] else 'no_liquidation'}",
                              f"bar {bar} of path {path[:bar + 1]}: recorded {', '.join(f'{k} {float(got[k])!r}' for k in bad)}; independent "
                              f"valuation {', '.join(f'{k} {float(want[k])!r}' for k in bad)}; liquidation steps "
                              f"{[a_['t'] for a_ in last['acts']]}; vaults before bar end {show_vaults(states[i - 1]['st'])}", mk(i)())
                return False
    if run["ok"]:
        col.traces += 1
    return run["ok"]


def work_cross_live(args):
    tab, nk, files, tmp, owner = args
    _chdir_scratch(tmp)
    ctx, col = Ctx(tab, nk), Col()
    for f in files:
        states = parse_sim_file(f)
        if len(states) > 1:
            replay_cross_live(col, owner, states, ctx)
    return col


def replay_cross(chk: Check, r: dict):
    """Re-run one stored cross-leg path (kind cross_exact / cross_live) against the working tree; no chk.finish()."""
    states = unjson(r["states"])
    ctx, col = Ctx(lp_table(), r["nk"]), Col()
    _chdir_scratch(str(chk.tmp / "cwd"))
    if r["kind"] == "cross_exact":
        replay_cross_exact(col, r["owner"], list(states), ctx, set(), None)
    else:
        replay_cross_live(col, r["owner"], list(states), ctx)
    os.chdir(str(VERIF))
    col.notes.pop("causes", None)
    col.merge_into(chk)


CROSS_DEVS = {"C04": {"DepositCreditsFirst": "P_C04_Intact", "BurnKeptOnReject": "P_C04_Intact"},
              "C03": {"LentLpAtIndex": "P_C03_NoValueCreation", "BountyUncapped": "Inv_NonNeg"},
              "C01": {"LentLpAtIndex": "P_C03_NoValueCreation"}}


def run_cross(chk: Check, owner: str):
    """Squeeth leg of the cross-market properties C01 / C03 / C04 (see /verif/DESIGN.md).  Adds to chk, never finishes it."""
    from concurrent.futures import ThreadPoolExecutor
    assert owner in ("C01", "C03", "C04")
    quick = chk.tier == "quick"
    rnd = random.Random(chk.seed)
    tab = lp_table()
    d = stage(chk, tab)
    spec = d / "MC_Squeeth.tla"
    nk = len(LP_KINDS)
    scratch = str(chk.tmp / "cwd_squeeth")
    chk.assumptions.append(
        "squeeth: the (WETH, oSQTH) amounts of an LP position at a pool price are taken from UniLpMarket.get_position_amount (table "
        "SqueethU.tla, pending fees 0); the spec values wallet, vault ETH, debt and LP amounts under the bar's row "
        "(ETH price, oSQTH price) - an LP position is worth WETH + oSQTH x oSQTH price whoever holds it; account quote token is a USD "
        "stable coin, the pool's quote token is WETH (converted with the bar's ETH price), Squeeth reports USD")

    def dev(name):
        return name, tlc.run(spec, d / f"MC_Squeeth_dev_{name}.cfg", chk.tmp, workers=2, timeout=600)
    with ThreadPoolExecutor(max_workers=4) as ex:
        devres = dict(ex.map(dev, CROSS_DEVS[owner]))
    for name, inv in CROSS_DEVS[owner].items():
        hit = inv in devres[name].violated
        chk.extra.setdefault("dev_switch_detected", {})[f"squeeth/DEV_{name}"] = {"violates": inv, "detected": hit}
        if not hit:
            raise RuntimeError(f"vacuous: DEV_{name} does not violate {inv} (TLC: {devres[name].violated})")

    cols = []
    for cfg in (["MC_Squeeth_cross.cfg"] if quick else ["MC_Squeeth_cross.cfg", "MC_Squeeth_cross2.cfg"]):
        base = chk.tmp / ("sq_graph_" + cfg[:-4])
        res = tlc.run(spec, d / cfg, chk.tmp, workers=16, timeout=1200, args=("-dump", "dot,actionlabels", str(base)))
        chk.add_tlc(res, f"squeeth/{cfg}")
        for inv in res.violated:
            own = {"P_C04_Intact": "C04", "P_C03_NoValueCreation": "C03", "P_C03_PayoutBounded": "C03", "Inv_NonNeg": "C03",
                   "Inv_C01_Once": "C01"}.get(inv)
            if own == owner:
                chk.violation(f"SqueethMarket|spec|{inv}/{cfg}", f"TLC reports {inv} violated in {cfg}", {"kind": "tlc", "run": cfg})
            else:
                chk.count(f"other/C14/spec_{inv}")
        dot = Path(str(base) + ".dot")
        nodes, edges, init = load_dot_raw(dot)
        dot.unlink()
        rg = tlc.RawGraph(nodes, edges, init)
        paths = sorted(rg.tree_paths())
        budget = 9000 if quick else 120000
        paths, full = tlc.choose_paths(rg, paths, budget, rnd)
        paths = sorted(paths)
        if not full:
            chk.extra[f"squeeth_{owner}_sampled_paths"] = budget
        n = max(1, min(64, len(paths) // 50))
        size = (len(paths) + n - 1) // n
        items = []
        for i in range(0, len(paths), size):
            chunk = paths[i:i + size]
            need = {x for p in chunk for x in p}
            items.append((tab, nk, {x: nodes[x] for x in need}, chunk, scratch, set(), owner))
        cols += [c for c, _, _ in pool_map(work_cross, items)]
        del nodes, edges
    if owner == "C01" or not quick:
        num = 32 if quick else 320
        simdir = chk.tmp / "sq_sim"
        simdir.mkdir()
        res = tlc.run(spec, d / "MC_Squeeth_crosslive.cfg", chk.tmp, workers=16, timeout=1200,
                      args=("-simulate", f"file={simdir}/tr,num={(num + 15) // 16}", "-depth", "40", "-seed", str(chk.seed)))
        chk.add_tlc(res, "squeeth/crosslive(simulate)")
        for inv in res.violated:
            chk.count(f"other/C14/spec_{inv}")
        files = sorted(str(f) for f in simdir.iterdir())
        cols += pool_map(work_cross_live, [(tab, nk, files[i::16], scratch, owner) for i in range(16) if files[i::16]])
    causes = set()
    for col in cols:
        causes |= set(col.notes.pop("causes", []))
        col.merge_into(chk)
    chk.extra["squeeth_reject_causes"] = sorted(set(chk.extra.get("squeeth_reject_causes", [])) | causes)
    return None

"""C08 (Uniswap LP) - see harness/uni_run.py, harness/uni_drv.py, spec/UniLp.tla, spec/mc/MC_UniLp.tla."""
from .. import uni_run


def run(chk):
    return uni_run.run(chk, "C08")


def replay(chk, path):
    return uni_run.replay(chk, path, "C08")

"""C02 - no look-ahead: bars 0..k depend only on data of bars 0..k; inputs stay intact; a rerun reproduces.

Spec: spec/NoLookahead.tla (abstract bar loop with data-dependent operations: WHICH raw rows every observable of bar i is
      computed from; observations uninterpreted), spec/mc/MC_NoLookahead.tla (self-composition: two histories p.a / p.b).
TLC : (1) companions MC_NoLookahead_dev*.cfg re-create look-ahead / input-mutation defects and must violate the invariants;
      (2) MC_NoLookahead_quick / thorough: every configuration (6 market kinds x resampling factor x script), every common
          prefix, every pair of suffixes: Inv_Prefix, Inv_InputsIntact, Inv_Rerun, Inv_ReadsOnlyPast;  the leaves of the history
          tree are exported (Inv_Export) - that family is what the real code is run on.
Binding (code -> spec): every exported history is run through the REAL Actuator (harness/nla_drv.py builds the frames a user
      would supply from the symbols; a scripted data-dependent strategy records, AT CALL TIME, the snapshots handed to its
      hooks; account rows, account_status_df, actions and notifications are taken after the run), the supplied and live
      frames are digested before/after, and the run is repeated on the same input objects with a fresh account.  The records
      are validated by TLC with spec/trace/Trace_NoLookahead.tla (clauses C02/prefix, C02/intact, C02/rerun + machinery
      clauses); non-vacuity: a corrupted copy of one group must be rejected.
"""
from __future__ import annotations

import json
import multiprocessing as mp
import os
import random
from pathlib import Path

from .. import tlc
from ..common import VERIF, Check

SPEC = VERIF / "spec" / "mc" / "MC_NoLookahead.tla"
MC = SPEC.parent
TRACE = VERIF / "spec" / "trace" / "Trace_NoLookahead.tla"
DEVS = {
    "MC_NoLookahead_dev1_prefix.cfg": "Inv_Prefix", "MC_NoLookahead_dev2_prefix.cfg": "Inv_Prefix",
    "MC_NoLookahead_dev3_prefix.cfg": "Inv_Prefix", "MC_NoLookahead_dev4_prefix.cfg": "Inv_Prefix",
    "MC_NoLookahead_dev5_intact.cfg": "Inv_InputsIntact", "MC_NoLookahead_dev5_rerun.cfg": "Inv_Rerun",
    "MC_NoLookahead_dev6_intact.cfg": "Inv_InputsIntact", "MC_NoLookahead_dev6_rerun.cfg": "Inv_Rerun",
    "MC_NoLookahead_dev7_prefix.cfg": "Inv_Prefix",
}
COMPONENTS = ("snap_bb", "snap_ob", "snap_ab", "notified", "account", "account_df", "actions", "account_live")


# ---- real runs ----------------------------------------------------------------------------------------------------
def _work(job):
    from .. import nla_drv
    kind, F, script, hists, tmp, warm = job
    out = []
    if warm:
        # an unrelated backtest (another market type) earlier in the same process must not show in this one: every worker process
        # is fresh (maxtasksperchild=1), every other chunk of a family starts with such a run, and the prefix clause compares
        # records across chunks
        other = "uni" if kind == "deribit" else "deribit"
        nla_drv.run_history(other, 1, 2, (1, 2, 3), tmp, rerun=False)
    for h in hists:
        r = nla_drv.run_history(kind, F, script, tuple(h), tmp)
        r["warm"] = bool(warm)
        out.append(r)
    return (kind, F, script), out


class Interner:
    def __init__(self):
        self.ids = {}

    def __call__(self, v):
        if v is None:
            return 0
        i = self.ids.get(v)
        if i is None:
            i = self.ids[v] = len(self.ids) + 1
        return i


def to_group(gid, cfg, recs, nbars, syms, tree):
    """digests -> small ids (per group), the record format Trace_NoLookahead reads."""
    it = Interner()
    rr = []
    for r in recs:
        rr.append({
            "h": list(r["hist"]), "rp": [it("rp" + x) for x in r["rp"]],
            "obs": [[it(c + ":" + o[c]) for c in COMPONENTS] for o in r["obs"]],
            "obs2": [[it(c + ":" + o[c]) for c in COMPONENTS] for o in r["obs2"]],
            "din": it("f" + r["din"]), "dout": it("f" + r["dout"]), "dout2": it("f" + r["dout2"]),
            "lin": it("l" + r["lin"]), "lout": it("l" + r["lout"]),
            "err": it(r["err"]), "err2": it(r["err2"]), "warm": r["warm"]})
    return {"gid": gid, "kind": cfg[0], "F": cfg[1], "script": cfg[2], "N": nbars, "Syms": syms, "tree": bool(tree), "recs": rr}


def validate(chk: Check, groups, label):
    """TLC validates the groups; -> {gid: report}."""
    n = 8
    parts = [groups[i::n] for i in range(n) if groups[i::n]]

    def one(i):
        f = chk.tmp / f"c02_{label}_{i}.ndjson"
        with open(f, "w") as fh:
            for g in parts[i]:
                fh.write(json.dumps(g) + "\n")
        res = tlc.run(TRACE, TRACE.parent / "Trace_NoLookahead.cfg", chk.tmp, workers=1, env={"VERIF_C02_TRACE": str(f)},
                      timeout=3000)
        f.unlink()
        return res
    from concurrent.futures import ThreadPoolExecutor
    with ThreadPoolExecutor(len(parts)) as ex:
        results = list(ex.map(one, range(len(parts))))
    reports = {}
    for res in results:
        chk.add_tlc(res, None)
        for v in tlc.printed_all(res.output, "@c02"):
            reports[v[1]["gid"]] = v[1]
    missing = [g["gid"] for g in groups if g["gid"] not in reports]
    if missing:
        raise RuntimeError(f"trace validation did not consume groups {missing[:5]} ({label})")
    return reports


def judge(chk: Check, groups, reports, raw):
    """verdicts -> violations (C02 clauses) / machinery failures."""
    byid = {g["gid"]: g for g in groups}
    for gid, rep in sorted(reports.items()):
        g = byid[gid]
        cfg = (g["kind"], g["F"], g["script"])
        chk.count("C02/prefix", rep["compared"])
        chk.count("C02/intact", rep["n"])
        chk.count("C02/rerun", rep["n"])
        for v in rep["first"]:
            clause, a, b, k, comps = v[0], v[1], v[2], v[3], sorted(v[4]) if v[4] else []
            if clause.startswith("machinery/") or clause.startswith("spec/"):
                raise RuntimeError(f"trace validation: {clause} failed for group {cfg}: records {a},{b} prefix {k}")
            ha = g["recs"][a - 1]["h"] if a else None
            hb = g["recs"][b - 1]["h"] if b else None
            names = [COMPONENTS[j - 1] for j in comps]
            if clause == "C02/prefix":
                what = (f"{cfg[0]} interval x{cfg[1]} script {cfg[2]}: histories {ha} and {hb} agree on bars 0..{k - 1} but the "
                        f"observations of bar {k - 1} differ in {names}")
                sig = f"Actuator.run|prefix|{cfg[0]}/{'+'.join(names)}"
            elif clause == "C02/intact":
                r = g["recs"][a - 1]
                which = ("supplied frames " if r["din"] != r["dout"] else "") + ("live market frames" if r["lin"] != r["lout"] else "")
                what = f"{cfg[0]} interval x{cfg[1]} script {cfg[2]}: history {ha}: {which} changed by the run"
                sig = f"Actuator.run|inputs_intact|{cfg[0]}"
            else:
                what = (f"{cfg[0]} interval x{cfg[1]} script {cfg[2]}: history {ha}: rerun on the same inputs with a fresh account differs"
                        + (f" at bar {k - 1} in {names}" if k else " (outcome of run() / supplied frames after the rerun)"))
                sig = f"Actuator.run|rerun|{cfg[0]}"
            chk.violation(sig, what, {"kind": "c02", "cfg": list(cfg), "N": g["N"], "Syms": g["Syms"],
                                      "hists": [h for h in (ha, hb) if h is not None] if ha != hb else [ha],
                                      "warm": [g["recs"][x - 1]["warm"] for x in ((a, b) if ha != hb else (a,)) if x], "clause": clause})


def corrupt(group, rnd):
    """a copy of a group with one observation id of a prefix-sharing record changed: must be rejected (binding demonstrated)."""
    g = json.loads(json.dumps(group))
    g["gid"] = -group["gid"] - 1
    j = rnd.randrange(1, len(g["recs"]))       # any record but the first of the family
    g["recs"][j]["obs"][0][rnd.randrange(len(COMPONENTS))] += 100000
    return g


def run_family(chk: Check, fam, nbars, syms, tree, label, jobs=None):
    """fam: {(kind, F, script): [hist]} -> groups (records of the real runs)."""
    explicit = jobs is not None
    jobs = jobs or []
    for cfg, hists in sorted(fam.items()) if not explicit else []:
        hs = sorted(hists)
        step = max(1, (len(hs) + 7) // 8)
        for i in range(0, len(hs), step):
            jobs.append((cfg[0], cfg[1], cfg[2], hs[i:i + step], str(chk.tmp), (i // step) % 2 == 1))
    got = {}
    with mp.get_context("fork").Pool(16, maxtasksperchild=1) as pool:
        for cfg, recs in pool.imap_unordered(_work, jobs, chunksize=1):
            got.setdefault(cfg, []).extend(recs)
    groups = []
    for gi, cfg in enumerate(sorted(got)):
        recs = sorted(got[cfg], key=lambda r: r["hist"])
        groups.append(to_group(len(groups) + (0 if label == "a" else 100000), cfg, recs, nbars, syms, tree))
        chk.traces += len(recs)
        chk.evaluations += len(recs) * 2
        errs = {r["err"] for r in recs if r["err"]}
        if errs:
            chk.extra.setdefault("runs_that_raised", {})[str(cfg)] = sorted(errs)[:3]
    return groups, got


def run(chk: Check) -> int:
    quick = chk.tier == "quick"
    rnd = random.Random(chk.seed)
    from concurrent.futures import ThreadPoolExecutor

    def dev(cfg):
        return cfg, tlc.run(SPEC, MC / cfg, chk.tmp, workers=2, timeout=900)
    with ThreadPoolExecutor(8) as ex:
        for cfg, r in ex.map(dev, DEVS):
            hit = DEVS[cfg] in r.violated
            chk.extra.setdefault("dev_switch_detected", {})[cfg] = hit
            if not hit:
                raise RuntimeError(f"vacuous: {cfg} does not violate {DEVS[cfg]}")
    cfg = "MC_NoLookahead_quick.cfg" if quick else "MC_NoLookahead_thorough.cfg"
    res = tlc.run(SPEC, MC / cfg, chk.tmp, workers=16, timeout=3000)
    chk.add_tlc(res, cfg)
    chk.spec_violation(res, cfg)
    fam = {}
    nb = syms = None
    for v in tlc.printed_values(res.output):
        if isinstance(v, tuple) and len(v) == 5 and v[0] == "@h":
            fam.setdefault((v[1], int(v[2]), int(v[3])), set()).add(tuple(int(x) for x in v[4]))
            nb = len(v[4])
    if not fam:
        raise RuntimeError("TLC exported no histories")
    syms = max(max(h) for hs in fam.values() for h in hs)
    sizes = {len(hs) for hs in fam.values()}
    tree = sizes == {syms ** nb}
    chk.extra["family"] = {"configurations": len(fam), "histories_per_configuration": sorted(sizes), "bars": nb, "symbols": syms,
                           "complete_tree": tree}
    groups, got = run_family(chk, fam, nb, syms, tree, "a")
    if not quick:
        # longer histories: the tree of 7 bars for the configurations with the longest memory (TWAP window, resampling)
        res7 = tlc.run(SPEC, MC / "MC_NoLookahead_tree7.cfg", chk.tmp, workers=16, timeout=3000)
        chk.add_tlc(res7, "tree7")
        chk.spec_violation(res7, "tree7")
        fam7 = {}
        for v in tlc.printed_values(res7.output):
            if isinstance(v, tuple) and len(v) == 5 and v[0] == "@h":
                fam7.setdefault((v[1], int(v[2]), int(v[3])), set()).add(tuple(int(x) for x in v[4]))
        g7, _ = run_family(chk, fam7, 7, syms, all(len(h) == syms ** 7 for h in fam7.values()), "b")
        groups += g7
        chk.extra["family7"] = {"configurations": len(fam7), "histories": sum(len(h) for h in fam7.values())}
    # non-vacuity of the binding: corrupted copies must be rejected with C02/prefix
    bad = [corrupt(g, rnd) for g in rnd.sample(groups, min(4, len(groups)))]
    reports = validate(chk, groups + bad, "v")
    for g in bad:
        rep = reports.pop(g["gid"])
        if not any(v[0] == "C02/prefix" for v in rep["first"]):
            raise RuntimeError("vacuous: a corrupted observation was accepted by Trace_NoLookahead")
    chk.extra["corrupted_groups_rejected"] = len(bad)
    judge(chk, groups, reports, got)
    # sensitivity (non-trivial cases): observations do depend on the data
    distinct = 0
    for g in groups:
        per_bar = [len({tuple(r["obs"][i]) for r in g["recs"]}) for i in range(g["N"])]
        distinct += sum(1 for r in g["recs"]) if max(per_bar) > 1 else 0
        chk.extra.setdefault("distinct_observations_per_bar", {})[f"{g['kind']}/x{g['F']}/s{g['script']}/{g['N']}"] = per_bar
    chk.extra["distinct_nontrivial"] = distinct
    g0 = groups[0]
    chk.sample({"configuration": [g0["kind"], g0["F"], g0["script"]], "history": g0["recs"][1]["h"],
                "observation_ids_per_bar": g0["recs"][1]["obs"], "raw_input_prefix_ids": g0["recs"][1]["rp"]})
    chk.exhaustive = tree
    chk.assumptions += [
        "two digests are equal iff the canonical forms are equal (sha1 of an exact, order-preserving canonical JSON form)",
        "snapshots are canonicalised at call time (Snapshot.market_status is one shared MarketDict, overwritten later)",
        "the frames a user supplies are built from bar symbols by the harness builders of the other properties; symbols map to "
        "distinguishable rows (clause machinery/inputs checks it)",
    ]
    return chk.finish("a case = one history (sequence of bar symbols, exported by TLC from the tree of MC_NoLookahead) x configuration "
                      "(market kind, resampling factor, scripted strategy) run twice through the real Actuator; non-trivial = the "
                      "configuration's observations differ between histories (they depend on the data); distinct by (configuration, history)")


def replay(chk: Check, path: str) -> int:
    r = json.load(open(path))["replay"]
    if r.get("kind") == "tlc":
        print(r.get("output_tail", ""))
        return chk.finish("TLC output of a spec-level violation")
    cfg = tuple(r["cfg"])
    hists = [tuple(h) for h in r["hists"]]
    warm = r.get("warm") or [False] * len(hists)
    jobs = [(cfg[0], cfg[1], cfg[2], [h], str(chk.tmp), w) for h, w in zip(hists, warm)]
    groups, got = run_family(chk, {}, r["N"], r["Syms"], False, "a", jobs=jobs)
    reports = validate(chk, groups, "r")
    judge(chk, groups, reports, got)
    chk.sample({"configuration": list(cfg), "histories": [list(h) for h in hists]})
    return chk.finish("replay of the recorded histories of one configuration")

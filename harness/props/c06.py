"""C06 - tick <-> sqrt-price conversions agree with Uniswap v3 TickMath.

Spec: spec/TickMath.tla (protocol algorithm over exact naturals, floor relation, closed-form bracket, price helpers,
      nearest-usable relation); spec/trace/Trace_TickMath.tla validates recorded calls of the real helpers.
TLC legs: (a) spec-only events: strict monotonicity over the whole tick range in chunks, closed-form bracket on a tick
      sample, boundary values (MC_TickMathSelf); (b) code -> spec: every recorded call of get_sqrt_ratio_at_tick (ALL
      1,774,545 ticks), sqrt_price_x96_to_tick on and between tick boundaries, tick -> price -> tick for every decimals pair
      and orientation, nearest_usable_tick, UniLpMarket.tick_to_price / price_to_tick.
"""
from __future__ import annotations

import json
import random
from concurrent.futures import ThreadPoolExecutor
from fractions import Fraction

from .. import tlc
from ..common import VERIF, Check, frac, int_to_limbs

MIN_TICK, MAX_TICK = -887272, 887272
TRACE = VERIF / "spec" / "trace" / "Trace_TickMath.tla"
SELF = VERIF / "spec" / "mc" / "MC_TickMathSelf.tla"


def limbs(n):
    return list(int_to_limbs(int(n)))


def qj(fr):
    fr = Fraction(fr)
    return [(fr > 0) - (fr < 0), limbs(abs(fr.numerator)), limbs(fr.denominator)]


def tick_sample(rnd, n):
    s = set(range(-3000, 3001)) | {MIN_TICK, MIN_TICK + 1, MAX_TICK - 1, MAX_TICK}
    for k in range(20):
        for d in (-1, 0, 1):
            for sg in (-1, 1):
                t = sg * (1 << k) + d
                if MIN_TICK <= t <= MAX_TICK:
                    s.add(t)
    while len(s) < n:
        s.add(rnd.randint(MIN_TICK, MAX_TICK))
    return sorted(s)


def gen_events(chk: Check, rnd):
    """Record calls of the real helpers.  Returns list of chunks (lists of event dicts) and a description per chunk."""
    from demeter import TokenInfo
    from demeter.uniswap import helper
    from demeter.uniswap.liquitidy_math import get_sqrt_ratio_at_tick
    quick = chk.tier == "quick"
    chunks = []

    def call(fn, *args):
        """a helper that raises on an argument of its domain violates its clause; the event is skipped"""
        try:
            return fn(*args)
        except Exception as e:
            name = getattr(fn, "__name__", str(fn))
            chk.violation(f"{name}|raises|{'neg' if isinstance(args[0], int) and args[0] < 0 else 'nonneg'}",
                          f"{name}{args} raised {type(e).__name__}: {e}", {"kind": "call", "fn": name, "args": [str(a) for a in args]})
            return None
    # 1. tick -> sqrt price, every tick
    step = 120000
    for a in range(MIN_TICK, MAX_TICK + 1, step):
        b = min(a + step - 1, MAX_TICK)
        ev = [{"k": "s", "t": t, "v": limbs(get_sqrt_ratio_at_tick(t))} for t in range(a, b + 1)]
        ev.append({"k": "mono", "a": a, "b": min(b + 1, MAX_TICK)})   # spec-level: strictly increasing on the chunk
        chunks.append(ev)
    # 2. sqrt price -> tick (floor) on and between boundaries
    ts = tick_sample(rnd, 9000 if quick else 60000)
    ev = []
    for t in ts:
        s0 = get_sqrt_ratio_at_tick(t)
        ps = [s0, s0 + 1]
        if t < MAX_TICK:
            s1 = get_sqrt_ratio_at_tick(t + 1)
            ps += [s1 - 1, (s0 + s1) // 2, s0 + rnd.randrange(0, max(1, s1 - s0))]
        for p in ps:
            try:
                r = helper.sqrt_price_x96_to_tick(p)
            except Exception as e:
                chk.violation("sqrt_price_x96_to_tick|raises|", f"sqrt_price_x96_to_tick({p}) raised {type(e).__name__}: {e}",
                              {"kind": "call", "fn": "sqrt_price_x96_to_tick", "p": str(p)})
                continue
            ev.append({"k": "f", "p": limbs(p), "t": int(r)})
    chunks.append(ev)
    # 3. closed-form bracket (spec-level) on a sample; 4. price helpers; 5. nearest usable tick
    ev = [{"k": "cf", "t": t} for t in ts if abs(t) <= 2048 or (abs(t) & (abs(t) - 1)) == 0]
    ev += [{"k": "cf", "t": t} for t in rnd.sample(ts, 60 if quick else 400)] + [{"k": "cf", "t": MIN_TICK}, {"k": "cf", "t": MAX_TICK}]
    for d0 in (6, 8, 18):
        for d1 in (6, 8, 18):
            for zq in (False, True):
                for t in rnd.sample(ts, 250 if quick else 2500) + [MIN_TICK + 1, MAX_TICK - 1, 0, -1, 1]:
                    if abs(t) > 800000:
                        continue   # prices beyond 1e34 / below 1e-34 leave the 35-digit Decimal context of the helpers
                    price = call(helper.tick_to_base_unit_price, t, d0, d1, zq)
                    back = None if price is None else call(helper.base_unit_price_to_tick, price, d0, d1, zq)
                    if back is None:
                        continue
                    ev.append({"k": "pt", "t": t, "d0": d0, "d1": d1, "zq": zq, "price": qj(frac(price)), "back": int(back)})
    for sp in (1, 10, 60, 200):
        for t in rnd.sample(ts, 400 if quick else 3000) + [MIN_TICK, MAX_TICK, MIN_TICK + 3, MAX_TICK - 3, 5, -5, 15, -15, 30, -30, 100, -100]:
            r = call(helper.nearest_usable_tick, t, sp)
            if r is not None:
                ev.append({"k": "n", "t": t, "sp": sp, "r": int(r)})
    chunks.append(ev)
    # 6. the market-level helpers (both orientations)
    from demeter import MarketInfo
    from demeter.uniswap import UniLpMarket, UniV3Pool
    ev = []
    usdc, eth = TokenInfo("usdc", 6), TokenInfo("eth", 18)
    for pool in (UniV3Pool(usdc, eth, 0.05, usdc), UniV3Pool(eth, usdc, 0.05, usdc), UniV3Pool(usdc, eth, 0.3, eth)):
        m = UniLpMarket(MarketInfo("u"), pool)
        zq = pool.is_token0_quote
        for t in rnd.sample([x for x in ts if abs(x) < 700000], 300 if quick else 3000):
            price = call(m.tick_to_price, t)
            back = None if price is None else call(helper.base_unit_price_to_tick, price, pool.token0.decimal, pool.token1.decimal, zq)
            if back is None:
                continue
            ev.append({"k": "pt", "t": t, "d0": pool.token0.decimal, "d1": pool.token1.decimal, "zq": zq,
                       "price": qj(frac(price)), "back": int(back)})
            usable = call(m.price_to_tick, price)
            if usable is not None:
                ev.append({"k": "n", "t": int(back), "sp": pool.tick_spacing, "r": int(usable)})
    chunks.append(ev)
    return chunks


def validate(chk: Check, chunks):
    def one(i_ev):
        i, ev = i_ev
        f = chk.tmp / f"tick_{i}.ndjson"
        with open(f, "w") as fh:
            for e in ev:
                fh.write(json.dumps(e) + "\n")
        r = tlc.run(TRACE, TRACE.with_suffix(".cfg"), chk.tmp, workers=1, env={"VERIF_TRACE": str(f)}, timeout=1500,
                    jvm=("-Xmx3g",))
        n, failures = tlc.printed_n(r.output, "tickmath_verdict", 2)
        f.unlink()
        if n != len(ev):
            raise RuntimeError(f"trace chunk {i}: {n} events validated of {len(ev)}")
        return i, ev, failures, r
    with ThreadPoolExecutor(16) as ex:
        for i, ev, failures, r in ex.map(one, list(enumerate(chunks))):
            chk.traces += 1
            chk.evaluations += len(ev)
            chk.states += 1
            chk.transitions += len(ev)
            for e in ev:
                chk.count({"s": "sqrt_ratio_equals_protocol", "f": "tick_is_floor", "pt": "tick_to_price+inverse",
                           "n": "nearest_usable", "mono": "strictly_increasing(spec)", "cf": "closed_form(spec)"}[e["k"]],
                          (e["b"] - e["a"]) if e["k"] == "mono" else 1)
            for idx, clause in sorted(failures):
                e = ev[idx - 1]
                fn = {"s": "get_sqrt_ratio_at_tick", "f": "sqrt_price_x96_to_tick", "pt": "tick_to_base_unit_price/base_unit_price_to_tick",
                      "n": "nearest_usable_tick", "mono": "spec", "cf": "spec"}[e["k"]]
                sign = "neg" if e.get("t", 0) < 0 else "nonneg"
                chk.violation(f"{fn}|{clause}|{sign}", f"{fn}: event {json.dumps(e)[:300]} violates {clause}", {"kind": "tick_events", "events": [e]})


def run(chk: Check) -> int:
    rnd = random.Random(chk.seed)
    res = tlc.run(SELF, SELF.with_suffix(".cfg"), chk.tmp, workers=1, timeout=600)   # boundary constants, samples (ASSUMEs)
    chk.add_tlc(res, "MC_TickMathSelf (boundaries, closed form at extremes, relation self-tests)")
    chunks = gen_events(chk, rnd)
    validate(chk, chunks)
    chk.sample(chunks[0][1000])
    chk.sample(chunks[-3][5])
    chk.sample(chunks[-2][-1])
    chk.exhaustive = True
    chk.extra["distinct_nontrivial"] = chk.evaluations
    chk.assumptions += ["closed-form closeness is checked directly for |t| <= 2048, powers of two, the boundaries and a seeded sample; "
                        "for the other ticks it rests on exhaustive equality with the transcribed protocol algorithm",
                        "Java override of TickMath/Num operators (checked against the pure TLA+ definitions at setup)"]
    return chk.finish("every tick in [-887272, 887272] is one get_sqrt_ratio_at_tick event; floor events at S(t), S(t)+1, S(t+1)-1, "
                      "midpoint and a random interior point of a tick sample; tick->price->tick for 9 decimals pairs x 2 orientations; "
                      "nearest usable tick for 4 spacings; all validated by TLC (Trace_TickMath)")


def replay(chk: Check, path: str) -> int:
    from demeter.uniswap import helper
    from demeter.uniswap.liquitidy_math import get_sqrt_ratio_at_tick
    from ..common import limbs_to_int
    rep = json.load(open(path))["replay"]
    if rep.get("kind") == "call":       # a helper that raised on an argument of its domain
        from decimal import Decimal
        fn = {"sqrt_price_x96_to_tick": helper.sqrt_price_x96_to_tick, "tick_to_base_unit_price": helper.tick_to_base_unit_price,
              "base_unit_price_to_tick": helper.base_unit_price_to_tick, "nearest_usable_tick": helper.nearest_usable_tick}.get(rep["fn"])
        if "p" in rep:
            args = [int(rep["p"])]
        else:
            args = [(a == "True") if a in ("True", "False") else (int(a) if a.lstrip("-").isdigit() else Decimal(a)) for a in rep["args"]]
        if fn is None:
            print("replay: not a module-level helper:", rep["fn"])
        else:
            try:
                print("returned", fn(*args))
            except Exception as e:
                chk.violation(f"{rep['fn']}|raises|", f"{rep['fn']}{tuple(args)} raised {type(e).__name__}: {e}", rep)
        chk.sample(rep)
        return chk.finish("replay of one helper call")
    evs = []
    for e in rep["events"]:
        e = dict(e)
        if e["k"] == "s":
            e["v"] = limbs(get_sqrt_ratio_at_tick(e["t"]))
        elif e["k"] == "f":
            e["t"] = int(helper.sqrt_price_x96_to_tick(limbs_to_int(e["p"])))
        elif e["k"] == "pt":
            price = helper.tick_to_base_unit_price(e["t"], e["d0"], e["d1"], e["zq"])
            e["price"], e["back"] = qj(frac(price)), int(helper.base_unit_price_to_tick(price, e["d0"], e["d1"], e["zq"]))
        elif e["k"] == "n":
            e["r"] = int(helper.nearest_usable_tick(e["t"], e["sp"]))
        evs.append(e)
    validate(chk, [evs])
    chk.sample(evs[0])
    return chk.finish("replay of recorded helper calls")

"""C03 (account-wide) - see harness/cross.py and the run_cross legs of the market runners."""
from .. import cross


def run(chk):
    return cross.run(chk, "C03")


def replay(chk, path):
    return cross.replay(chk, path, "C03")

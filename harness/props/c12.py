"""C12 (Aave) - see harness/aave_run.py, harness/aave_drv.py, spec/Aave.tla."""
from .. import aave_run


def run(chk):
    return aave_run.run(chk, "C12")


def replay(chk, path):
    return aave_run.replay(chk, path, "C12")

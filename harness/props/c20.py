"""C20 - reported performance metrics equal their definitions.

Spec: spec/Metrics.tla (metrics over exact rationals; annualised return and volatility defined relationally,
      (1+r)^q = G^p and s^2 = Var*365/interval, with certified enclosures), spec/mc/MC_Metrics.tla.
TLC:  * BFS: every net-value series of length 2..MaxLen over {1,2,3,5,8}, mapped through value families
        (x, 1000x, x/8, 10000+100x) and sampling intervals (1 min .. 73 d), without benchmark, with benchmark families and
        with every benchmark over {1,2,5} (short series); the eight Inv_* invariants are the spec-level clauses
        (MDD in [0,1), 0 iff never falling, = definition, scale invariant; return forms agree; root relations);
      * -simulate: random series of length 6..200 over 50..150 (same invariants);
      * companion config with DEV_MddAbsoluteDecline = TRUE must be rejected.
Binding (spec -> code): every case TLC evaluates is printed by the Evaluate action (series, interval, benchmark and
      the whole expected view as exact rationals); each is replayed into max_draw_down, return_rate, return_rate_series,
      return_multiple, annualized_return (3 compound forms, 2 single forms), volatility, sharpe_ratio, alpha_beta and
      performance_metrics, and the float results (taken exactly, as Fractions) are compared with TLC's values at 1e-9
      relative; volatility is compared through its square and, where TLC exported G^p, the annualised return through
      (1+r)^q against G^p, both exactly.
"""
from __future__ import annotations

import json
import math
import os
import re
from concurrent.futures import ProcessPoolExecutor, ThreadPoolExecutor, as_completed
from fractions import Fraction
from pathlib import Path

from .. import tlc
from ..common import Check, VERIF, unq, use_repo

SPEC = VERIF / "spec" / "mc" / "MC_Metrics.tla"
MC = SPEC.parent
REL = Fraction(1, 10 ** 9)    # float64 pipelines (DESIGN 2.3)
ABS = Fraction(1, 10 ** 12)   # floor for quantities of order one that may cancel to zero
INVS = ("Inv_MddRange", "Inv_MddZeroIff", "Inv_MddDefinition", "Inv_MddScale", "Inv_ReturnForms", "Inv_AnnRelation",
        "Inv_VolRelation", "Inv_Benchmark")
_CASE = re.compile(r'^"\[c20case \|-> ')


# --------------------------------------------------------------------------------------------------------------
# exact comparison helpers
# --------------------------------------------------------------------------------------------------------------
def _finite(x) -> bool:
    try:
        return math.isfinite(float(x))
    except (TypeError, ValueError):
        return False


def _fx(x) -> Fraction:
    return Fraction(float(x))


def _near(got: Fraction, want: Fraction, rel=REL, abs_=ABS, scale: Fraction | None = None) -> bool:
    d = abs(got - want)
    if d <= abs_:
        return True
    m = max(abs(got), abs(want))
    if scale is not None:
        m = max(m, scale)
    return d <= rel * m


def _sqrt_up(q: Fraction) -> Fraction:
    """A rational upper bound of sqrt(q) within 1e-9 relative (used for tolerances only, never for expected values)."""
    if q <= 0:
        return Fraction(0)
    sc = 10 ** 24
    return Fraction(math.isqrt(q.numerator * sc * sc // q.denominator) + 1, sc)


class _Out:
    """What one worker hands back (picklable)."""

    def __init__(self):
        self.counts = {}
        self.viol = []      # (signature, text)
        self.calls = 0
        self.info = {}

    def count(self, k, n=1):
        self.counts[k] = self.counts.get(k, 0) + n

    def note(self, k, n=1):
        self.info[k] = self.info.get(k, 0) + n


def _call(out: _Out, f, *a, **k):
    out.calls += 1
    try:
        return f(*a, **k), None
    except Exception as e:  # noqa: BLE001 - any exception is "the call failed"
        return None, f"{type(e).__name__}: {e}"


def _cmp(out, clause, sig, got, err, want, what, **tol):
    """Compare one float result with the spec's rational; returns True when it agrees."""
    out.count(clause)
    if err is not None:
        out.viol.append((sig, f"{what}: raised {err}, specification gives {float(want):.12g}"))
        return False
    if not _finite(got):
        out.viol.append((sig, f"{what}: returned {got}, specification gives {float(want):.12g}"))
        return False
    if not _near(_fx(got), want, **tol):
        out.viol.append((sig, f"{what}: returned {float(got)!r}, specification gives {float(want):.12g} (= {want if want.denominator < 10**6 else '...'})"))
        return False
    return True


# --------------------------------------------------------------------------------------------------------------
# one case
# --------------------------------------------------------------------------------------------------------------
def parse_case(tla_text: str):
    from ..tlaval import parse
    rec = unq(parse(tla_text))
    return rec["c20case"], rec["exp"]


def check_case(tla_text: str, out: _Out):
    import numpy as np
    import pandas as pd
    from demeter.result.metrics import (MetricEnum, alpha_beta, annualized_return, max_draw_down, performance_metrics,
                                        return_multiple, return_rate, return_rate_series, sharpe_ratio, volatility)

    st, x = parse_case(tla_text)
    n, im = x["n"], x["im"]
    vq = [Fraction(q) for q in x["v"]]
    vf = [float(q) for q in vq]
    s = pd.Series(vf)
    days, ivd = float(x["days"]), float(x["ivdays"])
    has_b = bool(x["hasB"])
    bf = [float(Fraction(q)) for q in x["b"]] if has_b else None
    cls_len = "n2" if n == 2 else ("short" if n <= 6 else "long")

    # ---- maximum drawdown ------------------------------------------------------------------------------------
    mdd = x["mdd"]
    shape = "never_falling" if mdd == 0 else "has_decline"
    got, err = _call(out, max_draw_down, s)
    ok = _cmp(out, "mdd_equals_definition", f"max_draw_down|mdd_equals_definition|{shape}", got, err, mdd,
              f"max_draw_down({vf if n <= 8 else str(vf[:8]) + '...'})")
    out.count("mdd_in_unit_interval")
    if err is None and _finite(got) and not (0 <= float(got) <= 1):
        out.viol.append((f"max_draw_down|mdd_in_unit_interval|{shape}", f"max_draw_down({vf if n <= 8 else '...'}) = {float(got)!r} outside [0,1]"))
    for c in x["scales"]:
        sv = pd.Series([float(c * q) for q in vq])
        g2, e2 = _call(out, max_draw_down, sv)
        _cmp(out, "mdd_scale_invariant", f"max_draw_down|mdd_scale_invariant|{shape}", g2, e2, mdd,
             f"max_draw_down({c} * {vf if n <= 8 else '...'})")

    # ---- total return in its three forms, return series, multiples ---------------------------------------------
    total = x["total"]
    got, err = _call(out, return_rate, vf[0], vf[-1])
    _cmp(out, "total_return_endpoints", "return_rate|total_return_endpoints|", got, err, total, f"return_rate({vf[0]}, {vf[-1]})")
    rs, err = _call(out, return_rate_series, s)
    out.count("return_series")
    if err is not None or len(rs) != n:
        out.viol.append(("return_rate_series|return_series|", f"return_rate_series({vf[:8]}) failed: {err or len(rs)}"))
        rs = None
    else:
        for i, want in enumerate(x["rets"]):
            if not (_finite(rs.iloc[i]) and _near(_fx(rs.iloc[i]), want)):
                out.viol.append(("return_rate_series|return_series|", f"return_rate_series({vf[:8]})[{i}] = {rs.iloc[i]!r}, specification gives {float(want):.12g}"))
                break
        out.count("total_return_from_return_series")
        tr = float((rs + 1).prod() - 1)
        if not (_finite(tr) and _near(_fx(tr), total)):
            out.viol.append(("return_rate_series|total_return_from_return_series|", f"prod(1+return_rate_series) - 1 = {tr!r}, specification gives {float(total):.12g}"))
    ms, err = _call(out, return_multiple, s)
    out.count("return_multiple")
    if err is not None or len(ms) != n:
        out.viol.append(("return_multiple|return_multiple|", f"return_multiple({vf[:8]}) failed: {err or len(ms)}"))
    else:
        for i, want in enumerate(x["mults"]):
            if not (_finite(ms.iloc[i]) and _near(_fx(ms.iloc[i]), want)):
                out.viol.append(("return_multiple|return_multiple|", f"return_multiple({vf[:8]})[{i}] = {ms.iloc[i]!r}, specification gives {float(want):.12g}"))
                break
        out.count("total_return_from_net_values")
        tr = float(ms.prod() - 1)
        if not (_finite(tr) and _near(_fx(tr), total)):
            out.viol.append(("return_multiple|total_return_from_net_values|", f"prod(return_multiple) - 1 = {tr!r}, specification gives {float(total):.12g}"))

    # ---- annualised return: compound (three forms), single (two forms) -----------------------------------------
    ann = x["ann"]
    forms = [("endpoints", dict(init_value=vf[0], final_value=vf[-1])), ("net_values", dict(net_values=s))]
    if rs is not None:
        forms.append(("return_rates", dict(return_rates=rs)))
    comp = []
    for name, kw in forms:
        got, err = _call(out, annualized_return, days, **kw)
        comp.append((name, got, err))
    if ann["st"] == "ok":
        lo = ann["lo"]
        growth_abs = ABS * (1 + max(lo, Fraction(0)))     # r = growth - 1: floor of 1e-12 relative to the growth factor
        for name, got, err in comp:
            good = _cmp(out, "annualized_compound", f"annualized_return|annualized_compound|{name}", got, err, lo,
                        f"annualized_return({days!r} d, {name}) for {vf[:8]}{'...' if n > 8 else ''}", abs_=growth_abs)
            if good and x["annT"] != 0:
                # exact relational form: the true root of (1+r)^q = G^p lies within tolerance of the returned r
                out.count("annualized_relation_exact")
                r = _fx(got)
                tol = max(REL * abs(r), growth_abs)
                a, b = 1 + r - tol, 1 + r + tol
                T, q = x["annT"], ann["q"]
                if not ((a <= 0 or a ** q <= T) and T <= b ** q):
                    out.viol.append((f"annualized_return|annualized_relation_exact|{name}",
                                     f"(1+r)^{q} != G^{ann['p']} for r = {float(got)!r}, series {vf[:8]}"))
    else:
        out.note(f"ann_unchecked_{ann['st']}")
        # TLC did not evaluate G^p here (exponent numerator > 1000, or a growth factor beyond 1e300).  The spec still says
        # that the three forms denote one number (Inv_ReturnForms): where all of them produce a finite float, the growth
        # factors 1+r must agree (1e-9 relative; an exponent of 1e5 amplifies the rounding of the base accordingly).
        if all(e is None and _finite(g) for _, g, e in comp):
            out.count("annualized_forms_agree")
            gs = [1 + _fx(g) for _, g, _ in comp]
            if any(not _near(g, gs[0], abs_=Fraction(0)) for g in gs[1:]):
                out.viol.append(("annualized_return|annualized_forms_agree|differ", f"forms give {[(nm, float(g)) for nm, g, _ in comp]} for {vf[:8]}"))
        else:
            out.note("ann_float_overflow")
    for name, kw in forms[:2]:
        got, err = _call(out, annualized_return, days, interest_type="single", **kw)
        _cmp(out, "annualized_single", f"annualized_return|annualized_single|{name}", got, err, x["annS"],
             f"annualized_return({days!r} d, {name}, single) for {vf[:8]}")

    # ---- volatility (through its square), Sharpe ----------------------------------------------------------------
    def vol_ok(got):
        """True iff the float got is an acceptable volatility for vol2 (exact, no root taken)."""
        if not _finite(got) or float(got) < 0:
            return False
        g = _fx(got)
        a, b = g * (1 - REL), g * (1 + REL)
        if a * a <= x["vol2"] <= b * b:
            return True
        return g * g <= x["volAbs2"] and x["vol2"] <= x["volAbs2"]

    if x["hasVol"] and rs is not None:
        got, err = _call(out, volatility, rs.iloc[1:], ivd)
        out.count("volatility_square")
        if err is not None or not vol_ok(got):
            out.viol.append((f"volatility|volatility_square|{cls_len}",
                             f"volatility(returns of {vf[:8]}, {ivd!r}) = {got!r} ({err}); specification: square = {float(x['vol2']):.12g}, i.e. {float(x['vol']):.12g}"))
    elif not x["hasVol"]:
        out.note("vol_undefined_single_return")
    for sh in x["sharpe"]:
        if not sh["def"]:
            out.note("sharpe_undefined_or_unchecked")
            continue
        got, err = _call(out, sharpe_ratio, ivd, days, s, float(sh["rf"]))
        _cmp(out, "sharpe", f"sharpe_ratio|sharpe|{cls_len}", got, err, sh["val"],
             f"sharpe_ratio({ivd!r}, {days!r}, {vf[:8]}, {float(sh['rf'])})", scale=sh["scale"])

    # ---- alpha / beta ------------------------------------------------------------------------------------------------
    # beta = Cov/Var(rb) has the natural scale sqrt(Var(rp)/Var(rb)) (Cauchy-Schwarz); alpha = A_p - beta * A_b inherits
    # beta's tolerance multiplied by the benchmark's annualised return.
    beta_tol = alpha_tol = None
    if has_b and x["betaDef"]:
        beta_tol = REL * max(abs(x["beta"]), _sqrt_up(x["betaScale2"]))
        if x["alphaDef"]:
            alpha_tol = REL * abs(x["ann"]["lo"]) + beta_tol * abs(x["bAnn"]["lo"]) * (1 + REL) + ABS
    if has_b:
        bs = pd.Series(bf)
        ab, err = _call(out, alpha_beta, s, bs, days)
        if x["betaDef"]:
            _cmp(out, "beta", f"alpha_beta|beta|{cls_len}", None if err else ab[1], err, x["beta"], f"alpha_beta({vf[:8]}, {bf[:8]})[beta]",
                 abs_=beta_tol)
        else:
            out.note("beta_undefined")
        if x["alphaDef"]:
            _cmp(out, "alpha", f"alpha_beta|alpha|{cls_len}", None if err else ab[0], err, x["alpha"],
                 f"alpha_beta({vf[:8]}, {bf[:8]}, {days!r})[alpha]", abs_=alpha_tol)
        else:
            out.note("alpha_undefined_or_unchecked")

    # ---- performance_metrics() over a real time index ------------------------------------------------------------------
    idx = pd.date_range(pd.Timestamp(2023, 1, 1), periods=n, freq=pd.Timedelta(minutes=im))
    ps = pd.Series(vf, index=idx)
    pb = pd.Series(bf, index=idx) if has_b else None
    pm, err = _call(out, performance_metrics, ps, benchmark=pb)
    out.count("performance_metrics")
    if err is not None:
        out.viol.append(("performance_metrics|performance_metrics|raises", f"performance_metrics({vf[:8]}, every {im} min) raised {err}"))
        return st, x
    P = "performance_metrics"
    tag = f"{P}({vf[:8]}{'...' if n > 8 else ''}, every {im} min)"
    out.count("pm_duration")
    if pm[MetricEnum.duration] != pd.Timedelta(minutes=n * im) or pm[MetricEnum.start_val] != vf[0] or pm[MetricEnum.end_val] != vf[-1]:
        out.viol.append((f"{P}|pm_duration|", f"{tag}: duration/start/end = {pm[MetricEnum.duration]}, {pm[MetricEnum.start_val]}, {pm[MetricEnum.end_val]}"))
    _cmp(out, "pm_return_value", f"{P}|pm_return_value|", pm[MetricEnum.return_value], None, x["retval"], tag + "[return_value]",
         abs_=ABS * max(vq[0], vq[-1]))
    _cmp(out, "pm_return_rate", f"{P}|pm_return_rate|", pm[MetricEnum.return_rate], None, total, tag + "[return_rate]")
    _cmp(out, "pm_max_draw_down", f"{P}|pm_max_draw_down|{shape}", pm[MetricEnum.max_draw_down], None, mdd, tag + "[max_draw_down]")
    if ann["st"] == "ok":
        _cmp(out, "pm_annualized_return", f"{P}|pm_annualized_return|", pm[MetricEnum.annualized_return], None, ann["lo"],
             tag + "[annualized_return]", abs_=ABS * (1 + max(ann["lo"], Fraction(0))))
    if x["hasVol"]:
        out.count("pm_volatility")
        if not vol_ok(pm[MetricEnum.volatility]):
            out.viol.append((f"{P}|pm_volatility|{cls_len}", f"{tag}[volatility] = {pm[MetricEnum.volatility]!r}; specification {float(x['vol']):.12g}"))
    sh = x["sharpe"][0]     # rf = 0.03, the default
    if sh["def"]:
        _cmp(out, "pm_sharpe", f"{P}|pm_sharpe|{cls_len}", pm[MetricEnum.sharpe_ratio], None, sh["val"], tag + "[sharpe_ratio]", scale=sh["scale"])
    if has_b:
        _cmp(out, "pm_benchmark_rate", f"{P}|pm_benchmark_rate|", pm[MetricEnum.benchmark_rate], None, x["bTotal"], tag + "[benchmark_rate]")
        if x["bAnn"]["st"] == "ok":
            _cmp(out, "pm_annualized_benchmark", f"{P}|pm_annualized_benchmark|", pm[MetricEnum.annualized_benchmark_rate], None,
                 x["bAnn"]["lo"], tag + "[annualized_benchmark_rate]", abs_=ABS * (1 + max(x["bAnn"]["lo"], Fraction(0))))
        if x["betaDef"]:
            _cmp(out, "pm_beta", f"{P}|pm_beta|{cls_len}", pm[MetricEnum.beta], None, x["beta"], tag + "[beta]", abs_=beta_tol)
        if x["alphaDef"]:
            _cmp(out, "pm_alpha", f"{P}|pm_alpha|{cls_len}", pm[MetricEnum.alpha], None, x["alpha"], tag + "[alpha]", abs_=alpha_tol)
    return st, x


# --------------------------------------------------------------------------------------------------------------
# workers
# --------------------------------------------------------------------------------------------------------------
def _init_worker():
    import logging
    import warnings
    use_repo()
    warnings.filterwarnings("ignore")
    logging.disable(logging.CRITICAL)
    import numpy as np
    np.seterr(all="ignore")


def _work(texts):
    """texts: list of TLA+ case records (text). Returns (counts, info, calls, [(sig, what, text)], keys, samples)."""
    _init_worker()
    out = _Out()
    viol = []
    keys = []
    samples = []
    for t in texts:
        k0 = len(out.viol)
        st, x = check_case(t, out)
        for sig, what in out.viol[k0:]:
            viol.append((sig, what, t))
        del out.viol[k0:]
        const = all(q == x["v"][0] for q in x["v"])
        keys.append(((st["v"], st["b"], st["c"]), not const))
        if len(samples) < 1 and x["hasB"] and x["mdd"] != 0:
            samples.append({"kind": "enumerated" if x["n"] <= 6 else "simulated", "length": x["n"],"series": [str(q) for q in x["v"][:12]], "interval_minutes": x["im"], "benchmark": [str(q) for q in x["b"][:12]],
                            "spec": {"mdd": str(x["mdd"]), "total": str(x["total"]), "annualised": f"{ann_str(x['ann'])}",
                                     "vol2": _short(x["vol2"]), "beta": _short(x["beta"]) if x["betaDef"] else None}})
    return out.counts, out.info, out.calls, viol, keys, samples


def _short(q: Fraction) -> str:
    return str(q) if q.denominator < 10 ** 9 else f"{float(q):.15g}"


def ann_str(a):
    return f"{float(a['lo']):.15g} ((1+r)^{a['q']} = G^{a['p']})" if a["st"] == "ok" else a["st"]


def case_texts(output: str):
    for line in output.splitlines():
        if _CASE.match(line):
            yield json.loads(line)


# --------------------------------------------------------------------------------------------------------------
def _part_cfg(tmp: Path, base: str, p1: int, p2: int) -> Path:
    txt = (MC / base).read_text().replace("Part1 = 0", f"Part1 = {p1}").replace("Part2 = 0", f"Part2 = {p2}")
    f = tmp / f"{base[:-4]}_part{p1}{p2}.cfg"
    f.write_text(txt)
    return f


def run(chk: Check) -> int:
    import time
    quick = chk.tier == "quick"
    ncpu = min(16, os.cpu_count() or 4)
    t0 = time.time()
    phases = chk.extra.setdefault("wall_by_phase_s", {})
    # 1. non-vacuity: the deviation (largest absolute decline) must break the drawdown clauses in the spec
    dev = tlc.run(SPEC, MC / "MC_Metrics_dev19.cfg", chk.tmp, workers=4, timeout=600)
    hit = sorted(set(dev.violated) & {"Inv_MddRange", "Inv_MddZeroIff", "Inv_MddDefinition"})
    chk.extra["dev_switch_detected"] = {"DEV_MddAbsoluteDecline": hit}
    if not hit:
        raise RuntimeError("vacuous: DEV_MddAbsoluteDecline does not violate any Inv_Mdd* invariant")

    phases["dev_cfg"] = round(time.time() - t0, 1)
    t0 = time.time()
    # 2. exhaustive enumeration (BFS), partitioned by the first (two) symbol(s) so that the parts run concurrently
    base = "MC_Metrics_quick.cfg" if quick else "MC_Metrics_thorough.cfg"
    parts = [(i, 0) for i in range(1, 6)] if quick else [(i, j) for i in range(1, 6) for j in range(1, 6)]
    pool = ProcessPoolExecutor(max_workers=max(2, ncpu - 2))
    # Fork every replay worker NOW (the fork start method launches all of them at the first submit), before any thread starts
    # a TLC subprocess: a worker forked while another thread is inside subprocess.Popen inherits that call's exec-status pipe,
    # Popen never returns and nobody drains TLC's stdout (deadlock observed once).
    pool.submit(int).result()
    futures = []
    ncases = 0

    def submit(texts, chunk=150):
        nonlocal ncases
        texts = sorted(texts)
        ncases += len(texts)
        for i in range(0, len(texts), chunk):
            futures.append(pool.submit(_work, texts[i:i + chunk]))

    def tlc_run(*a, **k):
        try:
            return tlc.run(*a, **k)
        except tlc.TlcError:     # one retry: a concurrent rebuild of spec/lib/classes makes a starting JVM fail transiently
            time.sleep(5)
            return tlc.run(*a, **k)

    def one_part(p):
        if p == "sim":
            # 3. longer series: TLC simulation (random symbols drawn by TLC, same invariants, same export); runs alongside the BFS parts
            per_worker = 2 if quick else 40
            return p, tlc_run(SPEC, MC / "MC_Metrics_sim.cfg", chk.tmp, workers=12,
                              args=("-simulate", f"num={per_worker}", "-depth", "450", "-seed", str(chk.seed)),
                              timeout=900 if quick else 3000)
        cfg = _part_cfg(chk.tmp, base, *p)
        return p, tlc_run(SPEC, cfg, chk.tmp, workers=3, timeout=1500 if quick else 3000)

    nsim = 0
    with ThreadPoolExecutor(max_workers=5) as tp:
        for fut in as_completed([tp.submit(one_part, p) for p in ["sim"] + parts]):
            p, res = fut.result()
            if p == "sim":
                chk.add_tlc(res, "MC_Metrics_sim.cfg(simulate)")
                chk.spec_violation(res, "simulate")
                n0 = ncases
                submit(case_texts(res.output), chunk=6)
                nsim = ncases - n0
            else:
                label = f"{base}[first={p[0]},second={p[1] or 'any'}]"
                chk.add_tlc(res, label)
                chk.spec_violation(res, label)
                submit(case_texts(res.output))
            res.output = ""
    chk.exhaustive = True      # the BFS part; the simulated part is a random sample (see rule)
    chk.extra["bfs_cases"] = ncases - nsim
    chk.extra["simulated_cases"] = nsim
    phases["tlc_bfs_and_simulate"] = round(time.time() - t0, 1)
    t0 = time.time()
    # 4. collect
    keys = set()
    kept = {}
    allviol = []
    for f in futures:
        counts, info, calls, viol, ks, samples = f.result()
        for k, v in counts.items():
            chk.count(k, v)
        for k, v in info.items():
            chk.count("info/" + k, v)
        chk.evaluations += calls
        chk.traces += len(ks)
        keys.update(k for k, nontrivial in ks if nontrivial)
        allviol.extend(viol)
        for s in samples:
            kept.setdefault(s["kind"], []).append(s)
    for sig, what, text in sorted(allviol):          # deterministic whatever order the parts finished in
        chk.violation(sig, what, {"kind": "case", "tla": text})
    for kind in sorted(kept):
        for s in sorted(kept[kind], key=lambda d: (d["length"], d["series"], d["benchmark"]))[:3]:
            chk.sample(s)
    pool.shutdown()
    phases["replay_tail"] = round(time.time() - t0, 1)
    chk.extra["distinct_nontrivial"] = len(keys)
    chk.extra["invariants"] = list(INVS)
    chk.extra.get("tlc_runs", []).sort(key=lambda r: r["run"])
    chk.assumptions.append("annualised return is compared with its definition where 365/duration = p/q has p <= 1000 and the growth "
                           "factor stays below 1e300 (other cases: agreement of the three input forms only)")
    return chk.finish("one case = one (net-value series, sampling interval, benchmark) that TLC evaluated (state with ph = \"done\"); "
                      "distinct = distinct (symbols, benchmark symbols, interval/family) triples; non-trivial = the series is not constant; "
                      "evaluations = calls of the real metric functions; BFS part is exhaustive for its bounds, the simulated part is random")


def replay(chk: Check, path: str) -> int:
    r = json.load(open(path))["replay"]
    if r.get("kind") != "case":
        print("replay: this record is a TLC run, re-run the check instead")
        return chk.finish("replay (nothing to do)")
    _init_worker()
    out = _Out()
    check_case(r["tla"], out)
    chk.traces += 1
    chk.evaluations += out.calls
    for k, v in out.counts.items():
        chk.count(k, v)
    for sig, what in out.viol:
        chk.violation(sig, what, r)
    chk.sample({"tla": r["tla"][:400]})
    return chk.finish("replay of one case")

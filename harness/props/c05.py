"""C05 - each bar runs once, in order, with a fixed phase order; logs align with bars.

Spec   : spec/BarLoop.tla (one action per phase of Actuator.run, total Step(c, st, ev) naming the failing clause),
         spec/mc/MC_BarLoop.tla (all scripts within a choice budget per configuration), spec/trace/Trace_BarLoop.tla.
TLC    : (1) seven DEV_ companions must be rejected by the owning clause (non-vacuity);
         (2) exhaustive exploration of every (grid, market mix, triggers, script) of the tier's universe with the
             clauses BarsInOrder, HookOrder, PhaseOrder, Stamp, OneRecordPerOp, NotifyOnce, RowPerBar, Refresh2;
             every terminal state (configuration + the complete event sequence the spec predicts) is exported;
         (3) -simulate for deep scripts (up to 6 bars, 3 markets, 2 triggers, up to 2 ops per hook).
Binding: V (primary, code -> spec): each exported (grid, mix, script) and additional seeded random scripts are EXECUTED by
         the real Actuator.run with a recording Strategy (initialize / before_bar / trigger when,do,is_out_date / on_bar /
         after_bar / notify / finalize), wrappers around Market.set_market_status, Market.update, market.open and
         Broker.get_account_status, and a final dump of Actuator.actions, Actuator.account_status and
         account_status_df (index, price column).  The ndjson traces are validated by TLC against Trace_BarLoop:
         every logged event must be takeable as the next spec action.
         R (spec -> code): the recorded event sequence of each TLC-enumerated script is compared event by event with
         the sequence the spec predicted.
Only clauses the C05 statement demands alarm (BarsInOrder, PhaseOrder, Stamp, NotifyOnce, RowPerBar); what the spec
pins down beyond it (status refresh calls, is_open gate, retirement test, open callbacks, operations run in
initialize, outcome of the gate) is reported under info/.
"""
from __future__ import annotations

import json
import os
import random
import threading
from concurrent.futures import ProcessPoolExecutor, ThreadPoolExecutor
from pathlib import Path

from .. import tlc
from ..common import Check, VERIF

MC = VERIF / "spec" / "mc" / "MC_BarLoop.tla"
TRACE = VERIF / "spec" / "trace" / "Trace_BarLoop.tla"
TRACE_CFG = VERIF / "spec" / "trace" / "Trace_BarLoop.cfg"

DEVS = [  # cfg number, switch, clauses that own it
    (1, "DEV_UpdateBeforeOnBar", {"Prop_PhaseOrder", "Inv_HookOrder"}),
    (2, "DEV_PendingNotCleared", {"Inv_NotifyOnce"}),
    (3, "DEV_StampAfterBeforeBar", {"Inv_Stamp"}),
    (4, "DEV_SkipNotifyWhenTwo", {"Inv_NotifyOnce"}),
    (5, "DEV_RowTwice", {"Inv_RowPerBar"}),
    (6, "DEV_PriceLast", {"Inv_RowPerBar"}),
    (7, "DEV_RefreshAlways", {"Prop_Refresh2"}),
    (8, "DEV_NotifyIteratesCopy", {"Inv_NotifyOnce"}),
]
DEMANDED = ("BarsInOrder", "PhaseOrder", "Stamp", "NotifyOnce", "RowPerBar")
FIELDS = ("e", "m", "ts", "f", "k", "a", "r", "n", "px")


# ------------------------------------------------------------------------------------------------
# events (the record shape of BarLoop!Ev)
# ------------------------------------------------------------------------------------------------
def E(e, m=0, ts=-1, f=False, k="", a=(), r=(), n=-1, px=-1):
    return {"e": e, "m": int(m), "ts": int(ts), "f": bool(f), "k": k, "a": [list(x) for x in a],
            "r": [list(x) for x in r], "n": int(n), "px": int(px)}


def unpack(t):
    """BarLoop!Pack tuple (as JSON list) -> event record."""
    e = t[0]
    if e in ("status", "when", "out"):
        return E(e, m=t[1], ts=t[2], f=t[3])
    if e in ("do", "mopen"):
        return E(e, m=t[1], ts=t[2])
    if e in ("bb", "ob", "ab"):
        return E(e, ts=t[1], n=t[2])
    if e == "op":
        return E(e, m=t[1], k=t[2], f=t[3], a=t[4])
    if e == "upd":
        return E(e, m=t[1], a=t[2])
    if e == "rec":
        return E(e, ts=t[1], px=t[2])
    if e == "ntf":
        return E(e, m=t[1], ts=t[2], n=t[3])
    if e == "fin":
        return E(e, n=t[1])
    if e in ("rowlist", "rows"):
        return E(e, r=t[1])
    if e == "end":
        return E(e, a=t[1])
    return E(e)


def price_at(t: int) -> int:
    return 100 + ((t * 7) % 13)  # BarLoop!PriceAt


# ------------------------------------------------------------------------------------------------
# script = the strategy's / data's choices, keyed by the strategy's own bar counter
# ------------------------------------------------------------------------------------------------
def script_from_hist(events):
    """Derive the script (ops per hook, trigger answers, records emitted by updates) from a spec event sequence."""
    ops, fire, out, emit = {}, [], [], {}
    bar, hook, nntf = -1, None, 0
    for ev in events:
        e = ev["e"]
        if e == "init":
            hook = "init"
        elif e == "bb":
            bar += 1
            nntf = 0
            hook = f"bb:{bar}"
        elif e == "ntf":
            nntf += 1
            hook = f"ntf:{bar}:{nntf}"     # operations issued inside notify() of the nntf-th notification of the bar
        elif e == "do":
            hook = f"do:{bar}:{ev['m']}"
        elif e == "mopen":
            hook = f"mopen:{bar}:{ev['m']}"
        elif e == "ob":
            hook = f"ob:{bar}"
        elif e == "ab":
            hook = f"ab:{bar}"
        elif e == "op":
            ops.setdefault(hook, []).append([ev["m"], ev["k"]])
        elif e == "when" and ev["f"]:
            fire.append(f"{bar}:{ev['m']}")
        elif e == "out" and ev["f"]:
            out.append(f"{bar}:{ev['m']}")
        elif e == "upd" and ev["a"]:
            emit[f"{bar}:{ev['m']}"] = len(ev["a"])
    return {"ops": ops, "fire": fire, "out": out, "emit": emit}


def n_bars(c):
    f0 = (c["s"] // c["iv"]) * c["iv"]
    return ((c["s"] + c["len"] - 1) // c["iv"] * c["iv"] - f0) // c["iv"] + 1


def random_script(c, rnd: random.Random, density: float, emit=True):
    emit_on = emit
    nb, nm, nt = n_bars(c), len(c["mk"]), c["nt"]
    kinds = ["w", "n", "wx", "nx"]

    def some_ops():
        if rnd.random() >= density:
            return []
        return [[rnd.randint(1, nm), rnd.choice(kinds)] for _ in range(rnd.choice((1, 1, 2, 2, 3)))]

    ops, fire, out, emit = {}, [], [], {}
    hooks = ["init"]
    for b in range(nb):
        hooks += [f"bb:{b}", f"ob:{b}", f"ab:{b}"] + [f"do:{b}:{i}" for i in range(1, nt + 1)] \
                 + [f"mopen:{b}:{m}" for m in range(1, nm + 1)] + [f"ntf:{b}:{j}" for j in (1, 2)]
        for i in range(1, nt + 1):
            if rnd.random() < 0.5:
                fire.append(f"{b}:{i}")
            if rnd.random() < 0.15:
                out.append(f"{b}:{i}")
        for m in range(1, nm + 1):
            if emit_on and not c["mk"][m - 1].get("uni") and rnd.random() < density * 0.6:
                emit[f"{b}:{m}"] = rnd.choice((1, 1, 2))
    for h in hooks:
        o = some_ops()
        if o:
            ops[h] = o
    return {"ops": ops, "fire": fire, "out": out, "emit": emit}


# ------------------------------------------------------------------------------------------------
# the real code under a recorder
# ------------------------------------------------------------------------------------------------
_SIM = {}


def _sim():
    """Import demeter lazily (in the worker process) and define the market / strategy classes once."""
    if _SIM:
        return _SIM
    from dataclasses import dataclass
    from decimal import Decimal

    import pandas as pd

    from .. import sim
    from demeter import ActionTypeEnum, Actuator, MarketInfo, Strategy, TokenInfo
    from demeter._typing import DemeterError
    from demeter.broker import BaseAction, Market, MarketBalance, MarketStatus
    from demeter.broker.market import write_func
    from demeter.strategy.trigger import Trigger

    @dataclass
    class OpAction(BaseAction):
        kind: str = ""

        def set_type(self):
            self.action_type = {"w": ActionTypeEnum.aave_supply, "n": ActionTypeEnum.uni_lp_swap,
                                "u": ActionTypeEnum.aave_liquidation}[self.kind]

    class OpMarket(Market):
        """Minimal market with positions: one gated write operation, one ungated operation, an update that may emit
        records (liquidation/expiry-like).  `native` = period of its data in minutes (1 or 60)."""

        def __init__(self, info, data, native, rec, idx):
            super().__init__(info, data)
            self.native = native
            self.rec = rec
            self.idx = idx
            self.position = Decimal(0)
            self.touched = 0

        def check_market(self):
            super().check_market()

        @write_func
        def put(self, amount):
            if amount <= 0:
                raise DemeterError("amount must be positive")
            self.position += Decimal(amount)
            self._record_action(OpAction(market=self.market_info, kind="w"))
            return self.position

        def touch(self, amount):
            if amount <= 0:
                raise DemeterError("amount must be positive")
            self.touched += 1
            self._record_action(OpAction(market=self.market_info, kind="n"))
            return self.touched

        def update(self):
            for _ in range(self.rec.script["emit"].get(f"{self.rec.bar}:{self.idx}", 0)):
                self._record_action(OpAction(market=self.market_info, kind="u"))

        def set_market_status(self, data: MarketStatus, price):
            super().set_market_status(data, price)
            if data.data is None:
                data.data = self._data.loc[data.timestamp] if data.timestamp in self._data.index else pd.Series()
            self._market_status = data

        def get_market_balance(self):
            return MarketBalance(self.position)

        @property
        def description(self):
            return None

        def formatted_str(self):
            return "op"

        def _resample(self, freq: str):
            if pd.Timedelta(freq) <= pd.Timedelta(minutes=self.native):
                return
            self._data = self._data.resample(freq).first()

    class ScriptTrigger(Trigger):
        def __init__(self, rec, i):
            self.rec, self.i = rec, i
            super().__init__(self._body)

        def when(self, snapshot):
            f = f"{self.rec.bar}:{self.i}" in self.rec.fire
            self.rec.log(E("when", m=self.i, ts=sim.to_min(snapshot.timestamp), f=f))
            return f

        def _body(self, snapshot):
            self.rec.log(E("do", m=self.i, ts=sim.to_min(snapshot.timestamp)))
            self.rec.run_ops(f"do:{self.rec.bar}:{self.i}")

        def is_out_date(self, t):
            f = f"{self.rec.bar}:{self.i}" in self.rec.outs
            self.rec.log(E("out", m=self.i, ts=sim.to_min(t), f=f))
            return f

    class Recorder:
        def __init__(self, c, script):
            self.c, self.script = c, script
            self.fire, self.outs = set(script["fire"]), set(script["out"])
            self.events = []
            self.bar = -1
            self.nntf = 0
            self.started = False
            self.act = None
            self.markets = []

        def log(self, ev):
            self.events.append(ev)

        def acts_from(self, n0):
            al = self.act.actions
            return [(i + 1, sim.to_min(al[i].timestamp) if al[i].timestamp is not None else -1) for i in range(n0, len(al))]

        def run_ops(self, hook):
            for m, k in self.script["ops"].get(hook, ()):
                mk = self.markets[m - 1]
                n0 = len(self.act.actions)
                try:
                    if not isinstance(mk, OpMarket):  # real UniLpMarket: add_liquidity is a write, buy is not
                        if k == "w":
                            mk.add_liquidity(900, 1100, Decimal("0.001"), Decimal(1))
                        elif k == "wx":
                            mk.add_liquidity(900, 1100, Decimal(10 ** 4), Decimal(10 ** 8))
                        else:
                            mk.buy(Decimal("0.0001") if k == "n" else Decimal(10 ** 7))
                    elif k in ("w", "wx"):
                        mk.put(Decimal(1) if k == "w" else Decimal(-1))
                    else:
                        mk.touch(1 if k == "n" else -1)
                    ok = True
                except Exception:
                    ok = False
                self.log(E("op", m=m, k=k, f=ok, a=self.acts_from(n0)))

    class RecStrategy(Strategy):
        def __init__(self, rec):
            super().__init__()
            self.rec = rec

        def initialize(self):
            r = self.rec
            r.started = True
            r.log(E("init"))
            self.triggers.extend(ScriptTrigger(r, i) for i in range(1, r.c["nt"] + 1))
            r.run_ops("init")

        def before_bar(self, snapshot):
            r = self.rec
            r.bar += 1
            r.nntf = 0
            r.log(E("bb", ts=sim.to_min(snapshot.timestamp), n=len(self.account_status)))
            r.run_ops(f"bb:{r.bar}")

        def on_bar(self, snapshot):
            r = self.rec
            r.log(E("ob", ts=sim.to_min(snapshot.timestamp), n=len(self.account_status)))
            r.run_ops(f"ob:{r.bar}")

        def after_bar(self, snapshot):
            r = self.rec
            r.log(E("ab", ts=sim.to_min(snapshot.timestamp), n=len(self.account_status)))
            r.run_ops(f"ab:{r.bar}")

        def notify(self, action):
            r = self.rec
            ident = next((i + 1 for i, a in enumerate(r.act.actions) if a is action), 0)
            r.log(E("ntf", m=ident, ts=sim.to_min(action.timestamp) if action.timestamp is not None else -1,
                    n=len(self.account_status)))
            r.nntf += 1
            r.run_ops(f"ntf:{r.bar}:{r.nntf}")

        def finalize(self):
            self.rec.log(E("fin", n=len(self.account_status)))

    def to_int(x):
        try:
            return int(x)
        except Exception:
            return -2

    def build(c, script):
        """Fresh Actuator for configuration c with recording strategy, markets and wrappers."""
        rec = Recorder(c, script)
        act = Actuator()
        rec.act = act
        idx = sim.minute_index(c["s"], c["len"])
        eth = TokenInfo(name="eth", decimal=18)
        for j, mk in enumerate(c["mk"], 1):
            if mk.get("uni"):
                m = uni_market(f"m{j}", idx, eth)
                act.broker.add_market(m)
                rec.markets.append(m)
                _wrap_market(rec, m, j, mk["cb"])
                continue
            if mk["h"]:
                hidx = idx[[sim.to_min(t) % 60 == 0 for t in idx]]
                data = pd.DataFrame(index=hidx, data={"v": range(len(hidx))})
            else:
                data = pd.DataFrame(index=idx, data={"v": range(len(idx))})
            m = OpMarket(MarketInfo(f"m{j}"), data, 60 if mk["h"] else 1, rec, j)
            act.broker.add_market(m)
            rec.markets.append(m)
            _wrap_market(rec, m, j, mk["cb"])
        act.set_price(pd.DataFrame(index=idx, data={"ETH": [Decimal(price_at(sim.to_min(t))) for t in idx],
                                                    "USDC": [Decimal(1)] * len(idx)}), sim.USDC)
        act.broker.set_balance(sim.USDC, Decimal(1000))
        act.broker.set_balance(eth, Decimal(2))
        if c["iv"] != 1:
            act.interval = f"{c['iv']}min"
        orig_status = act.broker.get_account_status

        def get_account_status(prices, timestamp=None):
            res = orig_status(prices, timestamp)
            if rec.started:
                rec.log(E("rec", ts=sim.to_min(timestamp) if timestamp is not None else -1, px=to_int(prices["ETH"])))
            return res

        act.broker.get_account_status = get_account_status
        act.strategy = RecStrategy(rec)
        return act, rec

    def uni_market(name, idx, eth):
        """A real UniLpMarket over synthetic minutely pool data (constant tick, constant volume), as tests/utils.py builds it."""
        from demeter.uniswap import UniLpMarket, UniV3Pool
        pool = UniV3Pool(sim.USDC, eth, 0.05, sim.USDC)
        m = UniLpMarket(MarketInfo(name), pool)
        tick = m.price_to_tick(1000)
        n = len(idx)
        df = pd.DataFrame(index=idx)
        for col, val in (("netAmount0", 0), ("netAmount1", 0), ("closeTick", tick), ("openTick", tick), ("lowestTick", tick),
                         ("highestTick", tick), ("inAmount0", 10 ** 9), ("inAmount1", 10 ** 18)):
            df[col] = pd.Series(data=[val] * n, index=idx)
        df["currentLiquidity"] = pd.Series(data=[Decimal(10 ** 18)] * n, index=idx)
        m.add_statistic_column(df)
        m.data = df
        return m

    def _wrap_market(rec, m, j, cb):
        orig_set, orig_upd = m.set_market_status, m.update

        def set_market_status(data, price):
            res = orig_set(data, price)
            rec.log(E("status", m=j, ts=sim.to_min(data.timestamp), f=m.is_open))
            return res

        def update():
            n0 = len(rec.act.actions)
            res = orig_upd()
            rec.log(E("upd", m=j, a=rec.acts_from(n0)))
            return res

        m.set_market_status = set_market_status
        m.update = update
        if cb:
            def on_open(snapshot):
                rec.log(E("mopen", m=j, ts=sim.to_min(snapshot.timestamp)))
                rec.run_ops(f"mopen:{rec.bar}:{j}")
            m.open = on_open

    def final_events(act, rec):
        rec.log(E("rowlist", r=[(sim.to_min(s.timestamp), -1) for s in act.account_status]))
        df = act.account_status_df
        px = df[("price", "ETH")] if ("price", "ETH") in df.columns else None
        rec.log(E("rows", r=[(sim.to_min(t), to_int(px.iloc[i]) if px is not None else -2) for i, t in enumerate(df.index)]))
        rec.log(E("end", a=rec.acts_from(0)))

    _SIM.update(build=build, final_events=final_events, sim=sim)
    return _SIM


def run_script(c, script):
    """Execute (c, script) with the real Actuator.run; return (events, error text or None)."""
    if script.get("real"):           # leg "markets": the real markets of every type (harness/c05_real.py)
        import tempfile
        from .. import c05_real
        with tempfile.TemporaryDirectory(prefix="verif_c05r_") as td:
            return c05_real.run_case(script["real"], td)
    S = _sim()
    act, rec = S["build"](c, script)
    try:
        act.run(print_result=False)
        S["final_events"](act, rec)
    except Exception as ex:  # the run of a legal script raised: the trace stays incomplete
        return rec.events, f"{type(ex).__name__}: {ex}"
    return rec.events, None


def _job(batch):
    return [run_script(c, s) for c, s in batch]


def run_many(cases, procs=16):
    """cases: list of (c, script) -> list of (events, err) in order."""
    if len(cases) <= 8 or procs <= 1:
        return _job(cases)
    size = max(1, min(64, len(cases) // (procs * 4) + 1))
    batches = [cases[i:i + size] for i in range(0, len(cases), size)]
    out = []
    import multiprocessing as mp
    with ProcessPoolExecutor(max_workers=procs, mp_context=mp.get_context("fork")) as ex:
        for res in ex.map(_job, batches):
            out.extend(res)
    return out


# ------------------------------------------------------------------------------------------------
# R: direct comparison of a recorded event sequence with the sequence the spec predicted
# ------------------------------------------------------------------------------------------------
HOOKS = ("bb", "when", "do", "ob", "upd", "ab")


def diff_clause(exp, got):
    """Name the clause decided by the first differing pair (exp / got may be None at the end)."""
    ke = exp["e"] if exp else None
    kg = got["e"] if got else None
    if ke != kg:
        if "ntf" in (ke, kg):
            return "NotifyOnce"
        if ke in HOOKS or kg in HOOKS:
            return "PhaseOrder"
        if "rec" in (ke, kg):
            return "RowPerBar"
        if kg is None or ke is None:
            return "BarsInOrder"
        return f"info/{kg}"
    if ke in ("bb", "ob", "ab", "when", "do"):
        if exp["ts"] != got["ts"]:
            return "BarsInOrder"
        if exp["n"] != got["n"]:
            return "RowPerBar"
        return "info/Trigger"
    if ke == "upd":
        return "PhaseOrder" if exp["m"] != got["m"] else "Stamp"
    if ke == "op":
        if exp["f"] != got["f"]:
            return "info/Outcome"
        return "Stamp" if got["f"] else "info/RejectedNoRecord"
    if ke in ("rec", "rowlist", "rows"):
        return "RowPerBar"
    if ke == "ntf":
        return "NotifyOnce" if exp["m"] != got["m"] else ("Stamp" if exp["ts"] != got["ts"] else "RowPerBar")
    if ke == "end":
        return "Stamp"
    return {"status": "info/SetStatus", "out": "info/Retire", "mopen": "info/MarketOpen"}.get(ke, "info/Lifecycle")


def first_diff(exp_events, got_events):
    for i in range(max(len(exp_events), len(got_events))):
        a = exp_events[i] if i < len(exp_events) else None
        b = got_events[i] if i < len(got_events) else None
        if a != b:
            return i, a, b
    return None


# ------------------------------------------------------------------------------------------------
# V: TLC validates the recorded traces
# ------------------------------------------------------------------------------------------------
def cfg_json(c):
    return {"s": c["s"], "iv": c["iv"], "len": c["len"], "nt": c["nt"], "mk": [{"h": m["h"], "cb": m["cb"]} for m in c["mk"]]}


def validate_traces(chk: Check, traces, label, chunks=8, timeout=1500):
    """traces: list of (tid, c, events).  Returns ({tid: verdict record}, TLC results).  A trace TLC did not report is
    a machinery failure (TlcError)."""
    if not traces:
        return {}, []
    par = max(1, min(chunks, len(traces) // 50 + 1))          # TLC processes at a time
    chunks = max(par, (len(traces) + 1499) // 1500)            # at most 1500 traces per invocation (bounded heap)
    parts = [traces[i::chunks] for i in range(chunks)]
    verdicts, results = {}, []
    lock = threading.Lock()

    def one(k):
        part = parts[k]
        f_in = chk.tmp / f"traces_{label}_{k}.ndjson"
        f_out = chk.tmp / f"verdicts_{label}_{k}.ndjson"
        with open(f_in, "w") as f:
            for tid, c, events in part:
                f.write(json.dumps({"tid": tid, "c": cfg_json(c), "ev": events}, separators=(",", ":")) + "\n")
        try:
            res = tlc.run(TRACE, TRACE_CFG, chk.tmp, workers=1, timeout=timeout, jvm=("-Xmx2g",),
                          env={"C05_TRACES": str(f_in), "C05_VERDICTS": str(f_out)})
            out = res.output
        except tlc.TlcError as ex:
            # tlc.run does not know TLC's wording "Postcondition ... is false": that outcome is the regular signal
            # that at least one trace was rejected (the verdict file was written before the test)
            out = str(ex)
            if "Postcondition Post_AllConsumed" not in out or "is false" not in out or not f_out.exists():
                raise
            import re
            res = tlc.TlcResult(ok=False, output=out, violated=["Post_AllConsumed"])
            mm = re.search(r"(\d+) states generated, (\d+) distinct states found", out)
            if mm:
                res.generated, res.distinct = int(mm.group(1)), int(mm.group(2))
        bad = [v for v in res.violated if v != "Post_AllConsumed" and "ostcondition" not in v]
        if bad:  # a state clause failed on an ACCEPTED prefix: the trace spec itself is inconsistent
            raise tlc.TlcError(f"Trace_BarLoop: {bad} violated on an accepted prefix\n" + res.output[-3000:])
        got = {}
        if f_out.exists():
            for line in open(f_out):
                if line.strip():
                    v = json.loads(line)
                    got[v["tid"]] = v
        missing = [tid for tid, _, ev in part if tid not in got]
        for tid in missing:  # a trace TLC never finished: it has no event at all
            if [ev for t, _, ev in part if t == tid][0]:
                raise tlc.TlcError(f"Trace_BarLoop reported no verdict for trace {tid}")
            got[tid] = {"tid": tid, "l": 0, "len": 0, "verdict": "BarsInOrder: empty trace (no event was recorded)"}
        m = [ln for ln in out.splitlines() if ln.startswith('<<"@finished"')]
        if not m or tlc.tlaval.parse(m[-1])[1] != len(part) - len(missing):
            raise tlc.TlcError(f"Trace_BarLoop finished {m} of {len(part)} traces")
        with lock:
            verdicts.update(got)
            results.append(res)

    with ThreadPoolExecutor(max_workers=par) as ex:
        list(ex.map(one, range(chunks)))
    return verdicts, results


CORE = VERIF / "spec" / "trace" / "Trace_BarLoopCore.tla"


def core_pass(chk: Check, traces):
    """Whole-trace evaluation of the demanded clauses (Trace_BarLoopCore) for traces the stepwise validation rejected with a clause
    beyond the statement: {tid: first failing demanded clause or ''}."""
    if not traces:
        return {}
    f_in = chk.tmp / f"traces_core_{len(traces)}_{id(traces)}.ndjson"
    with open(f_in, "w") as f:
        for tid, c, events in traces:
            f.write(json.dumps({"tid": tid, "c": cfg_json(c), "ev": events}, separators=(",", ":")) + "\n")
    res = tlc.run(CORE, CORE.with_suffix(".cfg"), chk.tmp, workers=1, timeout=1500, jvm=("-Xmx2g",), env={"C05_TRACES": str(f_in)})
    out = tlc.printed(res.output, "core_verdicts")
    f_in.unlink()
    return {int(t): v for t, v in out}


def clause_of(verdict: str) -> str:
    return verdict.split(":", 1)[0].strip()


def judge(chk: Check, leg, tid, c, script, events, err, verdict, exp_events=None, core=None):
    """Turn one validated trace into counts / violations.  core = verdict of the whole-trace second pass (info-rejected traces)."""
    mix = "+".join(("H" if m["h"] else "A") for m in c["mk"])
    cls = f"iv{c['iv']}|{mix}"
    replay = {"kind": "script", "config": c, "script": script}
    chk.traces += 1
    chk.evaluations += 1
    for ev in events:
        chk.count("event/" + ev["e"])
    v = verdict["verdict"]
    trace_ok = v == "ok"
    for cl in DEMANDED:
        chk.count(cl)
    if not trace_ok:
        cl = clause_of(v)
        bad = events[verdict["l"]] if verdict["l"] < len(events) else None
        text = (f"{leg}: trace of the real Actuator.run rejected by Trace_BarLoop at event #{verdict['l'] + 1} "
                f"{json.dumps(bad)}: {v}" + (f" (run raised {err})" if err else "") + f"; config {cfg_json(c)} script {script}")
        if cl.startswith("info/"):
            chk.count(cl)
            chk.extra.setdefault("info_mismatches", []).append(text[:400]) if len(chk.extra.get("info_mismatches", [])) < 10 else None
            if core:      # the statement's own clauses, evaluated on the whole trace
                chk.violation(f"Actuator.run|{clause_of(core)}|{cls}",
                              f"{leg}: the recorded run violates {core} (whole-trace pass; the stepwise validation stopped at event "
                              f"#{verdict['l'] + 1}: {v})" + (f" (run raised {err})" if err else "") + f"; config {cfg_json(c)} script {script}",
                              {**replay, "verdict": core})
            elif err:
                chk.violation(f"Actuator.run|raises|{cls}", f"{leg}: run raised {err}; config {cfg_json(c)} script {script}", replay)
        else:
            chk.violation(f"Actuator.run|{cl}|{cls}", text, {**replay, "verdict": v, "event_no": verdict["l"] + 1})
    elif err:
        chk.violation(f"Actuator.run|raises|{cls}", f"{leg}: run raised {err}; config {cfg_json(c)} script {script}", replay)
    if exp_events is not None:
        chk.count("replay/sequence_equal")
        d = first_diff(exp_events, events)
        if d is not None:
            i, a, b = d
            cl = diff_clause(a, b)
            text = (f"{leg}: event #{i + 1} of the real run is {json.dumps(b)}, the spec predicted {json.dumps(a)}; "
                    f"config {cfg_json(c)} script {script}")
            if cl.startswith("info/") or trace_ok:
                # a different but valid behaviour (e.g. another market order): not demanded by the statement
                chk.count("info/replay_differs")
                if len(chk.extra.setdefault("info_replay_differs", [])) < 10:
                    chk.extra["info_replay_differs"].append(text[:400])
            else:
                chk.violation(f"Actuator.run|{cl}|{cls}", text, {**replay, "event_no": i + 1, "expected": a, "got": b})


# ------------------------------------------------------------------------------------------------
# TLC side
# ------------------------------------------------------------------------------------------------
def check_devs(chk: Check):
    out = {}

    def one(d):
        k, name, owners = d
        res = tlc.run(MC, MC.parent / f"MC_BarLoop_dev{k}.cfg", chk.tmp, workers=2, timeout=600, jvm=("-Xmx1g",))
        return name, owners, res

    with ThreadPoolExecutor(max_workers=len(DEVS)) as ex:
        for name, owners, res in ex.map(one, DEVS):
            hit = sorted(set(res.violated) & owners)
            out[name] = hit or False
            if not hit:
                raise RuntimeError(f"vacuous: {name} does not violate any of {sorted(owners)} (TLC reported {res.violated})")
    chk.extra["dev_switch_detected"] = out


def explore(chk: Check, cfg_name, timeout):
    """Exhaustive run with export of the terminal states: [(c, events)]."""
    f = chk.tmp / f"export_{cfg_name}.ndjson"
    res = tlc.run(MC, MC.parent / cfg_name, chk.tmp, workers=1, timeout=timeout, env={"C05_EXPORT": str(f)},
                  args=("-coverage", "1"), jvm=("-Xmx4g",))
    chk.add_tlc(res, cfg_name)
    chk.spec_violation(res, cfg_name)
    terms = []
    if f.exists():
        for line in open(f):
            if line.strip():
                d = json.loads(line)
                terms.append((d["c"], [unpack(t) for t in d["hist"]]))
    return res, terms


def last_states(tla, cfg, tmp, num, depth, seed, workers, timeout):
    """tlc -simulate; parse only the LAST state of every behaviour file."""
    import re
    import shutil
    import time
    from .. import tlaval
    d = tmp / ("sim_c05_" + str(time.time_ns()))
    d.mkdir(parents=True)
    per = max(1, (num + workers - 1) // workers)
    res = tlc.run(tla, cfg, tmp, workers=workers, timeout=timeout, jvm=("-Xmx2g",),
                  args=("-simulate", f"file={d}/tr,num={per}", "-depth", str(depth), "-seed", str(seed)))
    out = []
    for f in sorted(d.iterdir()):
        text = open(f).read()
        pos = [m.start() for m in re.finditer(r"^STATE_\d+ ==", text, re.M)]
        if not pos:
            continue
        body = text[pos[-1]:]
        body = body[body.index("\n") + 1:]
        end = body.find("\n\n")
        if end >= 0:
            body = body[:end]
        body = body.split("\n====")[0]
        out.append(tlaval.parse_state(body))
    shutil.rmtree(d, ignore_errors=True)
    return res, out


def unjson_tla(v):
    """parsed TLA+ value -> JSON-like (tuples to lists)."""
    if isinstance(v, tuple):
        return [unjson_tla(x) for x in v]
    if isinstance(v, dict):
        return {k: unjson_tla(x) for k, x in v.items()}
    return v


# ------------------------------------------------------------------------------------------------
def run(chk: Check) -> int:
    try:
        return _run(chk)
    except BaseException:  # machinery failure: do not leave the scratch directory behind
        import shutil
        shutil.rmtree(chk.tmp, ignore_errors=True)
        raise


def _run(chk: Check) -> int:
    quick = chk.tier == "quick"
    rnd = random.Random(chk.seed)
    # 1.-3. TLC: non-vacuity companions, exhaustive exploration(s) with export, deep simulation - concurrently
    cfgs = ["MC_BarLoop_quick.cfg"] if quick else ["MC_BarLoop_quick.cfg", "MC_BarLoop_thorough.cfg"]
    with ThreadPoolExecutor(max_workers=4) as ex:
        f_dev = ex.submit(check_devs, chk)
        f_exp = [ex.submit(explore, chk, cfg, 900 if quick else 3000) for cfg in cfgs]
        f_sim = ex.submit(last_states, MC, MC.parent / "MC_BarLoop_sim.cfg", chk.tmp, 160 if quick else 4000, 400,
                          chk.seed, 4, 1500)
        f_dev.result()
        terms = [t for f in f_exp for t in f.result()[1]]
        sres, finals = f_sim.result()
    cases = []  # (leg, c, script, expected events or None)
    n_exh = len(terms)
    chk.exhaustive = True
    for c, evs in terms:
        cases.append(("enumerated", c, script_from_hist(evs), evs))
    chk.add_tlc(sres, "MC_BarLoop_sim.cfg(simulate)")
    chk.spec_violation(sres, "MC_BarLoop_sim.cfg")
    n_sim = 0
    for s in finals:
        if s["st"]["phase"] != "Done":
            continue
        c = unjson_tla(s["c"])
        evs = [unpack(unjson_tla(t)) for t in s["hist"]]
        cases.append(("simulated", c, script_from_hist(evs), evs))
        n_sim += 1
    # 4. seeded random scripts, V only (history length, interval, mix, density all drawn)
    n_rand = 250 if quick else 6000
    for _ in range(n_rand):
        iv = rnd.choice((1, 1, 5, 60))
        nb = rnd.randint(1, 6 if iv < 60 else 4)
        s = rnd.choice((0, 57, 58, 59, 60, 118)) if iv == 1 else rnd.choice((0, 3, 47, 55, 58, 60))
        first = (s // iv) * iv
        ln = max(1, first + nb * iv - s - rnd.randint(0, iv - 1))
        mk = rnd.choice(([(0, 1)], [(0, 1), (1, 1)], [(1, 1), (0, 0)], [(0, 0), (0, 1)], [(0, 1), (1, 0), (0, 1)], [(1, 0), (0, 1), (1, 1)]))
        c = {"s": s, "iv": iv, "len": ln, "mk": [{"h": bool(h), "cb": bool(cb)} for h, cb in mk], "nt": rnd.randint(0, 2)}
        if any(m["h"] for m in c["mk"]) and not any(t % 60 == 0 for t in range(s, s + ln)):
            c["mk"] = [m for m in c["mk"] if not m["h"]] or [{"h": False, "cb": True}]
        cases.append(("random", c, random_script(c, rnd, rnd.choice((0.15, 0.4, 0.8))), None))
    # 4b. realistic mix: a real UniLpMarket (add_liquidity = write, buy = non-write) next to an hourly market
    n_real = 24 if quick else 400
    for _ in range(n_real):
        iv = rnd.choice((1, 1, 5, 60))
        nb = rnd.randint(2, 5 if iv < 60 else 3)
        s = rnd.choice((58, 59, 60)) if iv == 1 else rnd.choice((50, 55, 60))   # Uni resampling wants whole buckets
        ln = nb * iv - (s - (s // iv) * iv)
        mk = rnd.choice(([("u", 1)], [("u", 1), (1, 1)], [(1, 0), ("u", 1)], [("u", 0), (0, 1)]))
        c = {"s": s, "iv": iv, "len": ln, "nt": rnd.randint(0, 1),
             "mk": [{"h": h == 1, "cb": bool(cb), **({"uni": True} if h == "u" else {})} for h, cb in mk]}
        if any(m["h"] for m in c["mk"]) and not any(t % 60 == 0 for t in range(s, s + ln)):
            c["mk"] = [m for m in c["mk"] if not m["h"]]
        cases.append(("realistic", c, random_script(c, rnd, rnd.choice((0.3, 0.6)), emit=False), None))
    # 4c. the real markets of every type (Uniswap, Aave, Squeeth + pool, Deribit, GMX v1, GMX v2) on 1-minute and resampled grids
    from .. import c05_real
    real_cases = c05_real.cases(rnd, quick)
    for rc in real_cases:
        c = c05_real.mix_config(rc) if rc["kind"] == "mix" else c05_real.config(rc["kind"], rc["F"], len(rc["hist"]))
        cases.append(("markets", c, {"real": rc, "ops": {"real": [[rc["kind"], rc.get("script", 0)]]}, "fire": [], "out": [], "emit": {}}, None))
    # 5. execute every case with the real Actuator.run
    runs = run_many([(c, s) for _, c, s, _ in cases])
    traces = [(tid, cases[tid][1], runs[tid][0]) for tid in range(len(cases))]
    verdicts, vres = validate_traces(chk, traces, "main", chunks=8)
    for r in vres:
        chk.states += r.distinct
        chk.transitions += r.generated
    chk.extra.setdefault("tlc_runs", []).append(
        {"run": "Trace_BarLoop (trace validation)", "generated": sum(r.generated for r in vres),
         "distinct": sum(r.distinct for r in vres), "invocations": len(vres), "wall_s": round(max(r.wall_s for r in vres), 1)})
    nontrivial = set()
    nevents = 0
    info_rejected = [t for t in traces if verdicts[t[0]]["verdict"] != "ok" and clause_of(verdicts[t[0]]["verdict"]).startswith("info/")]
    core = core_pass(chk, info_rejected)
    chk.extra["whole_trace_second_pass"] = len(info_rejected)
    # soundness cross-check of the second pass: a trace the stepwise validation accepts must satisfy the whole-trace clauses too
    accepted = [t for t in traces if verdicts[t[0]]["verdict"] == "ok"]
    if quick and not os.environ.get("VERIF_C05_CORE_ALL"):
        accepted = rnd.sample(accepted, min(300, len(accepted)))
    parts = [accepted[i::8] for i in range(8) if accepted[i::8]]
    with ThreadPoolExecutor(max_workers=8) as ex:
        for part in ex.map(lambda p_: core_pass(chk, p_), parts):
            bad = {t: v for t, v in part.items() if v}
            if bad:
                raise RuntimeError(f"Trace_BarLoopCore rejects traces that Trace_BarLoop accepts: {list(bad.items())[:3]}")
    chk.extra["whole_trace_pass_cross_checked_on_accepted_traces"] = len(accepted)
    for tid, (leg, c, script, exp) in enumerate(cases):
        events, err = runs[tid]
        nevents += len(events)
        judge(chk, leg, tid, c, script, events, err, verdicts[tid], exp, core.get(tid))
        if script["ops"] or script["emit"] or script["fire"]:
            nontrivial.add(json.dumps([cfg_json(c), script], sort_keys=True))
        if len(chk.samples) < 4 and script["ops"] and (leg != "enumerated" or len(chk.samples) < 2):
            chk.sample({"leg": leg, "config": cfg_json(c), "script": script, "events": len(events),
                        "first_events": [[e["e"], e["m"], e["ts"]] for e in events[:14]], "verdict": verdicts[tid]["verdict"]})
    chk.extra["distinct_nontrivial"] = len(nontrivial)
    chk.extra["cases"] = {"enumerated_exhaustive": n_exh, "simulated_by_tlc": n_sim, "random_scripts": n_rand,
                          "realistic_mix_with_UniLpMarket": n_real,
                          "real_markets_of_every_type": len(real_cases)}
    chk.extra["events_validated"] = nevents
    # 6. the binding is demonstrated: a corrupted field and a deleted event must be rejected
    binding_selfcheck(chk, cases, runs, rnd, verdicts)
    return chk.finish(
        "a case is one (grid, market mix, triggers, script) executed by the real Actuator.run under the recorder; its ndjson "
        "trace is validated event by event by TLC (Trace_BarLoop) and, for TLC-enumerated scripts, compared with the predicted "
        "event sequence; distinct_nontrivial = distinct (config, script) pairs whose script performs at least one operation, "
        "trigger firing or update-emitted record; enumerated cases are exhaustive within the per-configuration choice budget")


def binding_selfcheck(chk: Check, cases, runs, rnd, verdicts):
    """Corrupt one recorded field / delete one event in real, ACCEPTED traces: TLC must reject every one of them."""
    pool = [tid for tid, (leg, c, s, _) in enumerate(cases)
            if not runs[tid][1] and verdicts[tid]["verdict"] == "ok" and any(e["e"] == "ntf" for e in runs[tid][0])]
    pool = rnd.sample(pool, min(12, len(pool)))
    mut, what = [], []
    for tid in pool:
        ev = runs[tid][0]
        c = cases[tid][1]
        idx = {k: [i for i, e in enumerate(ev) if e["e"] == k] for k in ("bb", "ntf", "upd", "rec", "op", "ab", "rows")}
        variants = []
        i = rnd.choice(idx["ntf"])
        variants.append(("delete ntf", ev[:i] + ev[i + 1:]))
        variants.append(("duplicate ntf", ev[:i + 1] + [ev[i]] + ev[i + 1:]))
        variants.append(("corrupt ntf stamp", ev[:i] + [{**ev[i], "ts": ev[i]["ts"] + c["iv"]}] + ev[i + 1:]))
        i = rnd.choice(idx["bb"])
        variants.append(("corrupt bb ts", ev[:i] + [{**ev[i], "ts": ev[i]["ts"] + 1}] + ev[i + 1:]))
        i = rnd.choice(idx["upd"])
        variants.append(("delete upd", ev[:i] + ev[i + 1:]))
        i, j = rnd.choice(idx["ab"]), None
        j = max(x for x in idx["upd"] if x < i)
        variants.append(("swap upd/ab", ev[:j] + [ev[i]] + ev[j + 1:i] + [ev[j]] + ev[i + 1:]))
        i = rnd.choice(idx["rec"])
        variants.append(("corrupt rec px", ev[:i] + [{**ev[i], "px": ev[i]["px"] + 1}] + ev[i + 1:]))
        i = idx["rows"][0]
        r = [list(x) for x in ev[i]["r"]]
        variants.append(("drop a df row", ev[:i] + [{**ev[i], "r": r[:-1]}] + ev[i + 1:]))
        oks = [x for x in idx["op"] if ev[x]["f"]]
        if oks:
            i = rnd.choice(oks)
            variants.append(("corrupt op stamp", ev[:i] + [{**ev[i], "a": [[ev[i]["a"][0][0], ev[i]["a"][0][1] + c["iv"]]]}] + ev[i + 1:]))
        for name, e2 in variants:
            mut.append((len(mut), c, e2))
            what.append(name)
    if not mut:
        if chk.violations:  # nothing accepted to start from; the violations are the result of this run
            chk.extra["binding_selfcheck"] = "skipped: no accepted trace with a notification"
            return
        raise RuntimeError("binding self-check: no trace with a notification to corrupt")
    verdicts, _ = validate_traces(chk, mut, "selfcheck", chunks=2)
    accepted = [what[t] for t in range(len(mut)) if verdicts[t]["verdict"] == "ok"]
    by = {}
    for t in range(len(mut)):
        by.setdefault(what[t], set()).add(clause_of(verdicts[t]["verdict"]))
    chk.extra["binding_selfcheck"] = {"corrupted_traces": len(mut), "rejected": len(mut) - len(accepted),
                                      "clauses": {k: sorted(v) for k, v in by.items()}}
    if accepted:
        raise RuntimeError(f"binding self-check: corrupted traces accepted by Trace_BarLoop: {accepted[:5]}")


def replay(chk: Check, path: str) -> int:
    r = json.load(open(path))["replay"]
    if r.get("kind") != "script":
        print("replay file is a TLC run, not a scenario:", r.get("run"))
        return chk.finish("replay of a TLC result is not applicable")
    c, script = r["config"], r["script"]
    events, err = run_script(c, script)
    verdicts, _ = validate_traces(chk, [(0, c, events)], "replay", chunks=1)
    core = core_pass(chk, [(0, c, events)]) if clause_of(verdicts[0]["verdict"]).startswith("info/") else {}
    judge(chk, "replay", 0, c, script, events, err, verdicts[0], None, core.get(0))
    print("verdict:", verdicts[0])
    return chk.finish("replay of one (configuration, script)")

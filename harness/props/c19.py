"""C19 - strategies run by the backtest manager do not influence one another.

Spec: spec/Manager.tla (processes, task queue with non-deterministic assignment, objects that carry state from run to
run abstracted to their histories; Result(s) = Run(s, startedFrom)), spec/mc/MC_Manager.tla.
TLC: exhaustive over every configuration [mix, kinds, w] (n <= 3 strategies of the family, w in 1..3, mixes {Uni},
     {Uni+Aave}) and every schedule; invariant C19 == every finished strategy's result is Run(s, CleanEnv).  Companion
     configurations re-create defect #18 (DEV_SharedConfigMarkets: sequential path; a worker that executes two tasks)
     and two mutation classes (DEV_PerProcessMarkets, DEV_SharedBroker) and must violate C19.
Binding (spec -> code): every configuration TLC enumerates is run through the REAL BacktestManager.run - sequential
     path in this process, forked path in a fresh interpreter per run (harness/mgr_drv.py), repeated because the OS
     chooses the schedule.  The expected value of every strategy is the spec's Run(s, CleanEnv), realised by running
     the same strategy alone over the same configuration and data; what each strategy wrote in finalize() (complete
     account_status_df, final positions / debts, wallet) must be EXACTLY equal (same arithmetic).
"""
from __future__ import annotations

import json
import os
import random
import re
import subprocess
import threading
from concurrent.futures import ThreadPoolExecutor
from pathlib import Path

from .. import tlc
from ..common import VERIF, Check

SPEC = VERIF / "spec" / "mc" / "MC_Manager.tla"
MC = SPEC.parent
HELPER = VERIF / "harness" / "mgr_drv.py"
PY = "/venv/bin/python"
DEV_CFGS = {  # companion cfg -> what it re-creates
    "MC_Manager_dev18_seq.cfg": "DEV_SharedConfigMarkets, sequential path, two strategies",
    "MC_Manager_dev18_worker.cfg": "DEV_SharedConfigMarkets, a worker that executes two tasks",
    "MC_Manager_devproc.cfg": "DEV_PerProcessMarkets (markets copied once per process)",
    "MC_Manager_devbroker.cfg": "DEV_SharedBroker (broker reused by the runs of a process)",
}


# ---- configurations and schedules from the TLC graph -----------------------------------------------------------
def cfg_of(c):
    return {"mix": int(c["mix"]), "kinds": list(c["kinds"]), "w": int(c["w"])}


def cfg_key(c):
    return (c["mix"], tuple(c["kinds"]), c["w"])


def path_of(c):
    return "seq" if len(c["kinds"]) == 1 or c["w"] == 1 else "fork"   # mirrors Manager.tla PathOf; checked against st.path


def schedule_of_state(st):
    return frozenset(tuple(int(x) for x in o) for o in _vals(st["ord"]) if len(o))


def _vals(f):
    return f.values() if isinstance(f, dict) else f


def enumerate_from_graph(g):
    """configs (in a stable order) and, per configuration, the set of schedules of its terminal states."""
    configs, scheds, paths = {}, {}, {}
    for s in g.nodes.values():
        st = s["st"]
        if st["ph"] == "new":
            continue
        c = cfg_of(st["c"])
        k = cfg_key(c)
        configs[k] = c
        if st["ph"] == "done":
            scheds.setdefault(k, set()).add(schedule_of_state(st))
            paths[k] = st["path"]
    return [configs[k] for k in sorted(configs)], scheds, paths


# ---- comparison with the solo run ----------------------------------------------------------------------------------
def diff_result(ref, got):
    """-> list of (clause, text) for the clauses of the statement; plus info list."""
    out, info = [], []
    h0, h1 = ref["history"], got["history"]
    if h0["columns"] != h1["columns"]:
        out.append(("history", f"account_status_df columns {h1['columns']} != alone {h0['columns']}"))
    elif h0["index"] != h1["index"]:
        out.append(("history", f"account_status_df index differs: {len(h1['index'])} rows vs alone {len(h0['index'])}"))
    elif h0["rows"] != h1["rows"]:
        for i, (r0, r1) in enumerate(zip(h0["rows"], h1["rows"])):
            if r0 != r1:
                j = next(x for x in range(len(r0)) if r0[x] != r1[x])
                out.append(("history", f"account_status_df[{h0['index'][i]}, {h0['columns'][j]}] = {r1[j][1:]} but alone = {r0[j][1:]}"))
                break
    if ref["positions"] != got["positions"]:
        out.append(("final_positions", f"final positions {json.dumps(got['positions'])[:300]} but alone {json.dumps(ref['positions'])[:300]}"))
    if ref["wallet"] != got["wallet"]:
        out.append(("final_wallet", f"final wallet {got['wallet']} but alone {ref['wallet']}"))
    if ref["actions"] != got["actions"]:
        info.append("actions")
    return out, info


class Runner:
    def __init__(self, chk: Check):
        self.chk = chk
        self.solo = {}       # (mix, kind) -> result dict of the strategy run alone
        self.n = 0
        self.lock = threading.Lock()
        self.info = {"actions_differ": 0, "config_objects_touched": 0, "schedules_outside_model": 0}
        self.observed = {}   # cfg key -> set of schedules observed

    def outdir(self):
        with self.lock:
            self.n += 1
            d = self.chk.tmp / f"run{self.n}"
        d.mkdir(parents=True)
        return str(d)

    # -- execution ---------------------------------------------------------------------------------------------
    def run_inproc(self, c):
        from .. import mgr_drv
        d = self.outdir()
        err, touched = mgr_drv.run_config(c, d)
        return err, touched, mgr_drv.load_results(c, d)

    def run_forked(self, c):
        """Fresh interpreter (set_start_method("fork") works once per process)."""
        from .. import mgr_drv
        d = self.outdir()
        job = os.path.join(d, "_job.json")
        with open(job, "w") as f:
            json.dump({"cfg": c, "out": d}, f)
        p = subprocess.run([PY, str(HELPER), job], cwd=d, capture_output=True, text=True, timeout=300, env=dict(os.environ))
        runf = os.path.join(d, "_run.json")
        if p.returncode != 0 or not os.path.exists(runf):
            raise RuntimeError(f"helper failed for {c}: rc={p.returncode}\n{p.stderr[-2000:]}")
        r = json.load(open(runf))
        return r["err"], r["touched"], mgr_drv.load_results(c, d)

    def solo_ref(self, mix, kind):
        k = (mix, kind)
        if k not in self.solo:
            c = {"mix": mix, "kinds": [kind], "w": 1}
            runs = []
            for _ in range(2):
                err, _, res = self.run_inproc(c)
                if err or 0 not in res:
                    raise RuntimeError(f"solo run of {kind} in mix {mix} failed: {err}")
                runs.append(res[0])
            a, b = ({x: r[x] for x in ("history", "positions", "wallet", "actions")} for r in runs)
            if a != b:
                # two solo runs in THIS (already used) process differ.  Either the harness is not deterministic (then no comparison means
                # anything), or something an earlier run left behind in the process reaches a later run.  Decide in fresh interpreters:
                fresh = []
                for _ in range(2):
                    err, _, res = self.run_forked(c)
                    if err or 0 not in res:
                        raise RuntimeError(f"solo run of {kind} in mix {mix} failed in a fresh interpreter: {err}")
                    fresh.append(res[0])
                fa, fb = ({x: r[x] for x in ("history", "positions", "wallet", "actions")} for r in fresh)
                if fa != fb:
                    raise RuntimeError(f"solo run of {kind} in mix {mix} is not reproducible: the comparison would be meaningless")
                # deterministic when run alone in a clean process: that run is the reference ("running it alone"); the runs in company are
                # compared with it below like any other
                self.info["solo_runs_differ_inside_a_used_process"] = self.info.get("solo_runs_differ_inside_a_used_process", 0) + 1
                runs = fresh
            self.solo[k] = runs[0]
        return self.solo[k]

    # -- judgement -----------------------------------------------------------------------------------------------
    def judge(self, c, path, err, touched, res, rep=0):
        chk = self.chk
        chk.traces += 1
        replay = {"kind": "manager_config", "cfg": c, "path": path}
        # observed schedule (which strategies shared a process, in which order)
        byp = {}
        for i, r in res.items():
            byp.setdefault(r["pid"], []).append((r["seq"], i + 1))
        sched = frozenset(tuple(i for _, i in sorted(v)) for v in byp.values())
        order = {i: (len(byp[r["pid"]]), sorted(byp[r["pid"]]).index((r["seq"], i + 1))) for i, r in res.items()}
        self.observed.setdefault(cfg_key(c), set()).add(sched)
        if touched:
            self.info["config_objects_touched"] += 1
        for i, kind in enumerate(c["kinds"]):
            ref = self.solo_ref(c["mix"], kind)
            pos = f"{order[i][1] + 1}of{order[i][0]}" if i in order else "norun"
            scen = f"{path}:{kind}"
            chk.count("completed")
            if i not in res:
                chk.violation(f"BacktestManager.run|completed|{scen}",
                              f"strategy {i + 1} ({kind}) of {c} ({path} path) produced no result ({err}); alone it completes",
                              {**replay, "error": err})
                continue
            chk.evaluations += 1
            diffs, info = diff_result(ref, res[i])
            for cl in ("history", "final_positions", "final_wallet"):
                chk.count(cl)
            if "actions" in info:
                self.info["actions_differ"] += 1
            for cl, text in diffs:
                chk.violation(f"BacktestManager.run|{cl}|{scen}",
                              f"strategy {i + 1} ({kind}) of {c['kinds']} mix {c['mix']} threads {c['w']} ({path} path, run {pos} "
                              f"in its process): {text}", {**replay, "schedule": sorted(sched)})
        chk.count("info/manager_returns")
        if err and all(i in res for i in range(len(c["kinds"]))):
            chk.extra.setdefault("info_manager_errors", []).append(err[:200])
        return sched


def check_dev_switches(chk: Check):
    """Non-vacuity: every deviation switch must make TLC violate C19."""
    det = {}
    for cfg, what in DEV_CFGS.items():
        r = tlc.run(SPEC, MC / cfg, chk.tmp, workers=4, timeout=300)
        det[cfg] = "C19" in r.violated
        if "C19" not in r.violated:
            raise RuntimeError(f"vacuous: {cfg} ({what}) does not violate C19")
        if cfg == "MC_Manager_dev18_worker.cfg":
            tail = r.output[r.output.rfind("ord |->"):]
            if not re.search(r"<<\d+, \d+", tail[:200]):
                raise RuntimeError("dev18_worker: the counterexample is not a worker that executed two tasks")
    # the forked path as the code passes the configuration today (pickled per task) is immune to defect #18 (info)
    r = tlc.run(SPEC, MC / "MC_Manager_dev18_forkcode.cfg", chk.tmp, workers=4, timeout=300)
    chk.extra["dev_switch_detected"] = det
    chk.extra["info_defect18_forked_path_as_coded_violates"] = "C19" in r.violated


def run(chk: Check) -> int:
    quick = chk.tier == "quick"
    check_dev_switches(chk)
    cfg = "MC_Manager_quick.cfg" if quick else "MC_Manager_thorough.cfg"
    res, g = tlc.dump_graph(SPEC, MC / cfg, chk.tmp, workers=8, timeout=900, args=("-coverage", "1"))
    chk.add_tlc(res, cfg)
    chk.spec_violation(res, cfg)
    r2 = tlc.run(SPEC, MC / "MC_Manager_inherit.cfg", chk.tmp, workers=8, timeout=900)
    chk.add_tlc(r2, "MC_Manager_inherit.cfg")
    chk.spec_violation(r2, "inherit")
    if g is None:
        raise RuntimeError("no state graph")
    configs, scheds, paths = enumerate_from_graph(g)
    for c in configs:
        if paths[cfg_key(c)] != path_of(c):
            raise RuntimeError(f"path of {c}: spec {paths[cfg_key(c)]} harness {path_of(c)}")
    seq = [c for c in configs if path_of(c) == "seq"]
    fork = [c for c in configs if path_of(c) == "fork"]
    repeats = 2 if quick else 10
    chk.exhaustive = True
    rn = Runner(chk)
    # 1. sequential path, in this process (deterministic)
    for c in seq:
        err, touched, out = rn.run_inproc(c)
        rn.judge(c, "seq", err, touched, out)
        if len(chk.samples) < 2 and len(c["kinds"]) == 3:
            chk.sample({"config": c, "path": "seq", "net_value_final": {r["sid"]: r["history"]["rows"][-1][0][1:] for r in out.values()}})
    # 2. forked path: a fresh interpreter per run, repeated (the OS picks the schedule)
    for kind_mix in sorted({(c["mix"], k) for c in fork for k in c["kinds"]}):
        rn.solo_ref(*kind_mix)
    jobs = [(c, r) for r in range(repeats) for c in fork]
    with ThreadPoolExecutor(max_workers=int(os.environ.get("VERIF_C19_PAR", "10"))) as ex:
        outs = list(ex.map(lambda j: rn.run_forked(j[0]), jobs))
    for (c, r), (err, touched, out) in zip(jobs, outs):
        sched = rn.judge(c, "fork", err, touched, out, r)
        if sched not in scheds[cfg_key(c)] and len(out) == len(c["kinds"]):
            rn.info["schedules_outside_model"] += 1
        if len(chk.samples) < 4 and len(c["kinds"]) == 3 and r == 0:
            chk.sample({"config": c, "path": "fork", "schedule": sorted(sched),
                        "net_value_final": {x["sid"]: x["history"]["rows"][-1][0][1:] for x in out.values()}})
    n_model = sum(len(scheds[cfg_key(c)]) for c in fork)
    n_seen = sum(len(rn.observed.get(cfg_key(c), set()) & scheds[cfg_key(c)]) for c in fork)
    shared = sum(1 for c in fork for s in rn.observed.get(cfg_key(c), ()) if any(len(t) > 1 for t in s))
    chk.extra.update({
        "distinct_nontrivial": len(configs),
        "configurations": {"sequential": len(seq), "forked": len(fork), "repeats_forked": repeats,
                           "solo_references": len(rn.solo)},
        "schedules": {"enumerated_by_tlc_forked": n_model, "observed_distinct_forked": n_seen,
                      "observed_with_a_worker_running_2plus_tasks": shared, **rn.info},
    })
    return chk.finish("one case = one configuration [market mix, ordered strategy kinds, threads] enumerated by TLC, run through the real "
                      "BacktestManager.run (forked ones repeated); evaluations = strategy results compared exactly with the solo run")


def replay(chk: Check, path: str) -> int:
    r = json.load(open(path))["replay"]
    if r.get("kind") == "tlc":
        res = tlc.run(SPEC, MC / ("MC_Manager_quick.cfg"), chk.tmp, workers=8, timeout=900)
        chk.add_tlc(res, "replay")
        chk.spec_violation(res, "MC_Manager_quick.cfg")
        return chk.finish("replay of the TLC run")
    c = r["cfg"]
    rn = Runner(chk)
    if r["path"] == "seq":
        err, touched, out = rn.run_inproc(c)
        rn.judge(c, "seq", err, touched, out)
    else:
        for k in sorted(set(c["kinds"])):
            rn.solo_ref(c["mix"], k)
        for i in range(10):
            err, touched, out = rn.run_forked(c)
            rn.judge(c, "fork", err, touched, out, i)
    return chk.finish("replay of one configuration")

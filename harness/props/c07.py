"""C07 - liquidity / amount math: no over-spend, maximal, one-sided out of range, exact.

Spec: spec/LiqMath.tla (protocol LiquidityAmounts with its floors, closed-form amounts, the clauses of C07 as relations),
      spec/mc/MC_LiqMath.tla (the case lattice region x range kind x decimals x amount classes, enumerated by TLC),
      spec/trace/Trace_LiqMath.tla (validates recorded instances: the code's liquidity, used amounts, closing amounts,
      amounts at a second price and for k*L, and the spec's own functions on the same inputs).
Binding: every TLC-enumerated case is instantiated several times with seeded concrete ticks / prices / amounts; the real
      get_liquidity / get_amounts / V3CoreLib.new_position / close_position and UniLpMarket.add_liquidity_by_tick /
      remove_liquidity are called and the recorded instance is validated by TLC.
"""
from __future__ import annotations

import json
import random
from concurrent.futures import ThreadPoolExecutor
from decimal import Decimal
from fractions import Fraction

from .. import tlc
from ..common import VERIF, Check, frac
from .c06 import MAX_TICK, MIN_TICK, limbs, qj

MC = VERIF / "spec" / "mc" / "MC_LiqMath.tla"
TRACE = VERIF / "spec" / "trace" / "Trace_LiqMath.tla"


def dec_amount(rnd, cls, d):
    if cls == "zero":
        return Decimal(0)
    if cls == "one_wei":
        return Decimal(1).scaleb(-d)
    if cls == "typical":
        digits = rnd.randint(0, min(d, 8))
        a = (Decimal(rnd.randint(1, 10 ** 7)) / Decimal(10 ** 3)).quantize(Decimal(1).scaleb(-digits)) + Decimal(1).scaleb(-d) * rnd.randint(0, 9)
        if rnd.random() < 0.35:      # more digits than the token has: a fraction of an atomic unit (0.1 .. 0.9 wei) is offered on top
            a += Decimal(1).scaleb(-d - 1) * rnd.randint(1, 9)
        return a
    return Decimal(rnd.randint(10 ** 11, 10 ** 12))          # huge: 1e11 .. 1e12 tokens


def instantiate(rnd, c):
    """concrete (sp, tA, tB, s) for an abstract case; None if the combination does not exist."""
    from demeter.uniswap.liquitidy_math import get_sqrt_ratio_at_tick as S
    sp = rnd.choice([1, 10, 60, 200])
    lo_ok, hi_ok = -(-MIN_TICK // sp) * sp, (MAX_TICK // sp) * sp
    kind = c["range"]
    if kind == "touch_min":
        tA, tB = lo_ok, lo_ok + sp * rnd.randint(1, 5000)
    elif kind == "touch_max":
        tB = hi_ok
        tA = tB - sp * rnd.randint(1, 5000)
    elif kind == "zero_bound":          # tick 0 (sqrt price exactly 2^96) is one of the bounds
        w = min(rnd.choice([1, 1, rnd.randint(2, 20), rnd.randint(100, 5000)]) * sp, hi_ok)
        tA, tB = (0, w) if rnd.random() < 0.5 else (-w, 0)
    else:
        centre = rnd.randint(-300000 // sp, 300000 // sp) * sp
        w = {"narrow": rnd.randint(1, 5), "single_spacing": 1, "wide": rnd.randint(5000 // sp + 1, 200000 // sp)}[kind]
        tA, tB = centre, centre + w * sp
    sA, sB = S(tA), S(tB)
    reg = c["region"]
    if reg == "below":
        if tA <= MIN_TICK + 1:
            return None
        s = S(rnd.randint(max(MIN_TICK, tA - 200000), tA - 1)) + rnd.randint(0, 5)
        s = min(s, sA - 1)
    elif reg == "at_lower":
        s = sA
    elif reg == "inside":
        if sB - sA < 2:
            return None
        s = rnd.choice([sA + 1, sB - 1, rnd.randint(sA + 1, sB - 1), rnd.randint(sA + 1, sB - 1)])
    elif reg == "at_upper":
        s = sB
    else:
        if tB >= MAX_TICK - 1:
            return None
        s = max(S(rnd.randint(tB + 1, min(MAX_TICK, tB + 200000))) - rnd.randint(0, 5), sB + 1)
    return sp, tA, tB, s


def record(rnd, c, inst, through_market, desc=None):
    from demeter import TokenInfo
    from demeter.uniswap import PositionInfo, UniV3Pool, V3CoreLib
    from demeter.uniswap.liquitidy_math import get_amounts, get_sqrt_ratio_at_tick as S
    sp, tA, tB, s = inst
    d0, d1 = c["d0"], c["d1"]
    t0, t1 = TokenInfo("tka", d0), TokenInfo("tkb", d1)
    fee = {1: 0.005, 10: 0.05, 60: 0.3, 200: 1}[sp]
    zq = rnd.random() < 0.5
    pool = UniV3Pool(t0, t1, fee, t0 if zq else t1)
    amt0, amt1 = dec_amount(rnd, c["c0"], d0), dec_amount(rnd, c["c1"], d1)
    # "all tick pairs": the library functions take the two bounds in either order (the market orders them itself)
    if desc is None:
        desc = (not through_market) and rnd.random() < 0.4
    pA, pB = (tB, tA) if desc else (tA, tB)
    if through_market:
        from demeter import Broker, MarketInfo
        from demeter.uniswap import UniLpMarket
        br = Broker()
        m = UniLpMarket(MarketInfo("u"), pool)
        br.add_market(m)
        br.set_balance(t0, amt0 * 2 + 1)
        br.set_balance(t1, amt1 * 2 + 1)
        base_max, quote_max = (amt1, amt0) if zq else (amt0, amt1)
        kw = {"sqrt_price_x96": s}
        if through_market == "status":
            # "withdrawing at the deposit price": add and remove under ONE unchanged market status, the price taken from the status
            # by both calls (no explicit sqrt price).  The status' closeTick deliberately disagrees with its price (in recorded data
            # `price` is the previous bar's close and `closeTick` this bar's).
            import pandas as pd
            from demeter.uniswap import UniswapMarketStatus
            from demeter.uniswap.helper import base_unit_price_to_sqrt_price_x96, sqrt_price_x96_to_base_unit_price, sqrt_price_x96_to_tick
            price = sqrt_price_x96_to_base_unit_price(s, d0, d1, zq)
            s = int(base_unit_price_to_sqrt_price_x96(price, d0, d1, zq))         # the sqrt price both calls derive from the status
            other = sqrt_price_x96_to_tick(s) + rnd.choice([-977, -61, 3, 40, 1203])
            other = max(MIN_TICK, min(MAX_TICK, other))
            m.set_market_status(UniswapMarketStatus(timestamp=None, data=pd.Series(
                data=[10 ** 18, 10 ** 10, 10 ** 20, other, price],
                index=["inAmount0", "inAmount1", "currentLiquidity", "closeTick", "price"])), price=None)
            kw = {}
        pos, base_used, quote_used, L = m.add_liquidity_by_tick(tA, tB, base_max, quote_max, trim_tick=False, **kw)
        u0, u1 = (quote_used, base_used) if zq else (base_used, quote_used)
        spent0 = amt0 * 2 + 1 - br.get_token_balance(t0)
        spent1 = amt1 * 2 + 1 - br.get_token_balance(t1)
        tol0, tol1 = (amt0 * 2 + 1) * Decimal("1e-30"), (amt1 * 2 + 1) * Decimal("1e-30")   # wallet arithmetic has 35 digits
        if abs(spent0 - u0) > tol0 or abs(spent1 - u1) > tol1:
            return {"_direct": f"wallet debited ({spent0}, {spent1}) but add_liquidity_by_tick reports ({u0}, {u1})"}
        if L > 0:
            base_get, quote_get = m.remove_liquidity(pos, **kw)
            c0, c1 = (quote_get, base_get) if zq else (base_get, quote_get)
        else:
            c0, c1 = Decimal(0), Decimal(0)
    else:
        u0, u1, L, pos = V3CoreLib.new_position(pool, amt0, amt1, pA, pB, s)
        c0, c1 = V3CoreLib.close_position(pool, PositionInfo(pA, pB), L, s)
    hi = min(S(MAX_TICK), s + rnd.choice([0, 1, rnd.randint(1, max(2, s // 50)), s]))
    a2 = get_amounts(hi, pA, pB, L, d0, d1)
    k = rnd.choice([2, 3, 7])
    ak = get_amounts(s, pA, pB, k * L, d0, d1)
    return {"s": limbs(s), "tA": tA, "tB": tB, "d0": d0, "d1": d1, "amt0": qj(frac(amt0)), "amt1": qj(frac(amt1)), "L": limbs(L),
            "used": [qj(frac(Decimal(u0))), qj(frac(Decimal(u1)))], "closed": [qj(frac(Decimal(c0))), qj(frac(Decimal(c1)))],
            "s2": limbs(hi), "amts2": [qj(frac(Decimal(a2[0]))), qj(frac(Decimal(a2[1])))], "k": k,
            "amtsK": [qj(frac(Decimal(ak[0]))), qj(frac(Decimal(ak[1])))],
            "_case": c, "_via": ("market_status" if through_market == "status" else "market") if through_market else "core", "_zq": zq, "_sp": sp, "_desc": bool(desc),
            "_in": {"amt0": str(amt0), "amt1": str(amt1), "s": str(s)}}


def validate(chk: Check, events):
    chunks = [events[i::16] for i in range(16) if events[i::16]]

    def one(ic):
        i, ev = ic
        f = chk.tmp / f"liq_{i}.ndjson"
        with open(f, "w") as fh:
            for e in ev:
                fh.write(json.dumps({k: v for k, v in e.items() if not k.startswith("_")}) + "\n")
        r = tlc.run(TRACE, TRACE.with_suffix(".cfg"), chk.tmp, workers=1, env={"VERIF_TRACE": str(f)}, timeout=1500, jvm=("-Xmx3g",))
        n, failures, same = tlc.printed_n(r.output, "liqmath_verdict", 3)
        if n != len(ev):
            raise RuntimeError(f"chunk {i}: {n} of {len(ev)} events validated")
        return ev, failures, same
    with ThreadPoolExecutor(16) as ex:
        for ev, failures, same in ex.map(one, list(enumerate(chunks))):
            chk.traces += 1
            chk.evaluations += len(ev)
            chk.transitions += len(ev)
            chk.count("instances", len(ev))
            chk.count("info/liquidity_equals_protocol_formula", same)
            for idx, clause in sorted(failures):
                e = ev[idx - 1]
                c = e["_case"]
                chk.violation(f"{e['_via']}|{clause}|{c['region']}",
                              f"{e['_via']} instance region={c['region']} range={c['range']} ticks [{e['tA']},{e['tB']}]{' (passed upper bound first)' if e.get('_desc') else ''} decimals ({e['d0']},{e['d1']}) "
                              f"offered {e['_in']['amt0']}/{e['_in']['amt1']} at sqrtX96 {e['_in']['s']}: violates {clause}",
                              {"kind": "liq_instance", "event": e})
    for cl in ("no_overspend", "maximal_up_to_rounding", "one_sided_by_region", "non_negative", "closed_form_1e-30",
               "monotone_in_price", "proportional_to_liquidity", "round_trip_exact", "spec_selfcheck"):
        chk.count(cl, len(events))


def run(chk: Check) -> int:
    quick = chk.tier == "quick"
    rnd = random.Random(chk.seed)
    res, g = tlc.dump_graph(MC, MC.parent / ("MC_LiqMath_quick.cfg" if quick else "MC_LiqMath_thorough.cfg"), chk.tmp, workers=4)
    chk.add_tlc(res, "case lattice")
    cases = sorted((s["c"] for s in g.nodes.values()), key=lambda c: json.dumps(c, sort_keys=True))
    per = 3 if quick else 12
    events, skipped = [], 0
    for c in cases:
        for j in range(per):
            inst = instantiate(rnd, c)
            if inst is None:
                skipped += 1
                continue
            try:
                via = False
                if j % 3 == 2:
                    # every other market-level instance goes through the market status (prices the Decimal helpers can represent)
                    via = "status" if (j // 3 + len(events)) % 2 == 0 and abs(inst[1]) < 600000 and abs(inst[2]) < 600000 \
                        and c["region"] in ("inside", "at_lower", "at_upper") else True
                e = record(rnd, c, inst, through_market=via)
            except Exception as ex:
                chk.violation(f"call|raises|{c['region']}", f"case {c} instance {inst}: {type(ex).__name__}: {ex}",
                              {"kind": "liq_case", "case": c, "inst": [str(x) for x in inst]})
                continue
            if "_direct" in e:
                chk.violation(f"market|used_equals_debit|{c['region']}", e["_direct"], {"kind": "liq_case", "case": c})
                continue
            events.append(e)
    chk.extra["cases"] = len(cases)
    chk.extra["instances_skipped_nonexistent"] = skipped
    validate(chk, events)
    chk.exhaustive = False
    chk.extra["distinct_nontrivial"] = len({json.dumps(e["_case"], sort_keys=True) for e in events if e["L"]})
    chk.sample({k: v for k, v in events[0].items() if k in ("_case", "_in", "tA", "tB", "_via")})
    chk.sample({k: v for k, v in events[len(events) // 2].items() if k in ("_case", "_in", "tA", "tB", "_via")})
    chk.assumptions += ["Java overrides of Num/TickMath (checked against the TLA+ definitions at setup)",
                        "instances are seeded samples of the TLC-enumerated case lattice, not all inputs"]
    return chk.finish("TLC enumerates the case lattice (region x range kind x decimals^2 x amount class^2); each case is instantiated "
                      f"{per}x with seeded ticks/prices/amounts (one third through UniLpMarket); non-trivial = cases whose liquidity is non-zero")


def replay(chk: Check, path: str) -> int:
    rep = json.load(open(path))["replay"]
    rnd = random.Random(0)
    if rep["kind"] != "liq_instance":
        raise RuntimeError("only liq_instance replays can be re-run")
    e0 = rep["event"]
    from ..common import limbs_to_int
    inst = (e0["_sp"], e0["tA"], e0["tB"], limbs_to_int(e0["s"]))

    class Fixed(random.Random):
        pass
    # re-run the same instance with the same offered amounts through the same entry point
    import harness.props.c07 as me
    amts = [Decimal(e0["_in"]["amt0"]), Decimal(e0["_in"]["amt1"])]
    orig = me.dec_amount
    it = iter(amts)
    me.dec_amount = lambda r, cls, d: next(it)
    try:
        e = record(rnd, e0["_case"], inst, e0["_via"] == "market", desc=bool(e0.get("_desc")))
    finally:
        me.dec_amount = orig
    validate(chk, [e])
    chk.sample(e["_in"])
    return chk.finish("replay of one recorded instance")

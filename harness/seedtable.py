"""python -m harness.seedtable : markdown table of /verif/seeded/*/meta.json (for DESIGN.md section 12)."""
import glob
import json
import re


def first_line(text, n=230):
    text = re.sub(r"\s+", " ", text or "").strip()
    return text[:n] + ("..." if len(text) > n else "")


def main():
    rows = []
    for f in sorted(glob.glob("/verif/seeded/*/meta.json")):
        m = json.load(open(f))
        files = ", ".join(sorted({x.split("|")[0].strip() for x in m.get("files_changed", [])}))
        notes = m.get("needs_to_manifest", "")
        mm = re.search(r"(?:Needs?(?: to manifest| it needs| What it needs)?|Needed to manifest|What it needs)[^\n:]*:\**\s*(.+?)(?:\n\s*\n|\n- \*\*|\n\*\*|$)", notes, re.S | re.I)
        need = first_line(mm.group(1) if mm else notes.split("\n", 2)[-1], 260)
        det = m.get("detected_by") or []
        chk = "; ".join(f"{k}: {'VIOLATION x' + str(v['violations']) if v['exit'] == 1 else 'passes' if v['exit'] == 0 else 'machinery failure'}"
                        for k, v in m.get("checks", {}).items())
        rows.append(f"| {m['name']} | {m['property']} | {files} | {need} | {'yes' if m.get('confirmed') else 'NO'} | {chk} |")
    print("| seed | property | file(s) | needs, to manifest | confirmed (tests pass, demo fails only with the change) | checks run against it |")
    print("|---|---|---|---|---|---|")
    print("\n".join(rows))


if __name__ == "__main__":
    main()

"""Helpers to drive the real demeter classes: a trivial market, recording strategy, actuator builder."""
from __future__ import annotations

from datetime import datetime, timedelta
from decimal import Decimal

import pandas as pd

from .common import use_repo

use_repo()
import logging  # noqa: E402

import demeter  # noqa: E402
from demeter import Actuator, MarketInfo, Strategy, TokenInfo  # noqa: E402
from demeter.broker import Market, MarketBalance, MarketStatus  # noqa: E402

logging.disable(logging.CRITICAL)
try:  # silence the progress bar
    import demeter.core.actuator as _act
    from tqdm import tqdm as _tqdm

    class _QuietTqdm(_tqdm):
        def __init__(self, *a, **k):
            k["disable"] = True
            super().__init__(*a, **k)

    _act.tqdm = _QuietTqdm
except Exception:  # pragma: no cover
    pass

BASE = datetime(2023, 5, 1)
USDC = TokenInfo(name="usdc", decimal=6)
WETH = TokenInfo(name="weth", decimal=18)


def minute(m: int) -> datetime:
    return BASE + timedelta(minutes=int(m))


def to_min(ts) -> int:
    if hasattr(ts, "to_pydatetime"):
        ts = ts.to_pydatetime()
    return int((ts - BASE).total_seconds() // 60)


class NullMarket(Market):
    """A market without positions: lets the real Actuator bar loop run over a plain time index."""

    def __init__(self, info: MarketInfo, data: pd.DataFrame):
        super().__init__(info, data)

    def check_market(self):
        super().check_market()

    def update(self):
        pass

    def set_market_status(self, data: MarketStatus, price: pd.Series):
        super().set_market_status(data, price)
        if data.data is None:
            data.data = self._data.loc[data.timestamp] if data.timestamp in self._data.index else pd.Series()
        self._market_status = data

    def get_market_balance(self) -> MarketBalance:
        return MarketBalance(Decimal(0))

    @property
    def description(self):
        return None

    def formatted_str(self):
        return "null"

    def _resample(self, freq: str):
        self._data = self._data.resample(freq).first()


def minute_index(start_min: int, n_min: int) -> pd.DatetimeIndex:
    return pd.date_range(minute(start_min), periods=n_min, freq="1min")


def null_actuator(start_min: int, n_min: int, interval: int = 1, name="nm"):
    idx = minute_index(start_min, n_min)
    df = pd.DataFrame(index=idx, data={"v": range(len(idx))})
    act = Actuator()
    m = NullMarket(MarketInfo(name), df)
    act.broker.add_market(m)
    act.set_price(pd.DataFrame(index=idx, data={"USDC": [Decimal(1)] * len(idx)}), USDC)
    act.broker.set_balance(USDC, Decimal(1000))
    if interval != 1:
        act.interval = f"{interval}min"
    return act, m

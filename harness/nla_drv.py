"""Real-code side of C02 (no look-ahead, inputs intact, rerun): build every market type from a history of row symbols,
run the REAL Actuator with scripted, data-dependent strategies and canonicalise what the property names as observable.

A history is a sequence of BAR symbols; bar symbol s of a run with resampling factor F stands for F RAW rows
(`pattern(s, F)`, the same table as NoLookahead!Pattern).  `frames(kind, raw, tmp)` builds the frames the user would supply
(market data per market + the price frame) with the builders of the other harness modules:
  uni      harness/uni_drv.Pool.frame         raw pool columns -> the repo's own _add_statistic_column (shift(1) in the loop)
  aave     harness/aave_drv.Universe          risk-parameter csv + one status row / price row per symbol
  squeeth  harness/props/c14.build_actuator   oSQTH/WETH pool frame, squeeth frame (norm factor, WETH, OSQTH), price frame
  deribit  harness/deribit_util.book_frame    one order book per hour
  gmx1     harness/props/c17.v1_frame         pool rows through the csv reader of demeter/gmx/helper.py
  gmx2     harness/props/c17.v2_frame         pool rows through the csv reader of demeter/gmx/helper2.py
`actuator(kind, F, fr)` wraps the SAME frame objects into fresh markets / a fresh account (that is what a rerun is).
"""
from __future__ import annotations

import atexit
import hashlib
import json
import math
import os
from decimal import Decimal
from fractions import Fraction
from pathlib import Path

import pandas as pd

from . import sim  # noqa: F401  (sys.path -> repo under test, logging / tqdm silenced)
from .common import int_to_limbs

KINDS = ("uni", "aave", "squeeth", "deribit", "gmx1", "gmx2", "mix")
MIX_BLOCK = 20      # one bar symbol of kind "mix" = a block of 20 one-minute bars (no resampling)
HOOKS = ("bb", "ob", "ab")
D = Decimal
UNI_RAW = ["netAmount0", "netAmount1", "closeTick", "openTick", "lowestTick", "highestTick", "inAmount0", "inAmount1",
           "currentLiquidity"]


def period_min(kind: str) -> int:
    return 60 if kind == "deribit" else 1


def interval_of(kind: str, F: int) -> str:
    return "1min" if kind == "mix" else f"{F * period_min(kind)}min"


def pattern(s: int, F: int, kind: str = ""):
    """NoLookahead!Pattern: the raw symbols of one bar."""
    if kind == "mix":
        return (s,) * MIX_BLOCK        # a block of equal one-minute rows (the model's unit)
    if F == 1:
        return (s,)
    if s == 2:
        return (2,) + (1,) * (F - 1)      # first raw row differs
    if s == 3:
        return (1,) * (F - 1) + (3,)      # last raw row differs
    if s == 4:
        mid = (F + 1) // 2
        return tuple(2 if j == mid else 1 for j in range(1, F + 1))
    return (1,) * F


def raw_of(hist, F: int, kind: str = ""):
    out = []
    for s in hist:
        out.extend(pattern(s, F, kind))
    return out


def script_ops(script: int, bar: int, nbars: int):
    """NoLookahead!Script: [(hook, op)] the strategy executes at `bar`."""
    if script == 1:
        return [("ob", "open")] if bar == 0 else []
    if script == 2:
        return [("ob", "open")] if bar == 0 else [("ob", "adjust")]
    if script == 3:
        out = []
        if bar == 1:
            out.append(("bb", "open"))
        if bar == 2:
            out.append(("ab", "adjust"))
        if bar == nbars - 1 and bar >= 2:
            out.append(("ob", "close"))
        return out
    raise ValueError(script)


# ------------------------------------------------------------------------------------------------------------------
# canonical form / digests
# ------------------------------------------------------------------------------------------------------------------
def canon(v):
    """JSON-able, exact, order-preserving canonical form of whatever the code hands out."""
    import dataclasses
    import datetime as _dt
    import enum

    import numpy as np
    if v is None or isinstance(v, (bool, str)):
        return v
    if isinstance(v, Decimal):
        return "D" + (str(v.normalize()) if v.is_finite() else str(v))
    if isinstance(v, (int, np.integer)):
        return int(v)
    if isinstance(v, (float, np.floating)):
        return "F" + ("nan" if math.isnan(v) else repr(float(v)))
    if isinstance(v, Fraction):
        return "Q" + str(v)
    if isinstance(v, pd.Timestamp):
        return "T" + ("NaT" if pd.isna(v) else v.isoformat())
    if isinstance(v, (_dt.datetime, _dt.date)):
        return "T" + v.isoformat()
    if isinstance(v, (pd.Timedelta, _dt.timedelta)):
        return "d" + str(v)
    if isinstance(v, enum.Enum):
        return "E" + v.name
    if isinstance(v, pd.Series):
        return {"S": [[canon(k), canon(x)] for k, x in zip(v.index.tolist(), v.tolist())], "n": canon(v.name)}
    if isinstance(v, pd.DataFrame):
        return {"cols": [canon(c) for c in v.columns.tolist()], "idx": [canon(i) for i in v.index.tolist()],
                "rows": [[canon(x) for x in row] for row in v.itertuples(index=False, name=None)]}
    if isinstance(v, dict):
        return {"dict": [[canon(k), canon(x)] for k, x in v.items()]}
    if isinstance(v, (list, tuple)):
        return [canon(x) for x in v]
    if isinstance(v, np.ndarray):
        return [canon(x) for x in v.tolist()]
    if dataclasses.is_dataclass(v) and not isinstance(v, type):
        return {"cls": type(v).__name__, "f": [[f.name, canon(getattr(v, f.name))] for f in dataclasses.fields(v)]}
    if hasattr(v, "items") and hasattr(v, "keys"):  # MarketDict / AssetDict
        return {"dict": [[canon(k), canon(x)] for k, x in v.items()]}
    if type(v).__name__ in ("TokenInfo", "MarketInfo", "PositionInfo", "VaultKey"):
        return "K" + str(v)
    if v is pd.NaT or (not isinstance(v, (list, tuple)) and pd.isna(v) is True):
        return "NA"
    if hasattr(v, "__dict__"):
        return {"cls": type(v).__name__, "f": [[k, canon(x)] for k, x in sorted(vars(v).items())]}
    return "R" + repr(v)


def digest(v) -> str:
    return hashlib.sha1(json.dumps(v, sort_keys=False, separators=(",", ":")).encode()).hexdigest()[:20]


def frame_digest(df) -> str:
    """deep digest of a frame: index, columns, every cell (list cells included)."""
    return digest(canon(df))


def row_digests(df):
    """[(level-0 timestamp, digest of the row(s) at that timestamp)] in frame order."""
    out = []
    ts0 = df.index.get_level_values(0)
    cols = [canon(c) for c in df.columns.tolist()]
    cur, buf = None, []
    for t, idx, row in zip(ts0, df.index.tolist(), df.itertuples(index=False, name=None)):
        if cur is not None and t != cur:
            out.append((cur, digest([cols, buf])))
            buf = []
        cur = t
        buf.append([canon(idx), [canon(x) for x in row]])
    if cur is not None:
        out.append((cur, digest([cols, buf])))
    return out


# ------------------------------------------------------------------------------------------------------------------
# universes (row symbol -> market data), one per market type
# ------------------------------------------------------------------------------------------------------------------
_CACHE = {}


def _uni_pool():
    if "uni" not in _CACHE:
        from . import uni_drv
        p = {"d0": 6, "d1": 18, "zq": True, "sp": 10, "fee": (1, (5,), (0, 1))}   # USDC/ETH 0.05 %, USDC is the quote token
        L = int_to_limbs
        # symbol: close tick (~2000 / ~2200 / ~1800 USDC per ETH), pool liquidity, minute volumes
        rows = [dict(open=200310, close=200310, liq=L(10 ** 18), in0=L(3 * 10 ** 9), in1=L(10 ** 18)),
                dict(open=199360, close=199360, liq=L(2 * 10 ** 18), in0=L(10 ** 9), in1=L(2 * 10 ** 18)),
                dict(open=201360, close=201360, liq=L(5 * 10 ** 17), in0=L(5 * 10 ** 9), in1=L(3 * 10 ** 18)),
                dict(open=200310, close=199860, liq=L(10 ** 18), in0=L(7 * 10 ** 9), in1=L(10 ** 17))]
        _CACHE["uni"] = uni_drv.Pool(p, rows, (Fraction(10000), Fraction(5)), "A")
    return _CACHE["uni"]


def _aave_universe():
    if "aave" not in _CACHE:
        from . import aave_drv
        F_ = Fraction
        u = {"tokens": ["WETH", "USDT"],
             "risk": {"WETH": {"ltv": F_("0.8"), "lt": F_("0.825"), "bonus": F_("0.05"), "canColl": True, "canBorrow": True},
                      "USDT": {"ltv": F_("0.75"), "lt": F_("0.8"), "bonus": F_("0.045"), "canColl": True, "canBorrow": True}},
             "rows": [{"px": {"WETH": "2000", "USDT": "1"}, "li": {"WETH": "1.01", "USDT": "1.001"}, "bi": {"WETH": "1.02", "USDT": "1.002"}},
                      {"px": {"WETH": "2200", "USDT": "1.001"}, "li": {"WETH": "1.02", "USDT": "1.002"}, "bi": {"WETH": "1.04", "USDT": "1.004"}},
                      {"px": {"WETH": "1500", "USDT": "0.999"}, "li": {"WETH": "1.015", "USDT": "1.003"}, "bi": {"WETH": "1.03", "USDT": "1.01"}},
                      {"px": {"WETH": "1900", "USDT": "1"}, "li": {"WETH": "1.03", "USDT": "1.004"}, "bi": {"WETH": "1.05", "USDT": "1.012"}}],
             "w0": {"WETH": "10", "USDT": "1000"}}
        uni = aave_drv.Universe(u)
        atexit.register(uni.close)
        _CACHE["aave"] = uni
    return _CACHE["aave"]


DERIBIT_INFO = {"C": {"kind": "C", "K": 2000, "exp": 120}, "P": {"kind": "P", "K": 2000, "exp": 10 ** 6}}


def _lv(*pairs):
    return [{"p": Fraction(p), "s": Fraction(s)} for p, s in pairs]


DERIBIT_BOOKS = [
    {"C": {"listed": True, "und": Fraction(2000), "mark": Fraction("0.05"), "asks": _lv(("0.052", 10), ("0.055", 20)), "bids": _lv(("0.048", 10), ("0.045", 20))},
     "P": {"listed": True, "und": Fraction(2000), "mark": Fraction("0.04"), "asks": _lv(("0.042", 8), ("0.05", 30)), "bids": _lv(("0.038", 12))}},
    {"C": {"listed": True, "und": Fraction(2300), "mark": Fraction("0.15"), "asks": _lv(("0.155", 4), ("0.16", 40)), "bids": _lv(("0.145", 6), ("0.14", 9))},
     "P": {"listed": True, "und": Fraction(2300), "mark": Fraction("0.01"), "asks": _lv(("0.012", 20)), "bids": _lv(("0.008", 3), ("0.005", 50))}},
    {"C": {"listed": True, "und": Fraction(1700), "mark": Fraction("0.01"), "asks": _lv(("0.011", 30)), "bids": _lv(("0.009", 2), ("0.006", 50))},
     "P": {"listed": True, "und": Fraction(1700), "mark": Fraction("0.18"), "asks": _lv(("0.185", 6), ("0.19", 10)), "bids": _lv(("0.175", 10), ("0.17", 4))}},
    {"C": {"listed": True, "und": Fraction(2100), "mark": Fraction("0.07"), "asks": _lv(("0.072", 14)), "bids": _lv(("0.068", 7))},
     "P": {"listed": True, "und": Fraction(2100), "mark": Fraction("0.02"), "asks": _lv(("0.022", 9)), "bids": _lv(("0.018", 9))}},
]


def _tf(a, b, c, d):
    return {"weth": a, "usdc": b, "wavax": c, "mim": d}


E18, E30 = 10 ** 18, 10 ** 30
_W1, _W2 = _tf(20000, 46000, 10000, 0), _tf(20000, 50000, 10000, 0)
_P1 = _tf(Fraction(2629059 * 10 ** 27), Fraction(E30), Fraction(2907 * 10 ** 28), Fraction(998 * 10 ** 27))
_P2 = _tf(Fraction(1823594465 * 10 ** 24), Fraction(9998 * 10 ** 26), Fraction(41235 * 10 ** 27), Fraction(E30))
_P3 = _tf(Fraction(3100 * E30), Fraction(E30), Fraction(25 * E30), Fraction(E30))


def _g1(glp, aum, usdg, w, p, tu, iv, gp):
    return {"glp": Fraction(glp), "aum": Fraction(aum), "usdg": Fraction(usdg), "weight": w, "price": p,
            "tusdg": {t: Fraction(x) for t, x in tu.items()}, "interval": Fraction(iv), "glpPrice": Fraction(gp)}


GMX1_ROWS = [  # modelled on MC_GmxV1!RowDef 11, 6, 8 (glp_price consistent with aum / supply where it matters for nothing here)
    _g1(2000000 * E18, 19 * 10 ** 35, 2000000 * E18, _W1, _P1, _tf(157894 * E18, 1500000 * E18, 50 * E18, 1000 * E18), 789480314626619, "0.95"),
    _g1(2224000 * E18, 304711827 * 10 ** 28 + 123456789, 2000000 * E18 + 777, _W1, _P2,
        _tf(400000 * E18 + 12345, 1210526 * E18, 263157 * E18, 1 * E18), 12 * 10 ** 14, "1.3701"),
    _g1(1000000 * E18, 3 * 10 ** 36, 2500000 * E18, _W2, _P3, _tf(625000 * E18, 1562499 * E18, 312501 * E18, 0), 5 * 10 ** 14, "3"),
    _g1(2224000 * E18, 21 * 10 ** 35, 2000000 * E18, _W1, _P1, _tf(500000 * E18, 1100000 * E18, 263000 * E18, 0), 789480314626619, "0.9440389845893614"),
]


def _g2(la, sa, lp, sp, pv, sup, ip, vl, vs, has_v):
    F_ = Fraction
    return {"la": F_(la), "sa": F_(sa), "lp": F_(lp), "sp": F_(sp), "pv": F_(pv), "sup": F_(sup), "ip": F_(ip), "vl": F_(vl), "vs": F_(vs),
            "hasV": has_v}


GMX2_ROWS = [  # modelled on MC_GmxV2!Base 1, 3, 4
    _g2(9000, 30461265, "3384.585", 1, 63604493, "36374966.2", "0.001", 9100, 30461265, True),
    _g2(12000, 30000000, "3600", "0.99996", 73200000, 40000000, "0.1", 14000, 30000000, True),
    _g2(6000, "32754376.5", "3100", "0.99996", 51354376, 50000000, 50, 6000, 40754376, False),
    _g2(9000, 30464265, "3384.585", 1, 63604493, "36374966.2", 0, 9000, 31464265, True),
]


def _tmpdir(tmp) -> Path:
    p = Path(tmp) / f"nla_{os.getpid()}"
    p.mkdir(parents=True, exist_ok=True)
    return p


# ------------------------------------------------------------------------------------------------------------------
# frames: what the user supplies (name -> DataFrame, in broker order) + the price frame under "prices"
# ------------------------------------------------------------------------------------------------------------------
def frames(kind: str, raw, tmp):
    """-> (frames dict, raw dict).  `raw` names the part of the inputs whose prefixes define "agree on bars 0..k"."""
    n = len(raw)
    if kind == "uni":
        from demeter.uniswap.helper import get_price_from_data
        pool = _uni_pool()
        df = pool.frame(list(raw))
        prices, _quote = get_price_from_data(df, pool.pool)
        # a token that is quoted only from the third bar on (listed during the run): its earlier prices are unknown (NaN) and must stay
        # unknown, whatever it is quoted at later
        prices = prices.copy()
        prices["ARB"] = [D("NaN") if j < 2 else D(int(sym)) + D("0.25") for j, sym in enumerate(raw)]
        fr = {"uni": df, "prices": prices}
        return fr, {"uni": df[UNI_RAW]}
    if kind == "aave":
        u = _aave_universe()
        idx = pd.date_range(sim.minute(0), periods=n, freq="1min")
        st = _CACHE.setdefault("aave_status", {})
        for s in set(raw):
            if s not in st:
                st[s] = u.status(s)
        data = pd.DataFrame([st[s][0].data for s in raw], index=idx)
        prices = pd.DataFrame([st[s][1] for s in raw], index=idx)
        fr = {"aave": data, "prices": prices}
        for t in sorted(set(data.columns.get_level_values(0))):        # the per-token frames a user hands to set_token_data (cells Decimal)
            fr["aave:" + t] = data[t].copy()
        return fr, {"aave": data, "prices": prices}
    if kind == "squeeth":
        from .props import c14
        act, um, sm = c14.build_actuator(list(raw), 0)
        fr = {"Uni": um.data, "Squeeth": sm.data, "prices": act.token_prices.drop(columns=["USD"])}
        return fr, dict(fr)
    if kind == "deribit":
        from .deribit_util import book_frame, ts_of
        # staggered listing: an instrument whose name sorts before the others appears in the book from the third hour on (a frame
        # that is re-ordered by instrument, as a resampled one is, then no longer starts with the earliest timestamp)
        books = [book_frame(DERIBIT_BOOKS[s - 1], DERIBIT_INFO, extra_rows=[("A-LATE", DERIBIT_BOOKS[s - 1]["C"]["und"])] if j >= 2 else ())
                 for j, s in enumerate(raw)]
        keys = [ts_of(60 * j) for j in range(n)]
        data = pd.concat(books, keys=keys, names=["time", "instrument_name"])
        prices = pd.DataFrame(index=pd.DatetimeIndex(keys), data={"ETH": [D(int(DERIBIT_BOOKS[s - 1]["C"]["und"])) for s in raw]})
        fr = {"opt": data, "prices": prices}
        return fr, dict(fr)
    if kind == "gmx1":
        from demeter.gmx.helper import get_price_from_data
        from .props import c17
        df = c17.v1_frame({j: GMX1_ROWS[s - 1] for j, s in enumerate(raw)}, _tmpdir(tmp))
        fr = {"gmx": df, "prices": get_price_from_data(df)}
        return fr, {"gmx": df}
    if kind == "mix":
        from demeter.uniswap.helper import get_price_from_data
        from .deribit_util import book_frame
        pool = _uni_pool()
        df = pool.frame(list(raw))
        prices, _quote = get_price_from_data(df, pool.pool)
        hours = list(range(0, n, 60))
        books = [book_frame(DERIBIT_BOOKS[raw[h] - 1], {k: {**v, "exp": 10 ** 6} for k, v in DERIBIT_INFO.items()}) for h in hours]
        data = pd.concat(books, keys=[sim.minute(h) for h in hours], names=["time", "instrument_name"])
        fr = {"uni": df, "opt": data, "prices": prices}
        return fr, {"uni": df[UNI_RAW], "opt": data}
    if kind == "gmx2":
        from demeter.gmx.helper2 import get_price_from_v2_data
        from .props import c17
        df = c17.v2_frame({j: GMX2_ROWS[s - 1] for j, s in enumerate(raw)}, _tmpdir(tmp))
        fr = {"gm": df, "prices": get_price_from_v2_data(df, _gmx2_pool())}
        return fr, {"gm": df}
    raise ValueError(kind)


def _gmx2_pool():
    from demeter import TokenInfo
    from demeter.gmx import GmxV2Pool
    weth, usdc = TokenInfo(name="weth", decimal=18), TokenInfo(name="usdc", decimal=6)
    return GmxV2Pool(weth, usdc, weth)


# ------------------------------------------------------------------------------------------------------------------
# a fresh account + fresh markets around given frames, and the data-dependent operations of the scripts
# ------------------------------------------------------------------------------------------------------------------
class World:
    """act, markets (name -> market), do(op, snapshot): executes one scripted operation, never raises."""

    def __init__(self, kind, act, markets):
        self.kind, self.act, self.markets = kind, act, markets
        self.outcomes = []
        self.mem = {}

    def init_ops(self):
        if self.kind in ("deribit", "mix"):
            self.markets["opt"].deposit(D(10))

    # -- mix: the minutely pool and the hourly option market in one account -----------------------------------------
    def _mix_open(self, s):
        m = self.markets["uni"]
        pr = m.market_status.data.price
        m.add_liquidity(pr * D("0.9"), pr * D("1.1"), D(4000), D(2))        # part of the wallet only
        self._deribit_open(s)

    def _mix_adjust(self, s):
        opt = self.markets["opt"]
        # cash may move on every bar (deposit / withdraw are not gated by the hourly market); the amount depends on the bar's data
        opt.deposit(D("0.1") + (D(s.prices["ETH"]) / D(100000)).quantize(D("0.0001")))
        if opt.is_open:
            self._deribit_adjust(s)
        self._uni_adjust(s)

    def _mix_close(self, s):
        self._uni_close(s)
        self.markets["opt"].withdraw(D("0.5"))

    def do(self, op, snapshot):
        try:
            getattr(self, f"_{self.kind}_{op}")(snapshot)
            self.outcomes.append((op, "ok"))
        except Exception as e:  # a rejected operation is an outcome, not a failure of the run
            self.outcomes.append((op, type(e).__name__))

    # -- uniswap: liquidity around the current price, swaps sized by the price ----------------------------------
    def _uni_open(self, s):
        m = self.markets["uni"]
        pr = m.market_status.data.price
        m.add_liquidity(pr * D("0.9"), pr * D("1.1"))

    def _uni_adjust(self, s):
        m = self.markets["uni"]
        pr = D(s.prices["ETH"])
        if pr > D(2050):
            m.sell(D("0.01") * (pr / D(1000)))
        else:
            m.buy(D("0.01") * (pr / D(1000)))

    def _uni_close(self, s):
        self.markets["uni"].remove_all_liquidity()

    # -- aave: supply, borrow against the limit -----------------------------------------------------------------
    def _aave_open(self, s):
        m = self.markets["aave"]
        weth, usdt = self.mem["tok"]["WETH"], self.mem["tok"]["USDT"]
        m.supply(weth, self.act.broker.get_token_balance(weth) / 2, True)
        m.borrow(usdt, m.get_max_borrow_amount(usdt) * D("0.97"))

    def _aave_adjust(self, s):
        m = self.markets["aave"]
        usdt = self.mem["tok"]["USDT"]
        if m.health_factor > D("1.3"):
            m.borrow(usdt, m.get_max_borrow_amount(usdt) / 2)
        else:
            m.repay(usdt, m.get_borrow(usdt).amount / 4)

    def _aave_close(self, s):
        m = self.markets["aave"]
        weth, usdt = self.mem["tok"]["WETH"], self.mem["tok"]["USDT"]
        m.repay(usdt)
        m.withdraw(weth)

    # -- squeeth: mint by collateral ratio, sell the oSQTH, buy back and burn ---------------------------------------
    def _squeeth_open(self, s):
        sm = self.markets["Squeeth"]
        vk, amount = sm.open_deposit_mint_by_collat_rate(D(10), D("1.6"))
        self.mem["vk"] = vk

    def _squeeth_adjust(self, s):
        sm = self.markets["Squeeth"]
        osqth = self.mem["osqth"]
        bal = self.act.broker.get_token_balance(osqth)
        if bal > 0:
            sm.sell_squeeth(osqth_amount=bal / 2)
        else:
            sm.open_deposit_mint_by_collat_rate(D(2), D(2), vault_key=self.mem.get("vk"))

    def _squeeth_close(self, s):
        sm = self.markets["Squeeth"]
        vk = self.mem["vk"]
        osqth = self.mem["osqth"]
        v = sm.vault[vk]
        burn = min(self.act.broker.get_token_balance(osqth), v.osqth_short_amount)
        sm.burn_and_withdraw(vk, burn, v.collateral_amount / 4)

    # -- deribit: market orders sized by the visible book ---------------------------------------------------------------
    def _deribit_open(self, s):
        m = self.markets["opt"]
        book = m.market_status.data
        size = D(int(book.loc["C"].asks[0][1])) / 2
        m.buy("C", size)                                   # market order
        m.buy("P", D(2), max_mark_price_multiple=D(3))     # capped order (another path through the visible book)

    def _deribit_adjust(self, s):
        m = self.markets["opt"]
        held = [k for k in ("C", "P") if k in m.positions]
        if not held:
            m.buy("P", D(1), price_in_token=D(str(m.market_status.data.loc["P"].asks[0][0])))   # limit order at the best ask
            return
        k = held[0]
        m.sell(k, max(D(1), (m.positions[k].amount / 2).to_integral_value()), max_mark_price_multiple=D(3))

    def _deribit_close(self, s):
        m = self.markets["opt"]
        for k in list(m.positions):
            m.sell(k, m.positions[k].amount)

    # -- gmx v1: buy / sell GLP --------------------------------------------------------------------------------
    def _gmx1_open(self, s):
        m = self.markets["gmx"]
        weth = self.mem["weth"]
        m.buy_glp(weth, self.act.broker.get_token_balance(weth) / 2)

    def _gmx1_adjust(self, s):
        m = self.markets["gmx"]
        weth = self.mem["weth"]
        if m.glp_amount > 0:
            m.sell_glp(weth, m.glp_amount / 4)
        else:
            m.buy_glp(weth, D(1))

    def _gmx1_close(self, s):
        self.markets["gmx"].sell_glp(self.mem["weth"])

    # -- gmx v2: deposit / withdraw GM -----------------------------------------------------------------------------
    def _gmx2_open(self, s):
        m = self.markets["gm"]
        lp = float(m.market_status.data.longPrice)
        m.deposit(1.5, 0.25 * lp)

    def _gmx2_adjust(self, s):
        m = self.markets["gm"]
        if m.amount > 0:
            m.withdraw(m.amount / 4)
        else:
            m.deposit(0.5, 0)

    def _gmx2_close(self, s):
        self.markets["gm"].withdraw()


def actuator(kind: str, F: int, fr) -> World:
    """Fresh Actuator, fresh markets, fresh wallet around the frame OBJECTS of `fr` (never copies)."""
    from demeter import Actuator, MarketInfo, MarketTypeEnum, TokenInfo
    act = Actuator()
    mk = {}
    w = World(kind, act, mk)
    if kind == "uni":
        from demeter.uniswap import UniLpMarket
        pool = _uni_pool()
        m = UniLpMarket(MarketInfo("uni"), pool.pool)
        m.data = fr["uni"]
        act.broker.add_market(m)
        act.broker.set_balance(pool.t0, D(10000))
        act.broker.set_balance(pool.t1, D(5))
        act.set_price((fr["prices"], pool.pool.quote_token))
        mk["uni"] = m
    elif kind == "aave":
        from demeter.aave import AaveV3Market
        u = _aave_universe()
        m = AaveV3Market(MarketInfo("aave", MarketTypeEnum.aave_v3), u.csv, tokens=list(u.tok.values()))
        if F == 1:                                         # the documented per-token way in (one frame per token, one csv each)
            for t in sorted(k[5:] for k in fr if k.startswith("aave:")):
                m.set_token_data(u.tok[t], fr["aave:" + t])
        else:
            m.data = fr["aave"]
        act.broker.add_market(m)
        act.set_price(fr["prices"])
        act.broker.set_balance(u.tok["WETH"], D(10))       # USDT joins the account with the first borrow (a token that is not there at bar 0)
        w.mem["tok"] = u.tok
        mk["aave"] = m
    elif kind == "squeeth":
        from demeter.squeeth.market import SqueethMarket
        from demeter.uniswap import UniLpMarket, UniV3Pool
        from .props import c14
        weth, osqth, uk, sk = c14._tokens()
        um = UniLpMarket(uk, UniV3Pool(weth, osqth, 0.3, weth))
        um.data = fr["Uni"]
        sm = SqueethMarket(sk, um, data=fr["Squeeth"])
        act.broker.add_market(um)
        act.broker.add_market(sm)
        act.set_price(fr["prices"], TokenInfo("usdc", 6))
        act.broker.set_balance(weth, c14.W0)
        w.mem["osqth"] = osqth
        mk["Uni"], mk["Squeeth"] = um, sm
    elif kind == "deribit":
        from demeter.deribit import DeribitOptionMarket
        eth = DeribitOptionMarket.ETH
        m = DeribitOptionMarket(MarketInfo("opt", MarketTypeEnum.deribit_option), eth, data=fr["opt"])
        act.broker.add_market(m)
        act.set_price(fr["prices"], sim.USDC)
        act.broker.set_balance(eth, D(1000))
        mk["opt"] = m
    elif kind == "mix":
        from demeter.deribit import DeribitOptionMarket
        from demeter.uniswap import UniLpMarket
        pool = _uni_pool()
        m = UniLpMarket(MarketInfo("uni"), pool.pool)
        m.data = fr["uni"]
        om = DeribitOptionMarket(MarketInfo("opt", MarketTypeEnum.deribit_option), DeribitOptionMarket.ETH, data=fr["opt"])
        act.broker.add_market(m)
        act.broker.add_market(om)
        act.broker.set_balance(pool.t0, D(10000))
        act.broker.set_balance(pool.t1, D(500))
        act.set_price((fr["prices"], pool.pool.quote_token))
        mk["uni"], mk["opt"] = m, om
    elif kind == "gmx1":
        from demeter.gmx import GmxMarket
        from .props import c17
        toks = {t: TokenInfo(name=t, decimal=c17.DECIMALS[t]) for t in c17.TOKENS1}
        m = GmxMarket(MarketInfo("gmx", MarketTypeEnum.gmx_v1), tokens=list(toks.values()), data=fr["gmx"])
        act.broker.add_market(m)
        act.set_price(fr["prices"])
        act.broker.set_balance(toks["weth"], D(10))
        act.broker.set_balance(toks["wavax"], D(3))
        w.mem["weth"] = toks["weth"]
        mk["gmx"] = m
    elif kind == "gmx2":
        from demeter.gmx import GmxV2Market
        pool = _gmx2_pool()
        m = GmxV2Market(MarketInfo("gm", MarketTypeEnum.gmx_v2), pool, data=fr["gm"])
        act.broker.add_market(m)
        act.set_price(fr["prices"])
        act.broker.set_balance(pool.long_token, D(10))
        act.broker.set_balance(pool.short_token, D(30000))
        mk["gm"] = m
    else:
        raise ValueError(kind)
    if F != 1:
        act.interval = interval_of(kind, F)
    return w


# ------------------------------------------------------------------------------------------------------------------
# one run under the recorder
# ------------------------------------------------------------------------------------------------------------------
COMPONENTS = ("snap_bb", "snap_ob", "snap_ab", "notified", "account", "account_df", "actions", "account_live")


def canon_snapshot(s):
    """copied AT CALL TIME: Snapshot.market_status is one class-level MarketDict shared by all snapshots."""
    return {"ts": canon(s.timestamp), "row_id": canon(s.row_id), "prices": canon(s.prices),
            "market_status": [[canon(k), canon(v)] for k, v in s.market_status.items()]}


def run_world(w: World, script: int, nbars: int, keep=False, group=1):
    """-> dict(obs=[per bar {component: digest}], err, outcomes, (canon if keep))."""
    from demeter import Strategy
    per = {}     # bar -> component -> canonical value

    def slot(bar):
        return per.setdefault(bar, {c: None for c in COMPONENTS})

    class Rec(Strategy):
        def initialize(self_):
            w.init_ops()

        def _hook(self_, hook, snapshot):
            bar = snapshot.row_id
            if hook == "bb" and bar > 0 and len(self_.account_status) >= bar:
                # the account row of the previous bar as it is right after that bar (the history must not be rewritten later)
                slot(bar - 1)["account_live"] = canon(self_.account_status[bar - 1])
            slot(bar)["snap_" + hook] = canon_snapshot(snapshot)
            for h, op in script_ops(script, bar, nbars):
                if h == hook:
                    w.do(op, snapshot)

        def before_bar(self_, snapshot):
            self_._hook("bb", snapshot)

        def on_bar(self_, snapshot):
            self_._hook("ob", snapshot)

        def after_bar(self_, snapshot):
            self_._hook("ab", snapshot)

        def finalize(self_):
            if self_.account_status:
                slot(len(self_.account_status) - 1)["account_live"] = canon(self_.account_status[-1])

        def notify(self_, action):
            bar = len(w.act.account_status) - 1   # the bar whose row was appended just before the notifications
            s = slot(bar)
            s["notified"] = (s["notified"] or []) + [canon(action)]

    act = w.act
    act.strategy = Rec()
    err = None
    try:
        act.run(print_result=False)
    except Exception as e:
        err = f"{type(e).__name__}: {e}"
    rows = list(act.account_status)
    stamp = {}
    for i, a in enumerate(rows):
        slot(i)["account"] = canon(a)
        stamp[canon(a.timestamp)] = i
    if err is None:
        df = act.account_status_df
        for i in range(len(df.index)):
            slot(i)["account_df"] = [canon(df.index[i]), canon(df.columns.tolist()), [canon(x) for x in df.iloc[i].tolist()]]
    extra = []
    for a in act.actions:
        i = stamp.get(canon(a.timestamp))
        if i is None:
            extra.append(canon(a))       # stamped with a time that is no completed bar (initialize / aborted bar)
        else:
            s = slot(i)
            s["actions"] = (s["actions"] or []) + [canon(a)]
    obs = []
    for i in range(nbars):
        c = per.get(i) or {k: None for k in COMPONENTS}
        if i == 0:
            c = dict(c)
            c["actions"] = [extra, c["actions"]]
        obs.append({k: digest(c[k]) for k in COMPONENTS})
    if group > 1:       # kind "mix": one history bar = a block of `group` actuator bars
        obs = [{k: digest([o[k] for o in obs[j:j + group]]) for k in COMPONENTS} for j in range(0, nbars, group)]
    out = {"obs": obs, "err": err, "outcomes": list(w.outcomes), "bars_done": len(rows)}
    if keep:
        out["canon"] = [per.get(i) for i in range(nbars)]
    return out


def live_frames(w: World):
    d = {name: m.data for name, m in w.markets.items()}
    d["prices"] = w.act.token_prices
    return d


def digest_frames(fr) -> str:
    return digest([[k, frame_digest(v)] for k, v in fr.items()])


def prefix_digests(kind, F, rawfr, nbars):
    """digest of the RAW inputs restricted to the rows of bars 0..k, for k = 0..nbars-1 (a hash chain)."""
    t0 = min(v.index.get_level_values(0)[0] for v in rawfr.values())
    step = pd.Timedelta(minutes=F * period_min(kind))
    per_bar = [[] for _ in range(nbars)]
    for name, df in rawfr.items():
        for t, dg in row_digests(df):
            b = int((t - t0) // step)
            if 0 <= b < nbars:
                per_bar[b].append([name, canon(t), dg])
            else:
                raise RuntimeError(f"raw row at {t} outside the {nbars} bars of the history")
    out, h = [], ""
    for b in range(nbars):
        h = digest([h, per_bar[b]])
        out.append(h)
    return out


def run_history(kind, F, script, hist, tmp, rerun=True, keep=False):
    """One history through the real code: run, digests of the supplied / live frames before and after, rerun on the SAME
    frame objects with a fresh account.  Everything returned is a digest (small, picklable)."""
    raw = raw_of(hist, F, kind)
    nb = len(hist)
    fr, rawfr = frames(kind, raw, tmp)
    rp = prefix_digests(kind, MIX_BLOCK if kind == "mix" else F, rawfr, nb)
    w = actuator(kind, F, fr)
    live = live_frames(w)
    din = digest_frames(fr)
    lin = digest_frames(live)
    grp = MIX_BLOCK if kind == "mix" else 1
    r1 = run_world(w, script, nb * grp, keep, grp)
    dout = digest_frames(fr)
    lout = digest_frames(live)               # the objects that were live before the run (resampling replaces, must not mutate)
    live_same = all(live_frames(w)[k] is v for k, v in live.items())
    res = {"hist": list(hist), "rp": rp, "obs": r1["obs"], "err": r1["err"], "outcomes": r1["outcomes"], "din": din, "dout": dout,
           "lin": lin, "lout": lout, "live_same": live_same, "bars_done": r1["bars_done"]}
    if F == 1 and live_same:
        res["lout_now"] = digest_frames(live_frames(w))
    if keep:
        res["canon"] = r1["canon"]
    if rerun:
        w2 = actuator(kind, F, fr)
        r2 = run_world(w2, script, nb * grp, keep, grp)
        res["obs2"], res["err2"] = r2["obs"], r2["err"]
        res["dout2"] = digest_frames(fr)
        if keep:
            res["canon2"] = r2["canon"]
    return res

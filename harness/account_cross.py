"""Composite leg of C01: several real markets under ONE Broker / Actuator (UniLpMarket quoted in USDC, AaveV3Market, the hourly
DeribitOptionMarket quoted in ETH; the account quoted in USD with USDC off its peg), scripted data-dependent operations in
every market, and every account row of the run validated by TLC against Account!NetValue (spec/Account.tla,
spec/trace/Trace_Account.tla): wallet at the bar's prices plus every market's reported value converted by the price of ITS
quote token, each counted once.  (What each market's value must be is decided by the market legs.)"""
from __future__ import annotations

import json
import random
from decimal import Decimal
from fractions import Fraction

from . import tlc
from .common import VERIF, Check, frac, int_to_limbs

TRACE = VERIF / "spec" / "trace" / "Trace_Account.tla"
D = Decimal


def qj(x):
    f = frac(x)
    return [(f > 0) - (f < 0), list(int_to_limbs(abs(f.numerator))), list(int_to_limbs(f.denominator))]


def build(hist, usdc_px: Decimal, with_opt: bool, tmp):
    """-> (actuator, sub-worlds).  hist: bar symbols (one per minute) shared by the markets' builders."""
    import pandas as pd

    from . import nla_drv, sim
    from .deribit_util import book_frame
    from demeter import Actuator, MarketInfo, MarketTypeEnum, TokenInfo
    from demeter.aave import AaveV3Market
    from demeter.uniswap import UniLpMarket
    n = len(hist)
    fu, _ = nla_drv.frames("uni", list(hist), tmp)
    fa, _ = nla_drv.frames("aave", list(hist), tmp)
    act = Actuator()
    pool = nla_drv._uni_pool()
    um = UniLpMarket(MarketInfo("uni"), pool.pool)
    um.data = fu["uni"]
    u = nla_drv._aave_universe()
    am = AaveV3Market(MarketInfo("aave", MarketTypeEnum.aave_v3), u.csv, tokens=list(u.tok.values()))
    am.data = fa["aave"]
    act.broker.add_market(um)
    act.broker.add_market(am)
    prices = fu["prices"].map(lambda x: D(x) * usdc_px)          # ETH and USDC in USD (USDC off its peg)
    for c in fa["prices"].columns:
        prices[c] = [D(str(x)) for x in fa["prices"][c]]
    # the price table may cover more than the market data (set_price documents "larger than or equal to data"): three earlier minutes
    # with other prices - a bar must be valued with the row of ITS timestamp, not with the row at its position
    lead = pd.DataFrame({c: [prices[c].iloc[0] * D(f) for f in ("0.9", "1.1", "0.8")] for c in prices.columns},
                        index=pd.DatetimeIndex([sim.minute(-3), sim.minute(-2), sim.minute(-1)]))
    prices = pd.concat([lead, prices])
    worlds = [nla_drv.World("uni", act, {"uni": um}), nla_drv.World("aave", act, {"aave": am})]
    worlds[1].mem["tok"] = u.tok
    if with_opt:
        from demeter.deribit import DeribitOptionMarket
        hours = list(range(0, n, 60))
        books = [book_frame(nla_drv.DERIBIT_BOOKS[(h // 60) % len(nla_drv.DERIBIT_BOOKS)], nla_drv.DERIBIT_INFO) for h in hours]
        data = pd.concat(books, keys=[sim.minute(h) for h in hours], names=["time", "instrument_name"])
        om = DeribitOptionMarket(MarketInfo("opt", MarketTypeEnum.deribit_option), DeribitOptionMarket.ETH, data=data)
        act.broker.add_market(om)
        worlds.append(nla_drv.World("deribit", act, {"opt": om}))
    act.set_price(prices, TokenInfo("usd", 6))
    act.broker.set_balance(pool.t0, D(10000))
    act.broker.set_balance(pool.t1, D(25))
    act.broker.set_balance(u.tok["WETH"], D(10))
    act.broker.set_balance(u.tok["USDT"], D(1000))
    return act, worlds


def run_one(case, tmp):
    """-> (records, error)"""
    from . import nla_drv, sim
    from demeter import Strategy
    hist, script = case["hist"], case["script"]
    act, worlds = build(hist, D(case["usdc"]), case["opt"], tmp)
    nb = len(hist)

    class S(Strategy):
        def initialize(self_):
            for w in worlds:
                w.init_ops()

        def _hook(self_, name, snapshot):
            for h, op in nla_drv.script_ops(script, snapshot.row_id % 4 if script == 2 else snapshot.row_id, nb):
                if h == name:
                    for w in worlds:
                        w.do(op, snapshot)

        def before_bar(self_, s):
            self_._hook("bb", s)

        def on_bar(self_, s):
            self_._hook("ob", s)

        def after_bar(self_, s):
            self_._hook("ab", s)
    act.strategy = S()
    try:
        act.run(print_result=False)
    except Exception as e:
        return [], f"{type(e).__name__}: {e}"
    recs = []
    quote = act.broker.quote_token.name.upper()
    for a in act.account_status:
        row = act.token_prices.loc[a.timestamp]
        wallet = [[t.name.upper(), qj(b), qj(row[t.name.upper()])] for t, b in a.asset_balances.items()]
        markets = []
        for k, ms in a.market_status.items():
            qt = act.broker.markets[k].quote_token.name.upper()
            markets.append([k.name, qt, qj(D(ms.net_value)), qj(row[qt]) if qt in row.index else qj(1)])
        recs.append({"quote": quote, "wallet": wallet, "markets": markets, "asset": qj(D(a.asset_value)), "net": qj(D(a.net_value)),
                     "ts": sim.to_min(a.timestamp)})
    outcomes = {w.kind: [o for o in w.outcomes] for w in worlds}
    return recs, None, outcomes


def validate(chk: Check, recs):
    f = chk.tmp / "account.ndjson"
    with open(f, "w") as fh:
        for r in recs:
            fh.write(json.dumps({k: v for k, v in r.items() if k not in ("case", "ts")}) + "\n")
    res = tlc.run(TRACE, TRACE.with_suffix(".cfg"), chk.tmp, workers=1, env={"VERIF_TRACE": str(f)}, timeout=1200)
    n, failures = tlc.printed_n(res.output, "account_verdict", 2)
    if n != len(recs):
        raise RuntimeError(f"Trace_Account validated {n} of {len(recs)} rows")
    chk.states += 1
    chk.transitions += len(recs)
    return {int(i): c for i, c in failures}


def run_cross(chk: Check, owner: str):
    if owner != "C01":
        return
    quick = chk.tier == "quick"
    rnd = random.Random(chk.seed + 11)
    cases = []
    for i in range(6 if quick else 60):
        opt = i % 2 == 0
        n = rnd.choice([61, 75, 122]) if opt else rnd.randint(6, 14)
        cases.append({"hist": [rnd.randint(1, 4) for _ in range(n)], "script": rnd.choice([1, 2, 3]), "usdc": rnd.choice(["0.98", "1", "1.013"]),
                      "opt": opt})
    recs, okops = [], 0
    for ci, case in enumerate(cases):
        out = run_one(case, str(chk.tmp))
        if out[1]:
            chk.violation("Actuator.run|composite_account_run_raises|uni+aave" + ("+deribit" if case["opt"] else ""),
                          f"run with several markets raised {out[1]}", {"kind": "account_case", "case": case})
            continue
        rs, _, outcomes = out
        okops += sum(1 for v in outcomes.values() for o in v if o[1] == "ok")
        for r in rs:
            r["id"] = len(recs) + 1
            r["case"] = ci
            recs.append(r)
        chk.traces += 1
    if not recs:
        return
    fails = validate(chk, recs)
    # the binding is demonstrated: a row whose market value is added without conversion must be rejected
    # (an ACCEPTED row is corrupted: a row the specification already rejects demonstrates nothing)
    good = next((r for r in recs if r["id"] not in fails and any(m[1] != r["quote"] and m[2][0] != 0 for m in r["markets"])), None)
    if good is not None:
        bad = json.loads(json.dumps(good))
        m = next(m for m in bad["markets"] if m[1] != bad["quote"] and m[2][0] != 0)
        m[3] = qj(1) if m[3] != qj(1) else qj(2)
        bad["id"] = 10 ** 6
        if not validate(chk, [bad]):
            raise RuntimeError("vacuous: an account row with an unconverted market value was accepted by Trace_Account")
    elif not fails:
        raise RuntimeError("vacuous: no account row with a market quoted in another token than the account")
    chk.count("C01/account/composition_of_markets", len(recs))
    chk.evaluations += len(recs)
    chk.extra["composite_account"] = {"runs": len(cases), "rows": len(recs), "accepted_operations": okops,
                                      "rows_with_a_market_quoted_in_another_token": sum(1 for r in recs if any(m[1] != r["quote"] and m[2][0] != 0 for m in r["markets"]))}
    for rid, clause in sorted(fails.items())[:6]:
        r = recs[rid - 1]
        chk.violation(f"Broker.get_account_status|composite_{clause}|{'+'.join(m[0] for m in r['markets'])}",
                      f"bar {r['ts']}: reported {clause} differs from wallet x prices + sum of the markets' values converted by their quote "
                      f"tokens' prices (markets {[(m[0], m[1]) for m in r['markets']]})", {"kind": "account_case", "case": cases[r["case"]]})
    if recs:
        r = recs[len(recs) // 2]
        chk.sample({"composite_account_row": {"quote": r["quote"], "markets": [(m[0], m[1]) for m in r["markets"]], "bar": r["ts"]}})


def replay_cross(chk: Check, rep: dict):
    out = run_one(rep["case"], str(chk.tmp))
    if out[1]:
        chk.violation("Actuator.run|composite_account_run_raises|", f"run raised {out[1]}", rep)
        return
    recs = out[0]
    for i, r in enumerate(recs):
        r["id"] = i + 1
    for rid, clause in sorted(validate(chk, recs).items())[:3]:
        chk.violation(f"Broker.get_account_status|composite_{clause}|", f"bar {recs[rid - 1]['ts']}: {clause}", rep)
    chk.traces += 1

"""Parser for TLA+ values as printed by TLC (state dumps, simulation trace files, PrintT output).

records   [a |-> 1, b |-> "x"]      -> dict
sequences <<1, 2>>                  -> tuple
sets      {1, 2}                    -> frozenset
functions (k :> v @@ k2 :> v2)      -> dict
ints, strings, TRUE/FALSE, model values (bare identifiers -> str)
"""
from __future__ import annotations


class TlaParseError(Exception):
    pass


class _P:
    def __init__(self, s: str):
        self.s = s
        self.i = 0
        self.n = len(s)

    def ws(self):
        s, n = self.s, self.n
        while self.i < n and s[self.i] in " \t\r\n":
            self.i += 1

    def peek(self, k=1):
        return self.s[self.i:self.i + k]

    def expect(self, tok):
        self.ws()
        if not self.s.startswith(tok, self.i):
            raise TlaParseError(f"expected {tok!r} at {self.i}: {self.s[self.i:self.i+40]!r}")
        self.i += len(tok)

    def value(self):
        self.ws()
        s = self.s
        c = s[self.i] if self.i < self.n else ""
        if c == "<" and self.peek(2) == "<<":
            self.i += 2
            items = self.items(">>")
            return tuple(items)
        if c == "{":
            self.i += 1
            items = self.items("}")
            try:
                return frozenset(items)
            except TypeError:  # sets of records: keep TLC's (canonical) order
                return list(items)
        if c == "[":
            self.i += 1
            return self.record()
        if c == "(":
            self.i += 1
            return self.function()
        if c == '"':
            return self.string()
        if c == "-" or c.isdigit():
            j = self.i + 1
            while j < self.n and s[j].isdigit():
                j += 1
            v = int(s[self.i:j])
            self.i = j
            return v
        if c.isalpha() or c == "_":
            j = self.i + 1
            while j < self.n and (s[j].isalnum() or s[j] == "_"):
                j += 1
            w = s[self.i:j]
            self.i = j
            if w == "TRUE":
                return True
            if w == "FALSE":
                return False
            return w
        raise TlaParseError(f"unexpected {c!r} at {self.i}: {s[self.i:self.i+40]!r}")

    def items(self, close):
        out = []
        self.ws()
        if self.s.startswith(close, self.i):
            self.i += len(close)
            return out
        while True:
            out.append(self.value())
            self.ws()
            if self.s.startswith(",", self.i):
                self.i += 1
                continue
            self.expect(close)
            return out

    def string(self):
        s = self.s
        j = self.i + 1
        buf = []
        while s[j] != '"':
            if s[j] == "\\":
                j += 1
                buf.append({"n": "\n", "t": "\t"}.get(s[j], s[j]))
            else:
                buf.append(s[j])
            j += 1
        self.i = j + 1
        return "".join(buf)

    def record(self):
        d = {}
        self.ws()
        if self.peek() == "]":
            self.i += 1
            return d
        while True:
            self.ws()
            j = self.i
            while self.s[j].isalnum() or self.s[j] == "_":
                j += 1
            k = self.s[self.i:j]
            self.i = j
            self.expect("|->")
            d[k] = self.value()
            self.ws()
            if self.peek() == ",":
                self.i += 1
                continue
            self.expect("]")
            return d

    def function(self):
        d = {}
        while True:
            k = self.value()
            self.expect(":>")
            d[k] = self.value()
            self.ws()
            if self.peek(2) == "@@":
                self.i += 2
                continue
            self.expect(")")
            return d


def parse(s: str):
    p = _P(s)
    v = p.value()
    p.ws()
    if p.i != p.n:
        raise TlaParseError(f"trailing input at {p.i}: {s[p.i:p.i+40]!r}")
    return v


def parse_state(text: str) -> dict:
    """Parse '/\\ x = v\n/\\ y = w' into {x: v, y: w}."""
    p = _P(text)
    out = {}
    while True:
        p.ws()
        if p.i >= p.n:
            return out
        if p.s.startswith("/\\", p.i):
            p.i += 2
        elif out:
            p.expect("/\\")
        p.ws()
        j = p.i
        while p.s[j].isalnum() or p.s[j] == "_":
            j += 1
        name = p.s[p.i:j]
        p.i = j
        p.expect("=")
        out[name] = p.value()


def to_tla(v) -> str:
    """Python value -> TLA+ literal (inverse of parse for the types above)."""
    if isinstance(v, bool):
        return "TRUE" if v else "FALSE"
    if isinstance(v, int):
        return str(v)
    if isinstance(v, str):
        return '"' + v.replace("\\", "\\\\").replace('"', '\\"') + '"'
    if isinstance(v, (tuple, list)):
        return "<<" + ", ".join(to_tla(x) for x in v) + ">>"
    if isinstance(v, (set, frozenset)):
        return "{" + ", ".join(sorted(to_tla(x) for x in v)) + "}"
    if isinstance(v, dict):
        if not v:
            return "<<>>"
        if all(isinstance(k, str) and k.isidentifier() for k in v):
            return "[" + ", ".join(f"{k} |-> {to_tla(x)}" for k, x in v.items()) + "]"
        return "(" + " @@ ".join(f"{to_tla(k)} :> {to_tla(x)}" for k, x in v.items()) + ")"
    raise TypeError(type(v))

"""Drive the real UniLpMarket (through the real Actuator bar loop) along behaviours of spec/UniLp.tla.

A behaviour = scenario prefix + events; `endbar` events delimit bars.  The harness builds the raw pool data frame of the
behaviour's row sequence, passes it through the repo's own statistic-column derivation, runs Actuator.run with a scripted
strategy that executes the bar's operations in on_bar and records the projected state after every operation and after
the bar's update (after_bar), and compares the records with the spec states.
"""
from __future__ import annotations

from decimal import Decimal
from fractions import Fraction

import pandas as pd

from .common import Q, close, frac, limbs_to_int, maybe_float
from .sim import minute  # noqa: F401  (imports demeter from the working tree)

from demeter import Actuator, MarketInfo, Strategy, TokenInfo  # noqa: E402
from demeter.uniswap import PositionInfo, UniLpMarket, UniV3Pool  # noqa: E402
from demeter.uniswap.helper import _add_statistic_column  # noqa: E402

ALL = (2, (), (1,))
ALL_LIQ = (-1,)
REL = Fraction(1, 10 ** 9)    # to_wei floors offered amounts to 6-decimals wei: a 1e-30 difference can move a floor by 1 wei (5e-11 relative)
ABS = Fraction(1, 10 ** 24)


def nat(v):
    return limbs_to_int(v)


class Pool:
    def __init__(self, p, rows, w0, name):
        self.d0, self.d1, self.zq, self.sp = p["d0"], p["d1"], p["zq"], p["sp"]
        self.fee_pct = float(Q(p["fee"]) * 100)
        self.t0 = TokenInfo("usdc" if self.d0 == 6 else "eth", self.d0)
        self.t1 = TokenInfo("usdc" if self.d1 == 6 else "eth", self.d1)
        self.pool = UniV3Pool(self.t0, self.t1, self.fee_pct, self.t0 if self.zq else self.t1)
        self.rows = [dict(open=r["open"], close=r["close"], liq=nat(r["liq"]), in0=nat(r["in0"]), in1=nat(r["in1"])) for r in rows]
        self.w0 = (Q(w0[0]), Q(w0[1]))
        self.name = name

    def frame(self, row_ids, float_ticks=False, F=1):
        """F > 1: every bar of the behaviour is supplied as F one-minute rows (the run then resamples to F-minute bars): ticks wander
        inside the bar and close at the bar's close, volumes are split over the rows, the pool liquidity of the bar is the LAST
        row's (other rows carry another value) - the aggregation rules of demeter/uniswap/data.py (last / first / sum) must
        reproduce the bar the specification talks about."""
        if F > 1:
            rs = []
            for i in row_ids:
                r = self.rows[i - 1]
                for j in range(F):
                    last = j == F - 1
                    wob = 0 if last else (3 if j % 2 == 0 else -2)
                    rs.append(dict(open=r["open"] if j == 0 else r["close"] + (3 if (j - 1) % 2 == 0 else -2), close=r["close"] + wob,
                                   liq=r["liq"] if last else r["liq"] * 2 + 7,
                                   in0=r["in0"] // F + (r["in0"] % F if j == 0 else 0), in1=r["in1"] // F + (r["in1"] % F if j == 1 % F else 0)))
            idx = pd.date_range(minute(0), periods=len(rs), freq="1min")
        else:
            idx = pd.date_range(minute(0), periods=len(row_ids), freq="1min")
            rs = [self.rows[i - 1] for i in row_ids]
        conv = float if float_ticks else int
        df = pd.DataFrame(index=idx, data={
            "netAmount0": [0] * len(rs), "netAmount1": [0] * len(rs),
            "closeTick": [conv(r["close"]) for r in rs], "openTick": [conv(r["open"]) for r in rs],
            "lowestTick": [conv(r["close"]) for r in rs], "highestTick": [conv(r["close"]) for r in rs],
            "inAmount0": [Decimal(r["in0"]) for r in rs], "inAmount1": [Decimal(r["in1"]) for r in rs],
            "currentLiquidity": [Decimal(r["liq"]) for r in rs]})
        _add_statistic_column(df, self.pool)
        return df


def dec(fr):
    d = Decimal(fr.numerator) / Decimal(fr.denominator)
    assert Fraction(d) == fr
    return d


def project(market, pool: Pool, broker):
    pos = {}
    for k, p in market.positions.items():
        pos[(int(k.lower_tick), int(k.upper_tick))] = (int(p.liquidity), frac(Decimal(p.pending_amount0)), frac(Decimal(p.pending_amount1)))
    lent = sorted((int(k.lower_tick), int(k.upper_tick)) for k, p in market.positions.items() if p.transferred)
    return {"w": (frac(broker.get_token_balance(pool.t0)), frac(broker.get_token_balance(pool.t1))), "pos": pos, "lent": lent}


def run_behaviour(pool: Pool, scn, events, row0, float_ticks=False, est_ranges=None, F=1, acct_f=None, second_pool=False):
    """Execute through the real Actuator.  Returns list of records, one per event:
    dict(out, exc, ret, proj, nv) for operations; dict(proj, nv) for endbar; plus a possible run-level error."""
    bars = [[]]          # operations issued in on_bar, per bar
    late = [None]        # None: the bar's update is not an event of the behaviour; a list: the operations issued in after_bar
    rows = [row0]
    for ev in list(scn) + list(events):
        if ev["op"] == "endbar":
            bars.append([])
            late.append(None)
            rows.append(ev["next"])
        elif ev["op"] == "update":
            late[-1] = []
        elif late[-1] is not None:
            late[-1].append(ev)
        else:
            bars[-1].append(ev)
    df = pool.frame(rows, float_ticks, F)
    act = Actuator()
    if F > 1:
        act.interval = f"{F}min"
    market = UniLpMarket(MarketInfo("uni"), pool.pool)
    market.data = df
    act.broker.add_market(market)
    act.broker.set_balance(pool.t0, dec(pool.w0[0]))
    act.broker.set_balance(pool.t1, dec(pool.w0[1]))
    if acct_f is None:
        act.set_price(market.get_price_from_data())
    else:
        # the account is quoted in another token (USD) than the pool (USDC), and the pool's quote token is worth acct_f of it:
        # every value the market reports has to be converted by the broker
        prices, _q = market.get_price_from_data()
        f = Decimal(acct_f.numerator) / Decimal(acct_f.denominator)
        act.set_price(prices.map(lambda x: Decimal(x) * f), TokenInfo("usd", 6))
    other = None
    if second_pool:
        # a second pool of the same tokens (fee 0.3 %) under the same broker, with its own rows (other ticks, ten times the volume, another
        # pool liquidity) and a position of its own: nothing of it may reach the first pool's fees
        p2 = UniV3Pool(pool.t0, pool.t1, 0.3, pool.t0 if pool.zq else pool.t1)
        rs2 = [dict(pool.rows[i - 1]) for i in rows]
        for r in rs2:
            r.update(open=r["open"] + 120, close=r["close"] + 120, liq=r["liq"] * 3 + 11, in0=r["in0"] * 10, in1=r["in1"] * 10)
        hold, pool.rows = pool.rows, rs2
        try:
            df2 = Pool.frame(pool, list(range(1, len(rs2) + 1)), float_ticks, F)
        finally:
            pool.rows = hold
        # (frame() derives its price columns for pool.pool; only the raw columns matter for the second market's fee accrual, its
        #  price column is recomputed for its own pool below)
        df2 = df2[["netAmount0", "netAmount1", "closeTick", "openTick", "lowestTick", "highestTick", "inAmount0", "inAmount1", "currentLiquidity"]].copy()
        _add_statistic_column(df2, p2)
        other = UniLpMarket(MarketInfo("uni2"), p2)
        other.data = df2
        act.broker.add_market(other)
    recs = []
    base_first = not pool.zq     # base = token0 unless token0 is the quote token

    def amt(a, which=None):
        return None if a == ALL else dec(Q(a))

    def do(ev):
        op = ev["op"]
        r = tuple(ev["r"]) if "r" in ev else None
        if op == "add":
            pos, bu, qu, liq = market.add_liquidity_by_tick(r[0], r[1], amt(ev["b"]), amt(ev["q"]))
            return {"base": bu, "quote": qu, "liq": liq}
        if op == "remove":
            liq = None if tuple(ev["liq"]) == ALL_LIQ else nat(ev["liq"])
            b, q = market.remove_liquidity(PositionInfo(r[0], r[1]), liq, ev["collect"])
            return {"base": b, "quote": q}
        if op == "collect":
            m0, m1 = maybe_float(amt(ev["m0"])), maybe_float(amt(ev["m1"]))      # Decimal | float, as the signature says
            b, q = market.collect_fee(PositionInfo(r[0], r[1]), m0, m1)
            return {"base": b, "quote": q}
        if op == "buy":
            fee, quote, base = market.buy(maybe_float(amt(ev["a"])))
            return {"fee": fee, "quote": quote, "base": base}
        if op == "sell":
            fee, base, quote = market.sell(maybe_float(amt(ev["a"])))
            return {"fee": fee, "quote": quote, "base": base}
        if op == "lend":
            market.transfer_position_out(PositionInfo(r[0], r[1]))
            return {}
        if op == "unlend":
            market.transfer_position_in(PositionInfo(r[0], r[1]))
            return {}
        raise ValueError(op)

    def views():
        b = market.get_market_balance()
        v = {"net": frac(Decimal(b.net_value)), "base_unc": frac(Decimal(b.base_uncollected)), "quote_unc": frac(Decimal(b.quote_uncollected)),
             "base_in": frac(Decimal(b.base_in_position)), "quote_in": frac(Decimal(b.quote_in_position)), "pos": {}}
        for k in market.positions:
            ps = market.get_position_status(k)
            v["pos"][(int(k.lower_tick), int(k.upper_tick))] = {
                "a0": frac(Decimal(ps.liquidity_amount0)), "a1": frac(Decimal(ps.liquidity_amount1)), "lv": frac(Decimal(ps.liquidity_value)),
                "pv": frac(Decimal(ps.pending_value)), "v": frac(Decimal(ps.value))}
        est = {}
        for r in est_ranges or ():
            for val in (Decimal(500), Decimal(3000)):
                try:
                    liq, a0, a1 = market.estimate_liquidity(val, PositionInfo(r[0], r[1]))
                    est[(r, str(val))] = ("ok", int(liq), frac(Decimal(a0)), frac(Decimal(a1)))
                except Exception as e:
                    est[(r, str(val))] = ("raise", f"{type(e).__name__}: {e}")
        v["est"] = est
        return v

    def acct(snapshot):
        a = act.broker.get_account_status(snapshot.prices)
        return (frac(Decimal(a.net_value)), frac(Decimal(a.asset_value)), frac(Decimal(a.market_status[market.market_info].net_value)))

    def issue(evs, snapshot):
        for ev in evs:
            n0 = len(act.actions)
            nv0 = acct(snapshot)[0]
            try:
                ret = do(ev)
                out, exc = "ok", None
            except Exception as e:
                ret, out, exc = None, "reject", f"{type(e).__name__}: {e}"
            recs.append({"out": out, "exc": exc, "ret": ret, "proj": project(market, pool, act.broker),
                         "view": views(), "nacts": len(act.actions) - n0, "nv0": nv0, "acct": acct(snapshot)})

    def bar_record(snapshot):
        return {"endbar": True, "proj": project(market, pool, act.broker), "view": views(), "last_tick": market.last_tick, "acct": acct(snapshot)}

    class S(Strategy):
        def initialize(self_):
            if other is not None:
                # the second pool's position is paid from extra funds, the wallet the behaviour starts from is restored afterwards
                act.broker.set_balance(pool.t0, dec(pool.w0[0]) + (Decimal(10 ** 6) if pool.d0 == 6 else Decimal(500)))
                act.broker.set_balance(pool.t1, dec(pool.w0[1]) + (Decimal(10 ** 6) if pool.d1 == 6 else Decimal(500)))
                c2 = int(other.data.closeTick.iloc[0]) // 60 * 60
                other.add_liquidity_by_tick(c2 - 600, c2 + 600, Decimal(100), Decimal(200000))
                act.broker.set_balance(pool.t0, dec(pool.w0[0]))
                act.broker.set_balance(pool.t1, dec(pool.w0[1]))

        def on_bar(self_, snapshot):
            issue(bars[snapshot.row_id], snapshot)

        def after_bar(self_, snapshot):
            if late[snapshot.row_id] is not None:
                recs.append(bar_record(snapshot))           # the "update" event: fees of the bar accrued
                issue(late[snapshot.row_id], snapshot)      # operations after the bar's update
            recs.append(bar_record(snapshot))

    act.strategy = S()
    err = None
    try:
        act.run(print_result=False)
    except Exception as e:
        err = f"{type(e).__name__}: {e}"
    # order records as the events: ops of bar i, then endbar i
    return recs, err, len(bars)


class MM:
    def __init__(self, prop, clause, text):
        self.prop, self.clause, self.text = prop, clause, text

    def __repr__(self):
        return f"{self.prop}/{self.clause}: {self.text}"


def cmp_state(proj, st, tally, fee_owner=False, prev_proj=None, prev_st=None):
    """proj (code) vs st (spec).  At an endbar the pending deltas are C08's; otherwise amounts are the state machine's."""
    out = []
    w = (Q(st["w"][0]), Q(st["w"][1]))
    for i in (0, 1):
        tally("uni/wallet")
        if not close(proj["w"][i], w[i], REL, ABS):
            out.append(MM("C03", "wallet", f"wallet token{i} code {float(proj['w'][i])!r} spec {float(w[i])!r}"))
    spec_pos = {tuple(k): v for k, v in st["pos"].items() if v["on"]}
    tally("uni/positions")
    if set(spec_pos) != set(proj["pos"]):
        out.append(MM("C03", "position_set", f"positions code {sorted(proj['pos'])} spec {sorted(spec_pos)}"))
        return out
    spec_lent = sorted(r for r, v in spec_pos.items() if v.get("out"))
    if "lent" in proj and spec_lent != [tuple(x) for x in proj["lent"]]:
        out.append(MM("C01", "lent_positions", f"positions lent out: code {proj['lent']} spec {spec_lent}"))
    for r, v in spec_pos.items():
        liq, p0, p1 = proj["pos"][r]
        sl = nat(v["liq"])
        tally("uni/liquidity")
        if abs(liq - sl) > max(4, sl // 10 ** 9):
            out.append(MM("C07", "liquidity", f"position {r} liquidity code {liq} spec {sl}"))
        for name, cv, sv in (("pending0", p0, Q(v["p0"])), ("pending1", p1, Q(v["p1"]))):
            if fee_owner:
                tally("C08/fee_per_bar")
                d_code = cv - prev_proj["pos"].get(r, (0, Fraction(0), Fraction(0)))[1 if name == "pending0" else 2]
                d_spec = sv - Q(prev_st["pos"][r][("p0" if name == "pending0" else "p1")])
                if not close(d_code, d_spec, REL, ABS):
                    out.append(MM("C08", "fee_" + name, f"bar fee of position {r} {name}: code {float(d_code)!r} spec {float(d_spec)!r}"))
            else:
                tally("uni/pending")
                if not close(cv, sv, REL, ABS):
                    out.append(MM("C03", name, f"position {r} {name} code {float(cv)!r} spec {float(sv)!r}"))
    return out


def cmp_view(pool, view, sv, tally):
    """reported values (get_market_balance / get_position_status) vs the spec's View - property C01's Uniswap leg."""
    out = []
    for k in ("net", "base_unc", "quote_unc"):
        tally("C01/uni_" + k)
        if not close(view[k], Q(sv[k]), REL, ABS):
            out.append(MM("C01", "uni_" + k, f"get_market_balance {k}: code {float(view[k])!r} spec {float(Q(sv[k]))!r}"))
    spos = {tuple(k): v for k, v in sv["pos"].items()} if isinstance(sv["pos"], dict) else {}
    for r, pv in view["pos"].items():
        if r not in spos:
            continue
        for f in ("a0", "a1", "lv", "pv", "v"):
            tally("C01/uni_position_status")
            if not close(pv[f], Q(spos[r][f]), REL, ABS):
                out.append(MM("C01", "uni_position_" + f, f"get_position_status{r}.{f}: code {float(pv[f])!r} spec {float(Q(spos[r][f]))!r}"))
    return out


RET_KEYS = {"lend": (), "unlend": (), "add": ("base", "quote", "liq"), "remove": ("base", "quote"), "collect": ("base", "quote"),
            "buy": ("fee", "quote", "base"), "sell": ("fee", "quote", "base")}


def compare_run(pool: Pool, recs, err, steps, tally, init_proj=None, init_st=None, views=None, acct_f=None):
    """steps: spec records (ev, out, ret, st) in order (scenario events included).  Returns (mismatches, index)."""
    if err and len(recs) < len(steps):
        # the run aborted: attribute to the phase that raised
        i = len(recs)
        ev = steps[i][0] if i < len(steps) else {"op": "?"}
        owner = "C08" if ev["op"] in ("endbar", "update") else "C05"
        return [MM(owner, "run_raises", f"Actuator.run raised {err} at event {i} ({ev['op']})")], i
    prev_proj = init_proj if init_proj is not None else {"w": pool.w0, "pos": {}, "lent": []}
    prev_st = {"pos": {tuple(k): v for k, v in init_st["pos"].items()}} if init_st else None
    for i, ((ev, out, ret, st), rec) in enumerate(zip(steps, recs)):
        mm = []
        if ev["op"] in ("endbar", "update"):
            if not rec.get("endbar"):
                return [MM("C05", "record_order", f"event {i}: expected the end of a bar")], i
            mm += cmp_state(rec["proj"], st, tally, True, prev_proj, prev_st)
        else:
            if rec.get("endbar"):
                return [MM("C05", "record_order", f"event {i}: expected an operation record")], i
            tally("uni/outcome")
            if rec["out"] != out:
                mm.append(MM("C03", "outcome", f"{ev['op']}: code {rec['out']} ({rec['exc']}), spec {out}"))
            else:
                if out == "ok":
                    for k in RET_KEYS[ev["op"]]:
                        tally("uni/return_value")
                        cv = rec["ret"][k]
                        if k == "liq":
                            if abs(int(cv) - nat(ret[k])) > max(4, nat(ret[k]) // 10 ** 9):
                                mm.append(MM("C07", "ret_liq", f"{ev['op']} returned liquidity {cv}, spec {nat(ret[k])}"))
                        elif not close(frac(Decimal(cv)), Q(ret[k]), REL, ABS):
                            mm.append(MM("C03", "ret_" + k, f"{ev['op']} returned {k} {cv}, spec {float(Q(ret[k]))!r}"))
                else:
                    tally("C04/reject_intact")
                    if prev_proj is not None and rec["proj"] != prev_proj:
                        mm.append(MM("C04", "reject_intact", f"{ev['op']} raised ({rec['exc']}) but wallet/positions changed"))
                mm += cmp_state(rec["proj"], st, tally)
        if not mm and views is not None:
            mm += cmp_view(pool, rec["view"], views[i], tally)
            # C01 at the account level: wallet at the bar's prices + the market's value (the pool's quote token is the account's)
            tally("C01/uni_account_net_value")
            price = Q(views[i]["price"])
            w = (Q(st["w"][0]), Q(st["w"][1])) if ev["op"] not in ("endbar", "update") else rec["proj"]["w"]
            b, q = (w[1], w[0]) if pool.zq else (w[0], w[1])
            fq = Fraction(1) if acct_f is None else acct_f          # account quote per pool quote token
            spec_av, spec_mv = (b * price + q) * fq, Q(views[i]["net"])
            nv, av, mv = rec["acct"]
            if acct_f is not None:
                tally("C01/uni_market_quote_differs_from_account_quote")
            if not close(av, spec_av, REL, ABS):
                mm.append(MM("C01", "asset_value", f"asset_value code {float(av)!r} spec {float(spec_av)!r}"))
            elif not close(mv, spec_mv, REL, ABS):
                mm.append(MM("C01", "market_net_value", f"uniswap net_value code {float(mv)!r} spec {float(spec_mv)!r}"))
            elif not close(nv, spec_av + spec_mv * fq, REL, ABS):
                mm.append(MM("C01", "net_value", f"account net_value code {float(nv)!r} spec {float(spec_av + spec_mv * fq)!r}"
                                                 + (f" (market quoted in a token worth {float(fq)} of the account's)" if acct_f is not None else "")))
        if not mm and ev["op"] not in ("endbar", "update"):
            # C03: frozen market.  add/remove/collect conserve the reported net value up to wallet dust (and the integer liquidity
            # floor, far below); buy/sell lose exactly the reported fee; nothing negative
            tally("C03/uni_value_conserved")
            dv = rec["acct"][0] - rec["nv0"]
            wv = rec["acct"][1] + abs(dv)
            dust = Fraction(1, 10 ** 5) * wv + Fraction(1, 10 ** 9) * (rec["acct"][0] + 1)
            if ev["op"] in ("add", "remove", "collect"):
                if abs(dv) > dust:
                    mm.append(MM("C03", "value_not_conserved", f"{ev['op']} ({rec['out']}) changed net value by {float(dv)!r} (dust {float(dust)!r})"))
            elif ev["op"] in ("lend", "unlend"):
                pass      # the position moves between this market's valuation and the borrower's (C01 owns "counted once")
            elif rec["out"] == "ok" and rec["ret"] is not None:
                fee = frac(Decimal(rec["ret"]["fee"]))
                fee_q = (fee if ev["op"] == "buy" else fee * Q(views[i]["price"]) if views is not None else fee) * (acct_f or 1)
                if abs(dv + fee_q) > dust:
                    mm.append(MM("C03", "swap_loses_fee", f"{ev['op']} changed net value by {float(dv)!r}, reported fee {float(fee_q)!r} (quote)"))
            elif dv > dust:
                mm.append(MM("C03", "value_created", f"{ev['op']} ({rec['out']}) raised net value by {float(dv)!r}"))
            tally("C03/uni_non_negative")
            pr = rec["proj"]
            if min(pr["w"]) < 0 or any(l < 0 or a < 0 or b_ < 0 for l, a, b_ in pr["pos"].values()):
                mm.append(MM("C03", "negative_holding", f"after {ev['op']}: wallet {pr['w']} positions {pr['pos']}"))
        if mm:
            return mm, i
        prev_proj, prev_st = rec["proj"], {"pos": {tuple(k): v for k, v in st["pos"].items()}}
    return [], len(steps)


def mirror_event(ev):
    ev = dict(ev)
    if "r" in ev:
        ev["r"] = (-ev["r"][1], -ev["r"][0])
    if ev["op"] == "collect":
        ev["m0"], ev["m1"] = ev["m1"], ev["m0"]
    return ev


def econ(pool: Pool, proj):
    """wallet and positions in base/quote terms with ranges in orientation-A ticks."""
    b, q = (proj["w"][1], proj["w"][0]) if pool.zq else (proj["w"][0], proj["w"][1])
    pos = {}
    for (lo, hi), (liq, p0, p1) in proj["pos"].items():
        key = (lo, hi) if pool.name == "A" else (-hi, -lo)
        pb, pq = (p1, p0) if pool.zq else (p0, p1)
        pos[key] = (liq, pb, pq)
    return b, q, pos

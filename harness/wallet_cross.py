"""Wallet leg of C03 / C04: MC_Wallet (spec/Wallet.tla alone, debits sized relative to the balance on both sides of the 1e-5 dust
tolerance) model-checked by TLC; every path of the state graph replayed into a real Broker (Asset.add / Asset.sub through
Broker.add_to_balance / subtract_from_balance) with outcome and balances compared exactly."""
from __future__ import annotations

import random
from decimal import Decimal
from fractions import Fraction

from . import tlc
from .common import VERIF, Check, close, frac, unq

SPEC = VERIF / "spec" / "mc" / "MC_Wallet.tla"


def dec(fr: Fraction) -> Decimal:
    d = Decimal(fr.numerator) / Decimal(fr.denominator)
    return d


def replay(states, owner):
    """-> (counts, violations)"""
    from . import sim  # noqa: F401
    from demeter import Broker, TokenInfo
    toks = {"usdc": TokenInfo("usdc", 6), "eth": TokenInfo("eth", 18)}
    b = Broker()
    w0 = states[0]["st"]["w"]
    for t, v in w0.items():
        b.set_balance(toks[t], dec(v))
    counts, viols = {}, []
    hist = []
    for s in states[1:]:
        ev, out = s["last"]["ev"], s["last"]["out"]
        a = dec(ev["a"])
        if frac(a) != ev["a"]:
            break               # an amount without a finite decimal expansion (1/3 x ...): not representable as a Decimal argument
        before = {t: frac(b.get_token_balance(toks[t])) for t in toks}
        try:
            if ev["op"] == "add":
                b.add_to_balance(toks[ev["t"]], a)
            else:
                b.subtract_from_balance(toks[ev["t"]], a)
            got = "ok"
        except Exception as e:
            got = "reject"
        after = {t: frac(b.get_token_balance(toks[t])) for t in toks}
        hist.append(f"{ev['op']}({ev['t']}, {a})->{got}")
        rep = {"kind": "wallet_path", "owner": owner, "w0": {t: str(v) for t, v in w0.items()},
               "events": [{"op": x["last"]["ev"]["op"], "t": x["last"]["ev"]["t"], "a": str(x["last"]["ev"]["a"])} for x in states[1:len(hist) + 1]]}
        bal, pre = after[ev["t"]], before[ev["t"]]
        if owner == "C04":
            counts["C04/wallet/rejected_debit_leaves_balance"] = counts.get("C04/wallet/rejected_debit_leaves_balance", 0) + (got == "reject")
            if got == "reject" and after != before:
                viols.append(("Broker.subtract_from_balance|reject_intact|wallet", f"after {' ; '.join(hist)}: raised but balances {before} -> {after}", rep))
                break
        if owner == "C03":
            counts["C03/wallet/outcome_and_balance"] = counts.get("C03/wallet/outcome_and_balance", 0) + 1
            if any(v < 0 for v in after.values()):
                viols.append(("Broker.subtract_from_balance|negative_holding|wallet", f"after {' ; '.join(hist)}: balances {after}", rep))
                break
            if ev["op"] == "sub" and got == "ok":
                taken = pre - bal
                if frac(a) - taken > Fraction(1001, 10 ** 8) * pre:
                    viols.append(("Broker.subtract_from_balance|value_created_beyond_dust|wallet",
                                  f"after {' ; '.join(hist)}: {a} handed out of a balance of {float(pre)!r} ({float(frac(a) / pre - 1) if pre else 0:.2e} above it), "
                                  f"only {float(taken)!r} taken", rep))
                    break
        # conformance with the spec state (a deviation ends the path; it is owned by C03: the wallet is C03's dust rule)
        spec_bal = s["st"]["w"][ev["t"]]
        if got != out or bal != spec_bal:
            if owner == "C03":
                viols.append(("Broker.subtract_from_balance|wallet_follows_dust_rule|wallet",
                              f"after {' ; '.join(hist)}: code {got} balance {float(bal)!r}, specification {out} balance {float(spec_bal)!r}", rep))
            else:
                counts["other/C03/wallet_follows_dust_rule"] = counts.get("other/C03/wallet_follows_dust_rule", 0) + 1
            break
    return counts, viols, len(hist)


# ---- Broker.swap_by_from / swap_by_to (MC_WalletSwap) -----------------------------------------------------------------
SWAP_SPEC = VERIF / "spec" / "mc" / "MC_WalletSwap.tla"
PX = [None, {"usdc": Fraction(1), "eth": Fraction(2000)}, {"usdc": Fraction(19, 20), "eth": Fraction(1600)}]
REL = Fraction(1, 10 ** 30)      # Decimal divisions at 35 significant digits (tolerance table of DESIGN 2.3)


def replay_swap(states, owner):
    """One behaviour of MC_WalletSwap against a real Broker.  -> (counts, violations, steps)"""
    from . import sim  # noqa: F401
    import pandas as pd
    from demeter import Broker, TokenInfo
    toks = {"usdc": TokenInfo("usdc", 6), "eth": TokenInfo("eth", 18)}
    acts = []
    b = Broker(record_action_callback=acts.append)
    w0 = states[0]["st"]["w"]
    for t, v in w0.items():
        b.set_balance(toks[t], dec(v))
    counts, viols, hist = {}, [], []

    def c(k, n=1):
        counts[k] = counts.get(k, 0) + n
    for i, s in enumerate(states[1:]):
        ev, out = s["last"]["ev"], s["last"]["out"]
        a = dec(ev["a"])
        if frac(a) != ev["a"]:
            break               # not representable as a Decimal argument
        px = PX[ev["px"]]
        prices = pd.Series({toks[t].name: dec(v) for t, v in px.items()})
        before = {t: frac(b.get_token_balance(toks[t])) for t in toks}
        n0 = len(acts)
        # the API takes `Decimal | float`: every other swap hands its amount over as a float when the amount is one exactly
        arg = float(a) if (i % 2 == 1 and ev["op"] in ("swapf", "swapt") and Fraction(float(a)) == frac(a)) else a
        try:
            if ev["op"] == "add":
                b.add_to_balance(toks[ev["t"]], a)
            elif ev["op"] == "sub":
                b.subtract_from_balance(toks[ev["t"]], a)
            elif ev["op"] == "swapf":
                b.swap_by_from(toks[ev["t"]], toks[ev["to"]], arg, prices, dec(ev["fee"]))
            else:
                b.swap_by_to(toks[ev["t"]], toks[ev["to"]], arg, prices, dec(ev["fee"]))
            got = "ok"
        except Exception as e:
            got = "reject"
        after = {t: frac(b.get_token_balance(toks[t])) for t in toks}
        hist.append(f"{ev['op']}({ev['t']}->{ev['to']}, {a}{' as float' if isinstance(arg, float) else ''}, px{ev['px']}, fee {ev['fee']})->{got}")
        rep = {"kind": "wallet_swap_path", "owner": owner, "w0": {t: str(v) for t, v in w0.items()},
               "events": [{**{k: x["last"]["ev"][k] for k in ("op", "t", "to", "px")}, "a": str(x["last"]["ev"]["a"]), "fee": str(x["last"]["ev"]["fee"])}
                          for x in states[1:i + 2]]}
        swap = ev["op"] in ("swapf", "swapt")
        val = lambda w: sum(w[t] * px[t] for t in toks)
        if owner == "C04":
            c("C04/wallet/rejected_swap_leaves_wallet_and_log", int(got == "reject"))
            if got == "reject" and (after != before or len(acts) != n0):
                viols.append(("Broker.swap|reject_intact|wallet", f"after {' ; '.join(hist)}: raised but balances {before} -> {after}, "
                              f"{len(acts) - n0} action record(s) added", rep))
                break
        if owner == "C03":
            c("C03/wallet/swap_value_and_sign")
            if any(v < 0 for v in after.values()):
                viols.append(("Broker.swap|negative_holding|wallet", f"after {' ; '.join(hist)}: balances {after}", rep))
                break
            dust = Fraction(1001, 10 ** 8) * before[ev["t"]] * px[ev["t"]]
            gain = val(after) - val(before)
            if got == "reject" and gain > 0:
                viols.append(("Broker.swap|value_created|wallet", f"after {' ; '.join(hist)}: a raised call raised the value by {float(gain)!r}", rep))
                break
            if swap and got == "ok":
                if len(acts) != n0 + 1:
                    viols.append(("Broker.swap|swap_loses_reported_fee|wallet", f"after {' ; '.join(hist)}: {len(acts) - n0} action records for one swap", rep))
                    break
                fee = frac(acts[-1].fee) * px[ev["t"]]          # reported in the "from" token
                loss = -gain
                tol = REL * max(val(before), Fraction(1))
                if loss < fee - dust - tol or loss > fee + tol:
                    viols.append(("Broker.swap|swap_loses_reported_fee|wallet",
                                  f"after {' ; '.join(hist)}: the wallet's value at the prices of the swap fell by {float(loss)!r}, the reported fee is worth "
                                  f"{float(fee)!r} (dust forgiven by the debit at most {float(dust)!r})", rep))
                    break
        # conformance with the spec state (amounts of the swap, balances); owned by C03 (the swap rule), counted elsewhere
        spec_w = s["st"]["w"]
        dev = got != out or any(not close(after[t], spec_w[t], REL) for t in toks)
        if not dev and swap and got == "ok":
            r = s["last"]["r"]
            act = acts[-1]
            dev = not (close(frac(act.from_amount), r[0], REL) and close(frac(act.to_amount), r[1], REL) and close(frac(act.fee), r[2], REL)
                       and act.from_token == toks[ev["t"]] and act.to_token == toks[ev["to"]])
        if dev:
            if owner == "C03":
                viols.append(("Broker.swap|wallet_follows_swap_rule|wallet",
                              f"after {' ; '.join(hist)}: code {got} balances { {t: float(v) for t, v in after.items()} }, specification {out} "
                              f"balances { {t: float(v) for t, v in spec_w.items()} }", rep))
            else:
                c("other/C03/wallet_follows_swap_rule")
            break
    return counts, viols, len(hist)


def spec_swap_states(r):
    """Expected side of a stored swap path, recomputed by the rule of Wallet!BSwapFrom / BSwapTo (exact rationals)."""
    dust = Fraction(5902958103587057, 590295810358705651712)
    w = {t: Fraction(v) for t, v in r["w0"].items()}
    states = [{"st": {"w": dict(w)}}]

    def wsub(bal, a):
        base = bal if bal != 0 else a
        if base == 0:
            return True, bal
        if abs((bal - a) / base) < dust:
            return True, Fraction(0)
        if bal - a < 0:
            return False, bal
        return True, bal - a
    for e in r["events"]:
        a, fee, px = Fraction(e["a"]), Fraction(e["fee"]), PX[e["px"]]
        out, res = "ok", ()
        if e["op"] == "add":
            w[e["t"]] += a
        elif e["op"] == "sub":
            ok, nb = wsub(w[e["t"]], a)
            out = "ok" if ok else "reject"
            w[e["t"]] = nb
        else:
            if not (0 <= fee < 1):
                out, res = "reject", (Fraction(0),) * 3
            else:
                if e["op"] == "swapf":
                    fa, ta = a, a * px[e["t"]] * (1 - fee) / px[e["to"]]
                else:
                    fa, ta = a * px[e["to"]] / (1 - fee) / px[e["t"]], a
                ok, nb = wsub(w[e["t"]], fa)
                res = (fa, ta, fa * fee)
                if ok:
                    w[e["t"]] = nb
                    w[e["to"]] += ta
                else:
                    out = "reject"
        states.append({"st": {"w": dict(w)}, "last": {"ev": {**e, "a": a, "fee": fee}, "out": out, "r": res}})
    return states


def run_swap(chk: Check, owner: str):
    quick = chk.tier == "quick"
    for cfg, inv in (("MC_WalletSwap_dev1.cfg", "Inv_C04_RejectIntact"), ("MC_WalletSwap_dev2.cfg", "Inv_C03_SwapLosesFee")):
        r = tlc.run(SWAP_SPEC, SWAP_SPEC.parent / cfg, chk.tmp, workers=4, timeout=600)
        hit = inv in r.violated
        chk.extra.setdefault("dev_switch_detected", {})["wallet/" + cfg[:-4]] = hit
        if not hit:
            raise RuntimeError(f"vacuous: {cfg} does not violate {inv}")
    res, g = tlc.dump_graph(SWAP_SPEC, SWAP_SPEC.parent / ("MC_WalletSwap_quick.cfg" if quick else "MC_WalletSwap_thorough.cfg"), chk.tmp,
                            workers=16, timeout=1500)
    chk.add_tlc(res, "wallet:MC_WalletSwap")
    chk.spec_violation(res, "MC_WalletSwap")
    nodes = {k: unq(v) for k, v in g.nodes.items()}
    paths = g.bfs_paths()
    rnd = random.Random(chk.seed + 7)
    budget = 3000 if quick else 40000
    paths, _ = tlc.choose_paths(g, paths, budget, rnd)
    for p in paths:
        counts, viols, n = replay_swap([nodes[i] for i in p], owner)
        chk.traces += 1
        chk.evaluations += n
        for c, k in counts.items():
            chk.count(c, k)
        for sig, what, rep in viols:
            chk.violation(sig, what, rep)
    chk.assumptions.append("wallet swaps: Broker.swap_by_from / swap_by_to at the prices handed in (two price vectors, fee rates 0, 0.003, 1/2 and "
                           "the illegal 1); a swap with a caller-chosen price is outside C03 - the clause is evaluated at the very prices of the call")


def run_cross(chk: Check, owner: str):
    if owner not in ("C03", "C04"):
        return
    run_swap(chk, owner)
    quick = chk.tier == "quick"
    r = tlc.run(SPEC, SPEC.parent / "MC_Wallet_dev.cfg", chk.tmp, workers=4, timeout=600)
    hit = "Inv_C03_Dust" in r.violated
    chk.extra.setdefault("dev_switch_detected", {})["wallet/DEV_DustTenfold"] = hit
    if not hit:
        raise RuntimeError("vacuous: DEV_DustTenfold does not violate Inv_C03_Dust")
    res, g = tlc.dump_graph(SPEC, SPEC.parent / ("MC_Wallet_quick.cfg" if quick else "MC_Wallet_thorough.cfg"), chk.tmp, workers=16, timeout=1500)
    chk.add_tlc(res, "wallet:MC_Wallet")
    chk.spec_violation(res, "MC_Wallet")
    nodes = {k: unq(v) for k, v in g.nodes.items()}
    paths = g.bfs_paths()
    rnd = random.Random(chk.seed)
    budget = 4000 if quick else 60000
    paths, _ = tlc.choose_paths(g, paths, budget, rnd)
    for p in paths:
        counts, viols, n = replay([nodes[i] for i in p], owner)
        chk.traces += 1
        chk.evaluations += n
        for c, k in counts.items():
            chk.count(c, k)
        for sig, what, rep in viols:
            chk.violation(sig, what, rep)
    chk.assumptions.append("wallet: amounts are exact decimals; relative excesses over the touched balance in {-1/2, -2e-5, -9e-6, -1e-6, 0, 1e-6, "
                           "9e-6, 1.1e-5, 2e-5, 5e-5, 1e-4, 1e-3, 1} (the float literal 0.00001 itself is not probed: band of the limit)")


def replay_cross(chk: Check, r: dict):
    if r.get("kind") == "wallet_swap_path":
        counts, viols, n = replay_swap(spec_swap_states(r), r["owner"])
        chk.traces += 1
        chk.evaluations += n
        for sig, what, rep in viols:
            chk.violation(sig, what, rep)
        return
    states = [{"st": {"w": {t: Fraction(v) for t, v in r["w0"].items()}}}]
    # the expected side is recomputed by the specification's rule (exact rationals), as Wallet!WSub does
    w = dict(states[0]["st"]["w"])
    dust = Fraction(5902958103587057, 590295810358705651712)      # Wallet!DustRatio = the double 0.00001
    for e in r["events"]:
        a = Fraction(e["a"])
        bal = w[e["t"]]
        out = "ok"
        if e["op"] == "add":
            w[e["t"]] = bal + a
        else:
            base = bal if bal != 0 else a
            if base == 0:
                pass
            elif abs((bal - a) / base) < dust:
                w[e["t"]] = Fraction(0)
            elif bal - a < 0:
                out = "reject"
            else:
                w[e["t"]] = bal - a
        states.append({"st": {"w": dict(w)}, "last": {"ev": {"op": e["op"], "t": e["t"], "a": a}, "out": out}})
    counts, viols, n = replay(states, r["owner"])
    chk.traces += 1
    chk.evaluations += n
    for sig, what, rep in viols:
        chk.violation(sig, what, rep)

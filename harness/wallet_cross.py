"""Wallet leg of C03 / C04: MC_Wallet (spec/Wallet.tla alone, debits sized relative to the balance on both sides of the 1e-5 dust
tolerance) model-checked by TLC; every path of the state graph replayed into a real Broker (Asset.add / Asset.sub through
Broker.add_to_balance / subtract_from_balance) with outcome and balances compared exactly."""
from __future__ import annotations

import random
from decimal import Decimal
from fractions import Fraction

from . import tlc
from .common import VERIF, Check, frac, unq

SPEC = VERIF / "spec" / "mc" / "MC_Wallet.tla"


def dec(fr: Fraction) -> Decimal:
    d = Decimal(fr.numerator) / Decimal(fr.denominator)
    return d


def replay(states, owner):
    """-> (counts, violations)"""
    from . import sim  # noqa: F401
    from demeter import Broker, TokenInfo
    toks = {"usdc": TokenInfo("usdc", 6), "eth": TokenInfo("eth", 18)}
    b = Broker()
    w0 = states[0]["st"]["w"]
    for t, v in w0.items():
        b.set_balance(toks[t], dec(v))
    counts, viols = {}, []
    hist = []
    for s in states[1:]:
        ev, out = s["last"]["ev"], s["last"]["out"]
        a = dec(ev["a"])
        if frac(a) != ev["a"]:
            break               # an amount without a finite decimal expansion (1/3 x ...): not representable as a Decimal argument
        before = {t: frac(b.get_token_balance(toks[t])) for t in toks}
        try:
            if ev["op"] == "add":
                b.add_to_balance(toks[ev["t"]], a)
            else:
                b.subtract_from_balance(toks[ev["t"]], a)
            got = "ok"
        except Exception as e:
            got = "reject"
        after = {t: frac(b.get_token_balance(toks[t])) for t in toks}
        hist.append(f"{ev['op']}({ev['t']}, {a})->{got}")
        rep = {"kind": "wallet_path", "owner": owner, "w0": {t: str(v) for t, v in w0.items()},
               "events": [{"op": x["last"]["ev"]["op"], "t": x["last"]["ev"]["t"], "a": str(x["last"]["ev"]["a"])} for x in states[1:len(hist) + 1]]}
        bal, pre = after[ev["t"]], before[ev["t"]]
        if owner == "C04":
            counts["C04/wallet/rejected_debit_leaves_balance"] = counts.get("C04/wallet/rejected_debit_leaves_balance", 0) + (got == "reject")
            if got == "reject" and after != before:
                viols.append(("Broker.subtract_from_balance|reject_intact|wallet", f"after {' ; '.join(hist)}: raised but balances {before} -> {after}", rep))
                break
        if owner == "C03":
            counts["C03/wallet/outcome_and_balance"] = counts.get("C03/wallet/outcome_and_balance", 0) + 1
            if any(v < 0 for v in after.values()):
                viols.append(("Broker.subtract_from_balance|negative_holding|wallet", f"after {' ; '.join(hist)}: balances {after}", rep))
                break
            if ev["op"] == "sub" and got == "ok":
                taken = pre - bal
                if frac(a) - taken > Fraction(1001, 10 ** 8) * pre:
                    viols.append(("Broker.subtract_from_balance|value_created_beyond_dust|wallet",
                                  f"after {' ; '.join(hist)}: {a} handed out of a balance of {float(pre)!r} ({float(frac(a) / pre - 1) if pre else 0:.2e} above it), "
                                  f"only {float(taken)!r} taken", rep))
                    break
        # conformance with the spec state (a deviation ends the path; it is owned by C03: the wallet is C03's dust rule)
        spec_bal = s["st"]["w"][ev["t"]]
        if got != out or bal != spec_bal:
            if owner == "C03":
                viols.append(("Broker.subtract_from_balance|wallet_follows_dust_rule|wallet",
                              f"after {' ; '.join(hist)}: code {got} balance {float(bal)!r}, specification {out} balance {float(spec_bal)!r}", rep))
            else:
                counts["other/C03/wallet_follows_dust_rule"] = counts.get("other/C03/wallet_follows_dust_rule", 0) + 1
            break
    return counts, viols, len(hist)


def run_cross(chk: Check, owner: str):
    if owner not in ("C03", "C04"):
        return
    quick = chk.tier == "quick"
    r = tlc.run(SPEC, SPEC.parent / "MC_Wallet_dev.cfg", chk.tmp, workers=4, timeout=600)
    hit = "Inv_C03_Dust" in r.violated
    chk.extra.setdefault("dev_switch_detected", {})["wallet/DEV_DustTenfold"] = hit
    if not hit:
        raise RuntimeError("vacuous: DEV_DustTenfold does not violate Inv_C03_Dust")
    res, g = tlc.dump_graph(SPEC, SPEC.parent / ("MC_Wallet_quick.cfg" if quick else "MC_Wallet_thorough.cfg"), chk.tmp, workers=16, timeout=1500)
    chk.add_tlc(res, "wallet:MC_Wallet")
    chk.spec_violation(res, "MC_Wallet")
    nodes = {k: unq(v) for k, v in g.nodes.items()}
    paths = g.bfs_paths()
    rnd = random.Random(chk.seed)
    budget = 4000 if quick else 60000
    if len(paths) > budget:
        paths = rnd.sample(paths, budget)
    for p in paths:
        counts, viols, n = replay([nodes[i] for i in p], owner)
        chk.traces += 1
        chk.evaluations += n
        for c, k in counts.items():
            chk.count(c, k)
        for sig, what, rep in viols:
            chk.violation(sig, what, rep)
    chk.assumptions.append("wallet: amounts are exact decimals; relative excesses over the touched balance in {-1/2, -2e-5, -9e-6, -1e-6, 0, 1e-6, "
                           "9e-6, 1.1e-5, 2e-5, 5e-5, 1e-4, 1e-3, 1} (the float literal 0.00001 itself is not probed: band of the limit)")


def replay_cross(chk: Check, r: dict):
    states = [{"st": {"w": {t: Fraction(v) for t, v in r["w0"].items()}}}]
    # the expected side is recomputed by the specification's rule (exact rationals), as Wallet!WSub does
    w = dict(states[0]["st"]["w"])
    dust = Fraction(5902958103587057, 590295810358705651712)      # Wallet!DustRatio = the double 0.00001
    for e in r["events"]:
        a = Fraction(e["a"])
        bal = w[e["t"]]
        out = "ok"
        if e["op"] == "add":
            w[e["t"]] = bal + a
        else:
            base = bal if bal != 0 else a
            if base == 0:
                pass
            elif abs((bal - a) / base) < dust:
                w[e["t"]] = Fraction(0)
            elif bal - a < 0:
                out = "reject"
            else:
                w[e["t"]] = bal - a
        states.append({"st": {"w": dict(w)}, "last": {"ev": {"op": e["op"], "t": e["t"], "a": a}, "out": out}})
    counts, viols, n = replay(states, r["owner"])
    chk.traces += 1
    chk.evaluations += n
    for sig, what, rep in viols:
        chk.violation(sig, what, rep)

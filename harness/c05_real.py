"""C05 leg "markets": the REAL markets of every type (UniLpMarket, AaveV3Market, SqueethMarket + its pool, DeribitOptionMarket,
GmxMarket, GmxV2Market) run by the real Actuator over 1-minute and resampled grids, under the C05 recorder.

The worlds (frames from bar symbols, data-dependent scripted operations open / adjust / close placed in before_bar / on_bar /
after_bar) are those of harness/nla_drv.py; the events are logged in the record shape of BarLoop!Ev so that the trace is
validated by spec/trace/Trace_BarLoop.tla exactly like the synthetic-market traces:

  status  wrapper around Market.set_market_status (is_open after the call)
  upd     wrapper around Market.update (records appended by fee accrual / liquidation / settlement)
  init bb ob ab ntf fin   the strategy's hooks
  op      ONE event per action record a scripted operation appended (the spec's operations append exactly one record), kind
          "w" for the first record of a market whose has_update flag the call raised (a @write_func operation), "n" otherwise;
          a scripted operation that raised adds one rejected op ("nx")
  rec     wrapper around Broker.get_account_status: timestamp, and px = BarLoop!PriceAt(first minute of the bar) iff the price
          vector used for the row EQUALS the supplied price frame's row at the first minute of the bar (the projection of
          "the row is valued with the bar's token prices" onto the spec's synthetic price), else -3
  rowlist rows end        Actuator.account_status, account_status_df (index + price columns, same projection), Actuator.actions
"""
from __future__ import annotations

from decimal import Decimal

D = Decimal

from .common import frac
from .props.c05 import E, price_at

KINDS = ("uni", "aave", "squeeth", "deribit", "gmx1", "gmx2")


def mix_config(real):
    from . import sim
    from .deribit_util import ts_of
    order = real["order"]
    if order == "D":
        # the hourly option market alone, at interval "1min", under a MINUTELY price frame: the bars are the hours of the book
        start, ln = real["start"], real["len"]
        hours = [t for t in range((start // 60) * 60, start + ln + 60, 60) if start <= t < start + ln]
        return {"s": sim.to_min(ts_of(hours[0])), "iv": 60, "len": 60 * (len(hours) - 1) + 1, "nt": 0, "mk": [{"h": True, "cb": False}]}
    return {"s": sim.to_min(ts_of(real["start"])), "iv": real["iv"], "len": real["len"], "nt": 0,
            "mk": [{"h": ch == "D", "cb": False} for ch in order]}


def run_mix(real, tmp):
    """a minutely market next to the hourly DeribitOptionMarket whose book lists MANY instruments per hour (more book rows than
    minutes in the window): the run must iterate the minutely index.  Scripted: deposit in initialize, an option order in
    on_bar of every bar (accepted on the hour, rejected by the closed market in between), deposit / withdraw in after_bar."""
    import pandas as pd

    from . import nla_drv, sim
    from .deribit_util import book_frame, ts_of
    from demeter import Actuator, MarketInfo, MarketTypeEnum, Strategy
    from demeter.deribit import DeribitOptionMarket
    start, ln, iv, order, ninstr = real["start"], real["len"], real["iv"], real["order"], real["ninstr"]
    minutes = list(range(start, start + ln))
    idx = pd.DatetimeIndex([ts_of(t) for t in minutes])
    hours = [t for t in range((start // 60) * 60, start + ln + 60, 60) if start <= t < start + ln]   # inside the price frame
    und = {t: 2000 + 50 * ((t // 60) % 3) for t in hours}
    frames_ = [book_frame(nla_drv.DERIBIT_BOOKS[(t // 60) % len(nla_drv.DERIBIT_BOOKS)], nla_drv.DERIBIT_INFO,
                          extra_rows=[(f"X{j:03d}", und[t]) for j in range(ninstr)]) for t in hours]
    data = pd.concat(frames_, keys=[ts_of(t) for t in hours], names=["time", "instrument_name"])
    prices = pd.DataFrame(index=idx, data={"ETH": [D(2000 + (t * 7) % 13) for t in minutes]})
    act = Actuator()
    eth = DeribitOptionMarket.ETH
    opt = DeribitOptionMarket(MarketInfo("opt", MarketTypeEnum.deribit_option), eth, data=data)
    nm = sim.NullMarket(MarketInfo("minutely"), pd.DataFrame(index=idx, data={"v": range(len(idx))}))
    for ch in order:
        act.broker.add_market(opt if ch == "D" else nm)
    if order == "D":
        iv = 1
    act.set_price(prices, sim.USDC)
    act.broker.set_balance(eth, D(1000))
    if iv != 1:
        act.interval = f"{iv}min"
    markets = list(act.broker.markets.values())
    jd = markets.index(opt) + 1
    events = []
    state = {"started": False}
    log = events.append

    def acts_from(n0):
        al = act.actions
        return [(i + 1, sim.to_min(al[i].timestamp) if al[i].timestamp is not None else -1) for i in range(n0, len(al))]

    def op(fn, write):
        n0 = len(act.actions)
        try:
            fn()
            ok = True
        except Exception:
            ok = False
        recs = acts_from(n0)
        if ok:
            for r in recs:
                log(E("op", m=jd, k="w" if write else "n", f=True, a=[r]))
        else:
            log(E("op", m=jd, k="w" if write else "nx", f=False, a=recs))

    def px_of(p, ts):
        t = pd.Timestamp(ts)
        if t not in prices.index:
            return -3
        ok = "ETH" in p.index and frac(p["ETH"]) == frac(prices.loc[t]["ETH"]) and all(k == "ETH" or frac(p[k]) == 1 for k in p.index)
        return price_at(sim.to_min(t)) if ok else -3

    class Rec(Strategy):
        def initialize(self_):
            state["started"] = True
            log(E("init"))
            op(lambda: opt.deposit(D(10)), False)

        def before_bar(self_, snapshot):
            log(E("bb", ts=sim.to_min(snapshot.timestamp), n=len(self_.account_status)))

        def on_bar(self_, snapshot):
            log(E("ob", ts=sim.to_min(snapshot.timestamp), n=len(self_.account_status)))
            op(lambda: opt.buy("P", D(1)), True)

        def after_bar(self_, snapshot):
            log(E("ab", ts=sim.to_min(snapshot.timestamp), n=len(self_.account_status)))
            if snapshot.row_id % 3 == 1:
                op(lambda: opt.withdraw(D("0.5")), False)

        def notify(self_, action):
            ident = next((i + 1 for i, a in enumerate(act.actions) if a is action), 0)
            log(E("ntf", m=ident, ts=sim.to_min(action.timestamp) if action.timestamp is not None else -1, n=len(self_.account_status)))

        def finalize(self_):
            log(E("fin", n=len(self_.account_status)))

    for j, m in enumerate(markets, 1):
        _wrap(m, j, log, acts_from, sim)
    orig_status = act.broker.get_account_status

    def get_account_status(p, timestamp=None):
        res = orig_status(p, timestamp)
        if state["started"]:
            log(E("rec", ts=sim.to_min(timestamp) if timestamp is not None else -1, px=px_of(p, timestamp)))
        return res

    act.broker.get_account_status = get_account_status
    act.strategy = Rec()
    try:
        act.run(print_result=False)
        log(E("rowlist", r=[(sim.to_min(s_.timestamp), -1) for s_ in act.account_status]))
        df = act.account_status_df
        pcols = [c for c in df.columns if isinstance(c, tuple) and c[0] == "price"]
        log(E("rows", r=[(sim.to_min(t), px_of(pd.Series({c[1]: df[c].iloc[i] for c in pcols}), t)) for i, t in enumerate(df.index)]))
        log(E("end", a=acts_from(0)))
    except Exception as ex:
        return events, f"{type(ex).__name__}: {ex}"
    return events, None


def config(kind: str, F: int, nbars: int):
    """BarLoop configuration record of the run (minutes since harness/sim.BASE)."""
    from . import nla_drv
    per = nla_drv.period_min(kind)
    nmk = 2 if kind == "squeeth" else 1
    s0 = 0
    if kind == "deribit":
        from . import sim
        from .deribit_util import ts_of
        s0 = sim.to_min(ts_of(0))
    return {"s": s0, "iv": F * per, "len": per * F * nbars, "nt": 0,
            "mk": [{"h": kind == "deribit", "cb": False} for _ in range(nmk)]}


def run_case(real, tmp):
    """-> (events, error text or None)"""
    import pandas as pd

    from . import nla_drv, sim
    from demeter import Strategy
    if real["kind"] == "mix":
        return run_mix(real, tmp)
    kind, F, script, hist = real["kind"], real["F"], real["script"], tuple(real["hist"])
    nb = len(hist)
    raw = nla_drv.raw_of(hist, F)
    fr, _rawfr = nla_drv.frames(kind, raw, tmp)
    if "ARB" in getattr(fr.get("prices"), "columns", ()):
        # the late-quoted token of the C02 worlds (NaN before its first quote) stays out of C05's runs: on a resampled grid the bar's
        # price of such a column is the first QUOTE inside the bar, not the first minute's cell, and "the bar's token prices" is
        # decided here against the first minute's row
        fr["prices"] = fr["prices"].drop(columns=["ARB"])
    w = nla_drv.actuator(kind, F, fr)
    act = w.act
    supplied_prices = fr["prices"]           # the frame object the user supplied (the actuator resamples a copy)
    events = []
    markets = list(act.broker.markets.values())
    index_of = {m.market_info: j for j, m in enumerate(markets, 1)}
    state = {"bar": -1, "started": False}

    def log(ev):
        events.append(ev)

    def acts_from(n0):
        al = act.actions
        return [(i + 1, sim.to_min(al[i].timestamp) if al[i].timestamp is not None else -1) for i in range(n0, len(al))]

    def px_of(prices, ts):
        """the spec's synthetic price of the bar iff `prices` is the supplied row of the bar's first minute"""
        t = pd.Timestamp(ts)
        if t not in supplied_prices.index:
            return -3
        want = supplied_prices.loc[t]
        def eq(a, b):
            """same number: exactly, or a float against its shortest decimal representation (the actuator turns the supplied
            floats into Decimals through str)"""
            if pd.isna(a) or pd.isna(b):
                return bool(pd.isna(a) and pd.isna(b))
            fa, fb = frac(a), frac(b)
            if fa == fb:
                return True
            sa = Decimal(repr(float(a))) if isinstance(a, float) else a
            sb = Decimal(repr(float(b))) if isinstance(b, float) else b
            return frac(sa) == frac(sb)
        try:
            # the actuator adds a column for the account's quote token (price 1) to its own copy of the frame
            same = all(k in prices.index and eq(prices[k], want[k]) for k in want.index) \
                and all(k in want.index or eq(prices[k], 1) for k in prices.index)
        except Exception:
            same = False
        return price_at(sim.to_min(t)) if same else -3

    def do(op, snapshot):
        n0 = len(act.actions)
        before = {m.market_info: bool(m.has_update) for m in markets}
        k0 = len(w.outcomes)
        w.do(op, snapshot)
        raised = w.outcomes[k0][1] != "ok"
        wrote = {mi for m in markets for mi in [m.market_info] if m.has_update and not before[mi]}
        for i in range(n0, len(act.actions)):
            a = act.actions[i]
            j = index_of.get(a.market, 1)
            kind_ = "n"
            if a.market in wrote:
                kind_ = "w"
                wrote.discard(a.market)
            log(E("op", m=j, k=kind_, f=True, a=[(i + 1, sim.to_min(a.timestamp) if a.timestamp is not None else -1)]))
        if raised:
            log(E("op", m=1, k="nx", f=False, a=[]))

    class Rec(Strategy):
        def initialize(self_):
            state["started"] = True
            log(E("init"))
            n0 = len(act.actions)
            w.init_ops()
            for i in range(n0, len(act.actions)):
                a = act.actions[i]
                log(E("op", m=index_of.get(a.market, 1), k="n", f=True,
                      a=[(i + 1, sim.to_min(a.timestamp) if a.timestamp is not None else -1)]))

        def _hook(self_, name, snapshot):
            if name == "bb":
                state["bar"] += 1
            log(E(name, ts=sim.to_min(snapshot.timestamp), n=len(self_.account_status)))
            for h, op in nla_drv.script_ops(script, state["bar"], nb):
                if h == name:
                    do(op, snapshot)

        def before_bar(self_, snapshot):
            self_._hook("bb", snapshot)

        def on_bar(self_, snapshot):
            self_._hook("ob", snapshot)

        def after_bar(self_, snapshot):
            self_._hook("ab", snapshot)

        def notify(self_, action):
            ident = next((i + 1 for i, a in enumerate(act.actions) if a is action), 0)
            log(E("ntf", m=ident, ts=sim.to_min(action.timestamp) if action.timestamp is not None else -1,
                  n=len(self_.account_status)))

        def finalize(self_):
            log(E("fin", n=len(self_.account_status)))

    for j, m in enumerate(markets, 1):
        _wrap(m, j, log, acts_from, sim)
    orig_status = act.broker.get_account_status

    def get_account_status(prices, timestamp=None):
        res = orig_status(prices, timestamp)
        if state["started"]:
            log(E("rec", ts=sim.to_min(timestamp) if timestamp is not None else -1, px=px_of(prices, timestamp)))
        return res

    act.broker.get_account_status = get_account_status
    act.strategy = Rec()
    try:
        act.run(print_result=False)
        log(E("rowlist", r=[(sim.to_min(s.timestamp), -1) for s in act.account_status]))
        df = act.account_status_df
        rows = []
        pcols = [c for c in df.columns if isinstance(c, tuple) and c[0] == "price"]
        for i, t in enumerate(df.index):
            pr = pd.Series({c[1]: df[c].iloc[i] for c in pcols})
            rows.append((sim.to_min(t), px_of(pr, t)))
        log(E("rows", r=rows))
        log(E("end", a=acts_from(0)))
    except Exception as ex:
        return events, f"{type(ex).__name__}: {ex}"
    return events, None


def _wrap(m, j, log, acts_from, sim):
    orig_set, orig_upd = m.set_market_status, m.update

    def set_market_status(data, price):
        res = orig_set(data, price)
        log(E("status", m=j, ts=sim.to_min(data.timestamp), f=bool(m.is_open)))
        return res

    def update():
        n0 = len(acts_from(0))
        res = orig_upd()
        log(E("upd", m=j, a=acts_from(n0)))
        return res

    m.set_market_status = set_market_status
    m.update = update


def cases(rnd, quick):
    """[(kind, F, script, hist)]: every kind x {1 min, resampled} x 3 scripts, a few histories each."""
    out = []
    nh = 2 if quick else 12
    for kind in KINDS:
        for F in (1, 2 if kind == "deribit" else 5):
            for script in (1, 2, 3):
                for _ in range(nh):
                    nb = rnd.randint(3, 6)
                    out.append({"kind": kind, "F": F, "script": script, "hist": [rnd.randint(1, 3) for _ in range(nb)]})
    for _ in range(4 if quick else 40):
        out.append({"kind": "mix", "order": rnd.choice(["MD", "DM"]), "start": rnd.choice([50, 55, 58, 60]), "len": rnd.randint(66, 80),
                    "iv": rnd.choice([1, 1, 5]), "ninstr": rnd.choice([45, 70])})
    for _ in range(2 if quick else 12):      # the option market alone under a minutely price frame (bars = hours, prices every minute)
        out.append({"kind": "mix", "order": "D", "start": rnd.choice([0, 60]), "len": rnd.choice([121, 181]), "iv": 1, "ninstr": 1})
    return out

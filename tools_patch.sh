#!/bin/sh
# usage: tools_patch.sh <patch file | -R:<commit>> <check id>...   run quick checks against a scratch worktree of /repo with the patch applied
set -e
P=$1; shift
D=$(mktemp -d /tmp/mut_XXXXXX)
git -C /repo worktree add -q --detach "$D/r" HEAD
case "$P" in
  -R:*) git -C "$D/r" revert --no-commit "${P#-R:}" >/dev/null ;;
  *) git -C "$D/r" apply "$P" ;;
esac
git -C "$D/r" diff HEAD --stat | tail -1
cd /verif
for ID in "$@"; do
  DEMETER_REPO="$D/r" VERIF_EVIDENCE_DIR="$D" ./check "$ID" --tier quick 2>&1 | grep -E "VIOLATION|KNOWN|^\[C|MACHINERY|Error" | cut -c1-500 | head -6
done
git -C /repo worktree remove --force "$D/r"; rm -rf "$D"

#!/venv/bin/python
"""Regenerates the seeded-change table of DESIGN.md section 12 from /verif/seeded/*/meta.json."""
import io
import re
import sys
from contextlib import redirect_stdout

sys.path.insert(0, "/verif")
from harness import seedtable

buf = io.StringIO()
with redirect_stdout(buf):
    seedtable.main()
p = "/verif/DESIGN.md"
s = open(p).read()
s = re.sub(r"<!-- SEEDTABLE BEGIN -->.*?<!-- SEEDTABLE END -->", "<!-- SEEDTABLE BEGIN -->\n" + buf.getvalue() + "<!-- SEEDTABLE END -->", s, flags=re.S)
open(p, "w").write(s)
print("table rows:", buf.getvalue().count("\n") - 2)

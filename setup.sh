#!/bin/sh
# Build step for a fresh restore (offline): compile TLC module overrides if any, parse every spec module.
set -e
cd "$(dirname "$0")"
mkdir -p evidence
if ls spec/lib/*.java >/dev/null 2>&1; then
  mkdir -p spec/lib/classes
  javac -cp /opt/veriftools/tla/tla2tools.jar -d spec/lib/classes spec/lib/*.java
fi
/venv/bin/python -m harness.sany
/venv/bin/python -m harness.numself
echo "setup ok"

#!/venv/bin/python
"""Re-run checks against seeds already kept under /verif/seeded (after a check was strengthened).

  tools_reseed.py <seed name> [check ids ...]      default check: the seed's owner property

Applies seeded/<name>/patch.diff to a scratch worktree of /repo HEAD (under /tmp, removed afterwards), runs
./check <id> --tier quick with DEMETER_REPO=<scratch>, and records the outcome in meta.json under checks[<id>]
(the earlier outcome of the same check is moved to checks_history).
"""
import json
import os
import shutil
import subprocess
import sys
import tempfile
import time


def sh(cmd, **kw):
    return subprocess.run(cmd, capture_output=True, text=True, **kw)


def main():
    name = sys.argv[1]
    out = os.path.join("/verif/seeded", name)
    meta = json.load(open(os.path.join(out, "meta.json")))
    ids = sys.argv[2:] or [meta["property"]]
    d = tempfile.mkdtemp(prefix="seedchk_")
    wt = os.path.join(d, "r")
    try:
        assert sh(["git", "-C", "/repo", "worktree", "add", "-q", "--detach", wt, "HEAD"]).returncode == 0
        ap = sh(["git", "-C", wt, "apply", os.path.join(out, "patch.diff")])
        if ap.returncode != 0:
            print(name, "patch does not apply:", ap.stderr[:300])
            return 2
        if not isinstance(meta.get("checks"), dict):
            meta["checks_first_round_text"] = meta.get("checks")
            meta["checks"] = {}
        head = sh(["git", "-C", "/repo", "rev-parse", "--short", "HEAD"]).stdout.strip()
        vhead = sh(["git", "-C", "/verif", "rev-parse", "--short", "HEAD"]).stdout.strip()
        for cid in ids:
            t0 = time.time()
            c = sh(["./check", cid, "--tier", "quick"], cwd="/verif",
                   env=dict(os.environ, DEMETER_REPO=wt, VERIF_EVIDENCE_DIR=d), timeout=3600)
            o = c.stdout + c.stderr
            viol = [l[:500] for l in o.splitlines() if l.startswith("VIOLATION")]
            if cid in meta["checks"]:
                meta.setdefault("checks_history", []).append({cid: meta["checks"][cid]})
            meta["checks"][cid] = {"exit": c.returncode, "violations": len(viol), "first": viol[:3],
                                   "wall_s": round(time.time() - t0), "repo": head, "verif": vhead,
                                   "machinery_failure_tail": o[-800:] if c.returncode not in (0, 1) else None}
            print(name, cid, "exit", c.returncode, "violations", len(viol), round(time.time() - t0), "s",
                  (viol or [""])[0][:260])
            if c.returncode not in (0, 1):
                print(o[-800:])
        meta["detected_by"] = sorted(cid for cid, v in meta["checks"].items()
                                     if isinstance(v, dict) and v.get("exit") == 1 and v.get("violations"))
    finally:
        sh(["git", "-C", "/repo", "worktree", "remove", "--force", wt])
        shutil.rmtree(d, ignore_errors=True)
    json.dump(meta, open(os.path.join(out, "meta.json"), "w"), indent=1)
    return 0


if __name__ == "__main__":
    sys.exit(main())

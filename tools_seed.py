#!/venv/bin/python
"""Confirm a seeded change and run checks against it.

  tools_seed.py <dir with patchK.diff demoK.py notesK.md> <K> <name> <owner property> [check ids ...]

1. scratch worktree of /repo HEAD (under /tmp), patch applied
2. repository test suite: the 111 baseline tests must still pass
3. demo: non-zero on the changed tree, zero on /repo
4. ./check <id> --tier quick with DEMETER_REPO=<scratch> for the given ids (default: the owner) - VIOLATION lines collected
5. scratch removed; result written to /verif/seeded/<name>/meta.json together with patch.diff and the demonstration
"""
import json
import os
import re
import shutil
import subprocess
import sys
import tempfile
import time
import xml.etree.ElementTree as ET

PY = "/venv/bin/python"


def sh(cmd, **kw):
    return subprocess.run(cmd, capture_output=True, text=True, **kw)


def main():
    src, k, name, owner = sys.argv[1], sys.argv[2], sys.argv[3], sys.argv[4]
    ids = [owner] + [x for x in sys.argv[5:] if x != owner]
    patch = os.path.join(src, f"patch{k}.diff")
    demo = os.path.join(src, f"demo{k}.py")
    notes = os.path.join(src, f"notes{k}.md")
    d = tempfile.mkdtemp(prefix="seedchk_")
    wt = os.path.join(d, "r")
    res = {"name": name, "property": owner, "source": "independent sub-agent given only the property text and a scratch worktree"}
    try:
        assert sh(["git", "-C", "/repo", "worktree", "add", "-q", "--detach", wt, "HEAD"]).returncode == 0
        ap = sh(["git", "-C", wt, "apply", patch])
        if ap.returncode != 0:
            res["error"] = "patch does not apply: " + ap.stderr[:300]
            print(json.dumps(res, indent=1))
            return 1
        res["files_changed"] = sh(["git", "-C", wt, "diff", "--stat"]).stdout.strip().splitlines()[:-1]
        # 2. test suite
        base = set(json.load(open("/root/.vp/BASELINE.json"))["stable_pass"])
        xml = os.path.join(d, "junit.xml")
        sh([PY, "-m", "pytest", "-q", "-p", "no:cacheprovider", "--timeout=900", "--continue-on-collection-errors",
            f"--junitxml={xml}"], cwd=wt)
        passed = set()
        for tc in ET.parse(xml).getroot().iter("testcase"):
            if not any(ch.tag in ("failure", "error", "skipped") for ch in tc):
                passed.add(f"{tc.get('classname')}::{tc.get('name')}")
        res["baseline_tests_still_pass"] = base <= passed
        res["baseline_tests_lost"] = sorted(base - passed)[:5]
        # 3. demo
        env = dict(os.environ, DEMETER_REPO=wt)
        r1 = sh([PY, demo], env=env, cwd=wt, timeout=900)
        r0 = sh([PY, demo], env=dict(os.environ, DEMETER_REPO="/repo"), cwd="/repo", timeout=900)
        res["demo_exit_changed"], res["demo_exit_unchanged"] = r1.returncode, r0.returncode
        res["demo_output_changed_tail"] = (r1.stdout + r1.stderr)[-600:]
        res["confirmed"] = bool(res["baseline_tests_still_pass"] and r1.returncode != 0 and r0.returncode == 0)
        # 4. checks
        res["checks"] = {}
        for cid in ids:
            t0 = time.time()
            c = sh(["./check", cid, "--tier", "quick"], cwd="/verif", env=dict(os.environ, DEMETER_REPO=wt, VERIF_EVIDENCE_DIR=d),
                   timeout=3600)
            out = c.stdout + c.stderr
            viol = [l[:500] for l in out.splitlines() if l.startswith("VIOLATION")]
            res["checks"][cid] = {"exit": c.returncode, "violations": len(viol), "first": viol[:3], "wall_s": round(time.time() - t0),
                                  "machinery_failure_tail": out[-800:] if c.returncode not in (0, 1) else None}
        res["detected_by"] = [cid for cid, v in res["checks"].items() if v["exit"] == 1 and v["violations"]]
        for f in os.listdir("/verif/replays") if os.path.isdir("/verif/replays") else []:
            pass
    finally:
        sh(["git", "-C", "/repo", "worktree", "remove", "--force", wt])
        shutil.rmtree(d, ignore_errors=True)
    out = os.path.join("/verif/seeded", name)
    os.makedirs(out, exist_ok=True)
    shutil.copy(patch, os.path.join(out, "patch.diff"))
    shutil.copy(demo, os.path.join(out, "demo.py"))
    if os.path.exists(notes):
        res["needs_to_manifest"] = open(notes).read()[:3000]
    res["ran"] = [f"git apply patch.diff in a scratch worktree of /repo HEAD ({sh(['git', '-C', '/repo', 'rev-parse', '--short', 'HEAD']).stdout.strip()})",
                  "pytest baseline command of /root/.vp/BASELINE.json (111 stable tests compared by id)",
                  "DEMETER_REPO=<scratch> /venv/bin/python demo.py ; DEMETER_REPO=/repo /venv/bin/python demo.py",
                  *[f"DEMETER_REPO=<scratch> ./check {i} --tier quick" for i in ids]]
    json.dump(res, open(os.path.join(out, "meta.json"), "w"), indent=1)
    print(json.dumps({k_: res[k_] for k_ in ("name", "confirmed", "baseline_tests_still_pass", "demo_exit_changed", "demo_exit_unchanged",
                                             "detected_by")}, indent=0))
    for cid, v in res.get("checks", {}).items():
        print(cid, v["exit"], v["violations"], v["wall_s"], "s", (v["first"] or [""])[0][:300])
        if v["machinery_failure_tail"]:
            print(v["machinery_failure_tail"])
    return 0


if __name__ == "__main__":
    sys.exit(main())
